from vfprops import PKG
P = PKG["core"]
PART = {
    "C19": {
        "runs": [
            {"name": "daemonnet", "pkg": P, "run": "^TestVF_C19$", "timeout": "20m", "timeout_thorough": "60m", "race_thorough": True},
            # reduced matrix, more stop/load cycles: the -race target for the routing tables, in both tiers
            {"name": "daemonnet-race", "pkg": P, "run": "^TestVF_C19Race$", "timeout": "20m", "timeout_thorough": "60m", "race": True},
        ],
        "rule": "one real daemon (loopback gRPC+HTTP+control, real clock, bolt) runs chains X(id default),Y,Z with harness-generated keys; "
                "cells = endpoint x id-kind{absent,default,Y,Z,unknown} x hash-kind{absent,hX,hY,hZ,unknown32,31-byte,33-byte} on "
                "PublicRand, PublicRandStream, ChainInfo, GetIdentity, SyncChain, PartialBeacon, Status, BroadcastDKG, DKG Packet (id only), "
                "ListBeaconIDs, and HTTP {public/latest,public/1,public/0,info,health} x hash-kind{...,non-hex,'default'} + /chains; every cell in "
                "phases before / during-stop / stopped / during-load / reloaded of control-API Shutdown(Z)+LoadBeacon(Z) (concurrent workers in the "
                "during-* phases). A case is non-trivial when the response could be classified: refused, or answered with attribution evidence "
                "(signature verified under a chain's group key, public key / genesis / identity key / chain hash / metadata equal to a chain's, "
                "head or clock-round inside exactly the sampled range); distinct by (endpoint,id-kind,hash-kind,phase)",
        "assumptions": ["1-of-1 groups loaded through the daemon's own group-file migration path stand for chains produced by a DKG",
                        "attribution evidence: kyber VerifyBeacon, byte equality of keys/hashes, head/clock ranges sampled in-process around the request",
                        "pairs (known id, unknown or malformed hash) may be refused or served by the chain the id names (both accepted)",
                        "requests that straddle the stop/load call are judged under both 'Z running' and 'Z stopped'"],
        # substrings of frames that touch the routing tables (DrandDaemon.beaconProcesses / chainHashes, BeaconProcess.group as read
        # by readBeaconID, DrandHandler.beacons); the first one found in a report names the signature C19/race/<anchor>
        "race_anchors": ["beaconExists", "KeypairFor", "(*DrandHandler).ChainHashes", "readBeaconID", "getBeaconProcessByID", "RemoveBeaconProcess",
                         "InstantiateBeaconProcess", "AddBeaconHandler", "RemoveBeaconHandler", "ListBeaconIDs", "(*DrandHandler)"],
    },
    "C01": {
        "runs": [{"name": "daemonnet-public", "pkg": P, "run": "^TestVF_C01Public$", "timeout": "20m", "timeout_thorough": "60m", "race_thorough": True},
                 {"name": "memdb-bootstrap", "pkg": P, "run": "^TestVF_C01_MemdbBootstrap$", "timeout": "20m", "timeout_thorough": "40m"}],
        "rule": "daemon level: one real daemon (loopback gRPC+HTTP, real clock, bolt) runs a chained and an unchained 2-of-3 chain far behind their clock; "
                "the harness, holding shares 1 and 2, produces every round by sending both partials over PartialBeacon in bursts of 2-4 consecutive "
                "rounds back to back, while 12 (16 thorough) concurrent clients ask gRPC PublicRand, PublicRandStream (first item), HTTP /public/{r} "
                "and /{hash}/public/{r} for rounds head+1 (waiter path), head, head-1, 1, head+2, 2^63, latest; every successful answer must carry "
                "exactly the asked round, verify under the harness-generated group key (with its previous signature on the chained scheme), equal "
                "the signature the harness computed itself, and randomness (HTTP, streams, gRPC when present) = SHA-256(signature). "
                "Non-trivial = a waiter (head+1) request answered while a burst was in progress; distinct by (endpoint,chain,burst length,round mod 8). "
                "In-memory start-up: a BeaconProcess on the memdb engine runs its real storeCurrentFromPeerNetwork against scripted peers that answer the current-round request and the "
                "latest-beacon fall-back with {error, honest, honest but older, replay of another round, bit flip, other key, wrong previous signature}; every beacon kept must verify",
        "assumptions": ["BLS signatures are unique: the harness's own signature of a round is the only valid one", "refusals and time-outs are not judged"],
    },
    "C14": {
        "runs": [
            {"name": "daemonnet", "pkg": P, "run": "^TestVF_C14$", "timeout": "30m", "timeout_thorough": "90m", "race_thorough": True},
        ],
        "rule": "a daemon in a child process (production start path, real clock; chains: running 2-of-3 driven by harness-held shares, fresh "
                "(no DKG), beacon stopped) receives generated hostile requests over loopback gRPC/HTTP: metadata variants (nil, unknown id/hash, "
                "mismatch, 1 MiB, incompatible/absent version), byte-field sizes {0,1,2,47,48,49,95,96,97,98,99,1 MiB}, rounds {0,1,2^63,2^64-1}, "
                "every oneof variant of GossipPacket and dkg.Packet incl. nil payloads and a Dkg bundle inside a gossip packet, Status naming k "
                "bogus addresses, HTTP non-hex hashes / overflowing rounds / unknown and very long paths; after each request a probe on the same "
                "endpoint and on one other service must return within 10 s ((k+1)*10 s for status naming k addresses; x3 when the binaries carry "
                "the race detector); then sequences of 1-5 requests drawn from the corpus; then a flood of 300 (600) individually valid partials from ONE member "
                "(harness-held share; distinct previous signatures, rounds head+1..head+4, chain stalled) on the running unchained chain (replayed "
                "partial) and on a stalled chained chain (each pair signed), after which the harness completes the round. Non-trivial = the request was delivered and both "
                "probes ran; distinct by (endpoint,input-class,node-state) resp. by the sequence",
        "assumptions": ["a probe that does not return is a violation only together with a goroutine dump of the child showing a parked drand frame",
                        "process death is read from the child's exit status and stderr (fatal error / panic)"],
        "race_anchors": ["beaconExists", "KeypairFor", "(*DrandHandler).ChainHashes", "dkg.(*Process)"],
    },
    "C15": {
        "runs": [
            {"name": "daemonnet", "pkg": P, "run": "^TestVF_C15$", "timeout": "30m", "timeout_thorough": "90m"},
        ],
        "rule": "3 real daemons (file key stores, bolt, loopback gRPC+HTTP, real clock, umask 022, debug logs captured) run a first DKG, rounds, "
                "a reshare, status / chain-info / public / HTTP requests, a node restart with sync, BackupDatabase, a hostile-request subset, and a family of refused loads (13 corruptions of the key folder: "
                "public signature corrupted/absent/foreign, public identity replaced, scheme name changed in public/private/both, group without "
                "the node, share value/commit corrupted, private key truncated/corrupted, canary) each through daemon start (LoadBeaconsFromDisk), "
                "control-API LoadBeacon on a running daemon (+ status/identity/group requests naming it) and key.SelfSignAll, with returned errors, "
                "gRPC error strings, log sinks, stdout and stderr scanned for the scalars of the ORIGINAL files; an 'unreadable DKG record' family (the dkg.db of a member that holds shares of two epochs is damaged: unknown scheme / threshold above the nodes / trailing garbage; a daemon started on it is asked through start-up, DKGStatus, commands, status and a peer's gossip packets); a syscall-level (strace) replay of "
                "key/share/dkg.db writes; "
                "every node's secret scalars (long-term key, share of every finished epoch) are searched in raw, reversed, hex, base64 (3 "
                "alignments), decimal and Go byte-slice encodings in every protobuf message seen by client interceptors, HTTP bodies+headers, the "
                "backup file, the log sink and gRPC error strings; files containing a secret must be owner-only at every key.save/dkgstore hook "
                "firing and at the end. One evaluation per scanned item; non-trivial = item is non-empty and its channel's canary was found; "
                "distinct by (channel, message type or file name, phase)",
        "assumptions": ["secrecy is checked over the outputs this workload produced", "a planted canary secret must be found in every channel, else the run is broken",
                        "encrypted deals and public commitments legitimately leave the node"],
    },
}
