#!/usr/bin/env python3
"""regenerates MANIFEST.json from lib/vfprops.py (claimed checks) — run after editing the table"""
import json, os, sys, subprocess
here = os.path.dirname(os.path.abspath(__file__))
sys.path.insert(0, here)
from vfprops import PROPS, NOT_APPLICABLE, HOOK_COMMITS
props = [json.loads(l) for l in open(os.path.join(here, "..", "properties.jsonl"))]
checks = []
for p in props:
    pid = p["id"]
    if pid not in PROPS or PROPS[pid].get("unclaimed"):
        continue
    s = PROPS[pid]
    checks.append({
        "property_id": pid,
        "quick_cmd": "./vf check %s --tier quick" % pid,
        "thorough_cmd": "./vf check %s --tier thorough" % pid,
        "evidence_file": "evidence/%s.json" % pid,
        "replay_cmd_template": "./vf replay {path}",
        "engine": "+".join(sorted({r.get("name", "?") for r in s["runs"]})),
        "level_claimed": {"category": s["level"], "text": s["level_text"], "design_ref": "DESIGN.md §4 " + pid},
        "level_note": s["level_note"],
        "technique": s["technique"],
    })
na = [{"property_id": p["id"], "reason": NOT_APPLICABLE.get(p["id"], "check not built yet (work in progress)")}
      for p in props if p["id"] not in {c["property_id"] for c in checks}]
m = {
    "version": 1,
    "setup_cmd": "./vf setup",
    "hooks": {
        "guard": "verif",
        "enable": "go build tag: go test -tags conn_insecure,verif -overlay build/overlay.json -modfile build/go.mod (harness files overlaid from /verif/harness into /repo packages)",
        "baseline_off_cmd": "./vf baseline-off",
        "source_commits": HOOK_COMMITS,
        "add_only": True,
    },
    "engines": [
        {"name": "pure", "path": "harness/pure", "serves_properties": ["C16", "C17", "C18", "C20"], "kind_free_text": "direct calls with generators + reference models (math/big, sorted map), overlaid into internal/chain as external test package"},
        {"name": "beaconnet", "path": "harness/beacon", "serves_properties": ["C01", "C02", "C03", "C04", "C05", "C07", "C10", "C11", "C12"], "kind_free_text": "n real beacon.Handlers + real stores + fake clocks over an in-memory ProtocolClient with fault scheduler and adversary; store/net taps with online oracles"},
        {"name": "dkgnet", "path": "harness/dkg", "serves_properties": ["C06", "C08", "C09", "C14", "C20"], "kind_free_text": "real dkg.Process instances + bolt dkg.db over an in-memory DKGClient bus"},
        {"name": "daemonnet", "path": "harness/core", "serves_properties": ["C01", "C07", "C13", "C14", "C15", "C19"], "kind_free_text": "full DrandDaemons over loopback gRPC/HTTP with wire taps"},
    ],
    "checks": checks,
    "not_applicable": na,
    "notes": "All checks are runtime monitors over executions of the real code (see DESIGN.md). exit 2 = broken check (build failure / monitor observed nothing).",
}
json.dump(m, open(os.path.join(here, "..", "MANIFEST.json"), "w"), indent=1)
print("claimed:", [c["property_id"] for c in checks])
