from vfprops import PKG
PART = {
    "C13": {
        "runs": [{"name": "daemonnet", "pkg": PKG["core"], "run": "^TestVF_C13$", "timeout": "25m", "timeout_thorough": "60m"}],
        "rule": "TODO",
        "assumptions": [],
    },
}
