from vfprops import PKG

# engine D ("daemonnet") checks that need crash images / resharing scenarios on full DrandDaemons.
# Harness files: harness/core/c13_*.go (C13 + the shared daemon-network scaffolding c13_net.go) and harness/core/c07_daemon.go.
PART = {
    "C13": {
        "runs": [{"name": "daemonnet", "pkg": PKG["core"], "run": "^TestVF_C13$", "timeout": "25m", "timeout_thorough": "90m"}],
        "rule": "one scripted history per case (scheme, n, victim, joiner y/n are functions of the case seed; quick 2 cases, thorough 18 = 5 schemes x 3 on bolt + 3 on memdb) "
                "on real daemons in a child process: first DKG, 5 rounds, reshare with the victim remaining, transition, 5 rounds, reshare in which the victim leaves, "
                "plus a forced-leave segment (the leave path is not reachable through the DKG, the harness delivers the SharingOutput the code expects); the k-th Put on the victim's base "
                "store is made to fail once (the node must get that round again); the folder of the joiner of reshare 1 is imaged while it waits, joined, for the execution. At every firing of "
                "key.save.before/created/after, key.reset.mid, dkgstore.save*/savefinished* (any node: the hook does not say whose db it is) and before/after every Put on the "
                "victim's base store, the victim's config folder is copied with the file-system API while no hooked write of the victim is in flight; an evaluation = one image "
                "whose bytes differ from the previous image (non-trivial by definition), checked offline with fresh objects; torn prefixes (1/2, len-1) are synthesized only for "
                "files observed to be rewritten in place; distinct = (crash window label derived from what changed on disk — for dkg.db changes incl. first-DKG/reshare and the state of the in-progress record —, set of changed files). A subset (quick: the last image of every crash-window label, "
                "thorough: all) is restarted in a grand-child process (NewDrandDaemon + LoadBeaconsFromDisk) against the still running network. "
                "The order of directory-entry events (inotify) of the victim's groups/ folder additionally yields the file sets that existed between un-hooked operations. "
                "Separately 240 writer runs under strace SIGKILL injection (beacon Put loop / dkg SaveFinished loop x pwrite64|fdatasync x N=1..60); non-trivial = the writer was killed.",
        "assumptions": [
            "process death, not power loss: the page cache survives, so a file-system copy taken while no write of the victim is in flight is the image a kill -9 leaves",
            "bbolt's own commit protocol is exercised by SIGKILL injection on syscall entry (strace), not inside a syscall",
            "the restarted daemon uses the real clock; the network's fake clocks are paced to real time (DKG code uses time.Now())",
            "the group public key the chain is verified against is taken from another node's memory after the first DKG",
        ],
    },
    "C07": {
        "runs": [{"name": "daemonnet", "pkg": PKG["core"], "run": "^TestVF_C07$", "timeout": "25m", "timeout_thorough": "90m"}],
        "rule": "end-to-end scenarios on real daemons, one child process each: same-set reshare (threshold +1 when admissible), add 1 + remove 1, a failed "
                "(abort | proposal timeout | execution with all kyber traffic dropped) reshare followed by a successful one, and two reshares that the DKG layer completes but core must refuse "
                "(refused-period: the leader's dkg.db was edited to another beacon period, every member refuses; refused-late: one member's completion notification is parked at the "
                "dkgstore.savefinished.after hook until the transition time has passed) after which ChainInfo of the refusing members, their group/share files (hashes) and the ChainInfo of a daemon "
                "restarted on such a folder must be what they were; plus 'evicted': a same-set reshare in which one member (any but the one with the largest key, by seed) is stopped right after the execute packet and is evicted "
                "by the DKG, the resulting group (hole in its DKG indices, threshold = its size) must carry the chain on; partials of new-group members refused by new-group members past the transition are "
                "violations; and 'rejoin': a member is removed by a first reshare (a new node joins), the chain crosses that transition, a second reshare invites it back as a joiner and the chain must cross "
                "the second transition with it: the re-joined node must answer ChainInfo/PublicRand/Status (a wedge is reported only with the parked join-path frame in the goroutine dump), follow the chain, "
                "and run one handler (handler.tick count per round, chain stores created); quick 7 cases with scheme/variant from the case seed, thorough 5 schemes x (7 x 2 repetitions + 2; the second rejoin on memdb). An evaluation = one round first stored anywhere (verified under the ORIGINAL public key at every node's base store, cross-node agreement, per-node "
                "gap-freedom), one ChainInfo answer compared field by field with the pre-reshare answer, or one bounded-progress checkpoint; non-trivial = rounds within +-3 of the "
                "transition round, identity comparisons and progress checkpoints; distinct by (scenario, variant, offset to the transition | checkpoint).",
        "assumptions": [
            "bounded progress is counted in beacon periods of the paced fake clock; a stall is inconclusive unless the chain has not moved after a further 90 s",
            "a success answer to a leaver's partial counts as acceptance only if the receiver had not stored that round and had stored the last pre-transition round at least half a period earlier",
        ],
    },
    "C10": {
        "runs": [{"name": "daemonnet-follow", "pkg": PKG["core"], "run": "^TestVF_C10_Daemon$", "timeout": "25m", "timeout_thorough": "60m"}],
        "rule": "daemon level: per case (quick 2 schemes: chained + one by seed; thorough all 5) a 3-member producing network of real daemons, then five fresh non-member daemons "
                "follow it through Control.StartFollowChain (upTo = head-k, or 0 and cancelled after 3 live rounds) with peer lists mixing a dead address and honest members, while a "
                "stream interceptor on the follower's SyncChain calls leaves them alone / cuts the first stream after k beacons / silences it after k beacons / refuses every stream of "
                "the first attempt; then one member is stopped, its drand.db damaged (one round deleted, one signature bit-flipped; k, rounds, peer order from the case seed), its daemon "
                "re-created, and Control.StartCheckChain run as dry run, repair limited by upTo, full repair, dry run. An evaluation = one Put on a follower's base store (verified under the "
                "chain key, bytes = the network's, at head+1), one convergence / live-follow / offline re-scan checkpoint, or one comparison of a reported faulty round / count / rewritten "
                "set with the damage; non-trivial = all of them, distinct by (scenario, phase relative to the injected fault | check phase, kind of damage).",
        "assumptions": [
            "StartCheckChain only reports the NUMBER of faulty rounds; the list is read in-package from Handler.ValidateChain, the function the RPC calls",
            "convergence bounds are counted in beacon periods of the paced fake clock (25) plus a 30 s grace; a parked-forever verdict additionally needs the blocked frame in the goroutine dump",
        ],
    },
}
