from vfprops import PKG
P = PKG["beacon"]
W1 = ("workload W1: networks of real beacon Handlers (schemes x (n,t) in {(1,1),(3,2),(4,3),(5,3),(7,4),(4,4),(6,4)} x {bolt-trimmed, bolt-untrimmed, memdb}) over an in-memory "
      "ProtocolClient, fake clocks, seeded fault script (drops, duplicates, delays, partitions, blackouts, isolation, node stop/restart, clock bursts and sub-steps), an adversary holding up to n-t "
      "shares that injects 12 kinds of hostile partials and serves 8 kinds of lying sync streams; ")
PART = {
    "C01": {
        "runs": [{"name": "beaconnet", "pkg": P, "run": "^TestVF_C01_Net$", "timeout": "30m", "timeout_thorough": "120m", "race_thorough": True},
                 {"name": "beaconnet-manual", "pkg": P, "run": "^TestVF_C01_Manual$", "timeout": "30m", "timeout_thorough": "120m"},
                 {"name": "syncnet-repair", "pkg": P, "run": "^TestVF_C01_Repair$", "timeout": "30m", "timeout_thorough": "120m"}],
        "rule": W1 + "oracle: every Put reaching a node's base store and every beacon an honest node serves on SyncChain is verified against the harness-generated group key; stores re-opened and "
                "re-verified at the end; non-trivial = the network produced >= 3 rounds; distinct = distinct scenario parameters || manual network: the chosen-arrival-order workload of C03 (contributor subsets, permutations, hostile partials, one round withheld from one node so that it sees the next round's partials first) with the same verification oracle at every Put || repair path: CorrectPastBeacons/ReSync on a damaged store with scripted peers (40% liars only): every beacon written through the raw store verifies and equals the valid chain",
        "assumptions": ["kyber VerifyRecovered is the reference", "the harness generated the group key itself"],
    },
    "C02": {
        "runs": [{"name": "beaconnet", "pkg": P, "run": "^TestVF_C02_Net", "timeout": "30m", "timeout_thorough": "120m", "race_thorough": True},
                 {"name": "streams-puts", "pkg": P, "run": "^TestVF_C02_Puts", "timeout": "30m", "timeout_thorough": "60m", "race": True},
                 {"name": "streams-memdb-window", "pkg": P, "run": "^TestVF_C02_MemdbWindow$", "timeout": "10m", "timeout_thorough": "30m"}],
        "rule": W1 + "oracle: shadow map per node updated inside the base-store wrapper (head+1 only, write-once, previous-signature link, no Del, no cross-node disagreement), "
                "then every store is re-opened and scanned (gap-free from genesis, links, equals what was put, equal across nodes incl. previous signatures where stored; networks may mix back-ends). || engine B: 2-4 writers race Puts (next round, future, stale, duplicate, same round with other bytes, wrong link) on the real callback/append/scheme store stack; the recorded ""call/return history is checked with porcupine against a sequential append-only chain and a tap below the stack asserts head+1; non-trivial = at least 3 accepted and one refused Put",
        "assumptions": ["BLS signatures are unique, so byte equality is the right notion of agreement"],
        "race_anchors": ["appendStore", "schemeStore"],
    },
}
PART["C03"] = {
    "runs": [{"name": "beaconnet-manual", "pkg": P, "run": "^TestVF_C03", "timeout": "30m", "timeout_thorough": "120m"}],
    "rule": "manual network: all (n,t) with n<=5 (quick) / n<=7 (thorough), t in [n/2+1,n], contributor subsets of size t-1/t/t+1, arrival order at each node chosen by permutation number, "
            "sync disabled; hostile partials (bit-flipped, relabelled round / previous signature, forged or relabelled under a silent member's index, non-member index, replay of the node's own partial, "
            "duplicates) interleaved; oracle at every aggregation Put: the set of distinct member indices whose partial for exactly (round, previous) the oracle itself verified against the public polynomial "
            "and that had been handed to that node before the Put (own index credited) must reach the threshold; with t-1 contributors no beacon may appear anywhere. non-trivial = a Put happened with "
            "|D| <= t+1, or a starved case in which the node saw >= t-2 foreign valid partials and produced nothing",
    "assumptions": ["delivery recorded at call entry is conservative (can hide, never invent)", "own partial credited unconditionally"],
}
PART["C04"] = {
    "runs": [{"name": "beaconnet-clocks", "pkg": P, "run": "^TestVF_C04$", "timeout": "30m", "timeout_thorough": "120m"},
             {"name": "beaconnet-transition-clocks", "pkg": P, "run": "^TestVF_C04_Reshare$", "timeout": "30m", "timeout_thorough": "120m"}],
    "rule": "handler networks where every node has its own fake clock: constant skews (sub-period drifts, one node one period behind/ahead, one node two periods behind), advance patterns "
            "(regular, bursts of 2-4 periods, stalls followed by jumps, sub-period steps, mixed), restarts with Catchup, catch-up period 0/1 s, and a schedule that parks a slow node's tick handling "
            "(hook handler.tick) until faster peers have moved the chain past its clock round; oracle at the wire tap: the sender's own clock read inside the client call must be >= the harness-computed "
            "time of the partial's round; valid partials from a corrupted member for rounds > receiver's clock round + 1 must be answered with an error. non-trivial = at least one emission per round || around resharing: the handler-level transition workload of C07 (remainers switching, joiners in catch-up mode, leavers stopping) with the same timing oracle",
    "assumptions": ["a stamp taken later than the decision can only hide an early emission; clocks are never moved while messages are in flight"],
}
PART["C05"] = {
    "runs": [{"name": "beaconnet-faults", "pkg": P, "run": "^TestVF_C05", "timeout": "30m", "timeout_thorough": "120m"}],
    "rule": W1 + "with denser fault scripts (partitions, blackouts, isolation, stops of up to all-but-one honest node, message loss) and catch-up period 0/1 s < period; after the script "
            "everything is healed and the oracle counts logical 1-second clock steps until every running honest node's head equals the round of its own clock: bound B = 3*missed + 2n + 10 + 2*period steps "
            "(re-tried once more slowly before a verdict), then 4 further periods must each produce their round on all nodes, and every restarted node must have emitted a partial for one of the "
            "last 3 rounds. Every third case (period 10 s, catch-up 1 s) also times the catch-up RATE event by event: one victim node's own aggregation is parked briefly (hook aggregator.beforeput) so that a "
            "peer's sync stream stores the round first; whenever the victim, behind its clock, has run its own aggregation of round r, its partial for r+1 must leave less than catch-up+5 s later on its own "
            "fake clock (instants taken only while the clocks move in 1 s steps, each step paced on that emission; skipped when a step took > 1 s of real time). "
            "non-trivial = the network was at least 2 rounds behind when the faults stopped; distinct = distinct scenario",
    "assumptions": ["liveness is decided as bounded progress in logical steps, never by wall-clock; quiescence detection only paces the clock driver"],
}
PART["C11"] = {
    "runs": [{"name": "streams", "pkg": P, "run": "^TestVF_C11", "timeout": "30m", "timeout_thorough": "90m", "race_thorough": True}],
    "rule": "the real callbackStore stack (base store -> scheme store -> append store -> callback store, as newChainStore builds it) on bolt-trimmed / bolt-untrimmed / memdb (ring full or not), "
            "chained and unchained, pre-filled, served by the real SyncChain to consumers whose Send is gated; chosen interleavings: quiet, appends while the scan is parked in its k-th Send, appends while "
            "the stream is parked at the scan->live hand-over (hook syncchain.handover), both, two concurrent streams, reconnect from the same address (replacement), stall in the live phase with a burst larger "
            "than the callback queue; start rounds 0 / head / window start / middle / beyond the head (a refusal is legal; an accepted stream owes the requested round first); oracle: delivered rounds = from, from+1, ... store head at quiescence, signature AND previous signature equal to what the store holds afterwards (beacons are appended with a previous signature on every scheme, as the aggregator does). non-trivial = at least one append landed inside the catch-up phase "
            "(or quiet/two-stream baseline); distinct = distinct case parameters",
    "assumptions": ["streams that ended (replaced / errored) are exempt from completeness, not from order"],
    "race_anchors": ["callbackStore"],
}
PART["C12"] = {
    "runs": [{"name": "streams-stall", "pkg": P, "run": "^TestVF_C12_Stall", "timeout": "30m", "timeout_thorough": "90m"},
             {"name": "beaconnet-flood", "pkg": P, "run": "^TestVF_C12_Flood", "timeout": "30m", "timeout_thorough": "90m"},
             {"name": "streams-stall-replaced", "pkg": P, "run": "^TestVF_C12_Replaced", "timeout": "20m", "timeout_thorough": "60m"},
             {"name": "beaconnet-cache-books", "pkg": P, "run": "^TestVF_C12_CacheBooks", "timeout": "20m", "timeout_thorough": "60m"}],
    "rule": "(a) real callbackStore stack + real SyncChain with 1 or 3 consumers that stop reading after the catch-up phase or inside the catch-up scan (never read / read late / disconnect) plus one healthy consumer, "
            "10*CallbackWorkerQueue appends; verdict 'blocked' only from a goroutine dump showing the parked Put frame; (b) a real Handler flooded through ProcessPartialBeacon with valid partials of 1-2 corrupted "
            "members for 1200 (quick) / 5000 (thorough) distinct (round, previous signature) pairs inside the acceptance window, cache sizes read by hook aggregator.cache in the aggregator goroutine "
            "(plateau and <= 3*MaxPartialsPerNode per flooder), then the threshold-th honest partial must still complete the round; (c) a stream parked in a live Send nobody reads (0, 1, 3 or half a queue of "
            "beacons waiting behind it) is replaced by a reconnect from the same address while an unrelated client connects: the next Puts must return and both clients must be served up to the head "
            "(blocked only from the parked state of the appending goroutine in a dump), and consumers that come and go must leave no callback registered; (d) honest networks under the W1 fault scripts "
            "(no flood, nothing evicted): at every firing of hook aggregator.cache each id in a signer's list of contributed round caches must name a round cache that still exists. distinct = distinct case parameters",
    "assumptions": ["a Put that has not returned for 8 s with its goroutine parked on a channel send / mutex is blocked (typical Put latency is < 1 ms)"],
    "race_anchors": ["callbackStore", "partialCache"],
}
PART["C10"] = {
    "runs": [{"name": "syncnet", "pkg": P, "run": "^TestVF_C10", "timeout": "30m", "timeout_thorough": "120m"}],
    "rule": "peer sets of 2-4 scripted sync servers over a harness-signed valid chain, behaviours {honest, honest-slow-start, refuses, closes-after-k, silent, stalls-after-k, bad-signature, wrong-round-label, "
            "foreign-beacon-id, valid-skipping, valid-from-beyond}, peer order shuffled by the real code; node under test: (participant) a real Handler restarted in catch-up mode with store height 0/mid/head-1, "
            "driven by clock steps through SyncManager.Run; (follow) a SyncManager stacked exactly like core.StartFollowChain (raw store + scheme store + callback store, no append store) with repeated Sync attempts; "
            "(repair) CheckPastBeacons/CorrectPastBeacons on a store with deleted/corrupted rounds. Oracle at the base-store tap: every written beacon verifies under the harness key, equals the valid chain, and is "
            "written at head+1 (repair: only reported rounds); convergence within a step/attempt bound when an honest peer exists; check result == damaged rounds (+ their successors on the trimmed chained store); "
            "after repair all rounds equal the valid chain. distinct = distinct (mode, scheme, back-end, peer behaviours, heights)",
    "assumptions": ["the harness owns the group secret, so it can make the valid chain peers serve; lying peers only alter or reorder valid beacons"],
}
PART["C07"] = {
    "runs": [{"name": "beaconnet-transition", "pkg": P, "run": "^TestVF_C07_Handlers", "timeout": "30m", "timeout_thorough": "120m"}],
    "rule": "handler-level reshare without DKG: the harness re-shares the group secret (new polynomial, same constant term) and makes core's calls (TransitionNewGroup on remainers, new Handler+Catchup on "
            "joiners, StopAt on leavers) for shapes {same, add, remove, replace, threshold up, threshold down}, reshare issued at round 3-6 with the transition 2-4 rounds later, optional outage of one "
            "remainer across the transition or 15% loss, 1-2 epochs; oracles: C01/C02 store oracles across the transition with the ORIGINAL public key, bounded progress of every running new-group member "
            "after the transition (a case that halts is run a second time identically: halting twice is the violation, once only is inconclusive), and partials signed with previous-group shares (incl. leavers') sent to nodes whose vault has switched must not appear in that node's aggregator cache (hook), and every beacon a node AGGREGATES for a round at or after the transition must be backed by threshold-1 other members' partials, handed to that node, that the harness verified under the NEW group's public polynomial (the node's own is granted; with a late registration the new group governs from the following round). distinct = distinct case",
    "assumptions": ["the handler-level layer does not exercise the DKG itself (dkg and daemon engines do)"],
}

PART["C16"] = {
    "runs": [{"name": "ticker", "pkg": P, "run": "^TestVF_C16_Ticker$", "timeout": "20m", "timeout_thorough": "60m"}],
    "rule": "ticker clause: the real round ticker (internal/chain/beacon/ticker.go) on a fake clock, periods {1,2,3,5,7,30,60} s, genesis in the future / recent / far past and off the period grid, "
            "clock moved by sub-period steps, exact periods, jumps of 2-5 periods and of 6-60 periods plus a fraction (paused process); every announced (round, time) pair must satisfy "
            "round = (time-genesis)/period+1 by harness arithmetic, time <= clock, rounds never go back, ticker.CurrentRound() equals the reference after every step; "
            "non-trivial = at least two ticks and one multi-period jump; distinct = distinct (period, genesis offset, step sequence)",
    "assumptions": ["a tick that is dropped because the subscriber's one-slot channel is full is legal (the code documents it); only announced pairs are judged"],
}
