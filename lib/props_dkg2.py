from vfprops import PKG
PART = {
    "C09": {
        "runs": [{"name": "dkgpkt", "pkg": PKG["dkg"], "run": "^TestVF_C09", "timeout": "20m", "timeout_thorough": "60m"}],
        "rule": "tbd",
        "assumptions": [],
    },
    "C14": {
        "runs": [{"name": "dkgsvc", "pkg": PKG["dkg"], "run": "^TestVF_C14$", "timeout": "20m", "timeout_thorough": "60m"}],
        "rule": "tbd",
        "assumptions": [],
    },
}
