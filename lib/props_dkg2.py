from vfprops import PKG
PART = {
    "C09": {
        "runs": [{"name": "dkgpkt", "pkg": PKG["dkg"], "run": "^TestVF_C09", "timeout": "20m", "timeout_thorough": "60m"}],
        "rule": "engine dkgpkt: per scheme (default + 2 seeded in quick, all 5 in thorough) one world of 7 real dkg.Process + 1 outsider key, states reached by "
                "real commands (epoch-1 DKG of 5 nodes completed for real; epoch-2 reshare proposed / accepted / aborted); victims are forks "
                "(new Process on a copy of a node's dkg.db image at a stage). Cells = packet type {proposal,accept,reject,execute,abort} x claimed sender "
                "{leader,member,joiner,leaver,outsider} x key {right, another member's, fresh attacker key substituted under the member's address with / without "
                "self-signature} x variant {names itself / keeps the leader; for itself / for another member} x victim {leader,remainer,joiner,leaver} x epoch {1,2}, "
                "plus every single-field alteration of the honest signed packet (scalars, each participant's address/key/signature, membership, order, oneof type), "
                "plus right key over other terms, plus a two-step chain (leader swaps a member key, swapped key accepts), plus duplicate-address forgeries against "
                "current members (claimed sender's address twice: attacker key + genuine key, second entry in Remaining/Leaving/Joining, both orders, sender leader/member), "
                "plus order-preserving moves across the Joining|Remaining and Remaining|Leaving boundaries of the signed serialisation on an alternative leader-signed "
                "proposal shape (remaining 4, leaving 1, joining 2, threshold 4) in which such a move keeps every validity rule. Verdict from the raw dkg.db before/after "
                "against the harness's own bookkeeping of who signed what. A cell is non-trivial iff the untouched honest packet of its (stage,victim,type) group "
                "was accepted (ok + db change) on a pristine fork; distinct by (scheme,epoch,type,sender,key,variant,victim-role,mutation)",
        "assumptions": ["BLS/kyber signature verification and bbolt are trusted",
                        "a fork (restarted node: same dkg.db, empty SeenPackets) is a legitimate node state",
                        "answer ok without a database change (SeenPackets dedupe) is counted, not a violation: the statement is about changing state",
                        "a newcomer can only check that the sender's listed key is self-signed and signed the packet",
                        "fields that are neither signed nor applied (RejectProposal reason/secret/hashes) are counted only"],
    },
    "C14": {
        "runs": [{"name": "dkgsvc", "pkg": PKG["dkg"], "run": "^TestVF_C14", "timeout": "30m", "timeout_thorough": "90m", "race_thorough": True}],
        "rule": "engine dkgsvc: child test processes (one per node state fresh / proposed / executing (board set up, kick-off pending) / executing-live (real reshare "
                "running) + complete-live (reshare finished, node keeps running) / complete), states prepared by real commands; structured hostile GossipPacket and "
                "DKGPacket shapes (nil/empty nested messages, 0..97 B and 1 MiB byte fields, unknown ids, every oneof variant incl. the Dkg bundle inside a gossip packet, "
                "every bundle kind nil/empty, huge indices, member-signed malformed bundles) sent to Process.Packet / Process.BroadcastDKG as single requests and "
                "seeded sequences of 2-5; each request logged before sending; after each request DKGStatus + an honest packet + a well-formed bundle must be answered. "
                "A case is non-trivial iff every request of it was answered or its wedge was established from a goroutine dump; distinct by (state, sequence of kinds)",
        "assumptions": ["a panic recovered in the calling goroutine is contained by the gRPC recovery interceptor in the daemon and only counted here",
                        "watchdog 6 s per call; a time-out alone is inconclusive, a wedge needs a goroutine parked inside dkg.(*Process)/(*echoBroadcast) in the dump",
                        "shapes a protobuf decoder cannot produce (nil inside a oneof wrapper or a repeated field) are sent too and tagged not_wire_producible"],
        "race_anchors": ["internal/dkg.(*Process)"],
    },
}
