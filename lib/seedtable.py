#!/usr/bin/env python3
"""rewrites the seed table of DESIGN.md (between the SEEDTABLE markers) from seeded/*/meta.json"""
import json, glob, os, re
V = os.path.dirname(os.path.dirname(os.path.abspath(__file__)))
rows = []
def key(p):
    m = re.match(r"C(\d+)-m(\d+)", os.path.basename(os.path.dirname(p)))
    return (int(m.group(1)), int(m.group(2)))
for mp in sorted(glob.glob(V + "/seeded/*/meta.json"), key=key):
    sid = os.path.basename(os.path.dirname(mp))
    m = json.load(open(mp))
    cb = m.get("caught_by", "").replace("|", "/").replace("\n", " ")
    summ = m.get("summary", "").replace("|", "/").replace("\n", " ")
    if len(summ) > 160:
        summ = summ[:157] + "…"
    if len(cb) > 330:
        cb = cb[:327] + "…"
    rows.append("| %s | %s | %s |" % (sid, summ, cb))
tab = "| seed | change (abridged) | caught by |\n|---|---|---|\n" + "\n".join(rows) + "\n"
p = V + "/DESIGN.md"
s = open(p).read()
a, b = "<!-- SEEDTABLE:BEGIN -->\n", "<!-- SEEDTABLE:END -->"
if a in s:
    s = s[:s.index(a) + len(a)] + tab + s[s.index(b):]
    open(p, "w").write(s)
    print("seed table: %d rows" % len(rows))
else:
    print("markers missing")
