#!/bin/bash
# usage: save_seed.sh <id> <OUT/mK dir> "<caught by ...>"
id=$1; src=$2; caught=$3; d=/verif/seeded/$id; mkdir -p $d; cp $src/patch.diff $d/; cp $src/*.go $d/ 2>/dev/null
python3 - "$src/meta.json" "$d/meta.json" "$caught" <<'PY'
import json,sys
m=json.load(open(sys.argv[1])); m['caught_by']=sys.argv[3]; m['confirmed']="lib/seedtest.sh: patch applies and builds; demo passes on the clean tree and fails with the patch; unit tests of the changed packages pass with the patch; our quick check run with VF_REPO on the patched worktree"
json.dump(m,open(sys.argv[2],'w'),indent=1)
PY
