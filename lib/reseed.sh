#!/bin/bash
# usage: reseed.sh <seed-id> [prop ...] — applies seeded/<id>/patch.diff to a fresh worktree of /repo HEAD and runs the quick check(s)
id=$1; shift; props="$@"; [ -z "$props" ] && props=$(python3 -c "import json;print(json.load(open('/verif/seeded/$id/meta.json'))['property'])")
wt=/tmp/reseed-$id-$$
git -C /repo worktree add --detach $wt HEAD -q || exit 9
if ! git -C $wt apply /verif/seeded/$id/patch.diff 2>/tmp/reseed-err-$$; then
  if ! git -C $wt apply -3 /verif/seeded/$id/patch.diff 2>>/tmp/reseed-err-$$; then echo "$id: PATCH-DOES-NOT-APPLY $(head -2 /tmp/reseed-err-$$ | tr '\n' ' ')"; git -C /repo worktree remove --force $wt; exit 8; fi
fi
for p in $props; do
  out=$(cd /verif && VF_REPO=$wt timeout 2400 ./vf check $p --tier quick 2>&1)
  v=$(echo "$out" | grep -c "^VIOLATION")
  line=$(echo "$out" | grep "tier=" | head -1 | cut -c1-90)
  first=$(echo "$out" | grep "^VIOLATION" | head -1 | sed 's/.*# //' | cut -c1-110)
  echo "$id vs $p: violations=$v | $line | $first"
done
git -C /repo worktree remove --force $wt; rm -rf /verif/build/alt-$(python3 -c "import hashlib,os;print(hashlib.sha1(os.path.realpath('$wt').encode()).hexdigest()[:10])") /tmp/reseed-err-$$
