# property table of the driver: which go test runs decide which property
HARNESS_DIRS = {
    # harness dir -> (directory under /repo the files are overlaid into, package name)
    "pure": ("internal/chain", "chain_test"),
    "beacon": ("internal/chain/beacon", "beacon"),
    "dkg": ("internal/dkg", "dkg"),
    "core": ("internal/core", "core"),
    "http": ("handler/http", "http"),
}

PURE = "./internal/chain"
BEACON = "./internal/chain/beacon"
DKG = "./internal/dkg"
CORE = "./internal/core"
HTTP = "./handler/http"

PROPS = {
    "C16": {
        "level": "exploration",
        "rule": "points (period,genesis,instant) and (period,genesis,round) checked against a math/big reference: exhaustive small grid, "
                "boundary-directed instants t=g+k*p+{-1,0,1} for k up to 2^50/p and p in {2^k-1,2^k,2^k+1}, rounds around the overflow guard "
                "and the last schedulable round, plus seeded random points; non-trivial = grid/boundary/guard points, distinct by (p,g,t|r)",
        "runs": [{"name": "pure", "pkg": PURE, "run": "^TestVF_C16$"}],
        "assumptions": ["math/big arithmetic is the reference", "periods are whole seconds (as the system produces them)"],
        "level_text": "every conversion result on ~4e5 (quick) / ~5e6 (thorough) generated points, incl. an exhaustive small grid and all boundary families, equals an unbounded-integer reference; held-on-what-was-explored, not a proof",
        "level_note": "trusts math/big and the generator's boundary families; sub-second periods excluded (cannot be produced by the system)",
        "technique": "runtime oracle: real functions vs math/big reference model on generated + boundary-directed inputs",
    },
}

NOT_APPLICABLE = {}
HOOK_COMMITS = ["05c1df0a"]
