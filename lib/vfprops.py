# property table of the driver: which go test runs decide which property.
# Each engine contributes a fragment lib/props_<engine>.py defining
#   PART = { "<ID>": { "runs": [ {name, pkg, run, tags?, race?, race_thorough?, timeout?, timeout_thorough?, env?, tier?} ],
#                      "rule": "...", "assumptions": [...], "race_anchors": [...] } }
# META below carries what MANIFEST.json needs per property. A property is claimed
# (listed in MANIFEST.checks) iff it has at least one run and a META entry.
import importlib, os, sys

HARNESS_DIRS = {
    # harness dir -> (directory under /repo the files are overlaid into, package name)
    "pure": ("internal/chain", "chain_test"),
    "beacon": ("internal/chain/beacon", "beacon"),
    "dkg": ("internal/dkg", "dkg"),
    "core": ("internal/core", "core"),
    "http": ("handler/http", "http"),
}

PKG = {
    "pure": "./internal/chain",
    "beacon": "./internal/chain/beacon",
    "dkg": "./internal/dkg",
    "core": "./internal/core",
    "http": "./handler/http",
}

from vfmeta import META  # noqa: E402

PROPS = {}
import glob as _glob
for _f in sorted(_glob.glob(os.path.join(os.path.dirname(os.path.abspath(__file__)), "props_*.py"))):
    m = importlib.import_module(os.path.basename(_f)[:-3])
    for pid, part in m.PART.items():
        e = PROPS.setdefault(pid, {"runs": [], "rule": "", "assumptions": [], "race_anchors": []})
        e["runs"] += part.get("runs", [])
        if part.get("rule"):
            e["rule"] = (e["rule"] + " || " if e["rule"] else "") + part["rule"]
        e["assumptions"] += part.get("assumptions", [])
        e["race_anchors"] += part.get("race_anchors", [])
for pid in list(PROPS):
    if pid not in META or not PROPS[pid]["runs"]:
        PROPS[pid]["unclaimed"] = True
        PROPS[pid].setdefault("level", "exploration")
    else:
        PROPS[pid].update(META[pid])

NOT_APPLICABLE = {}
HOOK_COMMITS = ["05c1df0a", "b471813c"]
