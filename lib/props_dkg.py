from vfprops import PKG
P = PKG["dkg"]
PART = {
    "C06": {
        "runs": [{"name": "dkgnet", "pkg": P, "run": "^TestVF_C06", "timeout": "25m", "timeout_thorough": "90m"}],
        "rule": "TODO",
        "assumptions": [],
    },
}
