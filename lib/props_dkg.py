from vfprops import PKG
P = PKG["dkg"]
PART = {
    "C06": {
        "runs": [{"name": "dkgnet", "pkg": P, "run": "^TestVF_C06", "timeout": "25m", "timeout_thorough": "100m"}],
        "rule": "engine dkgnet: one case = a real first DKG (genesis = now+3 s) followed by 1-2 real reshares issued after genesis, "
                "m real dkg.Process + real bolt dkg.db + real kyber DKG over an in-memory net.DKGClient; case parameters are a pure function "
                "of (seed, index): scheme (all 5, cycled), n in 1..7 (cycled), admissible t, period in {1,2,3,5} s, reshare plan "
                "(same / +k / -k / replace / threshold up / down), participant lists shuffled per proposal, bus schedule (synchronous uniform delays, "
                "duplication of packets, asynchronous = reordered bundles, ONE phase's bundles towards ONE node delayed 300-900 ms, synchronously or "
                "asynchronously). After every participant of an epoch completed or failed, the finished DBState of each node is read back from its "
                "dkg.db: groups compared field by field (+hash), indices = rank of the public key, share on the public polynomial at its own index, "
                "all t-subsets (n<=5) / 20 sampled subsets of the shares recover a signature that verifies under the group key. "
                "Two directed families (every 6th case each): silent-participant = one participant of the first DKG or of the reshare, chosen by seed "
                "among all but the largest key, n>=4, threshold <= n-1, is unreachable and mute from just before the execution (crash), so the others "
                "complete with a strict subset and indices / share-at-group-index / t-subsets are checked on a QUAL with a hole; late-execute = "
                "period 1 s, the execute gossip packet towards one follower arrives 1.6-2.5 s late (after the kick-off time) followed IN ORDER by "
                "everything sent to it meanwhile; direct-link-lost = the bundles of one phase sent by one participant never reach one other participant directly (the highest key in half the cases), "
                "only the re-broadcast by third nodes carries them; in the silent family a variant makes an OLD member silent while a joiner is added and the threshold rises above the number of dealers left. "
                "Every reachable participant listed by the completed group must itself have completed. Each node's reshare transition time must be 10 rounds after a round lying between the first hand-over of a "
                "response bundle to it and the entry of its SaveFinished (both observed at the boundary). "
                "non-trivial = at least one epoch completed on >=1 node AND the bus actually delayed/duplicated/reordered something; "
                "distinct by (scheme,n,t,period,reshare plan,observed delivery order hash). Synchrony is measured: an epoch in which the first copy of a bundle was handed to a node later than "
                "(end of that phase on the node's own earliest schedule - 300 ms - 2 x timer lag), whose slowest bundle took > 3/4 of the phase timeout (4 s), or whose traffic did not drain "
                "between epochs, is inconclusive (the protocol assumes a synchronous network).",
        "assumptions": [
            "kyber Scheme.Verify / share.PubPoly.Eval / tbls Recover are the trusted base",
            "the DKG protocol's synchrony assumption holds: every bundle arrives within its phase (2 s here; schedule delays stay below 1.3 s and the "
            "harness measures the worst delivery latency), and no bundle of epoch e is delivered during epoch e+1 (the harness drains the echo queues "
            "between epochs)",
            "delivery order is seeded but goroutine scheduling and time.Now() are not: a case replays its parameters, not its exact interleaving",
        ],
        "race_anchors": ["dkg.(*Process).Executions", "dkg.(*Process).SeenPackets"],
    },
    "C08": {
        "runs": [{"name": "dkgnet", "pkg": P, "run": "^TestVF_C08", "timeout": "25m", "timeout_thorough": "100m"}],
        "rule": "engine dkgnet: one case = a generated history (5-25 driver steps plus the answers they trigger, up to 3+ epochs) of operator commands "
                "and gossip packets against 5-7 real dkg.Process with real bolt stores: valid proposals (first / reshare with joiner, leaver), accept / "
                "reject / join, abort, execute (real DKG, ~35% of histories may execute), failed execution (all bundles lost) and retry at the same "
                "epoch, expiry of short real timeouts, every invalid proposal class as a command and as a packet correctly signed with the claimed "
                "leader's real key (stale epoch, nil / empty terms, expired timeout, threshold below minimum / above n, member dropped, genesis time / "
                "seed changed, unknown scheme, beacon period changed / scheme changed towards a remainer and towards a leaver, leader not remaining / leaving / joining, foreign beacon id, fewer remaining members than the previous threshold made up by joiners), forged accept/reject/abort/execute packets "
                "claiming leader / remainer / joiner / leaver / outsider (well signed or signed by somebody else), replays of recorded packets, commands "
                "from the wrong node, answers (accept / join) held between their read of the record and their write while the leader's abort packet arrives. Directed family 'left' (every 20th history; every second one goes straight to the re-invitation): epoch 1, 1-2 reshares with everybody remaining, a reshare in which "
                "node X leaves and the others complete (X holds Left@E, E>=3, finished E-1), optionally one more epoch without X; X is then sent 16 "
                "invalid invitation classes correctly signed by a current member (stale epochs E, E-1, E-2, epoch 1 in first-proposal shape, expired "
                "timeout, threshold low/high, unknown scheme, genesis time/seed changed, leader joining/leaving, nil/empty terms, foreign beacon "
                "id, X missing) and finally the valid re-invitation by a real command, which must be accepted, X's join with the current group file must be accepted, and the undisturbed DKG must complete for X (C08/not-recoverable/rejoin-dkg-of-left-node-fails; inconclusive when timer lag >150 ms or a bundle took more than half a phase; the re-invitation waits until the execution of the epoch X left in has ended, 2-3 phase time-outs after its kick-off). Oracle: (a)-(c) on EVERY write that reaches a node's bolt store (store tap, raw records read before/after the "
                "write): legal edge for the node's place in the proposal per the harness's own table incl. the terminal-state fall-back, epoch "
                "monotone, finished record bytes replaced only by SaveFinished(Complete, higher epoch) from Executing; per step: an error answer "
                "leaves the finished record byte-identical, invalid proposal classes are refused and write nothing, a panic of the real code is a "
                "violation; at the end: after aborting what is in flight a fresh valid proposal for finished.Epoch+1 is accepted and stored by every "
                "member (12%: its DKG is run and must complete). non-trivial = the history contains >=1 rejected and >=1 accepted step; distinct by "
                "the (kind, class, outcome) sequence.",
        "assumptions": [
            "the package variable `backoff` (gossip retry back-off) is set to 2 ms by the harness; no logic is changed",
            "forged packets are signed with the real long-term keys of the claimed sender (the harness owns all keys), so a leader can be told its "
            "own proposal by gossip; the relation allows Proposed for a node that is the leader of the record",
            "recoverability is only demanded when all members of the last group hold the same finished epoch and the same group "
            "(partial completion is the documented operator case; group agreement is C06)",
            "the number of an aborted / timed-out / failed attempt is discarded with the attempt: epoch monotonicity is then judged against the "
            "finished epoch",
        ],
        "race_anchors": ["dkg.(*Process).Executions", "dkg.(*Process).SeenPackets"],
    },
    "C20": {
        "runs": [{"name": "dkgnet-records", "pkg": P, "run": "^TestVF_C20_DKGRecords", "timeout": "15m", "timeout_thorough": "40m"}],
        "rule": "engine dkgnet (DKG database part): a fixed script per scheme (aborted first proposal, first epoch, reshare with acceptor+rejector "
                "aborted, reshare whose execution fails, retry that completes; 5 real processes, real bolt stores) walks the nodes through every "
                "status the system writes; EVERY record that reaches a dkg.db is re-read with fresh objects inside the store tap: reloaded value "
                "equals the object handed to the store field by field (instants, durations, participants, group TOML+hash, share), re-encoding "
                "gives the stored bytes, the final group survives the operator's group-file round trip. non-trivial = every record; distinct by "
                "(scheme, bucket, status, has group, has share, #acceptors, #rejectors).",
        "assumptions": ["DBState.Equals is false after reload of any state with a key share (reflect.DeepEqual on projective vs affine points and on "
                        "*crypto.Scheme func fields); counted as equals_helper_false_only_by_deepequal_of_keyshare, every field is compared with its own equality"],
    },
}
