from vfprops import PKG
P = PKG["pure"]
PART = {
    "C16": {
        "runs": [{"name": "pure", "pkg": P, "run": "^TestVF_C16$"}],
        "rule": "points (period,genesis,instant) and (period,genesis,round) checked against a math/big reference: exhaustive small grid, "
                "boundary-directed instants t=g+k*p+{-1,0,1} for k up to 2^50/p and p in {2^k-1,2^k,2^k+1}, rounds around the overflow guard "
                "and the last schedulable round, plus seeded random points; non-trivial = grid/boundary/guard points, distinct by (p,g,t|r)",
        "assumptions": ["math/big arithmetic is the reference", "periods are whole seconds (as the system produces them)"],
    },
}
