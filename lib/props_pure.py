from vfprops import PKG
P = PKG["pure"]
PART = {
    "C16": {
        "runs": [{"name": "pure", "pkg": P, "run": "^TestVF_C16$"}],
        "rule": "points (period,genesis,instant) and (period,genesis,round) checked against a math/big reference: exhaustive small grid, "
                "boundary-directed instants t=g+k*p+{-1,0,1} for k up to 2^50/p and p in {2^k-3 .. 2^k+2}, rounds around the overflow guard "
                "and the last schedulable round, plus seeded random points; non-trivial = grid/boundary/guard points, distinct by (p,g,t|r)",
        "assumptions": ["math/big arithmetic is the reference", "periods are whole seconds (as the system produces them)"],
    },
}

PART["C18"] = {
    "runs": [{"name": "pure", "pkg": P, "run": "^TestVF_C18", "timeout": "30m", "timeout_thorough": "90m", "race_thorough": False}],
    "rule": "operation histories (put/get/last/del/len/cursor first-next scan/seek+next/cursor last/several moves of ONE cursor; beacons stored with and without a previous signature) run on the real bolt-trimmed (chained and unchained context), "
            "bolt-untrimmed and memdb ring stores, every answer compared with a reference sorted map: exhaustive over all sequences up to length 3 (quick) / 4 (thorough) on rounds 0..3, "
            "seeded random histories of 50-400 operations with gaps/deletions/re-puts/re-opens, memdb cursor steps interleaved with modifications, and concurrent get/put/del histories "
            "checked with porcupine per round; non-trivial = every history (each contains at least one mutating and one reading op by construction of the alphabet is NOT guaranteed, so distinct = distinct (back-end, operation sequence))",
    "assumptions": ["bbolt and the Go map/sort reference are trusted", "postgres back-end cannot be started offline: not covered",
                    "Seek(absent round) is only required to return a correctly labelled beacon or nothing (the statement fixes nothing else)"],
}

PART["C17"] = {
    "runs": [{"name": "pure", "pkg": P, "run": "^TestVF_C17$", "timeout": "30m", "timeout_thorough": "60m"}],
    "rule": "generated groups (1..10 nodes, admissible thresholds, all 5 schemes, optional seed/transition/non-default id); per group the chain hash is compared across "
            "6 encoding paths (group->info, proto, v2 JSON, hexjson, group file via key.Save/Load, group proto) plus proto / hexjson with caller-supplied metadata naming no, the default, another or the same beacon id, every single-field perturbation must change it, membership changes must not, "
            "tampered v2 JSON must be rejected, 5 node permutations must keep the group hash and every single-field perturbation must change it; distinct = distinct generated group",
    "assumptions": ["SHA-256/blake2b collision resistance (a perturbation leaving the hash unchanged is reported as insensitivity)",
                    "periods below 2^32 s (the hash commits to uint32 seconds)"],
}

PART["C20"] = {
    "runs": [{"name": "pure", "pkg": P, "run": "^TestVF_C20", "timeout": "30m", "timeout_thorough": "60m"}],
    "rule": "generated values over the 5 schemes (groups of 1..10 nodes with optional public key/seed/transition time/zero catch-up/default or named id, key pairs, shares, chain infos, beacons with "
            "random byte strings of 0..1 MiB) are encoded and decoded through the real paths (key.Save/Load files, protobuf wire bytes, v2 JSON, hexjson, bolt/memdb stores with re-open) and compared "
            "field by field, by hash and by re-encoding; group encodings with threshold 0 / below minimum / above n / unknown scheme must be refused on the TOML and protobuf paths; distinct = distinct "
            "(scheme, n, threshold, optional-field combination)",
    "assumptions": ["kyber point/scalar Equal and BurntSushi/toml, protobuf, encoding/json are trusted", "whole-second periods", "empty signatures are not stored (the system cannot produce them)"],
}
