from vfprops import PKG
P = PKG["pure"]
PART = {
    "C16": {
        "runs": [{"name": "pure", "pkg": P, "run": "^TestVF_C16$"}],
        "rule": "points (period,genesis,instant) and (period,genesis,round) checked against a math/big reference: exhaustive small grid, "
                "boundary-directed instants t=g+k*p+{-1,0,1} for k up to 2^50/p and p in {2^k-1,2^k,2^k+1}, rounds around the overflow guard "
                "and the last schedulable round, plus seeded random points; non-trivial = grid/boundary/guard points, distinct by (p,g,t|r)",
        "assumptions": ["math/big arithmetic is the reference", "periods are whole seconds (as the system produces them)"],
    },
}

PART["C18"] = {
    "runs": [{"name": "pure", "pkg": P, "run": "^TestVF_C18", "timeout": "30m", "timeout_thorough": "90m", "race_thorough": False}],
    "rule": "operation histories (put/get/last/del/len/cursor first-next scan/seek+next/cursor last) run on the real bolt-trimmed (chained and unchained context), "
            "bolt-untrimmed and memdb ring stores, every answer compared with a reference sorted map: exhaustive over all sequences up to length 3 (quick) / 4 (thorough) on rounds 0..3, "
            "seeded random histories of 50-400 operations with gaps/deletions/re-puts/re-opens, memdb cursor steps interleaved with modifications, and concurrent get/put/del histories "
            "checked with porcupine per round; non-trivial = every history (each contains at least one mutating and one reading op by construction of the alphabet is NOT guaranteed, so distinct = distinct (back-end, operation sequence))",
    "assumptions": ["bbolt and the Go map/sort reference are trusted", "postgres back-end cannot be started offline: not covered",
                    "Seek(absent round) is only required to return a correctly labelled beacon or nothing (the statement fixes nothing else)"],
}
