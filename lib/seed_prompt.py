#!/usr/bin/env python3
"""prints the prompt given to an independent mutant-seeding sub-agent for one property (nothing from /verif leaks into it)"""
import json, sys
pid = sys.argv[1]
wave = sys.argv[2] if len(sys.argv) > 2 else ""
wt = "/tmp/seed-" + pid + wave
import glob, os
avoid = []
for m in sorted(glob.glob('/verif/seeded/%s-m*/meta.json' % pid)):
    try:
        avoid.append(json.load(open(m)).get('summary', '')[:400])
    except Exception:
        pass
p = next(json.loads(l) for l in open('/verif/properties.jsonl') if json.loads(l)['id'] == pid)
text = (f"""You are given a scratch git worktree of the Go project drand/drand (a randomness-beacon daemon: DKG + threshold BLS + chain sync) at {wt}. Work ONLY inside {wt} (never touch /repo or /verif, never read anything under /verif). There is no network. Use Go like this:
  export GOFLAGS=-mod=mod GOPROXY=off GOSUMDB=off GOTOOLCHAIN=local; GO=/root/go/pkg/mod/golang.org/toolchain@v0.0.1-go1.25.0.linux-amd64/bin/go
  (cd {wt} && $GO build ./... && $GO test -vet=off -count=1 ./path/to/pkg/...)
The multi-node tests need `-tags conn_insecure` (without the tag a fixed set of ~38 networked tests always fails — that is expected and the same before and after your change).

Here is a semantic property the project is supposed to satisfy:

TITLE: {p['title']}
STATEMENT: {p['statement']}
QUANTIFIED OVER: {p['quantifier']['text']}
CODE IT IS ANCHORED IN: {', '.join(p['anchors']['files'])}

YOUR JOB: produce TWO different, realistic source changes ("seeded bugs") to the non-test code of {wt}, each of which BREAKS this property, while the project still compiles and the existing test suite still passes exactly as before (the tests listed in /tmp/stable_pass.txt, format `package::TestName`, are the ones that pass on the unchanged tree when run as `$GO test -vet=off -count=1 ./...` WITHOUT tags; all of them must still pass with your change — run at least the packages your change can affect, untagged, and also `-tags conn_insecure` for those packages to see nothing new breaks there either compared with the unchanged tree). Prefer changes that look like plausible maintenance mistakes or subtly wrong refactorings (an off-by-one, a dropped check, a wrong variable, a reordered pair of writes, a lock scope change, a forgotten field, a wrong comparison), located in the anchored code or code it calls. IMPORTANT: choose changes that need something SPECIFIC to manifest — a particular interleaving, a crash or fault at a particular point, a multi-step sequence of operations, an unusual/boundary input, or two cooperating sites that each look fine alone — NOT ones that ordinary use would expose at once (those would already fail the existing tests). The two changes should break different aspects/clauses of the property or live in different files.

For each change k in {{1,2}} deliver, in directory {wt}/OUT/m$k/ :
  - patch.diff : `git diff` of the source change only (relative to HEAD, must apply with `git apply` at the repo root; do not include your demonstration test in it)
  - a demonstration: a Go test file (say where it must be placed, e.g. internal/chain/beacon/zz_demo_test.go) or a small main program, that FAILS with the change applied and PASSES on the unchanged tree; keep it fast (< 2 min) and deterministic if at all possible; say the exact command to run it
  - meta.json : {{"property": "{pid}", "summary": "...what was changed...", "clause_broken": "...which part of the statement...", "needs_to_manifest": "...the specific input/interleaving/sequence/fault...", "demo_file": "...", "demo_place_at": "...", "demo_cmd": "...", "suite_checked": "...which packages' tests you ran with the change and the result..."}}
Verify yourself, for each change: (1) builds; (2) demo fails with it and passes without it (use `git stash`/`git apply -R` to switch); (3) existing tests of affected packages pass as before. Leave the worktree CLEAN at the end (`git status` shows only the untracked OUT/ directory): no source change applied, no demo file left outside OUT/.

{{AVOID}}Final answer: for each change a 3-line summary (what, what it needs to manifest, verification results). If you could only produce one sound change, say so.""")
av = ""
if avoid:
    av = "Earlier seeded changes for this property are summarised below; produce changes that are DIFFERENT from them (another clause of the statement, another file, another mechanism):\n" + "\n".join("  - " + a for a in avoid) + "\n\n"
print(text.replace("{AVOID}", av))
