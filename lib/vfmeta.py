# per-property texts for MANIFEST.json (level, what assurance, trusted base, technique)
META = {
    "C16": {
        "level": "exploration",
        "level_text": "every conversion result on ~4e5 (quick) / ~5e6 (thorough) generated points, incl. an exhaustive small grid and all boundary families, equals an unbounded-integer reference; held-on-what-was-explored, not a proof",
        "level_note": "trusts math/big and the generator's boundary families; sub-second periods excluded (cannot be produced by the system)",
        "technique": "runtime oracle: real functions vs math/big reference model on generated + boundary-directed inputs",
    },
}
