# per-property texts for MANIFEST.json (level, what assurance, trusted base, technique)
META = {
    "C16": {
        "level": "exploration",
        "level_text": "every conversion result on ~4e5 (quick) / ~5e6 (thorough) generated points, incl. an exhaustive small grid and all boundary families, equals an unbounded-integer reference; held-on-what-was-explored, not a proof; the round ticker (fake clock with jumps) and the HTTP layer's schedule headers are monitored against the same arithmetic",
        "level_note": "trusts math/big and the generator's boundary families; sub-second periods excluded (cannot be produced by the system)",
        "technique": "runtime oracle: real functions vs math/big reference model on generated + boundary-directed inputs; online monitor of the ticker's announced (round, time) pairs and of HTTP schedule headers",
    },
}
META["C18"] = {
    "level": "exploration",
    "level_text": "the real stores' answers equal a reference sorted map on every operation sequence up to a bounded length over a small alphabet (exhaustive) and on seeded long random histories incl. re-opens and cursor/modification interleavings; concurrent histories are linearizable per round (porcupine). Held on the histories explored.",
    "level_note": "reference map + porcupine + bbolt trusted; postgres back-end not runnable offline; power-loss semantics out of scope",
    "technique": "runtime differential oracle: real back-ends vs reference map over exhaustive short and random long histories; porcupine linearizability of recorded concurrent histories",
}
META["C17"] = {
    "level": "exploration",
    "level_text": "hash equality across all encoding paths, sensitivity to each committed parameter, insensitivity to membership/order, and rejection of mismatching embedded hashes, observed on every generated group/info of the run (120 quick / 3000 thorough groups, ~45 derived checks each)",
    "level_note": "generator covers all schemes and optional-field combinations; trusts the hash functions' collision resistance",
    "technique": "runtime metamorphic oracle on real encode/decode/hash functions over generated groups and single-field perturbations",
}
META["C20"] = {
    "level": "exploration",
    "level_text": "decode(encode(v)) == v (field by field, by hash, by re-encoding) for every generated value of the run on every persistence/wire path, plus refusal of out-of-range group encodings; DKG database records and files written by real DKG runs are re-read with fresh objects (dkg engine)",
    "level_note": "comparison functions are the harness's own field-by-field ones (Group.Equal ignores genesis time and catch-up period); generators stay within values the system can produce",
    "technique": "runtime round-trip oracle on real encoders/decoders over generated values; reflection-filled DKG state records",
}
META["C01"] = {
    "level": "exploration",
    "level_text": "every beacon written to any node's base store (aggregation, sync, restart catch-up) and every beacon served on peer sync / public gRPC / HTTP in the explored executions verifies under a group key the harness generated itself; executions cover schemes x (n,t) x back-ends x fault scripts x an active adversary below the threshold",
    "level_note": "oracle = kyber VerifyRecovered with the harness's own public key; reach limited to the scenarios generated (counts in evidence)",
    "technique": "runtime monitoring: store/wire taps with an online signature-verification oracle under adversarial and faulty network workloads",
}
META["C02"] = {
    "level": "exploration",
    "level_text": "online shadow-map invariants at each base store (append-only, head+1, write-once, link, agreement) and offline scans of re-opened stores held on every explored execution; concurrent Put histories at the CallbackStore boundary are linearizable against a sequential append-only model (porcupine)",
    "level_note": "trusts bbolt, porcupine and byte-equality as agreement; explored schedules are sampled, not enumerated",
    "technique": "runtime monitoring: store taps with shadow-state invariants; porcupine linearizability of recorded Put histories",
}
META["C03"] = {
    "level": "exploration",
    "level_text": "at every beacon creation observed (all (n,t) up to n=7, contributor sets around the threshold, chosen arrival orders, hostile partial streams) the node had been handed oracle-verified partials from at least t distinct current members; starved networks produced nothing",
    "level_note": "oracle verifies partials itself with the harness-generated public polynomial; sync disabled so every Put is an aggregation",
    "technique": "runtime monitoring: wire tap + store tap, offline counting oracle over the recorded event log with forced delivery orders",
}
META["C04"] = {
    "level": "exploration",
    "level_text": "every partial that left an honest node in the explored executions (clock skews, bursts, stalls, restarts, catch-up mode, chain ahead of the local clock, parked tick handling) was stamped with the sender's own clock at or after its round's time; all validly signed partials for rounds beyond clock+1 were refused",
    "level_note": "fake clocks move only when the harness moves them; TimeOfRound recomputed by the harness in integers",
    "technique": "runtime monitoring: wire tap with an online timing oracle on per-node fake clocks, forced interleaving through a parking hook",
}
META["C05"] = {
    "level": "fault_enumeration",
    "level_text": "for every generated fault script (sequences over partition / blackout / isolation / stop-restart / loss, all (n,t) and back-ends) the healed network caught up with its clocks within the stated step bound, kept producing each due round, and restarted nodes contributed again; unbounded 'eventually' is out of reach and restated as this bound",
    "level_note": "fault scripts are sampled from a grammar, not exhaustively enumerated; bound chosen generously (3x the ideal catch-up)",
    "technique": "runtime monitoring under injected faults: bounded-progress oracle in logical clock steps over real handler networks",
}
META["C11"] = {
    "level": "exploration",
    "level_text": "for every forced interleaving of store appends with a stream's catch-up scan and its switch to live delivery that the run executed (per back-end, chained/unchained, several start rounds, concurrent and reconnecting streams) the delivered sequence was exactly from..head, in order, equal to the store; deviations are reported with the interleaving that produced them",
    "level_note": "interleavings are chosen by gating Send and parking at the hand-over hook; Go scheduler nondeterminism inside a phase is sampled, not enumerated",
    "technique": "runtime monitoring with forced interleavings: gated stream consumer + parking hook, offline sequence oracle against the store",
}
META["C12"] = {
    "level": "exploration",
    "level_text": "for each explored consumer behaviour x back-end the run shows whether 1000 consecutive appends kept returning and a healthy consumer kept receiving; for each flood the aggregator cache sizes observed after 1200/5000 distinct valid partials per flooder stayed below 3x the documented per-member limit and the honest partials survived",
    "level_note": "blocked-forever verdicts come with the goroutine dump frame; cache internals read through a hook running in the aggregator goroutine (race-free)",
    "technique": "runtime monitoring: stalled-consumer stress with goroutine-dump oracle; hooked cache-size monitor under partial floods",
}
META["C10"] = {
    "level": "fault_enumeration",
    "level_text": "for every generated peer set (mix and order of faulty/lying/honest sync peers), start height, target, mode and scheme, the beacons written by sync were valid, in order and the node converged when an honest peer existed; chain check/repair results equalled the damage the harness inflicted",
    "level_note": "peer behaviours are drawn from a fixed list of 11 fault kinds; peer order is shuffled by drand's own math/rand (sampled, not enumerated)",
    "technique": "runtime monitoring under injected peer faults: base-store tap oracle (validity, order) + bounded-convergence oracle + differential check of CheckPastBeacons against inflicted damage",
}
META["C09"] = {
    "level": "exploration",
    "level_text": "a matrix of gossip packets (5 types x claimed sender x signing key x victim role x single-field mutation, >3000 cells quick) sent to real dkg.Process instances in states prepared by real commands and a real DKG; a cell is a violation when the victim's dkg.db changes on a packet the harness knows is not authentic; every cell has a positive control (the untouched honest packet is accepted)",
    "level_note": "authenticity is the harness's own bookkeeping of who signed what with which key; success-without-state-change (dedupe) is counted, not flagged",
    "technique": "runtime monitoring: forged/mutated packet matrix against real DKG processes with a raw-database diff oracle and positive controls",
}
META["C14"] = {
    "level": "exploration",
    "level_text": "structured hostile requests on every peer-facing and public endpoint (gRPC over loopback against a daemon in a child process, HTTP, and dkg.Process directly) in several node states; after each request probes on the same and another service must return; process death is read from the child's exit, 'wedged' only with a goroutine dump showing the parked drand frame",
    "level_note": "panics contained by the gRPC recovery interceptor are counted, not flagged; input classes are generated, not exhaustive",
    "technique": "runtime monitoring: hostile-input generators against a child-process daemon with liveness probes and goroutine-dump oracle; race detector on the routing tables",
}
META["C15"] = {
    "level": "exploration",
    "level_text": "every protobuf message crossing loopback (client interceptors), HTTP bodies/headers, backup file, debug log and error strings produced by a 3-daemon DKG + reshare + sync + hostile subset were scanned for every node's secret scalars in 8 encodings; every file containing one was owner-only at each persistence hook; canaries prove each channel's scanner",
    "level_note": "secrecy only over the outputs this workload produced; encodings searched are a fixed list",
    "technique": "runtime monitoring: secret-scanner taps on wire, HTTP, logs, backups and files (hooks + strace) with canary self-test",
}
META["C19"] = {
    "level": "exploration",
    "level_text": "the full (id-kind x hash-kind x endpoint) matrix on a daemon running three chains, before/during/after stop and reload of one chain, with answers attributed to a chain by whose key verifies / whose parameters appear; the -race run targets the routing tables during concurrent stop/load",
    "level_note": "1-of-1 groups loaded through the daemon's migration path stand for DKG-produced chains; lenient where the statement is silent (known id + unknown hash)",
    "technique": "runtime monitoring: request matrix with attribution oracle over loopback gRPC/HTTP; Go race detector anchored on routing-table state",
}
META["C06"] = {
    "level": "exploration",
    "level_text": "for every completed DKG/reshare of the run (schemes x n in 1..7 x thresholds x reshare shapes x shuffled participant lists x bus schedules with delay, reordering, duplication and one slow link-phase) all nodes' finished records agreed field by field, every share lay on the public polynomial at its index and every (sampled) t-subset signed verifiably",
    "level_note": "real kyber DKG over an in-memory bus; field comparison is the harness's own (Group.Equal ignores some fields)",
    "technique": "runtime monitoring: real DKG processes on an in-memory bus with a fault schedule; algebraic and field-agreement oracles over the nodes' real dkg.db records",
}
META["C07"] = {
    "level": "exploration",
    "level_text": "across every explored reshare (handler-level shapes x transition timings x outages; daemon-level same-set / add+remove / failed-then-successful) the chain identity served before and after was byte-identical, stored chains stayed gap-free, fork-free and verifiable under the original key, the new group kept producing within a step bound, and previous-group partials were not accepted by switched nodes",
    "level_note": "handler-level layer re-shares the secret itself (no DKG); daemon-level layer runs real DKGs over loopback",
    "technique": "runtime monitoring: store/wire taps across forced transitions, identity comparison of served chain info, hooked cache monitor for previous-group partials",
}
META["C08"] = {
    "level": "exploration",
    "level_text": "after every step of every generated command/packet history (valid and each invalid class, all roles, up to 3 epochs, aborts, timeouts, failed executions) the node's real dkg.db moved along a legal edge, its epoch did not decrease, the finished record changed only on completion of a higher epoch, rejected inputs left it byte-identical, and a fresh proposal was accepted at the end",
    "level_note": "the legal-edge table is the harness's own statement of the protocol; quiescence between steps is a pacing heuristic no verdict depends on",
    "technique": "runtime monitoring: generated histories against real DKG processes with a reference transition relation and record-immutability invariants checked on the real database",
}
META["C13"] = {
    "level": "fault_enumeration",
    "level_text": "an image of the victim's whole folder at every persistence hook firing (key/group/share saves, dkg.db saves, every chain Put) of scripted runs (first DKG, rounds, reshare, leave), plus synthesized torn files and real SIGKILLs inside bolt commits (strace injection, 240 runs); each image is checked offline and a subset restarted in a child process that must rejoin the running network",
    "level_note": "process death (page cache kept), not power loss; the leave path is only reachable by injecting the completion the code expects",
    "technique": "runtime fault injection: crash-point enumeration through hooks with disk images, offline consistency oracle, child-process restarts, strace SIGKILL injection",
}
