# per-property texts for MANIFEST.json (level, what assurance, trusted base, technique)
META = {
    "C16": {
        "level": "exploration",
        "level_text": "every conversion result on ~4e5 (quick) / ~5e6 (thorough) generated points, incl. an exhaustive small grid and all boundary families, equals an unbounded-integer reference; held-on-what-was-explored, not a proof",
        "level_note": "trusts math/big and the generator's boundary families; sub-second periods excluded (cannot be produced by the system)",
        "technique": "runtime oracle: real functions vs math/big reference model on generated + boundary-directed inputs",
    },
}
META["C18"] = {
    "level": "exploration",
    "level_text": "the real stores' answers equal a reference sorted map on every operation sequence up to a bounded length over a small alphabet (exhaustive) and on seeded long random histories incl. re-opens and cursor/modification interleavings; concurrent histories are linearizable per round (porcupine). Held on the histories explored.",
    "level_note": "reference map + porcupine + bbolt trusted; postgres back-end not runnable offline; power-loss semantics out of scope",
    "technique": "runtime differential oracle: real back-ends vs reference map over exhaustive short and random long histories; porcupine linearizability of recorded concurrent histories",
}
