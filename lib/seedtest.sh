#!/bin/bash
# usage: seedtest.sh <worktree> <OUT/mK dir> <prop> [more props...]
# confirms a seeded change (builds; demo fails with it / passes without; affected packages' tests pass) and runs our checks against it
set -u
WT=$1; M=$2; shift 2; PROPS="$@"
export GOFLAGS=-mod=mod GOPROXY=off GOSUMDB=off GOTOOLCHAIN=local
GO=/root/go/pkg/mod/golang.org/toolchain@v0.0.1-go1.25.0.linux-amd64/bin/go
export GO
go() { "$GO" "$@"; }
export -f go 2>/dev/null
export PATH=$(dirname $GO):$PATH
cd $WT || exit 9
git checkout -q -- . ; git clean -fdq -e OUT
meta=$M/meta.json
place=$(python3 -c "import json;print(json.load(open('$meta')).get('demo_place_at',''))")
demo=$(python3 -c "import json;print(json.load(open('$meta')).get('demo_file',''))")
cmd=$(python3 -c "import json,re;print(re.split(r'\s{2,}\(', json.load(open('$meta')).get('demo_cmd',''))[0])")
echo "== meta: place=$place demo=$demo"; echo "== cmd: $cmd"
src=$M/$(basename "$demo"); [ -f "$src" ] || src=$(ls $M/*_test.go $M/*.go 2>/dev/null | head -1)
dst="$place"; case "$dst" in */) dst="$dst$(basename $src)";; esac
[ -d "$WT/$dst" ] && dst="$dst/$(basename $src)"
rundemo() { (cd $WT && cp "$src" "$WT/$dst" && eval "$cmd" >/tmp/seedtest-demo-$(basename $WT).log 2>&1; rc=$?; rm -f "$WT/$dst"; return $rc); }
echo "== demo on clean tree (expect pass)"; rundemo; echo "rc=$?"; tail -3 /tmp/seedtest-demo-$(basename $WT).log
git apply $M/patch.diff || { echo "PATCH DOES NOT APPLY"; exit 8; }
echo "== build"; $GO build ./... && echo build-ok
echo "== demo with change (expect fail)"; rundemo; echo "rc=$?"; tail -5 /tmp/seedtest-demo-$(basename $WT).log
pkgs=$(git diff --name-only | xargs -n1 dirname | sort -u | sed 's#^#./#' | tr '\n' ' ')
echo "== unit tests of changed packages (untagged): $pkgs"; $GO test -vet=off -count=1 $pkgs 2>&1 | grep -v "^Saved\|^crypto store" | tail -6
for p in $PROPS; do echo "== our check $p against the change"; (cd /verif && VF_REPO=$WT ./vf check $p --tier quick 2>&1 | grep -E "VIOLATION|KNOWN|tier=|BROKEN" | cut -c1-330 | grep -v "did not occur in this run" | head -8); done
git checkout -q -- . ; git clean -fdq -e OUT
