from vfprops import PKG
PART = {
    "C01": {
        "runs": [{"name": "httphandler", "pkg": PKG["http"], "run": "^TestVF_C01_HTTP", "timeout": "20m", "timeout_thorough": "60m"}],
        "rule": "HTTP clause: the real DrandHandler over httptest, served by a scripted client.Client (harness-signed chain, all 5 schemes) whose watch stream follows a seeded script of "
                "{next, skip1, skip2, repeat, close+reopen, dropped}; before every script step 3 requests for latest+1 are parked as waiters plus one for an old round and one for latest; every 200 answer "
                "must be exactly the beacon of the requested round, verify under the harness key, with randomness = SHA-256(signature). non-trivial = at least one parked waiter was answered",
        "assumptions": ["rounds are in the past of the real clock (the HTTP handler uses time.Now)"],
    },
}

PART["C14"] = {
    "runs": [{"name": "httphandler-child", "pkg": PKG["http"], "run": "^TestVF_C14_HTTPWaiters$", "timeout": "20m", "timeout_thorough": "60m"}],
    "rule": "HTTP clause: the real DrandHandler in a child process; 250 rounds, per round 24 requests parked for latest+1 of which 20 disconnect 8-21 ms later (around the arrival of the round), 3 (quick) / 12 (thorough) children; "
            "the child must finish (no panic / fatal error / abnormal exit). distinct = distinct child seed",
    "assumptions": ["a crash is only attributable because the handler runs in its own process"],
}

PART["C16"] = {
    "runs": [{"name": "httphandler-schedule", "pkg": PKG["http"], "run": "^TestVF_C16_HTTP$", "timeout": "20m", "timeout_thorough": "40m"}],
    "rule": "HTTP clause: the real DrandHandler over httptest for chains with periods {1,2,3,7,30,60,3600} s whose genesis puts the real clock at a random offset inside a round: "
            "Last-Modified of /public/latest = the served round's scheduled time, Expires = the next round's, /health expected = the round current during the request (bracketed by the clock before and after), "
            "all by harness arithmetic; requests for rounds far beyond the schedule (current+3 ... 2^63, 2^64-1) against an upstream that would answer anything must be neither answered 200 nor forwarded; distinct = distinct (period, clock offset, scheme)",
    "assumptions": ["the HTTP handler reads the real clock: instants are bracketed, never compared exactly"],
}
