package dkg

// C20 (DKG database part) — every record that real runs of engine dkgnet write to the real bolt dkg.db is read
// back with fresh objects: the reloaded DBState must equal the object the Process handed to the store (by the
// type's Equals and field by field, instants and durations exactly), and re-encoding the reloaded value must give
// the stored bytes again. The workload is a fixed script per scheme that walks a network through every status the
// system writes (Proposing, Proposed, Accepted, Rejected, Joined, Left, Executing, Complete, Aborted, Failed), with
// and without final group / share.

import (
	"bytes"
	"fmt"
	"os"
	"reflect"
	"sync"
	"testing"
	"time"

	"github.com/BurntSushi/toml"
	"google.golang.org/protobuf/proto"

	"github.com/drand/drand/v2/common/key"
	"github.com/drand/drand/v2/crypto"
	pdkg "github.com/drand/drand/v2/protobuf/dkg"
)

func vfdC20Parts(a, b []*pdkg.Participant) bool {
	if len(a) != len(b) {
		return false
	}
	for i := range a {
		if !proto.Equal(a[i], b[i]) {
			return false
		}
	}
	return true
}

func vfdC20Toml(v any) []byte {
	var b bytes.Buffer
	_ = toml.NewEncoder(&b).Encode(v)
	return b.Bytes()
}

// vfdC20Diff lists the fields in which the reloaded state differs from the written one.
func vfdC20Diff(w, r *DBState) []string {
	var d []string
	add := func(name string, same bool) {
		if !same {
			d = append(d, name)
		}
	}
	add("BeaconID", w.BeaconID == r.BeaconID)
	add("Epoch", w.Epoch == r.Epoch)
	add("State", w.State == r.State)
	add("Threshold", w.Threshold == r.Threshold)
	add("Timeout", w.Timeout.Equal(r.Timeout))
	add("SchemeID", w.SchemeID == r.SchemeID)
	add("GenesisTime", w.GenesisTime.Equal(r.GenesisTime))
	add("GenesisSeed", bytes.Equal(w.GenesisSeed, r.GenesisSeed))
	add("CatchupPeriod", w.CatchupPeriod == r.CatchupPeriod)
	add("BeaconPeriod", w.BeaconPeriod == r.BeaconPeriod)
	add("Leader", proto.Equal(w.Leader, r.Leader))
	add("Remaining", vfdC20Parts(w.Remaining, r.Remaining))
	add("Joining", vfdC20Parts(w.Joining, r.Joining))
	add("Leaving", vfdC20Parts(w.Leaving, r.Leaving))
	add("Acceptors", vfdC20Parts(w.Acceptors, r.Acceptors))
	add("Rejectors", vfdC20Parts(w.Rejectors, r.Rejectors))
	switch {
	case (w.FinalGroup == nil) != (r.FinalGroup == nil):
		add("FinalGroup", false)
	case w.FinalGroup != nil:
		add("FinalGroup", bytes.Equal(vfdC20Toml(w.FinalGroup.TOML()), vfdC20Toml(r.FinalGroup.TOML())) &&
			bytes.Equal(w.FinalGroup.Hash(), r.FinalGroup.Hash()) && w.FinalGroup.CatchupPeriod == r.FinalGroup.CatchupPeriod &&
			w.FinalGroup.Period == r.FinalGroup.Period && w.FinalGroup.GenesisTime == r.FinalGroup.GenesisTime &&
			w.FinalGroup.TransitionTime == r.FinalGroup.TransitionTime)
	}
	switch {
	case (w.KeyShare == nil) != (r.KeyShare == nil):
		add("KeyShare", false)
	case w.KeyShare != nil:
		same := w.KeyShare.Share != nil && r.KeyShare.Share != nil && w.KeyShare.Share.I == r.KeyShare.Share.I &&
			w.KeyShare.Share.V.Equal(r.KeyShare.Share.V) && len(w.KeyShare.Commits) == len(r.KeyShare.Commits) &&
			w.KeyShare.Scheme != nil && r.KeyShare.Scheme != nil && w.KeyShare.Scheme.Name == r.KeyShare.Scheme.Name
		if same {
			for i := range w.KeyShare.Commits {
				same = same && w.KeyShare.Commits[i].Equal(r.KeyShare.Commits[i])
			}
		}
		add("KeyShare", same)
	}
	return d
}

type vfdC20Ctx struct {
	run  *vfRun
	idx  int
	sch  string
	mu   sync.Mutex
	seen map[string]bool
}

func (x *vfdC20Ctx) check(nd *vfdNode, w *vfdWrite) {
	if w.Err != nil || w.Arg == nil {
		return
	}
	run := x.run
	raw, bucket := w.CurAfter, "current"
	if w.Finished {
		raw, bucket = w.FinAfter, "finished"
		if !bytes.Equal(w.CurAfter, w.FinAfter) {
			run.Violation("C20/dbstate/savefinished-buckets-differ", nd.addr, map[string]any{"case_index": x.idx})
		}
	}
	st := w.Arg.State.String()
	info := map[string]any{"case_index": x.idx, "scheme": x.sch, "node": nd.addr, "bucket": bucket, "status": st, "epoch": w.ArgEpoch}
	ek := fmt.Sprintf("%s/%s/%s/g%v/s%v/a%d/r%d", x.sch, bucket, st, w.Arg.FinalGroup != nil, w.Arg.KeyShare != nil, len(w.Arg.Acceptors), len(w.Arg.Rejectors))
	run.Eval(ek)
	run.Seen("statuses_written", st)
	run.Count("dkg_records_reread", 1)
	r, err := vfdDecode(raw)
	if err != nil || r == nil {
		run.Violation("C20/dbstate/record-unreadable/"+st, fmt.Sprintf("%s: %v", nd.addr, err), info)
		return
	}
	if diff := vfdC20Diff(w.Arg, r); len(diff) > 0 {
		info["fields"] = diff
		run.Violation(fmt.Sprintf("C20/dbstate/field-lost-on-reload/%s", diff[0]),
			fmt.Sprintf("record in state %s written by %s reloads with different %v (written Timeout %v, reloaded %v)", st, nd.addr, diff, w.Arg.Timeout, r.Timeout), info)
	} else if !w.Arg.Equals(r) {
		// DBState.Equals compares KeyShare with reflect.DeepEqual: the curve points of a share that has just been
		// computed are held in projective coordinates while reloaded ones are affine (Point.Equal is true, the limbs
		// differ), and a key.Share carries a *crypto.Scheme with func fields, which are never deeply equal. Every field
		// was compared above with its own equality, so this is an artefact of the helper (test-only code), counted.
		why := []string{}
		if !w.Arg.FinalGroup.Equal(r.FinalGroup) {
			why = append(why, "FinalGroup.Equal")
		}
		for n, p := range map[string][2]any{"Leader": {w.Arg.Leader, r.Leader}, "Remaining": {w.Arg.Remaining, r.Remaining}, "Joining": {w.Arg.Joining, r.Joining},
			"Leaving": {w.Arg.Leaving, r.Leaving}, "Acceptors": {w.Arg.Acceptors, r.Acceptors}, "Rejectors": {w.Arg.Rejectors, r.Rejectors}} {
			if !reflect.DeepEqual(p[0], p[1]) {
				why = append(why, "DeepEqual("+n+")")
			}
		}
		if len(why) > 0 || w.Arg.KeyShare == nil {
			run.Violation("C20/dbstate/equals-false-after-reload/"+st, fmt.Sprintf("%s: %v", nd.addr, why), info)
		} else {
			run.Count("equals_helper_false_only_by_deepequal_of_keyshare", 1)
		}
	}
	b2, err := encodeState(r)
	if err != nil || !bytes.Equal(b2, raw) {
		run.Violation("C20/dbstate/re-encoding-not-stable/"+st, fmt.Sprintf("%s: %v", nd.addr, err), info)
	}
	// the group file an operator would hand to a joiner: TOML round trip of the final group
	if r.FinalGroup != nil {
		gb, err := vfdGroupTOML(r.FinalGroup)
		if err == nil {
			t := key.GroupTOML{}
			g2 := key.Group{}
			if _, err = toml.NewDecoder(bytes.NewReader(gb)).Decode(&t); err == nil {
				err = g2.FromTOML(&t)
			}
			if err != nil || !bytes.Equal(g2.Hash(), r.FinalGroup.Hash()) || !g2.Equal(r.FinalGroup) {
				run.Violation("C20/group/toml-round-trip-of-dkg-output/"+st, fmt.Sprintf("%s: %v", nd.addr, err), info)
			}
			run.Count("dkg_groups_round_tripped", 1)
		}
	}
}

func TestVF_C20_DKGRecords(t *testing.T) {
	run := vfNewRun("C20", "dkgnet")
	defer run.Finish()
	n := vfPick(10, 60)
	base, err := os.MkdirTemp("", "vf-c20dkg-")
	if err != nil {
		t.Fatal(err)
	}
	defer os.RemoveAll(base)
	var idxs []int
	if ri, ok := vfReplayCase(); ok {
		idxs = []int{ri}
	} else {
		for i := 0; i < n; i++ {
			idxs = append(idxs, i)
		}
	}
	sem := make(chan struct{}, 10)
	var wg sync.WaitGroup
	for _, i := range idxs {
		wg.Add(1)
		sem <- struct{}{}
		go func(i int) {
			defer wg.Done()
			defer func() { <-sem }()
			vfdC20Case(run, base, i)
		}(i)
	}
	wg.Wait()
}

func vfdC20Case(run *vfRun, base string, idx int) {
	seed := vfCaseSeed(vfSeed(), "C20dkg", idx)
	rng := vfNewRng(seed)
	sl := crypto.ListSchemes()
	schName := sl[idx%len(sl)]
	sch, _ := crypto.GetSchemeByID(schName)
	beaconID := []string{"default", "vfrec"}[idx/len(sl)%2]
	dir, err := os.MkdirTemp(base, fmt.Sprintf("c%d-", idx))
	if err != nil {
		run.Inconclusive(err.Error())
		return
	}
	cfg := Config{Timeout: time.Minute, TimeBetweenDKGPhases: 1200 * time.Millisecond, KickoffGracePeriod: 700 * time.Millisecond}
	nw := vfdNewNet(dir, beaconID, sch, cfg, seed)
	defer nw.closeAll()
	x := &vfdC20Ctx{run: run, idx: idx, sch: schName}
	keyRng := vfNewRng(seed ^ 0x6b6579)
	var nd []*vfdNode
	for i := 0; i < 5; i++ {
		n, err := nw.addNode(fmt.Sprintf("r%d.test:%d", i, 6000+i), keyRng, true)
		if err != nil {
			run.Inconclusive(err.Error())
			return
		}
		n.tap.onWrite = x.check
		nd = append(nd, n)
	}
	a, b, c, d, e := nd[0], nd[1], nd[2], nd[3], nd[4]
	fail := func(step string, err error) bool {
		if err != nil {
			run.Inconclusive(fmt.Sprintf("C20 dkg script case %d: %s: %v", idx, step, err))
			return true
		}
		return false
	}
	first := []*vfdNode{a, b, c, d}
	period, catchup := uint32(rng.Range(1, 30)), uint32(rng.Range(0, 5))
	tmo := func() time.Time { return time.Now().Add(time.Minute + time.Duration(rng.Intn(1e9))) }
	// 1. a first proposal that is aborted
	if fail("initial-1", a.cmdInitial(3, period, catchup, schName, tmo(), time.Now().Add(4*time.Second), vfdParts(first))) {
		return
	}
	_ = b.cmdJoin(nil)
	if fail("abort-1", a.cmdAbort()) {
		return
	}
	nw.quiesce(2 * time.Second)
	// 2. the first epoch
	genesis := time.Now().Add(4 * time.Second)
	if fail("initial-2", a.cmdInitial(3, period, catchup, schName, tmo(), genesis, vfdParts(vfdShuffled(rng, first)))) {
		return
	}
	for _, n := range []*vfdNode{b, c, d} {
		if fail("join", n.cmdJoin(nil)) {
			return
		}
	}
	if fail("execute-1", a.cmdExecute()) {
		return
	}
	out := vfdWaitOutcome(first, 1, 30*time.Second)
	for _, r := range out {
		if r != "complete" {
			run.Inconclusive(fmt.Sprintf("C20 dkg script case %d: first epoch ended %v", idx, out))
			return
		}
	}
	nw.drain(10 * time.Second)
	fin, _ := a.bolt.GetFinished(beaconID)
	gf, _ := vfdGroupTOML(fin.FinalGroup)
	second := []*vfdNode{a, b, c, e}
	reshare := func() error {
		return b.cmdReshare(3, catchup, tmo(), vfdParts([]*vfdNode{e}), vfdParts(vfdShuffled(rng, []*vfdNode{a, b, c})), vfdParts([]*vfdNode{d}))
	}
	// 3. a reshare with an acceptor and a rejector, aborted
	if fail("reshare-1", reshare()) {
		return
	}
	_ = a.cmdAccept()
	_ = c.cmdReject()
	_ = e.cmdJoin(gf)
	nw.quiesce(2 * time.Second)
	if fail("abort-2", b.cmdAbort()) {
		return
	}
	nw.quiesce(2 * time.Second)
	// 4. the same reshare, execution fails (every bundle is lost)
	if fail("reshare-2", reshare()) {
		return
	}
	_ = a.cmdAccept()
	_ = c.cmdAccept()
	_ = e.cmdJoin(gf)
	nw.setDropBundles(true)
	if fail("execute-2", b.cmdExecute()) {
		return
	}
	vfdWaitOutcome(second, 2, 20*time.Second)
	nw.setDropBundles(false)
	nw.drain(10 * time.Second)
	_ = d.cmdAbort() // the leaver abandons the failed attempt
	// 5. retry at the same epoch, completes
	if fail("reshare-3", reshare()) {
		return
	}
	_ = a.cmdAccept()
	_ = c.cmdAccept()
	_ = e.cmdJoin(gf)
	if fail("execute-3", b.cmdExecute()) {
		return
	}
	out = vfdWaitOutcome(second, 2, 30*time.Second)
	run.Seen("c20_script_outcomes", fmt.Sprint(out))
	nw.drain(10 * time.Second)
	nw.addCounters(run)
	run.Count("dkg_scripts_run", 1)
	if idx < 2 {
		run.Sample(map[string]any{"case_index": idx, "scheme": schName, "beacon_id": beaconID, "script": "abort, first epoch, reshare aborted, reshare failed, reshare completed", "final_outcome": out})
	}
}
