package dkg

// C09 — DKG control messages are accepted only from the member they claim to be from.
//
// Oracle (DESIGN §4 C09). A gossip packet is sent straight to a victim's Process.Packet. The victim is a fork of a
// node of a world whose states were reached by real commands (c09_env.go). The harness knows, by its own
// bookkeeping, which private key signed the packet, which node the packet claims as sender, what was signed and
// what was altered afterwards. From that alone (never from the code's answer) it computes `authentic`:
//
//   * a packet altered in any field after signing is not authentic;
//   * a packet whose signature was made over terms other than the ones the victim applies is not authentic;
//   * proposal -> victim that already belongs to the group (has a FinalGroup): authentic iff signed with the real
//     key of a node of that group, that node is named as leader in the terms and as sender in the metadata;
//   * proposal -> newcomer (no group): authentic iff sender == leader named in the terms, the packet lists a key for
//     the sender's address, that key carries a valid self-signature for the scheme, and the packet signature was
//     made with that key (a newcomer has nothing else to check against);
//   * execute / abort: authentic iff signed with the real key of the leader of the victim's stored proposal and
//     claiming the leader as sender;
//   * accept / reject: authentic iff the acceptor is a remaining member of the stored proposal, is the claimed
//     sender, and its real key signed.
//
// Violation: a packet that is not authentic and after which the raw content of the victim's dkg.db (all buckets,
// all keys) differs. "Success without effect" (answer ok, database unchanged — e.g. the SeenPackets dedupe that
// answers before authenticating) is counted, not a violation: the statement is about *changing* state.
// Every (stage, victim, type) group has a positive control: the honest packet must be accepted (ok + db change)
// on a pristine fork, otherwise all cells of the group are inconclusive.

import (
	"context"
	"fmt"
	"os"
	"sort"
	"strings"
	"testing"
	"time"

	"google.golang.org/protobuf/proto"
	"google.golang.org/protobuf/types/known/timestamppb"

	"github.com/drand/drand/v2/common/key"
	"github.com/drand/drand/v2/crypto"
	drand "github.com/drand/drand/v2/protobuf/dkg"
)

// ---------------------------------------------------------------- cells

type c09Cell struct {
	Idx     int    `json:"case_index"`
	Scheme  string `json:"scheme"`
	Epoch   int    `json:"epoch"`
	Stage   string `json:"stage"`
	Victim  string `json:"victim_role"`
	VNode   string `json:"victim_node"`
	Type    string `json:"type"`
	Sender  string `json:"sender,omitempty"`
	Key     string `json:"key,omitempty"`     // right | other | sub | sub-nosig
	Variant string `json:"variant,omitempty"` // proposal: self|keep ; accept/reject: self|for-member
	Mut     string `json:"mutation,omitempty"`
	I       int    `json:"i,omitempty"`
	J       int    `json:"j,omitempty"`
	Stale   string `json:"signed_over,omitempty"`
	Chain   string `json:"chain,omitempty"`
	Dup     string `json:"duplicate_address,omitempty"` // "<list of the second entry>/<attacker-first|genuine-first>"
	Shape   string `json:"proposal_shape,omitempty"`    // "" = the terms the real leader proposed; "alt" = c09AltTerms
}

func (c *c09Cell) key() string {
	return fmt.Sprintf("%s|e%d|%s|%s|%s|%s|%s|%s|%s|%d|%d|%s|%s", c.Scheme, c.Epoch, c.Stage, c.Type, c.Sender, c.Key, c.Variant, c.Victim, c.Mut, c.I, c.J, c.Stale, c.Chain) + "|" + c.Dup + "|" + c.Shape
}

type c09Group struct {
	Epoch  int
	Stage  string
	Victim string // role
	VNode  string
	Type   string
	// Family selects which cells are generated: "" the full matrix, "dup" duplicate-address forgeries,
	// "boundary" list-boundary moves on the alternative proposal shape
	Family string
	Shape  string
	Cells  []*c09Cell
}

// who plays a sender role, given the victim node (a sender is never the victim itself, except the leader)
func c09SenderNode(epoch int, role, vnode string) string {
	if epoch == 1 {
		switch role {
		case "leader":
			return "A"
		case "member":
			if vnode == "C" {
				return "D"
			}
			return "C"
		case "joiner":
			if vnode == "D" {
				return "F"
			}
			return "D"
		case "outsider":
			return "O"
		}
		return ""
	}
	switch role {
	case "leader":
		return "A"
	case "member":
		if vnode == "B" {
			return "C"
		}
		return "B"
	case "joiner":
		if vnode == "E" {
			return "G"
		}
		return "E"
	case "leaver":
		if vnode == "D" {
			return "F"
		}
		return "D"
	case "outsider":
		return "O"
	}
	return ""
}

func c09OtherKeyNode(snode, vnode string) string {
	for _, n := range []string{"B", "C", "D"} {
		if n != snode && n != vnode {
			return n
		}
	}
	return "F"
}

var c09Roles = []string{"leader", "member", "joiner", "leaver", "outsider"}

func c09Lists(epoch int) map[string]int {
	if epoch == 1 {
		return map[string]int{"joining": 5}
	}
	return map[string]int{"remaining": 3, "joining": 2, "leaving": 2}
}

func c09GenGroups(schemeName string, seed uint64, thorough bool) []*c09Group {
	var groups []*c09Group
	add := func(epoch int, stage, victim, vnode, typ string) {
		groups = append(groups, &c09Group{Epoch: epoch, Stage: stage, Victim: victim, VNode: vnode, Type: typ})
	}
	// epoch 1: everybody is a newcomer
	add(1, "fresh", "leader", "A", "proposal")
	add(1, "fresh", "joiner", "B", "proposal")
	for _, typ := range []string{"execute", "abort"} {
		add(1, "e1-joined", "leader", "A", typ)
		add(1, "e1-joined", "joiner", "B", typ)
	}
	// epoch 2: A B C D F belong to the group, E G are newcomers
	victims := [][2]string{{"leader", "A"}, {"remainer", "C"}, {"joiner", "E"}, {"leaver", "D"}}
	for _, v := range victims {
		add(2, "e1-complete", v[0], v[1], "proposal")
	}
	for _, typ := range []string{"accept", "reject"} {
		for _, v := range victims {
			add(2, "e2-proposed", v[0], v[1], typ)
		}
	}
	for _, typ := range []string{"execute", "abort"} {
		for _, v := range victims {
			add(2, "e2-accepted", v[0], v[1], typ)
		}
	}
	if thorough {
		for _, v := range victims {
			add(2, "e2-proposed", v[0], v[1], "abort")
		}
	}
	// the retry at the same epoch: the attempt for epoch 2 has failed / timed out / been aborted on the victim, the
	// next proposal is again judged against the group of epoch 1
	for _, stage := range []string{"e2-failed", "e2-timedout", "e2-aborted"} {
		for _, v := range [][2]string{{"remainer", "C"}, {"leaver", "D"}} {
			add(2, stage, v[0], v[1], "proposal")
		}
	}
	// duplicate-address forgeries: current group members only (a newcomer has no recorded key to prefer)
	for _, v := range victims {
		if v[0] != "joiner" {
			groups = append(groups, &c09Group{Epoch: 2, Stage: "e1-complete", Victim: v[0], VNode: v[1], Type: "proposal", Family: "dup"})
		}
	}
	// list-boundary moves on a proposal shape in which they keep every validity constraint (c09AltTerms)
	for _, v := range [][2]string{{"leader", "A"}, {"remainer", "C"}, {"joiner", "E"}, {"leaver", "F"}} {
		groups = append(groups, &c09Group{Epoch: 2, Stage: "e1-complete", Victim: v[0], VNode: v[1], Type: "proposal", Family: "boundary", Shape: "alt"})
	}
	for gi, g := range groups {
		rng := vfNewRng(vfCaseSeed(seed, "C09/"+schemeName, gi))
		cell := func(c c09Cell) {
			c.Scheme, c.Epoch, c.Stage, c.Victim, c.VNode, c.Type, c.Shape = schemeName, g.Epoch, g.Stage, g.Victim, g.VNode, g.Type, g.Shape
			cc := c
			g.Cells = append(g.Cells, &cc)
		}
		switch g.Family {
		case "dup":
			// the claimed sender's address twice: once with a fresh attacker key (named leader, signs the packet), once
			// with the genuine key; second entry in Remaining, Leaving or Joining; both orders
			for _, role := range []string{"leader", "member"} {
				for _, where := range []string{"remaining", "leaving", "joining"} {
					for _, order := range []string{"attacker-first", "genuine-first", "genuine-first-genuine-leader"} {
						cell(c09Cell{Sender: role, Key: "sub", Variant: "self", Dup: where + "/" + order})
					}
				}
			}
			continue
		case "boundary":
			// messageForSigning serialises Joining, Remaining, Leaving in that order: entries moved across a boundary
			// without changing the concatenated order
			for _, m := range []string{"boundary.remaining-tail-to-leaving-head", "boundary.leaving-head-to-remaining-tail",
				"boundary.joining-tail-to-remaining-head", "boundary.remaining-head-to-joining-tail"} {
				for k := 1; k <= 2; k++ {
					cell(c09Cell{Mut: m, I: k})
				}
			}
			cell(c09Cell{Mut: "boundary.joining-tail-to-remaining-head-and-remaining-tail-to-leaving-head", I: 1})
			cell(c09Cell{Mut: "meta.signature"})
			continue
		}
		// (1) sender x key x variant, nothing altered
		for _, role := range c09Roles {
			if c09SenderNode(g.Epoch, role, g.VNode) == "" {
				continue
			}
			keys := []string{"right", "other", "sub"}
			variants := []string{"self"}
			switch g.Type {
			case "proposal":
				keys = append(keys, "sub-nosig")
				if role != "leader" {
					variants = append(variants, "keep")
				}
			case "accept", "reject":
				if role != "member" {
					variants = append(variants, "for-member")
				}
			}
			for _, k := range keys {
				for _, v := range variants {
					honest := k == "right" && v == "self" && ((g.Type == "accept" || g.Type == "reject") && role == "member" ||
						(g.Type != "accept" && g.Type != "reject") && role == "leader")
					if honest {
						continue // that is the positive control
					}
					cell(c09Cell{Sender: role, Key: k, Variant: v})
				}
			}
		}
		// (2) one field altered after signing, on the honest packet
		for _, m := range c09Mutations(g, rng, thorough) {
			cell(m)
		}
		// (3) signed by the rightful sender with the right key, but over other terms than the victim applies
		for _, s := range c09StaleKinds(g, thorough) {
			cell(c09Cell{Stale: s})
		}
		// (4) two-step chain: the real leader swaps a member's key in the proposal; then that member "accepts" with the
		// swapped key. Existing members only.
		if g.Type == "accept" && g.Epoch == 2 && g.Victim != "joiner" {
			cell(c09Cell{Chain: "leader-swaps-member-key-then-accept", Sender: "member", Key: "sub"})
		}
	}
	return groups
}

func c09StaleKinds(g *c09Group, thorough bool) []string {
	kinds := []string{"epoch", "threshold", "timeout", "remaining-or-joining.signature"}
	if thorough {
		kinds = append(kinds, "catchup", "period", "scheme", "genesis_time", "leader.address", "list-order", "terms.beaconID")
	}
	if g.Type == "proposal" {
		if g.Epoch == 1 {
			return nil
		}
		// a proposal carrying new terms but signed over the victim's *current* (epoch 1) terms
		return []string{"current-epoch-terms"}
	}
	if g.Epoch == 2 {
		kinds = append(kinds, "previous-epoch-terms")
	}
	return kinds
}

func c09Mutations(g *c09Group, rng *vfRng, thorough bool) []c09Cell {
	var out []c09Cell
	m := func(name string, ij ...int) {
		c := c09Cell{Mut: name}
		if len(ij) > 0 {
			c.I = ij[0]
		}
		if len(ij) > 1 {
			c.J = ij[1]
		}
		out = append(out, c)
	}
	for _, s := range []string{"meta.beaconID", "meta.beaconID-known-other", "meta.address", "meta.signature"} {
		m(s)
	}
	switch g.Type {
	case "proposal":
		for _, s := range []string{"epoch+1", "epoch-1", "threshold+1", "threshold-1", "timeout+1s", "timeout+1ns", "catchup+1", "period+1",
			"scheme", "genesis_time+1s", "genesis_time+1ns", "genesis_seed", "terms.beaconID",
			"leader.address", "leader.key", "leader.signature"} {
			m(s)
		}
		lists := c09Lists(g.Epoch)
		names := make([]string, 0, len(lists))
		for n := range lists {
			names = append(names, n)
		}
		sort.Strings(names)
		for _, ln := range names {
			n := lists[ln]
			idxs := []int{rng.Intn(n)}
			if thorough {
				idxs = idxs[:0]
				for i := 0; i < n; i++ {
					idxs = append(idxs, i)
				}
			}
			for _, i := range idxs {
				for _, f := range []string{"address", "key", "keyflip", "signature", "sigswap", "member-removed", "member-duplicated"} {
					m(ln+"."+f, i)
				}
				for _, other := range names {
					if other != ln {
						m(ln+".member-moved-to-"+other, i)
					}
				}
			}
			m(ln + ".member-added")
			if n >= 2 {
				i := rng.Intn(n)
				j := (i + 1 + rng.Intn(n-1)) % n
				m(ln+".order", i, j)
			}
		}
		if g.Epoch == 2 {
			m("remaining.member-added-from-nowhere-as-leaver")
		}
	case "accept", "reject":
		who := "acceptor"
		if g.Type == "reject" {
			who = "rejector"
		}
		for _, f := range []string{"address", "key", "keyflip", "signature"} {
			m(who + "." + f)
		}
		m("type-swap")
		if g.Type == "reject" {
			for _, f := range []string{"reject.reason", "reject.secret", "reject.previous_group_hash", "reject.proposal_hash"} {
				m(f)
			}
		}
	case "execute":
		for _, s := range []string{"time+1s", "time+1ns", "time-nil", "type-swap"} {
			m(s)
		}
	case "abort":
		for _, s := range []string{"reason", "type-swap"} {
			m(s)
		}
	}
	return out
}

// unapplied: fields of a packet that are neither signed nor applied to the state (RejectProposal's reason, secret,
// hashes). Altering them is reported as a counter only: the statement speaks of the terms being applied and the sender.
func c09Unapplied(mut string) bool { return strings.HasPrefix(mut, "reject.") }

func c09MutField(mut string) string {
	switch {
	case strings.HasSuffix(mut, ".keyflip"):
		return strings.TrimSuffix(mut, "flip")
	case strings.HasSuffix(mut, ".sigswap"):
		return strings.TrimSuffix(mut, "sigswap") + "signature"
	case strings.Contains(mut, ".member-moved-to-"):
		return mut[:strings.Index(mut, ".")] + ".member-moved"
	}
	for _, suf := range []string{"+1s", "+1ns", "+1", "-1", "-nil", "-known-other"} {
		if strings.HasSuffix(mut, suf) {
			return strings.TrimSuffix(mut, suf)
		}
	}
	return mut
}

// ---------------------------------------------------------------- building packets

type c09Built struct {
	Pkt       *drand.GossipPacket
	Authentic bool
	Why       string // why it is (not) authentic
	Class     string // "" | "newcomer-unverifiable" | "unapplied"
	Pre       *drand.GossipPacket // chain: packet to send first
	NA        string              // not applicable: reason
}

func c09ListOf(t *drand.ProposalTerms, name string) *[]*drand.Participant {
	switch name {
	case "joining":
		return &t.Joining
	case "remaining":
		return &t.Remaining
	case "leaving":
		return &t.Leaving
	}
	return nil
}

func c09Flip(b []byte, rng *vfRng) []byte {
	out := append([]byte{}, b...)
	if len(out) == 0 {
		return []byte{1}
	}
	i := rng.Intn(len(out))
	out[i] ^= 1 << uint(rng.Intn(8))
	return out
}

type c09Builder struct {
	w   *c09World
	rng *vfRng
}

func (b *c09Builder) kp(node string) *key.Pair {
	if node == "O" {
		return b.w.Outsider
	}
	return b.w.Nodes[node].KP
}

func (b *c09Builder) part(node string) *drand.Participant {
	return c09Participant(b.kp(node))
}

func (b *c09Builder) freshKey(addr string) *key.Pair {
	kp, err := key.NewKeyPair(addr, b.w.Scheme)
	if err != nil {
		panic(err)
	}
	return kp
}

func (b *c09Builder) farFuture() *timestamppb.Timestamp {
	return timestamppb.New(time.Now().Add(5 * time.Hour).Truncate(time.Microsecond))
}

// body builds the unsigned packet of a type; subject is the acceptor/rejector.
func (b *c09Builder) body(typ string, terms *drand.ProposalTerms, subject *drand.Participant) *drand.GossipPacket {
	switch typ {
	case "proposal":
		return &drand.GossipPacket{Packet: &drand.GossipPacket_Proposal{Proposal: terms}}
	case "accept":
		return &drand.GossipPacket{Packet: &drand.GossipPacket_Accept{Accept: &drand.AcceptProposal{Acceptor: subject}}}
	case "reject":
		return &drand.GossipPacket{Packet: &drand.GossipPacket_Reject{Reject: &drand.RejectProposal{Rejector: subject}}}
	case "execute":
		return &drand.GossipPacket{Packet: &drand.GossipPacket_Execute{Execute: &drand.StartExecution{Time: b.farFuture()}}}
	case "abort":
		return &drand.GossipPacket{Packet: &drand.GossipPacket_Abort{Abort: &drand.AbortDKG{Reason: "none"}}}
	}
	panic("unknown type " + typ)
}

func (b *c09Builder) terms(epoch int) *drand.ProposalTerms {
	return proto.Clone(b.w.Terms[epoch]).(*drand.ProposalTerms)
}

// altTerms: an epoch-2 proposal by the real leader A in which one entry can cross either list boundary without
// breaking a validity rule: joining [E G], remaining [B A C D] (leader not first), leaving [F], threshold 4
// (n=6 needs >= 4; after a move n is 5..7 and 4 stays within [MinimumT(n), n]; remaining never drops below the old
// threshold 3 when one entry moves). Everything else as in the real epoch-2 proposal.
func (b *c09Builder) altTerms() *drand.ProposalTerms {
	t := b.terms(2)
	t.Joining = []*drand.Participant{b.part("E"), b.part("G")}
	t.Remaining = []*drand.Participant{b.part("B"), b.part("A"), b.part("C"), b.part("D")}
	t.Leaving = []*drand.Participant{b.part("F")}
	t.Threshold = 4
	t.Leader = b.part("A")
	return t
}

// honest returns the untouched honest packet of a group (the positive control).
func (b *c09Builder) honest(g *c09Group) *drand.GossipPacket {
	w := b.w
	switch g.Type {
	case "proposal":
		if g.Shape == "alt" {
			t := b.altTerms()
			pkt := b.body("proposal", t, nil)
			must(c09Sign(b.kp("A"), w.BeaconID, b.kp("A").Public.Address(), pkt, t))
			return pkt
		}
		return proto.Clone(w.Real[fmt.Sprintf("proposal%d", g.Epoch)]).(*drand.GossipPacket)
	case "accept", "reject":
		pkt := b.body(g.Type, nil, b.part("B"))
		must(c09Sign(b.kp("B"), w.BeaconID, b.kp("B").Public.Address(), pkt, b.terms(g.Epoch)))
		return pkt
	default:
		pkt := b.body(g.Type, nil, nil)
		must(c09Sign(b.kp("A"), w.BeaconID, b.kp("A").Public.Address(), pkt, b.terms(g.Epoch)))
		return pkt
	}
}

func must(err error) {
	if err != nil {
		panic(err)
	}
}

// substitute replaces every entry with address addr in the terms by np; reports whether one was found.
func c09Substitute(t *drand.ProposalTerms, addr string, np *drand.Participant) bool {
	found := false
	for _, l := range []*[]*drand.Participant{&t.Joining, &t.Remaining, &t.Leaving} {
		for i, p := range *l {
			if p.GetAddress() == addr {
				(*l)[i] = proto.Clone(np).(*drand.Participant)
				found = true
			}
		}
	}
	if t.Leader.GetAddress() == addr {
		t.Leader = proto.Clone(np).(*drand.Participant)
	}
	return found
}

func c09InLists(t *drand.ProposalTerms, addr string, lists ...string) bool {
	for _, ln := range lists {
		for _, p := range *c09ListOf(t, ln) {
			if p.GetAddress() == addr {
				return true
			}
		}
	}
	return false
}

func (b *c09Builder) build(g *c09Group, c *c09Cell) (out c09Built) {
	w := b.w
	victimExisting := g.Epoch == 2 && g.Victim != "joiner" // has a FinalGroup from epoch 1
	groupMember := func(n string) bool { return n == "A" || n == "B" || n == "C" || n == "D" || n == "F" }

	if c.Chain != "" {
		return b.buildChain(g, c)
	}
	if c.Dup != "" {
		return b.buildDup(g, c)
	}
	if c.Mut != "" {
		pkt := b.honest(g)
		if na := b.mutate(g, c, pkt); na != "" {
			out.NA = na
			return out
		}
		out.Pkt = pkt
		out.Authentic = false
		out.Why = "field " + c.Mut + " altered after signing"
		if c09Unapplied(c.Mut) {
			out.Class = "unapplied"
		}
		return out
	}
	if c.Stale != "" {
		return b.buildStale(g, c)
	}

	snode := c09SenderNode(g.Epoch, c.Sender, g.VNode)
	sp := b.part(snode)
	signer := b.kp(snode)
	terms := b.terms(g.Epoch)
	substituted := false
	switch c.Key {
	case "other":
		signer = b.kp(c09OtherKeyNode(snode, g.VNode))
	case "sub", "sub-nosig":
		x := b.freshKey(sp.Address)
		xp := c09Participant(x)
		if c.Key == "sub-nosig" {
			xp.Signature = append([]byte{}, sp.Signature...) // the member's own identity signature: not valid for x
		}
		if g.Type == "proposal" {
			if !c09Substitute(terms, sp.Address, xp) {
				// an outsider: put the attacker key into the list a leader has to be in
				if g.Epoch == 1 {
					terms.Joining = append(terms.Joining, proto.Clone(xp).(*drand.Participant))
				} else {
					terms.Remaining = append(terms.Remaining, proto.Clone(xp).(*drand.Participant))
				}
			}
		}
		sp = xp
		signer = x
		substituted = true
	}

	var pkt *drand.GossipPacket
	signTerms := terms
	switch g.Type {
	case "proposal":
		if c.Variant == "self" {
			terms.Leader = proto.Clone(sp).(*drand.Participant)
		}
		pkt = b.body("proposal", terms, nil)
	case "accept", "reject":
		subject := sp
		if c.Variant == "for-member" {
			subject = b.part("B")
		}
		pkt = b.body(g.Type, nil, proto.Clone(subject).(*drand.Participant))
		signTerms = b.terms(g.Epoch)
	default:
		pkt = b.body(g.Type, nil, nil)
		signTerms = b.terms(g.Epoch)
	}
	must(c09Sign(signer, w.BeaconID, sp.Address, pkt, signTerms))
	out.Pkt = pkt

	// ---- authenticity by the harness's bookkeeping
	switch g.Type {
	case "proposal":
		if c.Variant != "self" {
			out.Why = "sender is not the leader named in the terms"
			return out
		}
		if victimExisting {
			if c.Key != "right" {
				out.Why = "not signed with the key the victim's current group records for " + snode
				return out
			}
			if !groupMember(snode) {
				out.Why = "sender is not a member of the victim's current group"
				return out
			}
			out.Authentic, out.Why = true, "signed by group member "+snode+" with its real key, naming itself leader"
			return out
		}
		// newcomer
		listed := c09InLists(terms, sp.Address, "remaining", "joining")
		switch {
		case !listed:
			out.Why = "sender's address is in no list of the packet"
		case c.Key == "other":
			out.Why = "signed with another node's key than the one listed for the sender"
		case c.Key == "sub-nosig":
			out.Why = "the key listed for the sender carries no valid self-signature"
		case c.Key == "sub":
			out.Authentic, out.Class, out.Why = true, "newcomer-unverifiable", "self-signed key listed for the sender signed the packet; a newcomer cannot tell it from the real one"
		default:
			out.Authentic, out.Why = true, "signed with the real, self-signed key listed for the sender, who names itself leader"
		}
		_ = substituted
		return out
	case "accept", "reject":
		remaining := snode == "A" || snode == "B" || snode == "C"
		switch {
		case c.Key != "right":
			out.Why = "not signed with the key the victim's state records for " + snode
		case c.Variant != "self":
			out.Why = "signed by " + snode + " on behalf of B"
		case g.Epoch != 2 || !remaining:
			out.Why = snode + " is not a remaining member: not entitled to accept/reject"
		default:
			out.Authentic, out.Why = true, "remaining member "+snode+" signs for itself with its real key"
		}
		return out
	default:
		switch {
		case c.Key != "right":
			out.Why = "not signed with the key the victim's state records for " + snode
		case snode != "A":
			out.Why = snode + " is not the leader: not entitled to " + g.Type
		default:
			out.Authentic, out.Why = true, "leader, real key"
		}
		return out
	}
}

// buildStale: the rightful sender signs with its real key, but over terms that differ from what the victim applies.
func (b *c09Builder) buildStale(g *c09Group, c *c09Cell) (out c09Built) {
	w := b.w
	st := b.terms(g.Epoch)
	switch c.Stale {
	case "epoch":
		st.Epoch++
	case "threshold":
		st.Threshold++
	case "timeout":
		st.Timeout = timestamppb.New(st.Timeout.AsTime().Add(time.Second))
	case "catchup":
		st.CatchupPeriodSeconds++
	case "period":
		st.BeaconPeriodSeconds++
	case "scheme":
		st.SchemeID = c09OtherScheme(st.SchemeID)
	case "genesis_time":
		st.GenesisTime = timestamppb.New(st.GenesisTime.AsTime().Add(time.Second))
	case "terms.beaconID":
		st.BeaconID += "x"
	case "leader.address":
		st.Leader.Address = b.kp("O").Public.Address()
	case "remaining-or-joining.signature":
		l := &st.Remaining
		if len(*l) == 0 {
			l = &st.Joining
		}
		(*l)[len(*l)-1].Signature = c09Flip((*l)[len(*l)-1].Signature, b.rng)
	case "list-order":
		l := &st.Remaining
		if len(*l) < 2 {
			l = &st.Joining
		}
		(*l)[0], (*l)[1] = (*l)[1], (*l)[0]
	case "previous-epoch-terms", "current-epoch-terms":
		st = b.terms(1)
	default:
		out.NA = "unknown stale kind"
		return out
	}
	var pkt *drand.GossipPacket
	signer := "A"
	switch g.Type {
	case "proposal":
		pkt = b.body("proposal", b.terms(g.Epoch), nil)
	case "accept", "reject":
		signer = "B"
		pkt = b.body(g.Type, nil, b.part("B"))
	default:
		pkt = b.body(g.Type, nil, nil)
	}
	must(c09Sign(b.kp(signer), w.BeaconID, b.kp(signer).Public.Address(), pkt, st))
	out.Pkt = pkt
	out.Why = "signature made over other terms (" + c.Stale + ") than the ones the victim applies"
	return out
}

// buildDup: a forged reshare proposal in which the claimed sender's address occurs twice: one entry carries a fresh
// attacker key x (x is named leader and signs the packet), the other the genuine key. The forger is free to choose the
// terms, so the threshold is raised where the extra entry would otherwise make it too low.
func (b *c09Builder) buildDup(g *c09Group, c *c09Cell) (out c09Built) {
	w := b.w
	snode := c09SenderNode(g.Epoch, c.Sender, g.VNode)
	sp := b.part(snode)
	x := b.freshKey(sp.Address)
	xp := c09Participant(x)
	parts := strings.SplitN(c.Dup, "/", 2)
	where, order := parts[0], parts[1]
	t := b.terms(g.Epoch)
	second := c09ListOf(t, where)
	pos := -1
	for i, p := range t.Remaining {
		if p.GetAddress() == sp.Address {
			pos = i
		}
	}
	if pos < 0 || second == nil {
		out.NA = "claimed sender is not a remaining member of the real proposal"
		return out
	}
	if order == "attacker-first" {
		t.Remaining[pos] = proto.Clone(xp).(*drand.Participant)
		*second = append(*second, proto.Clone(sp).(*drand.Participant))
	} else {
		*second = append(*second, proto.Clone(xp).(*drand.Participant))
	}
	if order != "genuine-first-genuine-leader" {
		// (in the third order the leader entry keeps the genuine key: only the signature comes from the extra entry)
		t.Leader = proto.Clone(xp).(*drand.Participant)
	}
	if n := len(t.Remaining) + len(t.Joining); int(t.Threshold) < n/2+1 {
		t.Threshold = uint32(n/2 + 1)
	}
	pkt := b.body("proposal", t, nil)
	must(c09Sign(x, w.BeaconID, sp.Address, pkt, t))
	out.Pkt = pkt
	out.Why = "signed with a fresh key listed under " + snode + "'s address; the key the victim's current group records for " + snode +
		" only sits in a second entry with the same address (" + c.Dup + ")"
	return out
}

// buildChain: step 1 (Pre) the real leader A proposes epoch 2 with B's key replaced by an attacker key x (signed by
// A's real key: the proposal itself is authentic). Step 2 (Pkt): x signs an acceptance in B's name.
func (b *c09Builder) buildChain(g *c09Group, c *c09Cell) (out c09Built) {
	w := b.w
	bp := b.part("B")
	x := b.freshKey(bp.Address)
	xp := c09Participant(x)
	terms := b.terms(2)
	c09Substitute(terms, bp.Address, xp)
	pre := b.body("proposal", terms, nil)
	must(c09Sign(b.kp("A"), w.BeaconID, b.kp("A").Public.Address(), pre, terms))
	pkt := b.body(g.Type, nil, proto.Clone(xp).(*drand.Participant))
	must(c09Sign(x, w.BeaconID, bp.Address, pkt, terms))
	out.Pre, out.Pkt = pre, pkt
	out.Why = "acceptance in B's name signed by a key that is not B's key in the victim's current group (it was supplied by the proposal)"
	return out
}

// c09MoveTailToHead moves the last k entries of src, in order, to the front of dst (dst follows src in the signed
// serialisation, so the concatenation src||dst is unchanged).
func c09MoveTailToHead(src, dst *[]*drand.Participant, k int) bool {
	if k <= 0 || len(*src) < k {
		return false
	}
	cut := len(*src) - k
	moved := append([]*drand.Participant{}, (*src)[cut:]...)
	*src = append([]*drand.Participant{}, (*src)[:cut]...)
	*dst = append(moved, *dst...)
	return true
}

// c09MoveHeadToTail moves the first k entries of src, in order, to the end of dst (dst precedes src in the signed
// serialisation).
func c09MoveHeadToTail(src, dst *[]*drand.Participant, k int) bool {
	if k <= 0 || len(*src) < k {
		return false
	}
	moved := append([]*drand.Participant{}, (*src)[:k]...)
	*src = append([]*drand.Participant{}, (*src)[k:]...)
	*dst = append(*dst, moved...)
	return true
}

func c09OtherScheme(id string) string {
	for _, s := range crypto.ListSchemes() {
		if s != id {
			return s
		}
	}
	return "x"
}

// mutate alters exactly one field of a signed packet. Returns a non-empty reason if not applicable.
func (b *c09Builder) mutate(g *c09Group, c *c09Cell, pkt *drand.GossipPacket) string {
	w := b.w
	oAddr := b.kp("O").Public.Address()
	before := proto.Clone(pkt).(*drand.GossipPacket)
	mut := c.Mut
	switch mut {
	case "meta.beaconID":
		pkt.Metadata.BeaconID += "x"
	case "meta.beaconID-known-other":
		pkt.Metadata.BeaconID = c09OtherBeacon
	case "meta.address":
		// claim another node of the proposal as sender
		if pkt.Metadata.Address == b.kp("C").Public.Address() {
			pkt.Metadata.Address = b.kp("B").Public.Address()
		} else {
			pkt.Metadata.Address = b.kp("C").Public.Address()
		}
	case "meta.signature":
		pkt.Metadata.Signature = c09Flip(pkt.Metadata.Signature, b.rng)
	case "type-swap":
		switch g.Type {
		case "accept":
			pkt.Packet = &drand.GossipPacket_Reject{Reject: &drand.RejectProposal{Rejector: pkt.GetAccept().Acceptor}}
		case "reject":
			pkt.Packet = &drand.GossipPacket_Accept{Accept: &drand.AcceptProposal{Acceptor: pkt.GetReject().Rejector}}
		case "execute":
			pkt.Packet = &drand.GossipPacket_Abort{Abort: &drand.AbortDKG{Reason: "none"}}
		case "abort":
			pkt.Packet = &drand.GossipPacket_Execute{Execute: &drand.StartExecution{Time: b.farFuture()}}
		}
	case "time+1s":
		pkt.GetExecute().Time = timestamppb.New(pkt.GetExecute().Time.AsTime().Add(time.Second))
	case "time+1ns":
		pkt.GetExecute().Time = timestamppb.New(pkt.GetExecute().Time.AsTime().Add(time.Nanosecond))
	case "time-nil":
		pkt.GetExecute().Time = nil
	case "reason":
		pkt.GetAbort().Reason = "other"
	case "reject.reason":
		pkt.GetReject().Reason = "because"
	case "reject.secret":
		pkt.GetReject().Secret = []byte{1, 2, 3}
	case "reject.previous_group_hash":
		pkt.GetReject().PreviousGroupHash = []byte{1, 2, 3}
	case "reject.proposal_hash":
		pkt.GetReject().ProposalHash = []byte{1, 2, 3}
	default:
		var who *drand.Participant
		var t *drand.ProposalTerms
		field := ""
		switch {
		case strings.HasPrefix(mut, "acceptor."):
			who, field = pkt.GetAccept().Acceptor, strings.TrimPrefix(mut, "acceptor.")
		case strings.HasPrefix(mut, "rejector."):
			who, field = pkt.GetReject().Rejector, strings.TrimPrefix(mut, "rejector.")
		default:
			t = pkt.GetProposal()
			if t == nil {
				return "no terms in this packet type"
			}
		}
		if t != nil {
			switch mut {
			case "epoch+1":
				t.Epoch++
			case "epoch-1":
				t.Epoch--
			case "threshold+1":
				t.Threshold++
			case "threshold-1":
				t.Threshold--
			case "timeout+1s":
				t.Timeout = timestamppb.New(t.Timeout.AsTime().Add(time.Second))
			case "timeout+1ns":
				t.Timeout = timestamppb.New(t.Timeout.AsTime().Add(time.Nanosecond))
			case "catchup+1":
				t.CatchupPeriodSeconds++
			case "period+1":
				t.BeaconPeriodSeconds++
			case "scheme":
				t.SchemeID = c09OtherScheme(t.SchemeID)
			case "genesis_time+1s":
				t.GenesisTime = timestamppb.New(t.GenesisTime.AsTime().Add(time.Second))
			case "genesis_time+1ns":
				t.GenesisTime = timestamppb.New(t.GenesisTime.AsTime().Add(time.Nanosecond))
			case "genesis_seed":
				if len(t.GenesisSeed) == 0 {
					t.GenesisSeed = b.rng.Bytes(32)
				} else {
					t.GenesisSeed = c09Flip(t.GenesisSeed, b.rng)
				}
			case "terms.beaconID":
				t.BeaconID += "x"
			case "remaining.member-added-from-nowhere-as-leaver":
				t.Leaving = append(t.Leaving, b.part("O"))
			case "boundary.remaining-tail-to-leaving-head":
				if !c09MoveTailToHead(&t.Remaining, &t.Leaving, c.I) {
					return "list too short"
				}
			case "boundary.leaving-head-to-remaining-tail":
				if !c09MoveHeadToTail(&t.Leaving, &t.Remaining, c.I) {
					return "list too short"
				}
			case "boundary.joining-tail-to-remaining-head":
				if !c09MoveTailToHead(&t.Joining, &t.Remaining, c.I) {
					return "list too short"
				}
			case "boundary.remaining-head-to-joining-tail":
				if !c09MoveHeadToTail(&t.Remaining, &t.Joining, c.I) {
					return "list too short"
				}
			case "boundary.joining-tail-to-remaining-head-and-remaining-tail-to-leaving-head":
				if !c09MoveTailToHead(&t.Remaining, &t.Leaving, c.I) || !c09MoveTailToHead(&t.Joining, &t.Remaining, c.I) {
					return "list too short"
				}
			default:
				dot := strings.Index(mut, ".")
				if dot < 0 {
					return "unknown mutation " + mut
				}
				ln, f := mut[:dot], mut[dot+1:]
				if ln == "leader" {
					who, field = t.Leader, f
					break
				}
				l := c09ListOf(t, ln)
				if l == nil {
					return "unknown list " + ln
				}
				if c.I >= len(*l) && f != "member-added" {
					return "list too short"
				}
				switch {
				case f == "member-removed":
					*l = append(append([]*drand.Participant{}, (*l)[:c.I]...), (*l)[c.I+1:]...)
				case f == "member-duplicated":
					*l = append(*l, proto.Clone((*l)[c.I]).(*drand.Participant))
				case f == "member-added":
					*l = append(*l, b.part("O"))
				case f == "order":
					if c.J >= len(*l) || c.I == c.J {
						return "list too short"
					}
					(*l)[c.I], (*l)[c.J] = (*l)[c.J], (*l)[c.I]
				case strings.HasPrefix(f, "member-moved-to-"):
					dst := c09ListOf(t, strings.TrimPrefix(f, "member-moved-to-"))
					e := (*l)[c.I]
					*l = append(append([]*drand.Participant{}, (*l)[:c.I]...), (*l)[c.I+1:]...)
					*dst = append(*dst, e)
				default:
					who, field = (*l)[c.I], f
				}
			}
		}
		if who != nil || field != "" {
			if who == nil {
				return "no such participant"
			}
			switch field {
			case "address":
				if who.Address == oAddr {
					return "n/a"
				}
				who.Address = oAddr
			case "key":
				who.Key = c09Participant(b.freshKey(who.Address)).Key
			case "keyflip":
				who.Key = c09Flip(who.Key, b.rng)
			case "signature":
				who.Signature = c09Flip(who.Signature, b.rng)
			case "sigswap":
				// another participant's (valid, for its own key) identity signature
				o := b.part("O").Signature
				if string(o) == string(who.Signature) {
					return "n/a"
				}
				who.Signature = o
			default:
				return "unknown participant field " + field
			}
		}
	}
	_ = w
	if proto.Equal(before, pkt) {
		return "mutation left the packet unchanged"
	}
	return ""
}

const c09OtherBeacon = "vfc09-other"

// ---------------------------------------------------------------- running

type c09Obs struct {
	OK      bool
	Err     string
	Changed bool
	Diff    string
	Panic   string
	Site    string
}

type c09Runner struct {
	t     *testing.T
	run   *vfRun
	w     *c09World
}

func (r *c09Runner) send(f *c09Node, pkt *drand.GossipPacket) c09Obs {
	before, err := f.dump()
	if err != nil {
		r.t.Fatalf("dump: %v", err)
	}
	cp := proto.Clone(pkt).(*drand.GossipPacket)
	res := c09Call(30*time.Second, func() error {
		_, err := f.Proc.Packet(context.Background(), cp)
		return err
	})
	if res.TimedOut {
		r.t.Fatalf("Process.Packet did not return within 30s (C14 matter); goroutines:\n%s", vfGoroutineDump())
	}
	after, err := f.dump()
	if err != nil {
		r.t.Fatalf("dump: %v", err)
	}
	o := c09Obs{OK: res.OK, Err: res.Err, Panic: res.Panic}
	if res.Panic != "" {
		o.Site = c09PanicSite(res.Stack)
	}
	o.Diff = c09DumpDiff(before, after)
	o.Changed = o.Diff != ""
	return o
}

func c09Short(s string, n int) string {
	if len(s) > n {
		return s[:n] + "…"
	}
	return s
}

func c09Sig(g *c09Group, c *c09Cell) string {
	victimClass := "existing-member"
	if g.Epoch == 1 || g.Victim == "joiner" {
		victimClass = "newcomer"
	}
	switch {
	case c.Chain != "":
		return fmt.Sprintf("C09/forged-%s/%s-key-substituted-by-proposal/sender=%s", g.Type, victimClass, c.Sender)
	case c.Dup != "":
		return fmt.Sprintf("C09/forged-%s/%s-duplicate-address-remaining+%s/sender=%s", g.Type, victimClass, strings.ReplaceAll(c.Dup, "/", "-"), c.Sender)
	case c.Mut != "":
		return fmt.Sprintf("C09/unsigned-field/%s/%s/victim=%s", c09MutField(c.Mut), g.Type, victimClass)
	case c.Stale != "":
		return fmt.Sprintf("C09/signature-not-over-applied-terms/%s/%s/victim=%s", c.Stale, g.Type, victimClass)
	}
	k := map[string]string{"right": "unentitled-sender", "other": "other-members-key", "sub": "key-substituted", "sub-nosig": "key-substituted-no-selfsig"}[c.Key]
	s := c.Sender
	switch c.Variant {
	case "keep":
		s += "-not-leader"
	case "for-member":
		s += "-for-member"
	}
	return fmt.Sprintf("C09/forged-%s/%s-%s/sender=%s", g.Type, victimClass, k, s)
}

func (r *c09Runner) runGroup(g *c09Group, replay int, isReplay bool) {
	run, w := r.run, r.w
	b := &c09Builder{w: w, rng: vfNewRng(1)}
	newFork := func() *c09Node {
		f, err := w.fork(g.Stage, g.VNode, nil, c09OtherBeacon)
		if err != nil {
			r.t.Fatalf("fork: %v", err)
		}
		run.Count("forks", 1)
		return f
	}
	// ---- positive control on a pristine fork
	ctl := newFork()
	honest := b.honest(g)
	co := r.send(ctl, honest)
	run.Count("packets."+g.Type, 1)
	controlOK := co.OK && co.Changed
	gname := fmt.Sprintf("%s/e%d/%s/victim=%s/%s", w.Scheme.Name, g.Epoch, g.Stage, g.Victim, g.Type)
	if g.Family != "" {
		gname += "/" + g.Family
	}
	if controlOK {
		run.Count("controls.passed", 1)
		// replay of the accepted honest packet, and an altered packet re-using its (already seen) signature
		ro := r.send(ctl, honest)
		run.Count("packets."+g.Type, 1)
		if ro.Changed {
			run.Note("replay of the honest packet changed the db again in " + gname + ": " + ro.Diff)
		} else if ro.OK {
			run.Count("replay_ok_without_change", 1)
		} else {
			run.Count("replay_rejected", 1)
		}
		alt := proto.Clone(honest).(*drand.GossipPacket)
		alt.Metadata.Address = b.kp("O").Public.Address()
		ao := r.send(ctl, alt)
		run.Count("packets."+g.Type, 1)
		if ao.Changed {
			run.Violation("C09/seen-signature-reused/"+g.Type, "altered packet carrying an already-seen signature changed the db: "+ao.Diff, map[string]any{"group": gname})
		} else if ao.OK {
			run.Count("success_without_change", 1)
			run.Count("success_without_change.seen-signature-dedupe", 1)
		}
	} else {
		run.Count("controls.failed", 1)
		run.Note(fmt.Sprintf("positive control failed in %s: ok=%v changed=%v err=%s panic=%s", gname, co.OK, co.Changed, c09Short(co.Err, 200), co.Panic))
	}
	ctl.close()

	f := newFork()
	defer func() { f.close() }()
	for _, c := range g.Cells {
		if isReplay && c.Idx != replay {
			continue
		}
		b.rng = vfNewRng(vfCaseSeed(vfSeed(), "C09", c.Idx))
		built := b.build(g, c)
		if built.NA != "" {
			run.Count("cells.not_applicable", 1)
			continue
		}
		if built.Pre != nil {
			// the chain starts before the proposal: its own fork of the victim at the end of epoch 1
			f.close()
			cf, err := w.fork("e1-complete", g.VNode, nil, c09OtherBeacon)
			if err != nil {
				r.t.Fatalf("fork: %v", err)
			}
			run.Count("forks", 1)
			f = cf
			po := r.send(f, built.Pre)
			run.Count("packets.proposal", 1)
			if po.Changed {
				run.Count("chain.step1_accepted", 1)
			} else {
				run.Count("chain.step1_rejected", 1)
			}
		}
		o := r.send(f, built.Pkt)
		run.Count("packets."+g.Type, 1)
		if o.Panic != "" {
			run.Count("contained_panics", 1)
			run.Seen("panic_sites", o.Site)
			run.Note("contained panic at " + o.Site + " on " + c.Type + " " + c.Mut)
		}
		if o.Changed {
			run.Count("cells.accepted", 1)
		} else {
			run.Count("cells.rejected", 1)
		}
		info := map[string]any{"case_index": c.Idx, "cell": c, "answer_ok": o.OK, "answer_err": c09Short(o.Err, 300), "db_diff": o.Diff,
			"why_not_authentic": built.Why, "group": gname}
		switch {
		case !built.Authentic && built.Class == "unapplied":
			if o.Changed || o.OK {
				run.Count("unapplied_unsigned_field_accepted", 1)
				run.Seen("unapplied_unsigned_fields", c.Mut)
			}
		case !built.Authentic && o.Changed:
			sig := c09Sig(g, c)
			run.Violation(sig, fmt.Sprintf("victim %s(%s) in %s changed its dkg.db (%s) on a %s packet that is not authentic: %s; cell=%+v",
				g.VNode, g.Victim, g.Stage, o.Diff, g.Type, built.Why, *c), info)
		case !built.Authentic && o.OK:
			run.Count("success_without_change", 1)
			run.Note(fmt.Sprintf("success without change: %s cell=%+v", gname, *c))
		case built.Authentic && o.Changed:
			if built.Class != "" {
				run.Count("accepted."+built.Class, 1)
			} else {
				run.Count("accepted.authentic_variant", 1)
			}
		}
		if controlOK {
			run.Eval(c.key())
			if len(c.Mut) > 0 || c.Key == "sub" {
				run.Sample(map[string]any{"cell": c, "ok": o.OK, "changed": o.Changed, "err": c09Short(o.Err, 120)})
			}
		} else {
			run.Inconclusive("no positive control for " + gname)
		}
		run.Seen("answers", c09Short(o.Err, 60))
		if o.Changed || o.OK || built.Pre != nil {
			f.close()
			f = newFork()
		}
	}
	// the fork that only saw rejected packets must still accept the honest one
	if controlOK && !isReplay {
		po := r.send(f, honest)
		run.Count("packets."+g.Type, 1)
		if po.OK && po.Changed {
			run.Count("post_controls.passed", 1)
		} else {
			run.Count("post_controls.failed", 1)
			run.Note(fmt.Sprintf("honest packet rejected after the forged ones in %s: %s", gname, c09Short(po.Err, 200)))
		}
	}
}

func c09Schemes(seed uint64, thorough bool) []*crypto.Scheme {
	all := crypto.ListSchemes()
	var ids []string
	if thorough {
		ids = all
	} else {
		// the default scheme plus two of the other four, chosen by the seed
		ids = []string{crypto.DefaultSchemeID}
		rng := vfNewRng(vfCaseSeed(seed, "C09/schemes", 0))
		p := rng.Perm(len(all) - 1)
		ids = append(ids, all[1+p[0]], all[1+p[1]])
	}
	var out []*crypto.Scheme
	for _, id := range ids {
		s, err := crypto.SchemeFromName(id)
		if err != nil {
			panic(err)
		}
		out = append(out, s)
	}
	return out
}

func TestVF_C09(t *testing.T) {
	run := vfNewRun("C09", "dkgpkt")
	defer run.Finish()
	replay, isReplay := vfReplayCase()
	seed := vfSeed()
	idx := 0
	// thorough: three rounds, each with freshly keyed worlds (key-dependent orderings, flip positions and attacker keys differ)
	rounds := vfPick(1, 3)
	schemes := c09Schemes(seed, vfThorough())
	for ri := 0; ri < rounds*len(schemes); ri++ {
		si, sch := ri, schemes[ri%len(schemes)]
		groups := c09GenGroups(sch.Name, seed+uint64(ri/len(schemes))*1000003, vfThorough())
		lo := idx
		for _, g := range groups {
			for _, c := range g.Cells {
				c.Idx = idx
				idx++
			}
		}
		if isReplay && (replay < lo || replay >= idx) {
			continue
		}
		var w *c09World
		var err error
		for attempt := 0; attempt < 2; attempt++ {
			w, err = c09BuildWorld(sch, 42000+100*(si%50), c09WorldOpts{})
			if err == nil {
				break
			}
		}
		if err != nil {
			run.Inconclusive(fmt.Sprintf("world for scheme %s could not be prepared by real commands: %v", sch.Name, err))
			continue
		}
		run.Count("worlds", 1)
		run.Count("real_dkgs_completed", 1)
		for _, c := range []struct {
			n string
			e int
			s string
		}{{"proposal1", 1, "A"}, {"execute1", 1, "A"}, {"proposal2", 2, "A"}, {"accept2", 2, "B"}, {"abort2", 2, "A"}} {
			if err := w.verifyReal(c.n, c.e, c.s); err != nil {
				w.close()
				t.Fatalf("harness bug: %v", err)
			}
			run.Count("real_packets_reconstructed", 1)
		}
		r := &c09Runner{t: t, run: run, w: w}
		for _, g := range groups {
			if isReplay {
				hit := false
				for _, c := range g.Cells {
					if c.Idx == replay {
						hit = true
					}
				}
				if !hit {
					continue
				}
			}
			r.runGroup(g, replay, isReplay)
		}
		run.Count("gossip_swallowed_by_sink", w.Sink.gossips)
		w.close()
	}
	run.Count("cells.enumerated", int64(idx))
	if os.Getenv("C09_VERBOSE") != "" {
		t.Logf("cells=%d", idx)
	}
}
