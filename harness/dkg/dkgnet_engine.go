package dkg

// dkgnet — engine C of the verification harness (DESIGN.md §2.2).
//
// m real dkg.Process instances, each with a real bolt dkg.db in its own temp
// directory and real kyber DKG, joined by an in-memory net.DKGClient ("bus")
// that routes Packet / BroadcastDKG calls to the destination Process by address
// under a seeded schedule of delays, duplication, reordering and one slow
// link-phase. Nothing of the implementation is modelled: the bus is the only
// thing the harness adds between the processes.
//
// White-box surface used: Process.Packet/Command/BroadcastDKG, NewDKGProcess,
// NewDKGStore, BoltStore.db + bucket names (raw record bytes), DBStateTOML
// (decoding of raw records), Config, SharingOutput, the package variables
// `retries`/`backoff` (C08 only, to shorten gossip retries), messageForSigning
// (workload generator of C08 only: to sign forged packets with real keys).

import (
	"bytes"
	"context"
	"crypto/sha256"
	"encoding/hex"
	"errors"
	"fmt"
	"io"
	"os"
	"runtime"
	"runtime/debug"
	"sort"
	"strconv"
	"strings"
	"sync"
	"sync/atomic"
	"time"

	"github.com/BurntSushi/toml"
	bolt "go.etcd.io/bbolt"
	"go.uber.org/zap/zapcore"
	"google.golang.org/grpc"
	"google.golang.org/protobuf/proto"
	"google.golang.org/protobuf/types/known/timestamppb"

	"github.com/drand/drand/v2/common/key"
	"github.com/drand/drand/v2/common/log"
	"github.com/drand/drand/v2/crypto"
	"github.com/drand/drand/v2/internal/net"
	"github.com/drand/drand/v2/internal/util"
	pdkg "github.com/drand/drand/v2/protobuf/dkg"
	kdkg "github.com/drand/kyber/share/dkg"
	"github.com/drand/kyber/sign/schnorr"
	"github.com/drand/kyber/util/random"
)

// ---------------------------------------------------------------- schedule

// vfdSlow delays every bundle of ONE kind towards ONE node (whoever sends or echoes it).
type vfdSlow struct {
	Dest    string `json:"dest"`
	Kind    string `json:"kind"` // deal | resp | just
	DelayMs int    `json:"delay_ms"`
	// Async: the bundle is handed to the "network" and the sender's call returns at once (the sender's
	// sequential direct broadcast is not held up). This is the schedule every sender gets when the slow node
	// happens to be last in its random send order; BroadcastDKG answers are only logged by the real code.
	Async bool `json:"async"`
}

type vfdSched struct {
	GossipDelayMs int `json:"gossip_delay_ms"` // uniform 0..x, synchronous, on control gossip
	BundleDelayMs int `json:"bundle_delay_ms"` // uniform 0..x, synchronous, on DKG bundles
	DupPct        int `json:"dup_pct"`         // a second copy of the packet is delivered later
	DupDelayMs    int `json:"dup_delay_ms"`
	AsyncPct      int `json:"async_pct"` // bundle delivered asynchronously after 0..2*BundleDelayMs (reordering)
	Slow          *vfdSlow `json:"slow,omitempty"`
	// GarbledFirstPct: before the intact bundle, the destination is handed a copy whose signature has a flipped bit
	// (a damaged frame, or somebody re-sending what they overheard with a signature of their own): it must be refused
	// and must not keep the intact copy from being processed
	GarbledFirstPct int `json:"garbled_signature_copy_first_pct,omitempty"`
}

// ---------------------------------------------------------------- network

type vfdNet struct {
	beaconID string
	sch      *crypto.Scheme
	cfg      Config
	baseDir  string
	lg       log.Logger

	mu      sync.Mutex
	nodes   map[string]*vfdNode
	order   []*vfdNode
	rng     *vfRng
	sched   vfdSched
	pending map[string]int // gossip (src|dst|sig) -> failed attempts so far (a retry is pending)
	trace   []string       // abridged delivery trace (kind src>dst)
	sha     []byte         // running hash of the delivery order
	gossips []*pdkg.GossipPacket
	keepBundles bool
	hold        *vfdHold
	nHeld       atomic.Int64
	dropFrom    map[string]string // sender address -> bundle kind that is lost on its way out ("" = none)
	errs        *vfdErrRing
	faulty      *vfdFaulty // one participant whose OWN deal bundle carries undecryptable shares for K holders
	dropLink    map[string]string // "from>to" -> bundle kind lost on that one directed link (echoes by third nodes still arrive)
	lagStop     chan struct{}
	maxLagNs    atomic.Int64 // worst lateness of a 5 ms timer since the last reset: is this box keeping time?
	bundles     []*pdkg.DKGPacket // first bundles seen on the bus (only when keepBundles)
	dropBundles bool // every DKG bundle is lost (failed execution)

	inflight   atomic.Int64
	nGossip    atomic.Int64
	nGossipErr atomic.Int64
	nBundles   atomic.Int64
	nBundleErr atomic.Int64
	nDup       atomic.Int64
	nDelayed   atomic.Int64
	nAsync     atomic.Int64
	nSlow      atomic.Int64
	nDropped   atomic.Int64
	maxLatNs   atomic.Int64 // max (delivery end - send) over bundles since the last reset
	nPanics    atomic.Int64
	nStuck     atomic.Int64
	nGarbled   atomic.Int64
	nDoctored  atomic.Int64
	tmu        sync.Mutex
	tm         vfdTiming
	// onPanic is told about a panic of the real code inside a delivery (what, destination, panic value, the
	// innermost frame of package dkg, full stack). The delivery is then answered with an error.
	onPanic func(what, dst, val, where, stack string)
}

// vfdPanicWhere extracts the innermost non-harness function of package dkg from a stack captured in a deferred
// recover (used to give panics a stable signature).
func vfdPanicWhere(stack string) string {
	lines := strings.Split(stack, "\n")
	seenPanic := false
	for _, l := range lines {
		if strings.HasPrefix(l, "panic(") {
			seenPanic = true
			continue
		}
		if !seenPanic || strings.HasPrefix(l, "\t") {
			continue
		}
		if i := strings.Index(l, "internal/dkg."); i >= 0 {
			f := l[i+len("internal/dkg."):]
			if j := strings.LastIndex(f, "("); j > 0 {
				f = f[:j]
			}
			f = strings.NewReplacer("(*", "", ")", "", "*", "").Replace(f)
			if strings.Contains(f, "vfd") || strings.Contains(f, "c06") || strings.Contains(f, "c08") {
				continue
			}
			return f
		}
	}
	return "unknown"
}

// vfdTiming: when the packets that drive the time-phased protocol were handed to each node in the current epoch.
// The DKG is a synchronous protocol: a node that gets the execute packet at time e starts at max(kick-off, e) and
// ends its deal / response / justification phase one, two, three phase time-outs later at the latest; a bundle
// handed over after that is outside the protocol's assumptions, and so is every verdict about agreement.
type vfdTiming struct {
	T0          time.Time            // kick-off time named in the execute packet
	ExecIn      map[string]time.Time // dst -> first hand-over (start of the call) of the execute packet
	LastDone    map[string][3]time.Time // dst -> latest return of the FIRST hand-over of each distinct deal / resp / just bundle
	FirstRespIn map[string]time.Time // dst -> first hand-over (start of the call) of a response bundle
	seen        map[string]bool
}

func (n *vfdNet) resetTiming() {
	n.tmu.Lock()
	n.tm = vfdTiming{ExecIn: map[string]time.Time{}, LastDone: map[string][3]time.Time{}, FirstRespIn: map[string]time.Time{}}
	n.tmu.Unlock()
}

func (n *vfdNet) timing() vfdTiming {
	n.tmu.Lock()
	defer n.tmu.Unlock()
	out := vfdTiming{T0: n.tm.T0, ExecIn: map[string]time.Time{}, LastDone: map[string][3]time.Time{}, FirstRespIn: map[string]time.Time{}}
	for k, v := range n.tm.ExecIn {
		out.ExecIn[k] = v
	}
	for k, v := range n.tm.LastDone {
		out.LastDone[k] = v
	}
	for k, v := range n.tm.FirstRespIn {
		out.FirstRespIn[k] = v
	}
	return out
}

func (n *vfdNet) noteKickoff(t time.Time) {
	n.tmu.Lock()
	if n.tm.T0.IsZero() {
		n.tm.T0 = t
	}
	n.tmu.Unlock()
}

func (n *vfdNet) noteHandover(what, dst string, in bool) {
	now := time.Now()
	n.tmu.Lock()
	defer n.tmu.Unlock()
	if n.tm.ExecIn == nil {
		return
	}
	switch what {
	case "gossip:Execute":
		if in {
			if _, ok := n.tm.ExecIn[dst]; !ok {
				n.tm.ExecIn[dst] = now
			}
		}
	case "bundle:deal", "bundle:resp", "bundle:just":
		k := map[string]int{"bundle:deal": 0, "bundle:resp": 1, "bundle:just": 2}[what]
		if in {
			if k == 1 {
				if _, ok := n.tm.FirstRespIn[dst]; !ok {
					n.tm.FirstRespIn[dst] = now
				}
			}
		}
	}
}

// noteBundleDone: the hand-over of a bundle to dst has returned; only the first copy of each distinct bundle counts
// (echoes and duplicates of a bundle the node already has are harmless whenever they arrive).
func (n *vfdNet) noteBundleDone(dst, kind string, in *pdkg.DKGPacket) {
	k, ok := map[string]int{"deal": 0, "resp": 1, "just": 2}[kind]
	if !ok {
		return
	}
	raw, err := proto.MarshalOptions{Deterministic: true}.Marshal(in)
	if err != nil {
		return
	}
	h := sha256.Sum256(raw)
	key := dst + "|" + string(h[:])
	now := time.Now()
	n.tmu.Lock()
	defer n.tmu.Unlock()
	if n.tm.ExecIn == nil {
		return
	}
	if n.tm.seen == nil {
		n.tm.seen = map[string]bool{}
	}
	if n.tm.seen[key] {
		return
	}
	n.tm.seen[key] = true
	a := n.tm.LastDone[dst]
	if now.After(a[k]) {
		a[k] = now
	}
	n.tm.LastDone[dst] = a
}

// synchronyKept: no bundle of the epoch was handed to a participant later than `margin` before the end of the
// phase it belongs to on that participant's own (earliest possible) schedule. "" when kept, else what was late.
func (n *vfdNet) synchronyKept(addrs []string, leader string, phase, margin time.Duration) string {
	tm := n.timing()
	if tm.T0.IsZero() {
		return ""
	}
	for _, a := range addrs {
		start := tm.T0
		if e, ok := tm.ExecIn[a]; ok && e.After(start) {
			start = e
		}
		ld, ok := tm.LastDone[a]
		if !ok {
			continue
		}
		for k, name := range []string{"deal", "resp", "just"} {
			if ld[k].IsZero() {
				continue
			}
			end := start.Add(time.Duration(k+1) * phase)
			if ld[k].After(end.Add(-margin)) {
				return fmt.Sprintf("a %s bundle was handed to %s %v after its start (phase ends %v after it, margin %v)", name, a, ld[k].Sub(start).Round(time.Millisecond), time.Duration(k+1)*phase, margin)
			}
		}
	}
	_ = leader
	return ""
}

// guard runs f (a call into the real Process) and converts a panic into an error + onPanic notification.
func (n *vfdNet) guard(what, dst string, f func() error) (err error) {
	n.noteHandover(what, dst, true)
	defer n.noteHandover(what, dst, false)
	defer func() {
		if r := recover(); r != nil {
			st := string(debug.Stack())
			n.nPanics.Add(1)
			if n.onPanic != nil {
				n.onPanic(what, dst, fmt.Sprint(r), vfdPanicWhere(st), st)
			}
			err = fmt.Errorf("vfd bus: destination panicked: %v", r)
		}
	}()
	return f()
}

func vfdLogger() log.Logger {
	if os.Getenv("VFD_LOGS") != "" {
		return log.New(nil, log.DebugLevel, false)
	}
	return log.New(zapcore.AddSync(io.Discard), log.FatalLevel, true)
}

// vfdErrRing keeps the last error-level log lines of all nodes of one net (why a node's run of the protocol failed
// is only said there); attached to reports, never judged.
type vfdErrRing struct {
	mu    sync.Mutex
	lines []string
}

func (r *vfdErrRing) Write(p []byte) (int, error) {
	r.mu.Lock()
	l := strings.TrimSpace(string(p))
	if len(l) > 500 {
		l = l[:500]
	}
	r.lines = append(r.lines, l)
	if len(r.lines) > 60 {
		r.lines = r.lines[len(r.lines)-40:]
	}
	r.mu.Unlock()
	return len(p), nil
}
func (r *vfdErrRing) Sync() error { return nil }
func (r *vfdErrRing) tail() []string {
	r.mu.Lock()
	defer r.mu.Unlock()
	return append([]string(nil), r.lines...)
}

func vfdNewNet(baseDir, beaconID string, sch *crypto.Scheme, cfg Config, seed uint64) *vfdNet {
	ring := &vfdErrRing{}
	lg := vfdLogger()
	if os.Getenv("VFD_LOGS") == "" {
		lg = log.New(zapcore.AddSync(ring), log.ErrorLevel, true)
	}
	return &vfdNet{beaconID: beaconID, sch: sch, cfg: cfg, baseDir: baseDir, lg: lg, errs: ring,
		nodes: map[string]*vfdNode{}, rng: vfNewRng(seed ^ 0x6e6574), pending: map[string]int{}}
}

// startLagMonitor: the DKG is a synchronous protocol driven by wall-clock timers; when the box is so loaded that a
// 5 ms sleep comes back hundreds of ms late, kick-off times and phase ends are not kept by the nodes either and a
// failed execution says nothing about the code. Verdicts that depend on an execution succeeding consult lag().
func (n *vfdNet) startLagMonitor() {
	n.lagStop = make(chan struct{})
	go func() {
		for {
			select {
			case <-n.lagStop:
				return
			default:
			}
			t0 := time.Now()
			time.Sleep(5 * time.Millisecond)
			late := time.Since(t0).Nanoseconds() - int64(5*time.Millisecond)
			for {
				old := n.maxLagNs.Load()
				if late <= old || n.maxLagNs.CompareAndSwap(old, late) {
					break
				}
			}
		}
	}()
}

func (n *vfdNet) lag() time.Duration { return time.Duration(n.maxLagNs.Load()) }
func (n *vfdNet) resetLag()          { n.maxLagNs.Store(0) }

func (n *vfdNet) setSched(s vfdSched) {
	n.mu.Lock()
	n.sched = s
	n.mu.Unlock()
}

func (n *vfdNet) setSlow(s *vfdSlow) {
	n.mu.Lock()
	n.sched.Slow = s
	n.mu.Unlock()
}

// vfdFaulty: a dealer that is faulty rather than slow: the encrypted shares its deal bundle carries for K of the
// holders cannot be decrypted (the bundle is otherwise well formed and correctly signed with the dealer's own key,
// which the harness holds). Those holders complain, the dealer has to justify, and everybody must still end up with
// the same group. K stays below the threshold.
type vfdFaulty struct {
	Addr     string
	K        int
	origSig  []byte        // signature of the dealer's own bundle as it left the real code
	doctored *pdkg.DKGPacket
	done     bool
}

func (n *vfdNet) setFaulty(f *vfdFaulty) {
	n.mu.Lock()
	n.faulty = f
	n.mu.Unlock()
}

// doctor returns the packet to put on the wire for `in` sent by `from`.
func (n *vfdNet) doctor(from string, in *pdkg.DKGPacket) *pdkg.DKGPacket {
	n.mu.Lock()
	defer n.mu.Unlock()
	f := n.faulty
	d := in.GetDkg().GetDeal()
	if f == nil || d == nil || from != f.Addr {
		return in
	}
	if f.doctored != nil {
		if bytes.Equal(d.GetSignature(), f.origSig) {
			return f.doctored
		}
		return in
	}
	if f.done {
		return in
	}
	f.done = true // the first deal bundle a node sends in an epoch is its own
	nd := n.nodes[from]
	bundle, err := protoToDeal(d, n.sch)
	if nd == nil || err != nil || len(bundle.Deals) < 2 {
		return in
	}
	k := f.K
	if k > len(bundle.Deals)-1 {
		k = len(bundle.Deals) - 1
	}
	for _, i := range n.rng.Perm(len(bundle.Deals))[:k] {
		garbage := n.rng.Bytes(len(bundle.Deals[i].EncryptedShare))
		bundle.Deals[i].EncryptedShare = garbage
	}
	suite, ok := n.sch.KeyGroup.(kdkg.Suite)
	if !ok {
		return in
	}
	sig, err := schnorr.NewScheme(suite).Sign(nd.kp.Key, bundle.Hash())
	if err != nil {
		return in
	}
	bundle.Signature = sig
	f.origSig = append([]byte(nil), d.GetSignature()...)
	f.doctored = &pdkg.DKGPacket{Dkg: dealToProto(bundle, in.GetDkg().GetMetadata().GetBeaconID())}
	n.nDoctored.Add(1)
	return f.doctored
}

func (n *vfdNet) setDropLink(m map[string]string) {
	n.mu.Lock()
	n.dropLink = m
	n.mu.Unlock()
}

func (n *vfdNet) setDropBundles(v bool) {
	n.mu.Lock()
	n.dropBundles = v
	n.mu.Unlock()
}

func (n *vfdNet) note(kind, src, dst string) {
	// n.mu held
	e := kind + " " + src + ">" + dst
	if len(n.trace) < 400 {
		n.trace = append(n.trace, e)
	}
	h := sha256.Sum256(append(n.sha, e...))
	n.sha = h[:]
}

func (n *vfdNet) schedHash() string {
	n.mu.Lock()
	defer n.mu.Unlock()
	return hex.EncodeToString(n.sha)
}

func (n *vfdNet) traceCopy(max int) []string {
	n.mu.Lock()
	defer n.mu.Unlock()
	t := n.trace
	if len(t) > max {
		t = t[:max]
	}
	return append([]string(nil), t...)
}

// disturbed: did the schedule actually delay / duplicate / reorder anything?
func (n *vfdNet) disturbed() int64 {
	return n.nDelayed.Load() + n.nDup.Load() + n.nAsync.Load() + n.nSlow.Load()
}

func (n *vfdNet) addCounters(run *vfRun) {
	run.Count("gossip_packets_routed", n.nGossip.Load())
	run.Count("gossip_packets_answered_error", n.nGossipErr.Load())
	run.Count("dkg_bundles_routed", n.nBundles.Load())
	run.Count("dkg_bundles_answered_error", n.nBundleErr.Load())
	run.Count("packets_duplicated", n.nDup.Load())
	run.Count("deal_bundles_with_undecryptable_shares", n.nDoctored.Load())
	run.Count("bundles_preceded_by_a_copy_with_a_garbled_signature", n.nGarbled.Load())
	run.Count("packets_delayed", n.nDelayed.Load())
	run.Count("bundles_async_reordered", n.nAsync.Load())
	run.Count("bundles_slow_link", n.nSlow.Load())
	run.Count("bundles_dropped", n.nDropped.Load())
	run.Count("deliveries_held_behind_late_execute", n.nHeld.Load())
	run.Count("deliveries_panicked", n.nPanics.Load())
	run.Count("deliveries_stuck_over_2s", n.nStuck.Load())
}

// vfdHold: from the moment the first Execute gossip packet towards Dest is seen, EVERYTHING towards Dest (control
// gossip and DKG bundles) is parked in one FIFO; after Delay the queue is flushed in order and the link is normal
// again. The senders' calls return at once. This is a late link, not a lossy one: the node gets the execute packet
// after the kick-off time and then everything that was sent to it meanwhile, in the order it was sent.
type vfdHold struct {
	Dest     string
	Delay    time.Duration
	started  bool
	released bool
	queue    []func()
}

func (n *vfdNet) setHold(dest string, d time.Duration) {
	n.mu.Lock()
	n.hold = &vfdHold{Dest: dest, Delay: d}
	n.mu.Unlock()
}

func (n *vfdNet) clearHold() {
	n.mu.Lock()
	n.hold = nil
	n.mu.Unlock()
}

// maybeHold parks the delivery when the hold applies; returns true when it did.
func (n *vfdNet) maybeHold(dst string, isExecute bool, deliver func()) bool {
	n.mu.Lock()
	defer n.mu.Unlock()
	h := n.hold
	if h == nil || h.Dest != dst || h.released {
		return false
	}
	if !h.started {
		if !isExecute {
			return false
		}
		h.started = true
		n.inflight.Add(1)
		time.AfterFunc(h.Delay, func() {
			defer n.inflight.Add(-1)
			for {
				n.mu.Lock()
				if len(h.queue) == 0 {
					h.released = true
					n.mu.Unlock()
					return
				}
				f := h.queue[0]
				h.queue = h.queue[1:]
				n.mu.Unlock()
				f()
			}
		})
	}
	h.queue = append(h.queue, deliver)
	n.nHeld.Add(1)
	return true
}

// begin marks a delivery as in flight; the returned func ends it. A delivery that has not returned after 2 s is
// given up for pacing purposes (counted in deliveries_stuck): a handler of the real code that blocks for ever must
// not make every later quiesce() run into its bound.
func (n *vfdNet) begin() func() {
	n.inflight.Add(1)
	var once sync.Once
	t := time.AfterFunc(2*time.Second, func() {
		once.Do(func() { n.inflight.Add(-1); n.nStuck.Add(1) })
	})
	return func() {
		t.Stop()
		once.Do(func() { n.inflight.Add(-1) })
	}
}

// quiesce waits until no delivery is in flight and no gossip retry is pending. It is only a pacing device
// (no verdict depends on it). Returns false when the bound expired.
func (n *vfdNet) quiesce(bound time.Duration) bool {
	deadline := time.Now().Add(bound)
	calm := 0
	for time.Now().Before(deadline) {
		n.mu.Lock()
		p := len(n.pending)
		n.mu.Unlock()
		if n.inflight.Load() == 0 && p == 0 {
			calm++
			if calm >= 3 {
				return true
			}
		} else {
			calm = 0
		}
		runtime.Gosched()
		time.Sleep(400 * time.Microsecond)
	}
	return false
}

// backlog: number of bundles still queued in the echo-broadcast senders of all nodes (white-box read of the
// real dispatcher queues). The queues outlive the DKG they belong to.
func (n *vfdNet) backlog() int {
	n.mu.Lock()
	nodes := append([]*vfdNode(nil), n.order...)
	n.mu.Unlock()
	total := 0
	for _, nd := range nodes {
		if nd.closed.Load() {
			continue
		}
		nd.proc.lock.Lock()
		b := nd.proc.Executions[n.beaconID]
		nd.proc.lock.Unlock()
		if eb, ok := b.(*echoBroadcast); ok && eb != nil && eb.dispatcher != nil {
			for _, s := range eb.dispatcher.senders {
				total += len(s.newCh)
			}
		}
	}
	return total
}

// drain waits until the traffic of the finished epoch is gone: nothing in flight on the bus, no pending gossip
// retry, nothing queued in any sender. Pacing only; returns false when the bound expired.
func (n *vfdNet) drain(bound time.Duration) bool {
	if n.nStuck.Load() > 0 && bound > 1500*time.Millisecond {
		// a handler of the real code is blocked for good (wedged echo-broadcast board): the queues behind it never
		// empty, waiting longer only costs time
		bound = 1500 * time.Millisecond
	}
	deadline := time.Now().Add(bound)
	for time.Now().Before(deadline) {
		if n.quiesce(time.Until(deadline)) && n.backlog() == 0 && n.quiesce(50*time.Millisecond) && n.backlog() == 0 {
			return true
		}
		time.Sleep(5 * time.Millisecond)
	}
	return false
}

func (n *vfdNet) lookup(addr string) *vfdNode {
	n.mu.Lock()
	defer n.mu.Unlock()
	return n.nodes[addr]
}

// closeAll closes every node; returns the addresses whose Process.Close() did not return within 3 s (the
// goroutine is then left behind; see vfdBlockedFrame for the evidence).
func (n *vfdNet) closeAll() []string {
	n.mu.Lock()
	nodes := append([]*vfdNode(nil), n.order...)
	n.mu.Unlock()
	if n.lagStop != nil {
		close(n.lagStop)
		n.lagStop = nil
	}
	var blocked []string
	for _, nd := range nodes {
		if !nd.close() {
			blocked = append(blocked, nd.addr)
		}
	}
	return blocked
}

// vfdBlockedFrame returns the stack of the first goroutine whose stack contains `needle` (from a full dump).
func vfdBlockedFrame(needle string, max int) string {
	for _, g := range strings.Split(vfGoroutineDump(), "\n\n") {
		if strings.Contains(g, needle) {
			if len(g) > max {
				g = g[:max]
			}
			return g
		}
	}
	return ""
}

// ---------------------------------------------------------------- the client given to each Process

type vfdClient struct {
	net  *vfdNet
	from string
}

var _ net.DKGClient = (*vfdClient)(nil)

func vfdSleepMs(ms int) {
	if ms > 0 {
		time.Sleep(time.Duration(ms) * time.Millisecond)
	}
}

func (c *vfdClient) Packet(_ context.Context, p net.Peer, packet *pdkg.GossipPacket, _ ...grpc.CallOption) (*pdkg.EmptyDKGResponse, error) {
	n := c.net
	defer n.begin()()
	dst := p.Address()
	if ex := packet.GetExecute(); ex != nil && ex.GetTime() != nil {
		n.noteKickoff(ex.GetTime().AsTime())
	}
	n.mu.Lock()
	s := n.sched
	delay := 0
	if s.GossipDelayMs > 0 {
		delay = n.rng.Intn(s.GossipDelayMs + 1)
	}
	dup := s.DupPct > 0 && n.rng.Chance(s.DupPct)
	dupDelay := 0
	if dup && s.DupDelayMs > 0 {
		dupDelay = n.rng.Intn(s.DupDelayMs + 1)
	}
	dest := n.nodes[dst]
	if len(n.gossips) < 256 && packet != nil {
		n.gossips = append(n.gossips, proto.Clone(packet).(*pdkg.GossipPacket))
	}
	n.mu.Unlock()
	pkey := ""
	if packet != nil && packet.Metadata != nil {
		pkey = c.from + "|" + dst + "|" + hex.EncodeToString(packet.Metadata.Signature)
	}
	if dest != nil && !dest.broken.Load() && packet != nil {
		cph := proto.Clone(packet).(*pdkg.GossipPacket)
		if n.maybeHold(dst, packet.GetExecute() != nil, func() {
			if dest.closed.Load() {
				return
			}
			n.mu.Lock()
			n.note("gh:"+packetName(cph), c.from, dst)
			n.mu.Unlock()
			n.nGossip.Add(1)
			_ = n.guard("gossip:"+packetName(cph), dst, func() error {
				_, e := dest.proc.Packet(context.Background(), cph)
				return e
			})
		}) {
			return &pdkg.EmptyDKGResponse{}, nil
		}
	}
	if delay > 0 {
		n.nDelayed.Add(1)
		vfdSleepMs(delay)
	}
	var err error
	if dest == nil {
		err = errors.New("vfd bus: no such address " + dst)
	} else if dest.broken.Load() {
		err = errors.New("vfd bus: node unreachable")
	} else {
		cp := proto.Clone(packet).(*pdkg.GossipPacket)
		n.mu.Lock()
		n.note("g:"+packetName(packet), c.from, dst)
		n.mu.Unlock()
		n.nGossip.Add(1)
		err = n.guard("gossip:"+packetName(packet), dst, func() error {
			_, e := dest.proc.Packet(context.Background(), cp)
			return e
		})
		if dup {
			n.nDup.Add(1)
			end2 := n.begin()
			cp2 := proto.Clone(packet).(*pdkg.GossipPacket)
			go func() {
				defer end2()
				vfdSleepMs(dupDelay)
				if dest.broken.Load() || dest.closed.Load() {
					return
				}
				n.mu.Lock()
				n.note("g2:"+packetName(cp2), c.from, dst)
				n.mu.Unlock()
				n.nGossip.Add(1)
				_ = n.guard("gossip:"+packetName(cp2), dst, func() error {
					_, e := dest.proc.Packet(context.Background(), cp2)
					return e
				})
			}()
		}
	}
	if pkey != "" {
		n.mu.Lock()
		if err != nil {
			n.pending[pkey]++
			if n.pending[pkey] >= retries {
				delete(n.pending, pkey)
			}
		} else {
			delete(n.pending, pkey)
		}
		n.mu.Unlock()
	}
	if err != nil {
		n.nGossipErr.Add(1)
		return nil, err
	}
	return &pdkg.EmptyDKGResponse{}, nil
}

func vfdBundleKind(in *pdkg.DKGPacket) string {
	switch in.GetDkg().GetBundle().(type) {
	case *pdkg.Packet_Deal:
		return "deal"
	case *pdkg.Packet_Response:
		return "resp"
	case *pdkg.Packet_Justification:
		return "just"
	}
	return "unknown"
}

func (c *vfdClient) BroadcastDKG(_ context.Context, p net.Peer, in *pdkg.DKGPacket, _ ...grpc.CallOption) (*pdkg.EmptyDKGResponse, error) {
	n := c.net
	in = n.doctor(c.from, in)
	sent := time.Now()
	dst := p.Address()
	kind := vfdBundleKind(in)
	n.mu.Lock()
	s := n.sched
	dest := n.nodes[dst]
	drop := n.dropBundles || (n.dropFrom != nil && n.dropFrom[c.from] == kind) || (n.dropLink != nil && n.dropLink[c.from+">"+dst] == kind)
	if n.keepBundles && len(n.bundles) < 64 {
		n.bundles = append(n.bundles, proto.Clone(in).(*pdkg.DKGPacket))
	}
	delay := 0
	if s.BundleDelayMs > 0 {
		delay = n.rng.Intn(s.BundleDelayMs + 1)
	}
	async := s.AsyncPct > 0 && n.rng.Chance(s.AsyncPct)
	if async {
		delay += n.rng.Intn(s.BundleDelayMs + 1)
	}
	dup := s.DupPct > 0 && n.rng.Chance(s.DupPct)
	dupDelay := 0
	if dup && s.DupDelayMs > 0 {
		dupDelay = n.rng.Intn(s.DupDelayMs + 1)
	}
	slow := false
	if s.Slow != nil && s.Slow.Dest == dst && s.Slow.Kind == kind {
		slow = true
		delay += s.Slow.DelayMs
		if s.Slow.Async {
			async = true
		}
	}
	n.mu.Unlock()
	if dest == nil {
		n.nBundleErr.Add(1)
		return nil, errors.New("vfd bus: no such address " + dst)
	}
	if drop || dest.broken.Load() {
		n.nDropped.Add(1)
		return nil, errors.New("vfd bus: node unreachable")
	}
	if slow {
		n.nSlow.Add(1)
	} else if delay > 0 {
		n.nDelayed.Add(1)
	}
	deliver := func(tag string, d int) error {
		vfdSleepMs(d)
		if dest.closed.Load() {
			return errors.New("vfd bus: closed")
		}
		cp := proto.Clone(in).(*pdkg.DKGPacket)
		n.mu.Lock()
		n.note(tag+kind, c.from, dst)
		n.mu.Unlock()
		n.nBundles.Add(1)
		err := n.guard("bundle:"+kind, dst, func() error {
			_, e := dest.proc.BroadcastDKG(context.Background(), cp)
			return e
		})
		if err != nil {
			n.nBundleErr.Add(1)
		}
		n.noteBundleDone(dst, kind, in)
		lat := time.Since(sent).Nanoseconds()
		for {
			old := n.maxLatNs.Load()
			if lat <= old || n.maxLatNs.CompareAndSwap(old, lat) {
				break
			}
		}
		return err
	}
	if s.GarbledFirstPct > 0 {
		n.mu.Lock()
		garble := n.rng.Chance(s.GarbledFirstPct)
		n.mu.Unlock()
		if garble && !dest.closed.Load() {
			bad := proto.Clone(in).(*pdkg.DKGPacket)
			var sig []byte
			switch b := bad.GetDkg().GetBundle().(type) {
			case *pdkg.Packet_Deal:
				sig = b.Deal.GetSignature()
			case *pdkg.Packet_Response:
				sig = b.Response.GetSignature()
			case *pdkg.Packet_Justification:
				sig = b.Justification.GetSignature()
			}
			if len(sig) > 0 {
				sig[len(sig)/2] ^= 0x10
				n.nGarbled.Add(1)
				_ = n.guard("bundle-garbled:"+kind, dst, func() error {
					_, e := dest.proc.BroadcastDKG(context.Background(), bad)
					return e
				})
			}
		}
	}
	if n.maybeHold(dst, false, func() {
		sent = time.Now() // latency of a parked bundle counts from its release
		_ = deliver("bh:", 0)
	}) {
		return &pdkg.EmptyDKGResponse{}, nil
	}
	if dup {
		n.nDup.Add(1)
		end := n.begin()
		go func() {
			defer end()
			_ = deliver("b2:", delay+dupDelay)
		}()
	}
	if async {
		n.nAsync.Add(1)
		end := n.begin()
		go func() {
			defer end()
			_ = deliver("ba:", delay)
		}()
		return &pdkg.EmptyDKGResponse{}, nil
	}
	defer n.begin()()
	if err := deliver("b:", delay); err != nil {
		return nil, err
	}
	return &pdkg.EmptyDKGResponse{}, nil
}

// ---------------------------------------------------------------- nodes

type vfdIdent struct {
	kp       *key.Pair
	beaconID string
}

func (i vfdIdent) KeypairFor(beaconID string) (*key.Pair, error) {
	if beaconID != i.beaconID {
		return nil, fmt.Errorf("vfd: no beacon with id %q on this node", beaconID)
	}
	return i.kp, nil
}

type vfdNode struct {
	net    *vfdNet
	idx    int
	addr   string
	kp     *key.Pair
	part   *pdkg.Participant
	dir    string
	bolt   *BoltStore
	tap    *vfdStoreTap
	proc   *Process
	out    *util.FanOutChan[SharingOutput]
	done   chan SharingOutput
	broken atomic.Bool
	closed atomic.Bool
}

// vfdKeyPair derives a long-term key pair from the case PRNG (so that indices, which follow the byte order of
// the public keys, are a function of the case seed).
func vfdKeyPair(addr string, sch *crypto.Scheme, rng *vfRng) (*key.Pair, error) {
	k := sch.KeyGroup.Scalar().Pick(random.New(rng))
	pub := sch.KeyGroup.Point().Mul(k, nil)
	p := &key.Pair{Key: k, Public: &key.Identity{Key: pub, Addr: addr, Scheme: sch}}
	if err := p.SelfSign(); err != nil {
		return nil, err
	}
	return p, nil
}

// addNode creates a node with its own folder, real bolt store and real Process. withTap wraps the store in the
// recording tap (C08).
func (n *vfdNet) addNode(addr string, keyRng *vfRng, withTap bool) (*vfdNode, error) {
	kp, err := vfdKeyPair(addr, n.sch, keyRng)
	if err != nil {
		return nil, err
	}
	part, err := util.PublicKeyAsParticipant(kp.Public)
	if err != nil {
		return nil, err
	}
	n.mu.Lock()
	idx := len(n.order)
	n.mu.Unlock()
	dir, err := os.MkdirTemp(n.baseDir, "node"+strconv.Itoa(idx)+"-")
	if err != nil {
		return nil, err
	}
	st, err := NewDKGStore(dir)
	if err != nil {
		return nil, err
	}
	nd := &vfdNode{net: n, idx: idx, addr: addr, kp: kp, part: part, dir: dir, bolt: st}
	var store Store = st
	if withTap {
		nd.tap = &vfdStoreTap{inner: st, node: nd}
		store = nd.tap
	}
	nd.out = util.NewFanOutChan[SharingOutput]()
	nd.done = nd.out.Listen()
	nd.proc = NewDKGProcess(store, vfdIdent{kp: kp, beaconID: n.beaconID}, nd.out,
		&vfdClient{net: n, from: addr}, nil, n.cfg, n.lg.Named(addr))
	n.mu.Lock()
	n.nodes[addr] = nd
	n.order = append(n.order, nd)
	n.mu.Unlock()
	return nd, nil
}

func (nd *vfdNode) close() bool {
	if nd.closed.Swap(true) {
		return true
	}
	nd.broken.Store(true)
	done := make(chan struct{})
	go func() {
		defer close(done)
		defer func() { _ = recover() }()
		nd.proc.Close()
	}()
	select {
	case <-done:
		return true
	case <-time.After(3 * time.Second):
		return false
	}
}

func (nd *vfdNode) ctxCmd(c *pdkg.DKGCommand) error {
	c.Metadata = &pdkg.CommandMetadata{BeaconID: nd.net.beaconID}
	_, err := nd.proc.Command(context.Background(), c)
	return err
}

func (nd *vfdNode) cmdInitial(thr, period, catchup uint32, scheme string, timeout, genesis time.Time, joining []*pdkg.Participant) error {
	return nd.ctxCmd(&pdkg.DKGCommand{Command: &pdkg.DKGCommand_Initial{Initial: &pdkg.FirstProposalOptions{
		Timeout: timestamppb.New(timeout), Threshold: thr, PeriodSeconds: period, Scheme: scheme,
		CatchupPeriodSeconds: catchup, GenesisTime: timestamppb.New(genesis), Joining: joining}}})
}

func (nd *vfdNode) cmdReshare(thr, catchup uint32, timeout time.Time, joining, remaining, leaving []*pdkg.Participant) error {
	return nd.ctxCmd(&pdkg.DKGCommand{Command: &pdkg.DKGCommand_Resharing{Resharing: &pdkg.ProposalOptions{
		Timeout: timestamppb.New(timeout), Threshold: thr, CatchupPeriodSeconds: catchup,
		Joining: joining, Remaining: remaining, Leaving: leaving}}})
}

func (nd *vfdNode) cmdJoin(groupFile []byte) error {
	return nd.ctxCmd(&pdkg.DKGCommand{Command: &pdkg.DKGCommand_Join{Join: &pdkg.JoinOptions{GroupFile: groupFile}}})
}
func (nd *vfdNode) cmdAccept() error {
	return nd.ctxCmd(&pdkg.DKGCommand{Command: &pdkg.DKGCommand_Accept{Accept: &pdkg.AcceptOptions{}}})
}
func (nd *vfdNode) cmdReject() error {
	return nd.ctxCmd(&pdkg.DKGCommand{Command: &pdkg.DKGCommand_Reject{Reject: &pdkg.RejectOptions{}}})
}
func (nd *vfdNode) cmdExecute() error {
	return nd.ctxCmd(&pdkg.DKGCommand{Command: &pdkg.DKGCommand_Execute{Execute: &pdkg.ExecutionOptions{}}})
}
func (nd *vfdNode) cmdAbort() error {
	return nd.ctxCmd(&pdkg.DKGCommand{Command: &pdkg.DKGCommand_Abort{Abort: &pdkg.AbortOptions{}}})
}

// raw returns the raw bytes of the node's two bolt records (nil when absent).
func (nd *vfdNode) raw() (cur, fin []byte) {
	return vfdRaw(nd.bolt, nd.net.beaconID)
}

func vfdRaw(b *BoltStore, beaconID string) (cur, fin []byte) {
	_ = b.db.View(func(tx *bolt.Tx) error {
		if bk := tx.Bucket(stagedStateBucket); bk != nil {
			if v := bk.Get([]byte(beaconID)); v != nil {
				cur = append([]byte{}, v...)
			}
		}
		if bk := tx.Bucket(finishedStateBucket); bk != nil {
			if v := bk.Get([]byte(beaconID)); v != nil {
				fin = append([]byte{}, v...)
			}
		}
		return nil
	})
	return cur, fin
}

// vfdDecode decodes a raw record with a fresh object (nil for an absent record).
func vfdDecode(raw []byte) (*DBState, error) {
	if raw == nil {
		return nil, nil
	}
	t := DBStateTOML{}
	if _, err := toml.NewDecoder(bytes.NewReader(raw)).Decode(&t); err != nil {
		return nil, err
	}
	return t.FromTOML()
}

func vfdGroupTOML(g *key.Group) ([]byte, error) {
	var b bytes.Buffer
	if err := toml.NewEncoder(&b).Encode(g.TOML()); err != nil {
		return nil, err
	}
	return b.Bytes(), nil
}

// waitOutcome polls the real stores until every node in `nodes` has either a finished record of `epoch` or a
// current record in state Failed at `epoch`, or the bound expires. Returns per-node "complete"/"failed"/"pending".
func vfdWaitOutcome(nodes []*vfdNode, epoch uint32, bound time.Duration) map[string]string {
	deadline := time.Now().Add(bound)
	res := map[string]string{}
	for {
		all := true
		for _, nd := range nodes {
			if res[nd.addr] == "complete" || res[nd.addr] == "failed" {
				continue
			}
			res[nd.addr] = "pending"
			fin, err := nd.bolt.GetFinished(nd.net.beaconID)
			if err == nil && fin != nil && fin.Epoch == epoch && fin.State == Complete {
				res[nd.addr] = "complete"
				continue
			}
			cur, err := nd.bolt.GetCurrent(nd.net.beaconID)
			if err == nil && cur != nil && cur.Epoch == epoch && cur.State == Failed {
				res[nd.addr] = "failed"
				continue
			}
			all = false
		}
		if all || time.Now().After(deadline) {
			return res
		}
		time.Sleep(15 * time.Millisecond)
	}
}

func vfdParts(nodes []*vfdNode) []*pdkg.Participant {
	out := make([]*pdkg.Participant, len(nodes))
	for i, nd := range nodes {
		out[i] = proto.Clone(nd.part).(*pdkg.Participant)
	}
	return out
}

func vfdShuffled(rng *vfRng, nodes []*vfdNode) []*vfdNode {
	out := make([]*vfdNode, len(nodes))
	for i, j := range rng.Perm(len(nodes)) {
		out[i] = nodes[j]
	}
	return out
}

func vfdAddrs(nodes []*vfdNode) []string {
	out := make([]string, len(nodes))
	for i, nd := range nodes {
		out[i] = nd.addr
	}
	return out
}

// vfdRankByKey: the canonical index of every participant = its rank in the byte order of the public keys.
func vfdRankByKey(nodes []*vfdNode) map[string]uint32 {
	s := append([]*vfdNode(nil), nodes...)
	sort.Slice(s, func(i, j int) bool { return bytes.Compare(s[i].part.Key, s[j].part.Key) < 0 })
	out := map[string]uint32{}
	for i, nd := range s {
		out[nd.addr] = uint32(i)
	}
	return out
}

// vfdGid returns the id of the calling goroutine (used to attribute store writes to the call that made them).
func vfdGid() uint64 {
	var buf [64]byte
	n := runtime.Stack(buf[:], false)
	// "goroutine 123 ["
	f := bytes.Fields(buf[:n])
	if len(f) < 2 {
		return 0
	}
	id, _ := strconv.ParseUint(string(f[1]), 10, 64)
	return id
}

// ---------------------------------------------------------------- store tap (C08)

// vfdWrite is one write that reached the real bolt store of a node, with the raw records before and after.
type vfdWrite struct {
	Seq       int
	Gid       uint64
	Finished  bool // SaveFinished (else SaveCurrent)
	ArgState  Status
	ArgEpoch  uint32
	Arg       *DBState // the object handed to the store (only valid inside onWrite)
	At        time.Time // when the write had returned from the real store
	At0       time.Time // when the write was about to be handed to the real store
	Err       error
	CurBefore []byte
	FinBefore []byte
	CurAfter  []byte
	FinAfter  []byte
}

// vfdStoreTap delegates every operation to the real BoltStore; writes are serialised per node so that the
// before/after raw records belong to exactly that write.
type vfdStoreTap struct {
	inner   *BoltStore
	node    *vfdNode
	mu      sync.Mutex
	seq     int
	writes  []vfdWrite
	onWrite func(nd *vfdNode, w *vfdWrite)
	pmu     sync.Mutex
	park    *vfdPark
}

// vfdPark: the next GetCurrent issued by goroutine Gid returns (with what it read) only when Release is closed or
// Max has passed; Parked is closed when it got there. Used to hold one operation between its read of the current
// record and whatever it does next, so that another one can be served in between if nothing else prevents it.
type vfdPark struct {
	Gid     uint64
	Parked  chan struct{}
	Release chan struct{}
	Max     time.Duration
}

func (s *vfdStoreTap) setPark(p *vfdPark) {
	s.pmu.Lock()
	s.park = p
	s.pmu.Unlock()
}

var _ Store = (*vfdStoreTap)(nil)

func (s *vfdStoreTap) GetCurrent(id string) (*DBState, error) {
	st, err := s.inner.GetCurrent(id)
	s.pmu.Lock()
	p := s.park
	if p != nil && p.Gid == vfdGid() {
		s.park = nil
	} else {
		p = nil
	}
	s.pmu.Unlock()
	if p != nil {
		close(p.Parked)
		select {
		case <-p.Release:
		case <-time.After(p.Max):
		}
	}
	return st, err
}
func (s *vfdStoreTap) GetFinished(id string) (*DBState, error) { return s.inner.GetFinished(id) }
func (s *vfdStoreTap) Close() error                            { return s.inner.Close() }
func (s *vfdStoreTap) MigrateFromGroupfile(id string, g *key.Group, sh *key.Share) error {
	return s.inner.MigrateFromGroupfile(id, g, sh)
}

func (s *vfdStoreTap) write(id string, st *DBState, finished bool) error {
	s.mu.Lock()
	defer s.mu.Unlock()
	w := vfdWrite{Gid: vfdGid(), Finished: finished}
	if st != nil {
		w.ArgState, w.ArgEpoch, w.Arg = st.State, st.Epoch, st
	}
	w.CurBefore, w.FinBefore = vfdRaw(s.inner, id)
	w.At0 = time.Now()
	if finished {
		w.Err = s.inner.SaveFinished(id, st)
	} else {
		w.Err = s.inner.SaveCurrent(id, st)
	}
	w.At = time.Now()
	w.CurAfter, w.FinAfter = vfdRaw(s.inner, id)
	s.seq++
	w.Seq = s.seq
	s.writes = append(s.writes, w)
	if s.onWrite != nil {
		s.onWrite(s.node, &s.writes[len(s.writes)-1])
	}
	s.writes[len(s.writes)-1].Arg = nil
	return w.Err
}

func (s *vfdStoreTap) SaveCurrent(id string, st *DBState) error  { return s.write(id, st, false) }
func (s *vfdStoreTap) SaveFinished(id string, st *DBState) error { return s.write(id, st, true) }

// finishedEntered: the instant at which the node's successful SaveFinished of `epoch` was entered (zero when none).
func (s *vfdStoreTap) finishedEntered(epoch uint32) time.Time {
	s.mu.Lock()
	defer s.mu.Unlock()
	var at time.Time
	for _, w := range s.writes {
		if w.Finished && w.Err == nil && w.ArgEpoch == epoch && w.ArgState == Complete {
			at = w.At0
		}
	}
	return at
}

// finishedAt: the instant at which the node's successful SaveFinished of `epoch` returned (zero when none).
func (s *vfdStoreTap) finishedAt(epoch uint32) time.Time {
	s.mu.Lock()
	defer s.mu.Unlock()
	var at time.Time
	for _, w := range s.writes {
		if w.Finished && w.Err == nil && w.ArgEpoch == epoch && w.ArgState == Complete {
			at = w.At
		}
	}
	return at
}

func (s *vfdStoreTap) seqNow() int {
	s.mu.Lock()
	defer s.mu.Unlock()
	return s.seq
}

// writesSince returns copies of the writes with Seq > seq.
func (s *vfdStoreTap) writesSince(seq int) []vfdWrite {
	s.mu.Lock()
	defer s.mu.Unlock()
	var out []vfdWrite
	for _, w := range s.writes {
		if w.Seq > seq {
			out = append(out, w)
		}
	}
	return out
}
