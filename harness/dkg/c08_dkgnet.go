package dkg

// C08 — DKG state moves only along legal transitions; failures keep the last good epoch.
//
// Workload: generated histories of operator commands and gossip packets (valid, every invalid proposal class,
// forged packets signed with real keys claiming leader / member / joiner / leaver / outsider, replays) against
// 5..7 real dkg.Process instances with real bolt stores, over up to 3 epochs, including abort, expiry of short real
// timeouts, failed executions (all bundles lost) and retries at the same epoch.
//
// Oracle = a relation and invariants, not a second implementation:
//  (a) every write that reaches a node's bolt store moves current.State along the harness's own copy of the legal
//      edges for the node's role (c08Legal + c08RoleAllows below); a proposal arriving in a terminal state starts
//      from the finished record, so the only legal successors of Aborted/TimedOut/Failed are Proposing/Proposed;
//  (b) current.Epoch never decreases;
//  (c) the raw bytes of the FINISHED record change only in a SaveFinished of a Complete state of a strictly
//      higher epoch, coming from Executing;
//  (d) a command/packet answered with an error leaves the finished record byte-identical;
//  (e) each invalid proposal class is answered with an error and writes nothing;
//  (f) at the end of the history (after aborting what is in flight) a fresh valid proposal for finished.Epoch+1
//      is accepted by everybody (and, in executing histories, its DKG completes).
// (a)–(c) are checked online inside the store tap, i.e. on every single write, with the raw records read from
// the real database immediately before and after that write; (d)–(f) per step.

import (
	"bytes"
	"context"
	"crypto/sha256"
	"encoding/hex"
	"fmt"
	"os"
	"runtime/debug"
	"sort"
	"strings"
	"sync"
	"testing"
	"time"

	"google.golang.org/protobuf/proto"
	"google.golang.org/protobuf/types/known/timestamppb"

	"github.com/drand/drand/v2/common/key"
	"github.com/drand/drand/v2/crypto"
	pdkg "github.com/drand/drand/v2/protobuf/dkg"
)

// ---------------------------------------------------------------- the reference relation

// c08Legal: the legal successors of a current.State, written from the documented meaning of the states
// (state_machine.go doc comments): a proposal is made (Proposing) or received (Proposed) from rest (Fresh, Complete,
// Left or a terminal state); a received proposal is accepted / rejected by remainers, joined by joiners, left by
// leavers; the leader's execute moves Proposing / Accepted / Joined to Executing (never Rejected); an execution
// ends Complete or Failed; anything in the proposal phase can be Aborted or TimedOut.
var c08Legal = map[Status][]Status{
	Fresh:     {Proposing, Proposed},
	Complete:  {Proposing, Proposed},
	Left:      {Proposed, Joined, Aborted},
	Proposing: {Executing, Aborted, TimedOut},
	Proposed:  {Accepted, Rejected, Joined, Left, Aborted, TimedOut},
	Accepted:  {Executing, Aborted, TimedOut},
	Rejected:  {Aborted, TimedOut},
	Joined:    {Executing, Left, Aborted, TimedOut},
	Executing: {Complete, Failed, TimedOut},
	// terminal states: the next event is applied to the last finished record (Complete) or to a fresh state,
	// never to the aborted / timed-out / failed attempt itself
	Aborted:  {Proposing, Proposed},
	TimedOut: {Proposing, Proposed},
	Failed:   {Proposing, Proposed},
}

var c08ProposalPhase = map[Status]bool{Proposing: true, Proposed: true, Accepted: true, Rejected: true, Joined: true}

// c08Roles: the places a node has in a proposal record (a first-epoch leader is also a joiner, a reshare leader is
// also a remainer). The returned name is the most specific one, for signatures and evidence.
type c08Roles struct {
	leader, joiner, remainer, leaver bool
}

func c08RolesOf(st *DBState, me *pdkg.Participant) c08Roles {
	eq := func(p *pdkg.Participant) bool {
		return p != nil && p.Address == me.Address && bytes.Equal(p.Key, me.Key)
	}
	in := func(l []*pdkg.Participant) bool {
		for _, p := range l {
			if eq(p) {
				return true
			}
		}
		return false
	}
	return c08Roles{leader: eq(st.Leader), joiner: in(st.Joining), remainer: in(st.Remaining), leaver: in(st.Leaving)}
}

func (r c08Roles) name() string {
	switch {
	case r.leader:
		return "leader"
	case r.joiner:
		return "joiner"
	case r.remainer:
		return "remainer"
	case r.leaver:
		return "leaver"
	}
	return "outsider"
}

func c08Role(st *DBState, me *pdkg.Participant) string { return c08RolesOf(st, me).name() }

// c08RoleAllows: which place in the proposal a node needs to enter a state.
func c08RoleAllows(to Status, r c08Roles) bool {
	listed := r.leader || r.joiner || r.remainer || r.leaver
	switch to {
	case Proposing:
		return r.leader
	case Proposed:
		// also a leader: a node can be told its own proposal by gossip when it does not hold it any more (here:
		// the harness forges well-formed proposals with the leader's real key, and the receivers gossip them on)
		return listed
	case Accepted, Rejected:
		return r.remainer
	case Joined:
		return r.joiner
	case Left:
		return r.leaver || r.joiner
	case Executing, Complete, Failed:
		return r.leader || r.remainer || r.joiner
	case Aborted, TimedOut:
		return listed
	}
	return false
}

// ---------------------------------------------------------------- cases

type c08Case struct {
	Index     int    `json:"case_index"`
	Seed      uint64 `json:"case_seed"`
	Scheme    string `json:"scheme"`
	BeaconID  string `json:"beacon_id"`
	N0        int    `json:"initial_group"`
	Spare     int    `json:"spare_nodes"`
	Steps     int    `json:"target_steps"`
	Exec      bool   `json:"may_execute"`
	RecoverEx bool   `json:"recovery_runs_dkg"`
	Family    string `json:"family,omitempty"` // "" | left (see c08_left_family.go)
}

type c08Step struct {
	I      int    `json:"i"`
	Kind   string `json:"kind"`
	Actor  string `json:"actor,omitempty"`
	Target string `json:"target,omitempty"`
	Class  string `json:"class,omitempty"`
	Err    string `json:"err,omitempty"`
	OK     bool   `json:"ok"`
}

const (
	c08Phase   = 800 * time.Millisecond
	c08Kickoff = 600 * time.Millisecond
)

func c08MakeCase(idx int) c08Case {
	cs := vfCaseSeed(vfSeed(), "C08", idx)
	rng := vfNewRng(cs)
	sl := crypto.ListSchemes()
	c := c08Case{Index: idx, Seed: cs, Scheme: sl[(idx+int(vfSeed()))%len(sl)], BeaconID: "default"}
	if rng.Chance(40) {
		c.BeaconID = "vfhist"
	}
	c.N0 = rng.Range(3, 4)
	c.Spare = rng.Range(1, 2)
	c.Steps = rng.Range(5, 25)
	c.Exec = rng.Chance(35)
	c.RecoverEx = rng.Chance(12)
	if c.Exec && rng.Chance(50) {
		// long executing histories: several epochs, so that nodes leave and are invited back
		c.Steps = rng.Range(25, 45)
	}
	if idx%20 == 7 {
		c.Family = "left"
		c.N0 = rng.Range(3, 4)
		c.Exec = true
	}
	return c
}

func TestVF_C08_Histories(t *testing.T) {
	run := vfNewRun("C08", "dkgnet")
	defer run.Finish()
	defer func() {
		// the distinct (state-before > state-after / role) edges actually observed, for the evidence file
		run.mu.Lock()
		var edges []string
		for e := range run.sets["edges"] {
			edges = append(edges, e)
		}
		run.mu.Unlock()
		sort.Strings(edges)
		run.Note("edges observed: " + strings.Join(edges, " "))
	}()
	// gossip retries of the real code: 7 attempts with 200 ms linear back-off (5.6 s per refused packet). The
	// histories refuse packets all the time; the package's own knob is turned down so that a history stays in
	// the millisecond range. No logic is changed.
	backoff = 2 * time.Millisecond
	nCases := vfPick(380, 6000)
	par := 20
	base, err := os.MkdirTemp("", "vf-c08-")
	if err != nil {
		t.Fatal(err)
	}
	defer os.RemoveAll(base)
	var idxs []int
	if ri, ok := vfReplayCase(); ok {
		idxs = []int{ri}
	} else {
		for i := 0; i < nCases; i++ {
			idxs = append(idxs, i)
		}
	}
	sem := make(chan struct{}, par)
	var wg sync.WaitGroup
	for _, i := range idxs {
		wg.Add(1)
		sem <- struct{}{}
		go func(i int) {
			defer wg.Done()
			defer func() { <-sem }()
			c08RunHistory(run, base, c08MakeCase(i))
		}(i)
	}
	wg.Wait()
}

// ---------------------------------------------------------------- history driver

type c08H struct {
	run      *vfRun
	c        c08Case
	net      *vfdNet
	rng      *vfRng
	pool     []*vfdNode // candidates for groups
	outsider *vfdNode   // never part of a valid proposal
	all      []*vfdNode

	mu       sync.Mutex
	steps    []c08Step
	accepted int
	rejected int
	execs    int
	writes   int
	epochMax uint32
}

func (h *c08H) info(extra map[string]any) map[string]any {
	h.mu.Lock()
	st := append([]c08Step(nil), h.steps...)
	h.mu.Unlock()
	if len(st) > 40 {
		st = st[len(st)-40:]
	}
	m := map[string]any{"case_index": h.c.Index, "case": h.c, "history_tail": st}
	for k, v := range extra {
		m[k] = v
	}
	return m
}

func c08RunHistory(run *vfRun, base string, c c08Case) {
	sch, err := crypto.GetSchemeByID(c.Scheme)
	if err != nil {
		run.Inconclusive(err.Error())
		return
	}
	dir, err := os.MkdirTemp(base, fmt.Sprintf("h%d-", c.Index))
	if err != nil {
		run.Inconclusive(err.Error())
		return
	}
	cfg := Config{Timeout: time.Minute, TimeBetweenDKGPhases: c08Phase, KickoffGracePeriod: c08Kickoff}
	nw := vfdNewNet(dir, c.BeaconID, sch, cfg, c.Seed)
	nw.startLagMonitor()
	h := &c08H{run: run, c: c, net: nw, rng: vfNewRng(c.Seed ^ 0xc08)}
	nw.onPanic = func(what, dst, val, where, stack string) {
		if len(stack) > 2500 {
			stack = stack[:2500]
		}
		run.Violation(fmt.Sprintf("C08/delivery-panicked/%s/%s", what, where),
			fmt.Sprintf("a %s delivered by the bus to %s made the real Process panic in %s: %s", what, dst, where, val),
			h.info(map[string]any{"stack": stack}))
	}
	keyRng := vfNewRng(c.Seed ^ 0x6b6579)
	for i := 0; i < c.N0+c.Spare+1; i++ {
		nd, err := nw.addNode(fmt.Sprintf("h%d.test:%d", i, 5000+i), keyRng, true)
		if err != nil {
			run.Inconclusive("addNode: " + err.Error())
			return
		}
		nd.tap.onWrite = h.onWrite
		h.all = append(h.all, nd)
	}
	h.pool = h.all[:c.N0+c.Spare]
	h.outsider = h.all[c.N0+c.Spare]

	defer func() {
		if blocked := nw.closeAll(); len(blocked) > 0 {
			// not a C08 matter (reported to the C14 owner): a node whose echo-broadcast board is wedged cannot be closed
			run.Count("nodes_whose_close_blocked", int64(len(blocked)))
			run.Note(fmt.Sprintf("case %d: Process.Close() blocked on %v; blocked frame: %s", c.Index, blocked, vfdBlockedFrame("passToApplication", 700)))
		}
	}()
	t0 := time.Now()
	if c.Family == "left" {
		h.driveLeft()
	} else {
		h.drive()
	}
	tDrive := time.Since(t0)
	h.recovery()
	if d := time.Since(t0); d > 25*time.Second {
		run.Note(fmt.Sprintf("slow history: case %d family %q took %v (drive %v), %d steps, %d executions, stuck deliveries %d", c.Index, c.Family, d.Round(time.Second), tDrive.Round(time.Second), len(h.steps), h.execs, nw.nStuck.Load()))
	}

	nw.addCounters(run)
	run.Count("history_steps", int64(len(h.steps)))
	run.Count("steps_accepted", int64(h.accepted))
	run.Count("steps_rejected", int64(h.rejected))
	run.Count("store_writes_checked", int64(h.writes))
	run.Count("executions_started", int64(h.execs))
	run.Seen("max_epoch_reached", fmt.Sprint(h.epochMax))
	key := ""
	if h.accepted > 0 && h.rejected > 0 {
		hs := sha256.New()
		for _, s := range h.steps {
			fmt.Fprintf(hs, "%s/%s/%v;", s.Kind, s.Class, s.OK)
		}
		key = hex.EncodeToString(hs.Sum(nil)[:10])
	}
	run.Eval(key)
	if _, replay := vfReplayCase(); c.Index%64 == 0 || replay {
		st := h.steps
		if len(st) > 30 && !replay {
			st = st[:30]
		}
		run.Sample(map[string]any{"case": c, "steps_head": st})
	}
}

// ---------------------------------------------------------------- online oracle: every store write

func (h *c08H) onWrite(nd *vfdNode, w *vfdWrite) {
	h.mu.Lock()
	h.writes++
	h.mu.Unlock()
	run := h.run
	cb, errB := vfdDecode(w.CurBefore)
	ca, errA := vfdDecode(w.CurAfter)
	fb, errFB := vfdDecode(w.FinBefore)
	fa, errFA := vfdDecode(w.FinAfter)
	if errB != nil || errA != nil || errFB != nil || errFA != nil {
		run.Violation("C08/record-unreadable-after-write", fmt.Sprintf("node %s: %v %v %v %v", nd.addr, errB, errA, errFB, errFA), h.info(nil))
		return
	}
	if w.Err != nil {
		// a failed write must not have changed anything
		if !bytes.Equal(w.CurBefore, w.CurAfter) || !bytes.Equal(w.FinBefore, w.FinAfter) {
			run.Violation("C08/failed-write-changed-records", nd.addr, h.info(nil))
		}
		return
	}
	if ca == nil {
		return
	}
	from := Fresh
	var fromEpoch uint32
	if cb != nil {
		from, fromEpoch = cb.State, cb.Epoch
	}
	roles := c08RolesOf(ca, nd.part)
	role := roles.name()
	kind := "savecurrent"
	if w.Finished {
		kind = "savefinished"
	}
	h.run.Seen("edges", fmt.Sprintf("%s>%s/%s", from, ca.State, role))
	h.mu.Lock()
	if ca.Epoch > h.epochMax {
		h.epochMax = ca.Epoch
	}
	h.mu.Unlock()
	wi := map[string]any{"node": nd.addr, "write": kind, "from": from.String(), "to": ca.State.String(), "role": role,
		"epoch_before": fromEpoch, "epoch_after": ca.Epoch}
	// (a) legal edge for the role
	if from == ca.State && cb != nil && cb.Epoch == ca.Epoch {
		// a record re-written in the same state: only the collected accept/reject lists may differ, and only in
		// the proposal phase
		same := false
		if c08ProposalPhase[from] {
			x, y := *cb, *ca
			x.Acceptors, x.Rejectors, y.Acceptors, y.Rejectors = nil, nil, nil, nil
			bx, e1 := encodeState(&x)
			by, e2 := encodeState(&y)
			same = e1 == nil && e2 == nil && bytes.Equal(bx, by)
		}
		if !same {
			run.Violation(fmt.Sprintf("C08/illegal-transition/%s-to-%s/%s", from, ca.State, role),
				fmt.Sprintf("node %s re-wrote its current record in state %s with different terms", nd.addr, from), h.info(wi))
		}
	} else {
		legal := false
		for _, s := range c08Legal[from] {
			if s == ca.State {
				legal = true
			}
		}
		if !legal {
			run.Violation(fmt.Sprintf("C08/illegal-transition/%s-to-%s/%s", from, ca.State, role),
				fmt.Sprintf("node %s (%s): current.State %s -> %s (epoch %d -> %d) is not a legal edge", nd.addr, role, from, ca.State, fromEpoch, ca.Epoch), h.info(wi))
		} else if !c08RoleAllows(ca.State, roles) {
			run.Violation(fmt.Sprintf("C08/transition-not-allowed-for-role/%s-to-%s/%s", from, ca.State, role),
				fmt.Sprintf("node %s: %s -> %s written on a node whose role in that proposal is %s", nd.addr, from, ca.State, role), h.info(wi))
		}
	}
	// (b) epoch monotone. The number of an aborted / timed-out / failed attempt is discarded with the attempt
	// (the next proposal starts from the finished record): there the new epoch must exceed the finished epoch.
	if cb != nil {
		floor, what := cb.Epoch, "current.Epoch"
		if c08Terminal(from) {
			floor, what = 0, "finished.Epoch"
			if fb != nil {
				floor = fb.Epoch + 1
			}
		}
		if ca.Epoch < floor {
			run.Violation(fmt.Sprintf("C08/epoch-decreased/%s-to-%s/%s", from, ca.State, role),
				fmt.Sprintf("node %s: current.Epoch %d -> %d (must not go below %d, from %s)", nd.addr, cb.Epoch, ca.Epoch, floor, what), h.info(wi))
		}
	}
	// (c) the finished record
	if !bytes.Equal(w.FinBefore, w.FinAfter) {
		okc := w.Finished && fa != nil && fa.State == Complete && from == Executing &&
			(fb == nil || fa.Epoch > fb.Epoch) && fa.Epoch == fromEpoch && fa.FinalGroup != nil && fa.KeyShare != nil
		if !okc {
			var fbE, faE uint32
			faS := "none"
			if fb != nil {
				fbE = fb.Epoch
			}
			if fa != nil {
				faE, faS = fa.Epoch, fa.State.String()
			}
			run.Violation(fmt.Sprintf("C08/finished-record-replaced/%s/by-%s-in-state-%s", kind, role, faS),
				fmt.Sprintf("node %s: finished record changed (epoch %d -> %d, new state %s) by a %s coming from current.State %s epoch %d", nd.addr, fbE, faE, faS, kind, from, fromEpoch),
				h.info(wi))
		} else {
			h.run.Count("finished_record_replacements_legit", 1)
		}
	}
	if w.Finished && !bytes.Equal(w.CurAfter, w.FinAfter) {
		run.Violation("C08/savefinished-left-current-and-finished-different", nd.addr, h.info(wi))
	}
}

// ---------------------------------------------------------------- views

type c08View struct {
	nd       *vfdNode
	cur, fin *DBState
	curRaw   []byte
	finRaw   []byte
	seq      int
}

func (h *c08H) view(nd *vfdNode) c08View {
	v := c08View{nd: nd, seq: nd.tap.seqNow()}
	v.curRaw, v.finRaw = nd.raw()
	v.cur, _ = vfdDecode(v.curRaw)
	v.fin, _ = vfdDecode(v.finRaw)
	return v
}

func c08Terminal(s Status) bool { return s == Aborted || s == TimedOut || s == Failed }

// eff: the state the next event is applied to.
func (v c08View) eff() (Status, uint32) {
	if v.cur == nil {
		return Fresh, 0
	}
	if c08Terminal(v.cur.State) {
		if v.fin != nil {
			return v.fin.State, v.fin.Epoch
		}
		return Fresh, 0
	}
	return v.cur.State, v.cur.Epoch
}

func (v c08View) inFlight() bool {
	return v.cur != nil && (c08ProposalPhase[v.cur.State] || v.cur.State == Executing)
}

func (h *c08H) byAddr(a string) *vfdNode {
	for _, nd := range h.all {
		if nd.addr == a {
			return nd
		}
	}
	return nil
}

// latest: the group of the highest finished epoch and the pool nodes that are its members.
func (h *c08H) latest() (g *key.Group, fin *DBState, members []*vfdNode) {
	for _, nd := range h.all {
		v := h.view(nd)
		if v.fin != nil && v.fin.FinalGroup != nil && (fin == nil || v.fin.Epoch > fin.Epoch) {
			fin, g = v.fin, v.fin.FinalGroup
		}
	}
	if g == nil {
		return nil, nil, nil
	}
	for _, gn := range g.Nodes {
		if nd := h.byAddr(gn.Addr); nd != nil {
			members = append(members, nd)
		}
	}
	return g, fin, members
}

func (h *c08H) pick(l []*vfdNode) *vfdNode { return l[h.rng.Intn(len(l))] }

func c08Without(l []*vfdNode, x ...*vfdNode) []*vfdNode {
	var out []*vfdNode
	for _, nd := range l {
		skip := false
		for _, y := range x {
			if y == nd {
				skip = true
			}
		}
		if !skip {
			out = append(out, nd)
		}
	}
	return out
}

// ---------------------------------------------------------------- one step

type c08Opt struct {
	kind, class    string
	actor, target  *vfdNode // target = the node whose Command/Packet is called
	mustReject     bool     // (e): an invalid proposal class whose precondition held in the pre-state
	preconditionOn *c08View
}

func (h *c08H) step(o c08Opt, f func() error) error {
	h.net.quiesce(1500 * time.Millisecond)
	pre := h.view(o.target)
	gid := vfdGid()
	var err error
	panicked, where, stack := "", "", ""
	func() {
		defer func() {
			if r := recover(); r != nil {
				stack = string(debug.Stack())
				where = vfdPanicWhere(stack)
				panicked = fmt.Sprint(r)
				err = fmt.Errorf("panic: %v", r)
			}
		}()
		err = f()
	}()
	h.net.quiesce(1500 * time.Millisecond)
	post := h.view(o.target)
	st := c08Step{Kind: o.kind, Class: o.class, Target: o.target.addr, OK: err == nil}
	if o.actor != nil {
		st.Actor = o.actor.addr
	}
	if err != nil {
		st.Err = err.Error()
		if len(st.Err) > 160 {
			st.Err = st.Err[:160]
		}
		e := st.Err
		if i := strings.LastIndex(e, ": "); i >= 0 && len(e)-i < 120 {
			e = e[i+2:]
		}
		h.run.Seen("distinct_error_answers", e)
	}
	h.mu.Lock()
	st.I = len(h.steps)
	h.steps = append(h.steps, st)
	if err == nil {
		h.accepted++
	} else {
		h.rejected++
	}
	h.mu.Unlock()
	h.run.Seen("step_kinds", o.kind+"/"+o.class)

	ws := o.target.tap.writesSince(pre.seq)
	var mine, foreign []vfdWrite
	for _, w := range ws {
		if w.Gid == gid {
			mine = append(mine, w)
		} else {
			foreign = append(foreign, w)
		}
	}
	if panicked != "" {
		if len(stack) > 2500 {
			stack = stack[:2500]
		}
		h.run.Violation(fmt.Sprintf("C08/step-panicked/%s/%s/%s", o.kind, o.class, where),
			fmt.Sprintf("%s (%s) on %s (%s) made the real Process panic in %s: %s", o.kind, o.class, o.target.addr, c08Desc(pre), where, panicked),
			h.info(map[string]any{"stack": stack}))
	}
	// (d) an error answer leaves the finished record byte-identical (a completion by the execution goroutine that
	// lands during the call is a foreign write and has been judged by the tap)
	if err != nil {
		for _, w := range mine {
			if !bytes.Equal(w.FinBefore, w.FinAfter) {
				h.run.Violation(fmt.Sprintf("C08/finished-record-changed-by-rejected-step/%s/%s", o.kind, o.class),
					fmt.Sprintf("%s on %s answered %q but replaced the finished record", o.kind, o.target.addr, st.Err), h.info(nil))
			}
		}
		if len(foreign) == 0 && !bytes.Equal(pre.finRaw, post.finRaw) {
			h.run.Violation(fmt.Sprintf("C08/finished-record-changed-by-rejected-step/%s/%s", o.kind, o.class),
				fmt.Sprintf("%s on %s answered %q; finished record differs afterwards", o.kind, o.target.addr, st.Err), h.info(nil))
		}
		if len(mine) > 0 {
			h.run.Count("rejected_steps_that_wrote_current", 1)
		}
	}
	// (e) invalid proposal classes
	if o.mustReject {
		if len(foreign) > 0 {
			// somebody else moved the target between the pre-read and the answer: the class was judged against a
			// stale pre-state, no verdict
			h.run.Count("invalid_class_verdicts_skipped_concurrent_write", 1)
		} else {
			h.run.Count("invalid_proposals_judged", 1)
			if err == nil {
				h.run.Violation(fmt.Sprintf("C08/invalid-proposal-accepted/%s/%s", o.class, o.kind),
					fmt.Sprintf("%s of class %s was answered with success by %s (state before: %s)", o.kind, o.class, o.target.addr, c08Desc(pre)),
					h.info(map[string]any{"state_before": c08Desc(pre), "state_after": c08Desc(post)}))
			} else if len(mine) > 0 {
				h.run.Violation(fmt.Sprintf("C08/invalid-proposal-changed-state/%s/%s", o.class, o.kind),
					fmt.Sprintf("%s of class %s was refused (%s) but wrote to the store of %s", o.kind, o.class, st.Err, o.target.addr), h.info(nil))
			}
		}
	}
	return err
}

func c08Desc(v c08View) string {
	s := "cur=none"
	if v.cur != nil {
		s = fmt.Sprintf("cur=%s@%d", v.cur.State, v.cur.Epoch)
	}
	if v.fin != nil {
		s += fmt.Sprintf(" fin=%s@%d", v.fin.State, v.fin.Epoch)
	} else {
		s += " fin=none"
	}
	return s
}

// ---------------------------------------------------------------- workload: valid flow

type c08Proposal struct {
	leader    *vfdNode
	joining   []*vfdNode
	remaining []*vfdNode
	leaving   []*vfdNode
	epoch     uint32
	short     bool
	expires   time.Time
}

func (p *c08Proposal) participants() []*vfdNode {
	return append(append([]*vfdNode{}, p.remaining...), p.joining...)
}

func (h *c08H) proposeValid(short bool) *c08Proposal {
	g, fin, members := h.latest()
	timeout := time.Now().Add(40 * time.Second)
	if short {
		timeout = time.Now().Add(time.Duration(h.rng.Range(250, 500)) * time.Millisecond)
	}
	p := &c08Proposal{short: short, expires: timeout}
	if g == nil {
		cand := vfdShuffled(h.rng, h.pool)
		set := cand[:h.c.N0]
		p.leader = set[0]
		p.joining = vfdShuffled(h.rng, set)
		p.epoch = 1
		n := len(set)
		thr := h.rng.Range(n/2+1, n)
		err := h.step(c08Opt{kind: "cmd-initial", class: "valid", actor: p.leader, target: p.leader}, func() error {
			return p.leader.cmdInitial(uint32(thr), uint32(h.rng.Range(1, 3)), 1, h.c.Scheme, timeout,
				time.Now().Add(3*time.Second), vfdParts(p.joining))
		})
		if err != nil {
			return nil
		}
		return p
	}
	if len(members) != len(g.Nodes) {
		return nil
	}
	p.epoch = fin.Epoch + 1
	p.leader = h.pick(members)
	sh := vfdShuffled(h.rng, c08Without(members, p.leader))
	nLeave := 0
	if len(members)-1 >= int(fin.Threshold) && h.rng.Chance(45) {
		nLeave = 1
	}
	p.leaving = sh[:nLeave]
	p.remaining = append([]*vfdNode{p.leader}, sh[nLeave:]...)
	h.run.Count("reshare_proposals_attempted", 1)
	var spare []*vfdNode
	for _, nd := range h.pool {
		if !c06In(members, nd) {
			spare = append(spare, nd)
		}
	}
	if len(spare) > 0 && h.rng.Chance(55) {
		p.joining = []*vfdNode{h.pick(spare)}
		// a node that left in an earlier epoch and is invited back is the interesting joiner
		for _, nd := range spare {
			if v := h.view(nd); v.cur != nil && v.cur.State == Left && h.rng.Chance(90) {
				p.joining = []*vfdNode{nd}
				h.run.Count("reshare_proposals_inviting_a_node_that_left", 1)
				break
			}
		}
	}
	n := len(p.remaining) + len(p.joining)
	thr := h.rng.Range(n/2+1, n)
	err := h.step(c08Opt{kind: "cmd-reshare", class: "valid", actor: p.leader, target: p.leader}, func() error {
		return p.leader.cmdReshare(uint32(thr), 1, timeout, vfdParts(p.joining), vfdParts(vfdShuffled(h.rng, p.remaining)), vfdParts(p.leaving))
	})
	if err != nil {
		return nil
	}
	return p
}

func (h *c08H) groupFile() []byte {
	g, _, _ := h.latest()
	if g == nil {
		return nil
	}
	b, _ := vfdGroupTOML(g)
	return b
}

// respond: one participant answers the proposal (mostly the right way for its role).
func (h *c08H) respond(p *c08Proposal, nd *vfdNode) {
	isJoiner := c06In(p.joining, nd)
	switch {
	case nd == p.leader:
		return
	case isJoiner:
		gf := h.groupFile()
		if p.epoch == 1 {
			gf = nil
		}
		cls := "valid"
		if p.epoch > 1 && h.rng.Chance(12) {
			gf, cls = nil, "without-group-file"
		}
		_ = h.step(c08Opt{kind: "cmd-join", class: cls, actor: nd, target: nd}, func() error { return nd.cmdJoin(gf) })
	case h.rng.Chance(15):
		_ = h.step(c08Opt{kind: "cmd-reject", class: "valid", actor: nd, target: nd}, func() error { return nd.cmdReject() })
	default:
		_ = h.step(c08Opt{kind: "cmd-accept", class: "valid", actor: nd, target: nd}, func() error { return nd.cmdAccept() })
	}
}

// racedAnswer: a participant's answer to the proposal (accept / join) races with the leader's abort of it. The
// command is held between its read of the current record and whatever it does next (store tap, bounded); the leader
// then aborts for real, so its abort packet arrives at the node meanwhile. Whatever order the node serves them in,
// every write must still be a legal edge from the record it replaces (the per-write oracle does the judging).
func (h *c08H) racedAnswer(p *c08Proposal, nd *vfdNode) bool {
	v := h.view(nd)
	if nd == p.leader || nd.tap == nil || v.cur == nil || v.cur.State != Proposed || v.cur.Epoch != p.epoch {
		return false
	}
	h.net.quiesce(1500 * time.Millisecond)
	park := &vfdPark{Parked: make(chan struct{}), Release: make(chan struct{}), Max: 400 * time.Millisecond}
	isJoiner := c06In(p.joining, nd)
	gf := h.groupFile()
	if p.epoch == 1 {
		gf = nil
	}
	done := make(chan error, 1)
	go func() {
		park.Gid = vfdGid()
		nd.tap.setPark(park)
		if isJoiner {
			done <- nd.cmdJoin(gf)
		} else {
			done <- nd.cmdAccept()
		}
	}()
	select {
	case <-park.Parked:
	case <-time.After(3 * time.Second):
		nd.tap.setPark(nil)
		h.run.Count("raced_answers_that_never_read_the_record", 1)
	}
	errAbort := p.leader.cmdAbort()
	close(park.Release)
	var errCmd error
	select {
	case errCmd = <-done:
	case <-time.After(10 * time.Second):
		h.run.Inconclusive(fmt.Sprintf("case %d: an answer racing the leader's abort did not return", h.c.Index))
	}
	h.net.quiesce(1500 * time.Millisecond)
	h.mu.Lock()
	kind := "cmd-accept"
	if isJoiner {
		kind = "cmd-join"
	}
	for _, st := range []c08Step{{Kind: kind, Class: "racing-the-leaders-abort", Actor: nd.addr, Target: nd.addr, OK: errCmd == nil},
		{Kind: "cmd-abort", Class: "leader-racing-an-answer", Actor: p.leader.addr, Target: p.leader.addr, OK: errAbort == nil}} {
		st.I = len(h.steps)
		h.steps = append(h.steps, st)
	}
	h.mu.Unlock()
	h.run.Count("answers_raced_with_the_leaders_abort", 1)
	h.run.Seen("raced_answer_outcomes", fmt.Sprintf("%s/answer-ok=%v/final=%s", kind, errCmd == nil, c08Desc(h.view(nd))))
	return true
}

// execute: the leader starts the real DKG; the harness then waits for the outcome on every participant.
func (h *c08H) execute(p *c08Proposal, drop bool) {
	h.net.setDropBundles(drop)
	cls := "valid"
	if drop {
		cls = "all-bundles-lost"
	} else if parts := p.participants(); len(parts) >= 3 && h.rng.Chance(25) {
		// some participants deal and then fall silent (their response bundles are lost, as after a crash)
		k := h.rng.Range(1, len(parts)-1)
		df := map[string]string{}
		for _, nd := range vfdShuffled(h.rng, parts)[:k] {
			df[nd.addr] = "resp"
		}
		h.net.mu.Lock()
		h.net.dropFrom = df
		h.net.mu.Unlock()
		cls = fmt.Sprintf("responses-of-%d-of-%d-lost", k, len(parts))
		defer func() {
			h.net.mu.Lock()
			h.net.dropFrom = nil
			h.net.mu.Unlock()
		}()
	}
	err := h.step(c08Opt{kind: "cmd-execute", class: cls, actor: p.leader, target: p.leader}, func() error { return p.leader.cmdExecute() })
	if err != nil {
		h.net.setDropBundles(false)
		return
	}
	h.mu.Lock()
	h.execs++
	h.mu.Unlock()
	// some noise while the execution runs
	for i := 0; i < h.rng.Range(0, 3); i++ {
		h.noise(p)
	}
	h.waitExecutions()
	nC, nF, nP := 0, 0, 0
	for _, nd := range p.participants() {
		v := h.view(nd)
		switch {
		case v.fin != nil && v.fin.Epoch == p.epoch:
			nC++
		case v.cur != nil && v.cur.State == Failed && v.cur.Epoch == p.epoch:
			nF++
		default:
			nP++
		}
	}
	if len(p.leaving) > 0 && nC > 0 {
		h.run.Count("executions_completed_with_a_leaver", 1)
		h.run.Seen("leaver_state_after_completed_execution", c08Desc(h.view(p.leaving[0])))
	}
	h.run.Count("execution_outcomes_complete", int64(nC))
	h.run.Count("execution_outcomes_failed", int64(nF))
	h.run.Count("execution_outcomes_not_executing", int64(nP))
	h.net.setDropBundles(false)
	h.net.drain(10 * time.Second)
}

// waitExecutions: executions in flight end by themselves (complete or failed). Pacing only.
func (h *c08H) waitExecutions() {
	deadline := time.Now().Add(c08Kickoff + 4*c08Phase + 10*time.Second)
	for time.Now().Before(deadline) {
		busy := false
		for _, nd := range h.all {
			if v := h.view(nd); v.cur != nil && v.cur.State == Executing {
				busy = true
			}
		}
		if !busy {
			return
		}
		time.Sleep(15 * time.Millisecond)
	}
}

// ---------------------------------------------------------------- workload: invalid / forged / replayed

func (h *c08H) sign(signer *vfdNode, claimed string, beaconID string, pk *pdkg.GossipPacket, terms *pdkg.ProposalTerms) {
	sig, err := signer.kp.Scheme().AuthScheme.Sign(signer.kp.Key, messageForSigning(beaconID, pk, terms))
	if err != nil {
		sig = []byte("harness-could-not-sign")
	}
	pk.Metadata = &pdkg.GossipMetadata{BeaconID: beaconID, Address: claimed, Signature: sig}
}

func c08PartsOfGroup(h *c08H, g *key.Group) []*vfdNode {
	var out []*vfdNode
	for _, gn := range g.Nodes {
		if nd := h.byAddr(gn.Addr); nd != nil {
			out = append(out, nd)
		}
	}
	return out
}

// baseTerms: proposal terms that would be valid for target T in state v (reshare of T's finished group, or a first
// proposal when T has none), led by somebody else.
func (h *c08H) baseTerms(v c08View) (terms *pdkg.ProposalTerms, leader *vfdNode, members []*vfdNode) {
	T := v.nd
	timeout := timestamppb.New(time.Now().Add(40 * time.Second))
	if v.fin == nil || v.fin.FinalGroup == nil {
		others := vfdShuffled(h.rng, c08Without(h.pool, T))
		if len(others) < 2 {
			return nil, nil, nil
		}
		leader = others[0]
		set := []*vfdNode{leader, T, others[1]}
		return &pdkg.ProposalTerms{BeaconID: h.c.BeaconID, Epoch: 1, Leader: proto.Clone(leader.part).(*pdkg.Participant),
			Threshold: 2, Timeout: timeout, CatchupPeriodSeconds: 1, BeaconPeriodSeconds: 2, SchemeID: h.c.Scheme,
			GenesisTime: timestamppb.New(time.Now().Add(3 * time.Second).Truncate(time.Second)),
			Joining:     vfdParts(vfdShuffled(h.rng, set))}, leader, nil
	}
	members = c08PartsOfGroup(h, v.fin.FinalGroup)
	if len(members) != len(v.fin.FinalGroup.Nodes) || !c06In(members, T) || len(members) < 2 {
		return nil, nil, nil
	}
	leader = h.pick(c08Without(members, T))
	return &pdkg.ProposalTerms{BeaconID: h.c.BeaconID, Epoch: v.fin.Epoch + 1, Leader: proto.Clone(leader.part).(*pdkg.Participant),
		Threshold: v.fin.Threshold, Timeout: timeout, CatchupPeriodSeconds: uint32(v.fin.CatchupPeriod.Seconds()),
		BeaconPeriodSeconds: uint32(v.fin.BeaconPeriod.Seconds()), SchemeID: v.fin.SchemeID,
		GenesisTime: timestamppb.New(v.fin.GenesisTime), GenesisSeed: append([]byte{}, v.fin.GenesisSeed...),
		Remaining: vfdParts(vfdShuffled(h.rng, members))}, leader, members
}

var c08PacketClasses = []string{"stale-epoch", "stale-epoch-minus-one", "nil-terms", "empty-terms", "expired-timeout",
	"threshold-below-minimum", "threshold-above-n", "member-dropped", "genesis-time-changed", "genesis-seed-changed",
	"unknown-scheme", "leader-not-remaining", "leader-leaving", "leader-joining", "foreign-beacon-id-in-terms",
	"foreign-beacon-id-in-metadata", "well-formed",
	"changed-beacon-period", "changed-beacon-period-as-leaver", "changed-scheme", "changed-scheme-as-leaver",
	"changed-beacon-period", "changed-scheme", "remainers-below-prior-threshold", "remainers-below-prior-threshold",
	"member-dropped-behind-a-duplicate", "member-dropped-behind-a-duplicate"}

func vfdShuffledStrings(rng *vfRng, l []string) []string {
	out := make([]string, len(l))
	for i, j := range rng.Perm(len(l)) {
		out[i] = l[j]
	}
	return out
}

func c08RemoveAddr(l []*pdkg.Participant, addr string) []*pdkg.Participant {
	var out []*pdkg.Participant
	for _, p := range l {
		if p.Address != addr {
			out = append(out, p)
		}
	}
	return out
}

// forgedProposal sends a proposal packet of the given class, correctly signed with the claimed leader's real key,
// straight to T. Returns false when the class has no meaning in T's state.
func (h *c08H) forgedProposal(T *vfdNode, class string) bool {
	v := h.view(T)
	terms, leader, members := h.baseTerms(v)
	if terms == nil {
		return false
	}
	hasFin := members != nil
	n := len(terms.Remaining) + len(terms.Joining)
	metaBeacon := h.c.BeaconID
	must := true
	switch class {
	case "well-formed":
		must = false
	case "stale-epoch":
		if !hasFin {
			return false
		}
		terms.Epoch = v.fin.Epoch
	case "stale-epoch-minus-one":
		if !hasFin {
			return false
		}
		terms.Epoch = v.fin.Epoch - 1
	case "nil-terms":
		terms = nil
	case "empty-terms":
		terms = &pdkg.ProposalTerms{}
	case "expired-timeout":
		terms.Timeout = timestamppb.New(time.Now().Add(-2 * time.Second))
	case "threshold-below-minimum":
		terms.Threshold = uint32(n / 2)
	case "threshold-above-n":
		terms.Threshold = uint32(n + 1)
	case "member-dropped":
		// a current member is neither remaining nor leaving; everything else stays admissible
		if !hasFin || len(members) < 3 || int(v.fin.Threshold) > len(members)-1 {
			return false
		}
		drop := h.pick(c08Without(members, T, leader))
		terms.Remaining = c08RemoveAddr(terms.Remaining, drop.addr)
		if int(terms.Threshold) < (len(members)-1)/2+1 {
			terms.Threshold = uint32((len(members)-1)/2 + 1)
		}
	case "member-dropped-behind-a-duplicate":
		// a current member is in neither list, and the COUNT of listed nodes is kept up by listing another member twice
		// (twice as remaining, or as remaining and as leaving)
		if !hasFin || len(members) < 3 || int(v.fin.Threshold) > len(members)-1 {
			return false
		}
		drop := h.pick(c08Without(members, T, leader))
		dup := h.pick(c08Without(members, drop))
		terms.Remaining = c08RemoveAddr(terms.Remaining, drop.addr)
		if h.rng.Bool() {
			terms.Remaining = append(terms.Remaining, proto.Clone(dup.part).(*pdkg.Participant))
		} else {
			terms.Leaving = append(terms.Leaving, proto.Clone(dup.part).(*pdkg.Participant))
		}
	case "genesis-time-changed":
		if !hasFin {
			return false
		}
		terms.GenesisTime = timestamppb.New(v.fin.GenesisTime.Add(time.Duration(h.rng.Range(1, 90)) * time.Second))
	case "genesis-seed-changed":
		if !hasFin || len(terms.GenesisSeed) == 0 {
			return false
		}
		terms.GenesisSeed[h.rng.Intn(len(terms.GenesisSeed))] ^= 0x40
	case "unknown-scheme":
		terms.SchemeID = "bls-vf-no-such-scheme"
	case "leader-not-remaining", "leader-leaving":
		if !hasFin || len(members) < 3 || int(v.fin.Threshold) > len(members)-1 {
			return false
		}
		terms.Remaining = c08RemoveAddr(terms.Remaining, leader.addr)
		if class == "leader-leaving" {
			terms.Leaving = []*pdkg.Participant{proto.Clone(leader.part).(*pdkg.Participant)}
		}
		if int(terms.Threshold) < (len(members)-1)/2+1 {
			terms.Threshold = uint32((len(members)-1)/2 + 1)
		}
	case "leader-joining":
		if !hasFin {
			return false
		}
		terms.Remaining = c08RemoveAddr(terms.Remaining, leader.addr)
		terms.Joining = []*pdkg.Participant{proto.Clone(leader.part).(*pdkg.Participant)}
	case "changed-beacon-period", "changed-beacon-period-as-leaver", "changed-scheme", "changed-scheme-as-leaver":
		// the chain's period and scheme are fixed at genesis like its genesis time and seed; T is a member of the
		// current group (remaining, or leaving in the -as-leaver variants) and holds the real values
		if !hasFin {
			return false
		}
		if strings.HasSuffix(class, "-as-leaver") {
			if len(members) < 3 || int(v.fin.Threshold) > len(members)-1 {
				return false
			}
			terms.Remaining = c08RemoveAddr(terms.Remaining, T.addr)
			terms.Leaving = []*pdkg.Participant{proto.Clone(T.part).(*pdkg.Participant)}
			if int(terms.Threshold) < (len(members)-1)/2+1 {
				terms.Threshold = uint32((len(members)-1)/2 + 1)
			}
			if int(terms.Threshold) > len(members)-1 {
				terms.Threshold = uint32(len(members) - 1)
			}
		}
		if strings.HasPrefix(class, "changed-beacon-period") {
			terms.BeaconPeriodSeconds += uint32(h.rng.Range(1, 30))
		} else {
			for _, id := range vfdShuffledStrings(h.rng, crypto.ListSchemes()) {
				if id != v.fin.SchemeID {
					terms.SchemeID = id
					break
				}
			}
		}
	case "remainers-below-prior-threshold":
		// fewer current members stay than the previous threshold (they could not even reconstruct the old secret), but
		// with the joiners counted the new group is large enough for its own threshold: every other constraint holds
		if !hasFin || v.fin.Threshold < 2 {
			return false
		}
		keep := int(v.fin.Threshold) - 1
		stay := []*vfdNode{leader}
		if keep >= 2 {
			stay = append(stay, T)
		}
		for _, m := range vfdShuffled(h.rng, c08Without(members, leader, T)) {
			if len(stay) < keep {
				stay = append(stay, m)
			}
		}
		fresh := vfdShuffled(h.rng, c08Without(h.pool, members...))
		if len(fresh) < 2 {
			return false
		}
		join := fresh[:2]
		terms.Remaining = vfdParts(vfdShuffled(h.rng, stay))
		terms.Leaving = vfdParts(vfdShuffled(h.rng, c08Without(members, stay...)))
		terms.Joining = vfdParts(join)
		nn := len(stay) + len(join)
		terms.Threshold = uint32(nn/2 + 1)
	case "foreign-beacon-id-in-terms":
		terms.BeaconID = "vf-some-other-beacon"
	case "foreign-beacon-id-in-metadata":
		terms.BeaconID = "vf-some-other-beacon"
		metaBeacon = "vf-some-other-beacon"
	default:
		return false
	}
	pk := &pdkg.GossipPacket{Packet: &pdkg.GossipPacket_Proposal{Proposal: terms}}
	h.sign(leader, leader.addr, metaBeacon, pk, terms)
	_ = h.step(c08Opt{kind: "pkt-proposal", class: class, actor: leader, target: T, mustReject: must}, func() error {
		_, err := T.proc.Packet(context.Background(), pk)
		return err
	})
	return true
}

var c08CmdClasses = []string{"threshold-above-n", "threshold-below-minimum", "expired-timeout", "member-dropped",
	"leader-not-remaining", "leader-joining", "unknown-scheme", "stale-initial", "remainers-below-prior-threshold",
	"member-dropped-behind-a-duplicate", "reshare-before-any-epoch"}

// invalidCommand: an operator command carrying an invalid proposal.
func (h *c08H) invalidCommand(P *vfdNode, class string) bool {
	v := h.view(P)
	timeout := time.Now().Add(40 * time.Second)
	if v.fin == nil || v.fin.FinalGroup == nil {
		set := append([]*vfdNode{P}, vfdShuffled(h.rng, c08Without(h.pool, P))[:2]...)
		thr, scheme := uint32(2), h.c.Scheme
		switch class {
		case "threshold-above-n":
			thr = 4
		case "threshold-below-minimum":
			thr = 1
		case "expired-timeout":
			timeout = time.Now().Add(-time.Second)
		case "unknown-scheme":
			scheme = "bls-vf-no-such-scheme"
		case "reshare-before-any-epoch":
			// a node that never completed an epoch (whatever became of its first attempt) has nothing to reshare
			_ = h.step(c08Opt{kind: "cmd-reshare", class: class, actor: P, target: P, mustReject: true}, func() error {
				return P.cmdReshare(2, 1, timeout, vfdParts(set[2:]), vfdParts(set[:2]), nil)
			})
			return true
		default:
			return false
		}
		_ = h.step(c08Opt{kind: "cmd-initial", class: class, actor: P, target: P, mustReject: true}, func() error {
			return P.cmdInitial(thr, 2, 1, scheme, timeout, time.Now().Add(3*time.Second), vfdParts(set))
		})
		return true
	}
	members := c08PartsOfGroup(h, v.fin.FinalGroup)
	if len(members) != len(v.fin.FinalGroup.Nodes) || !c06In(members, P) {
		return false
	}
	remaining, leaving, joining := vfdShuffled(h.rng, members), []*vfdNode(nil), []*vfdNode(nil)
	thr := v.fin.Threshold
	fixThr := func(n int) {
		if int(thr) < n/2+1 {
			thr = uint32(n/2 + 1)
		}
	}
	switch class {
	case "threshold-above-n":
		thr = uint32(len(members) + 1)
	case "threshold-below-minimum":
		thr = uint32(len(members) / 2)
	case "expired-timeout":
		timeout = time.Now().Add(-time.Second)
	case "member-dropped":
		if len(members) < 3 || int(v.fin.Threshold) > len(members)-1 {
			return false
		}
		remaining = c08Without(remaining, h.pick(c08Without(members, P)))
		fixThr(len(remaining))
	case "leader-not-remaining":
		if len(members) < 3 || int(v.fin.Threshold) > len(members)-1 {
			return false
		}
		remaining = c08Without(remaining, P)
		leaving = []*vfdNode{P}
		fixThr(len(remaining))
	case "leader-joining":
		remaining = c08Without(remaining, P)
		joining = []*vfdNode{P}
	case "member-dropped-behind-a-duplicate":
		if len(members) < 3 || int(v.fin.Threshold) > len(members)-1 {
			return false
		}
		drop := h.pick(c08Without(members, P))
		dup := h.pick(c08Without(members, drop))
		remaining = append(c08Without(remaining, drop), dup)
		fixThr(len(remaining) - 1)
	case "remainers-below-prior-threshold":
		if v.fin.Threshold < 2 {
			return false
		}
		fresh := vfdShuffled(h.rng, c08Without(h.pool, members...))
		if len(fresh) < 2 {
			return false
		}
		stay := []*vfdNode{P}
		for _, m := range c08Without(remaining, P) {
			if len(stay) < int(v.fin.Threshold)-1 {
				stay = append(stay, m)
			}
		}
		leaving = c08Without(members, stay...)
		remaining, joining = stay, fresh[:2]
		thr = uint32((len(stay)+2)/2 + 1)
	case "stale-initial":
		// a first-epoch proposal on a node that already completed an epoch
		_ = h.step(c08Opt{kind: "cmd-initial", class: class, actor: P, target: P, mustReject: true}, func() error {
			return P.cmdInitial(uint32(len(members)/2+1), 2, 1, v.fin.SchemeID, timeout, time.Now().Add(3*time.Second), vfdParts(members))
		})
		return true
	default:
		return false
	}
	_ = h.step(c08Opt{kind: "cmd-reshare", class: class, actor: P, target: P, mustReject: true}, func() error {
		return P.cmdReshare(thr, 1, timeout, vfdParts(joining), vfdParts(remaining), vfdParts(leaving))
	})
	return true
}

// forgedControl: accept / reject / abort / execute packets claiming to come from `claimed`, signed with the key of
// `signer` (the same node, or somebody else = bad signature), built against T's own stored proposal.
func (h *c08H) forgedControl(T *vfdNode) {
	v := h.view(T)
	if v.cur == nil {
		return
	}
	terms := termsFromState(v.cur)
	claimed := h.pick(h.all)
	signer := claimed
	cls := "signed-by-claimed-sender"
	if h.rng.Chance(25) {
		signer = h.pick(h.all)
		if signer != claimed {
			cls = "signed-by-somebody-else"
		}
	}
	role := c08Role(v.cur, claimed.part)
	var pk *pdkg.GossipPacket
	var kind string
	switch h.rng.Intn(4) {
	case 0:
		who := claimed
		if h.rng.Chance(20) {
			who = h.pick(h.all) // accepting on behalf of somebody else
		}
		kind = "pkt-accept"
		pk = &pdkg.GossipPacket{Packet: &pdkg.GossipPacket_Accept{Accept: &pdkg.AcceptProposal{Acceptor: proto.Clone(who.part).(*pdkg.Participant)}}}
	case 1:
		kind = "pkt-reject"
		pk = &pdkg.GossipPacket{Packet: &pdkg.GossipPacket_Reject{Reject: &pdkg.RejectProposal{Rejector: proto.Clone(claimed.part).(*pdkg.Participant)}}}
	case 2:
		kind = "pkt-abort"
		pk = &pdkg.GossipPacket{Packet: &pdkg.GossipPacket_Abort{Abort: &pdkg.AbortDKG{Reason: "vf"}}}
	default:
		// execute packets are only forged from non-leaders or with a bad signature: a well-signed execute of the
		// real leader is the valid flow (cmd-execute) and starts a real DKG
		if role == "leader" && signer == claimed {
			return
		}
		kind = "pkt-execute"
		pk = &pdkg.GossipPacket{Packet: &pdkg.GossipPacket_Execute{Execute: &pdkg.StartExecution{Time: timestamppb.New(time.Now().Add(c08Kickoff))}}}
	}
	h.sign(signer, claimed.addr, h.c.BeaconID, pk, terms)
	_ = h.step(c08Opt{kind: kind, class: "from-" + role + "/" + cls, actor: claimed, target: T}, func() error {
		_, err := T.proc.Packet(context.Background(), pk)
		return err
	})
}

// replay: a packet recorded on the bus earlier in this history is delivered again to a random node.
func (h *c08H) replay() {
	h.net.mu.Lock()
	var pk *pdkg.GossipPacket
	if len(h.net.gossips) > 0 {
		pk = proto.Clone(h.net.gossips[h.rng.Intn(len(h.net.gossips))]).(*pdkg.GossipPacket)
	}
	h.net.mu.Unlock()
	if pk == nil {
		return
	}
	T := h.pick(h.all)
	_ = h.step(c08Opt{kind: "pkt-replay", class: packetName(pk), target: T}, func() error {
		_, err := T.proc.Packet(context.Background(), pk)
		return err
	})
}

// wrongCommand: an operator command from a node for which it is (probably) not the right one.
func (h *c08H) wrongCommand() {
	nd := h.pick(h.all)
	switch h.rng.Intn(6) {
	case 0:
		_ = h.step(c08Opt{kind: "cmd-accept", class: "random-node", actor: nd, target: nd}, func() error { return nd.cmdAccept() })
	case 1:
		_ = h.step(c08Opt{kind: "cmd-reject", class: "random-node", actor: nd, target: nd}, func() error { return nd.cmdReject() })
	case 2:
		gf := h.groupFile()
		_ = h.step(c08Opt{kind: "cmd-join", class: "random-node", actor: nd, target: nd}, func() error { return nd.cmdJoin(gf) })
	case 3:
		_ = h.step(c08Opt{kind: "cmd-join", class: "random-node-no-group-file", actor: nd, target: nd}, func() error { return nd.cmdJoin(nil) })
	case 4:
		v := h.view(nd)
		// a node that could really start an execution is left to the valid flow
		if v.cur != nil && v.cur.State == Proposing {
			return
		}
		_ = h.step(c08Opt{kind: "cmd-execute", class: "random-node", actor: nd, target: nd}, func() error { return nd.cmdExecute() })
	default:
		v := h.view(nd)
		// aborting is kept for the deliberate abort steps unless nothing is in flight on that node
		if v.inFlight() {
			return
		}
		_ = h.step(c08Opt{kind: "cmd-abort", class: "nothing-in-flight", actor: nd, target: nd}, func() error { return nd.cmdAbort() })
	}
}

func (h *c08H) noise(p *c08Proposal) {
	switch r := h.rng.Intn(100); {
	case r < 40:
		T := h.pick(h.all)
		cls := c08PacketClasses[h.rng.Intn(len(c08PacketClasses))]
		if cls == "well-formed" && p != nil {
			// a well-formed competing proposal while one is in flight is also fine, it is judged by the relation only
		}
		if !h.forgedProposal(T, cls) {
			h.forgedProposal(T, "expired-timeout")
		}
	case r < 55:
		P := h.pick(h.all)
		if !h.invalidCommand(P, c08CmdClasses[h.rng.Intn(len(c08CmdClasses))]) {
			h.invalidCommand(P, "threshold-above-n")
		}
	case r < 75:
		h.forgedControl(h.pick(h.all))
	case r < 87:
		h.replay()
	default:
		h.wrongCommand()
	}
}

// ---------------------------------------------------------------- the history

func (h *c08H) nSteps() int {
	h.mu.Lock()
	defer h.mu.Unlock()
	return len(h.steps)
}

func (h *c08H) drive() {
	for round := 0; h.nSteps() < h.c.Steps && round < 16; round++ {
		for i := 0; i < h.rng.Range(0, 3); i++ {
			h.noise(nil)
		}
		short := h.rng.Chance(15)
		p := h.proposeValid(short)
		if p == nil {
			// something is in the way (a node in flight from an earlier round, a partial epoch): clean up as an
			// operator would and try again
			h.abortAll()
			continue
		}
		if short {
			// let the real timeout pass, then see that nothing moves on and that the attempt can be abandoned
			for i := 0; i < h.rng.Range(0, 2); i++ {
				h.noise(p)
			}
			if d := time.Until(p.expires.Add(30 * time.Millisecond)); d > 0 {
				time.Sleep(d)
			}
			h.run.Count("proposal_timeouts_expired", 1)
			for _, nd := range vfdShuffled(h.rng, p.participants()) {
				if h.rng.Chance(50) {
					h.respond(p, nd)
				}
			}
			if h.rng.Chance(50) {
				_ = h.step(c08Opt{kind: "cmd-execute", class: "after-timeout", actor: p.leader, target: p.leader}, func() error { return p.leader.cmdExecute() })
			}
			h.abortBy(p.leader, "after-timeout")
			continue
		}
		// answers, interleaved with noise
		raced := false
		for _, nd := range vfdShuffled(h.rng, p.participants()) {
			if !raced && h.rng.Chance(12) && h.racedAnswer(p, nd) {
				raced = true
				break
			}
			if h.rng.Chance(88) {
				h.respond(p, nd)
			}
			if h.rng.Chance(35) {
				h.noise(p)
			}
		}
		if raced {
			continue // the leader has aborted this attempt
		}
		switch r := h.rng.Intn(100); {
		case r < 35 || !h.c.Exec:
			if h.rng.Chance(75) {
				h.abortBy(p.leader, "leader")
			} else {
				// left in flight; a later round (or the recovery) has to clean up
			}
		case r < 55:
			h.execute(p, true) // failed execution, retry at the same epoch follows
		default:
			h.execute(p, false)
		}
	}
}

func (h *c08H) abortBy(nd *vfdNode, class string) {
	_ = h.step(c08Opt{kind: "cmd-abort", class: class, actor: nd, target: nd}, func() error { return nd.cmdAbort() })
}

// abortAll: every node with something in flight (and not executing) aborts: first the leaders (their abort is
// gossiped), then whoever is still in flight locally.
func (h *c08H) abortAll() {
	for pass := 0; pass < 2; pass++ {
		for _, nd := range h.all {
			v := h.view(nd)
			// Left: a leaver of an attempt that did not complete for the others still holds that attempt; the
			// operator abandons it with abort like any other in-flight state
			if v.cur == nil || !(c08ProposalPhase[v.cur.State] || v.cur.State == Left) {
				continue
			}
			if pass == 0 && v.cur.State != Proposing {
				continue
			}
			h.abortBy(nd, "cleanup")
		}
	}
}

// ---------------------------------------------------------------- (f) recoverability

func (h *c08H) recovery() {
	run := h.run
	h.waitExecutions()
	h.net.setDropBundles(false)
	h.net.drain(10 * time.Second)
	for _, nd := range h.all {
		cr, fr := nd.raw()
		_, e1 := vfdDecode(cr)
		_, e2 := vfdDecode(fr)
		if e1 != nil || e2 != nil {
			_, cmdErr := nd.bolt.GetCurrent(h.c.BeaconID)
			run.Violation("C08/not-recoverable/dkg-database-unreadable",
				fmt.Sprintf("%s cannot read its own DKG records any more (current: %v, finished: %v); every command now answers: %v", nd.addr, e1, e2, cmdErr), h.info(nil))
			return
		}
	}
	h.abortAll()
	h.net.quiesce(2 * time.Second)
	for _, nd := range h.all {
		if v := h.view(nd); v.inFlight() {
			run.Count("recovery_skipped_node_still_in_flight", 1)
			return
		}
	}
	g, fin, members := h.latest()
	var p *c08Proposal
	if g != nil {
		if len(members) != len(g.Nodes) {
			run.Count("recovery_skipped_member_unknown", 1)
			return
		}
		for _, m := range members {
			v := h.view(m)
			if v.fin == nil || v.fin.Epoch != fin.Epoch {
				// some members completed the epoch and others did not: the documented operator case, not ours
				run.Count("recovery_skipped_partial_epoch", 1)
				return
			}
			// members that came out of the epoch with different groups (node set / seed) are C06's matter; a
			// proposal built from one member's record is then legitimately refused by another
			if v.fin.FinalGroup == nil || strings.Join(c06NodesDesc(v.fin.FinalGroup), ",") != strings.Join(c06NodesDesc(g), ",") ||
				!bytes.Equal(v.fin.GenesisSeed, fin.GenesisSeed) {
				run.Count("recovery_skipped_members_hold_different_groups", 1)
				run.Note(fmt.Sprintf("case %d: members hold different groups for epoch %d: %s has %v seed %x, reference %v seed %x", h.c.Index, fin.Epoch,
					m.addr, c06NodesDesc(v.fin.FinalGroup), v.fin.GenesisSeed, c06NodesDesc(g), fin.GenesisSeed))
				return
			}
		}
	}
	// the fresh valid proposal: same members (a first proposal when nothing ever completed)
	timeout := time.Now().Add(40 * time.Second)
	if g == nil {
		set := vfdShuffled(h.rng, h.pool)[:h.c.N0]
		p = &c08Proposal{leader: set[0], joining: set, epoch: 1}
		err := h.step(c08Opt{kind: "cmd-initial", class: "recovery", actor: p.leader, target: p.leader}, func() error {
			return p.leader.cmdInitial(uint32(len(set)/2+1), 1, 1, h.c.Scheme, timeout, time.Now().Add(2*time.Second), vfdParts(set))
		})
		if err != nil {
			run.Violation("C08/not-recoverable/first-proposal-refused-after-history",
				fmt.Sprintf("after the history nothing was in flight and no epoch had completed, yet a fresh first proposal was answered: %v", err), h.info(nil))
			return
		}
	} else {
		p = &c08Proposal{leader: h.pick(members), epoch: fin.Epoch + 1}
		p.remaining = members
		err := h.step(c08Opt{kind: "cmd-reshare", class: "recovery", actor: p.leader, target: p.leader}, func() error {
			return p.leader.cmdReshare(fin.Threshold, 1, timeout, nil, vfdParts(vfdShuffled(h.rng, members)), nil)
		})
		if err != nil {
			views := map[string]any{}
			for _, m := range members {
				v := h.view(m)
				d := map[string]any{"state": c08Desc(v)}
				if v.fin != nil && v.fin.FinalGroup != nil {
					d["genesis_seed"] = hex.EncodeToString(v.fin.GenesisSeed)
					d["group_hash"] = hex.EncodeToString(v.fin.FinalGroup.Hash())
					d["group_nodes"] = c06NodesDesc(v.fin.FinalGroup)
					d["group_threshold"] = v.fin.FinalGroup.Threshold
					d["group_transition"] = v.fin.FinalGroup.TransitionTime
					d["group_genesis"] = v.fin.FinalGroup.GenesisTime
				}
				views[m.addr] = d
			}
			run.Violation("C08/not-recoverable/proposal-for-next-epoch-refused-after-history",
				fmt.Sprintf("all %d members hold finished epoch %d and nothing is in flight, yet a fresh valid proposal for epoch %d was answered: %v", len(members), fin.Epoch, fin.Epoch+1, err),
				h.info(map[string]any{"members": views}))
			return
		}
	}
	run.Count("recovery_proposals_accepted", 1)
	// everybody stored it
	h.net.quiesce(2 * time.Second)
	for _, nd := range p.participants() {
		v := h.view(nd)
		if v.cur == nil || v.cur.Epoch != p.epoch || !(v.cur.State == Proposed || v.cur.State == Proposing) {
			run.Violation("C08/not-recoverable/participant-did-not-store-the-proposal",
				fmt.Sprintf("%s after the recovery proposal for epoch %d: %s", nd.addr, p.epoch, c08Desc(v)), h.info(nil))
			return
		}
	}
	if !h.c.RecoverEx {
		return
	}
	for _, nd := range p.participants() {
		if nd == p.leader {
			continue
		}
		nd := nd
		var err error
		if p.epoch == 1 {
			err = h.step(c08Opt{kind: "cmd-join", class: "recovery", actor: nd, target: nd}, func() error { return nd.cmdJoin(nil) })
		} else {
			err = h.step(c08Opt{kind: "cmd-accept", class: "recovery", actor: nd, target: nd}, func() error { return nd.cmdAccept() })
		}
		if err != nil {
			run.Violation("C08/not-recoverable/answer-to-recovery-proposal-refused", fmt.Sprintf("%s: %v", nd.addr, err), h.info(nil))
			return
		}
	}
	h.net.resetLag()
	h.net.maxLatNs.Store(0)
	h.net.resetTiming()
	if err := h.step(c08Opt{kind: "cmd-execute", class: "recovery", actor: p.leader, target: p.leader}, func() error { return p.leader.cmdExecute() }); err != nil {
		run.Violation("C08/not-recoverable/execute-of-recovery-proposal-refused", err.Error(), h.info(nil))
		return
	}
	out := vfdWaitOutcome(p.participants(), p.epoch, c08Kickoff+4*c08Phase+15*time.Second)
	for a, r := range out {
		if r == "pending" {
			run.Inconclusive(fmt.Sprintf("case %d: recovery DKG neither completed nor failed on %s within the watchdog", h.c.Index, a))
			return
		}
	}
	if lag, lat := h.net.lag(), time.Duration(h.net.maxLatNs.Load()); lag > 150*time.Millisecond || lat > c08Phase/2 {
		for _, r := range out {
			if r != "complete" {
				run.Inconclusive(fmt.Sprintf("case %d: recovery DKG ended %v while the box was not keeping time (timer lag %v, slowest bundle %v)", h.c.Index, out, lag, lat))
				return
			}
		}
	}
	{
		var paddrs []string
		for _, nd := range p.participants() {
			paddrs = append(paddrs, nd.addr)
		}
		if late := h.net.synchronyKept(paddrs, "", c08Phase, 250*time.Millisecond+2*h.net.lag()); late != "" {
			for _, r := range out {
				if r != "complete" {
					run.Inconclusive(fmt.Sprintf("case %d: recovery DKG ended %v outside the synchronous model: %s", h.c.Index, out, late))
					return
				}
			}
		}
	}
	for a, r := range out {
		if r != "complete" {
			run.Violation("C08/not-recoverable/recovery-dkg-did-not-complete",
				fmt.Sprintf("recovery DKG for epoch %d ended %q on %s", p.epoch, r, a), h.info(map[string]any{"outcomes": out}))
			return
		}
	}
	run.Count("recovery_dkgs_completed", 1)
	h.net.drain(5 * time.Second)
}
