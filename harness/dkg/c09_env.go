package dkg

// c09_env: shared runtime of the C09 (authenticity of DKG control packets) and C14 (dkg part: no packet
// wedges or crashes dkg.Process) checks.
//
// What is real here: dkg.Process, BoltStore (dkg.db in a temp dir), key pairs, the kyber DKG, every state is
// reached by Process.Command (StartNetwork/Join/Execute/StartProposal/Accept/Abort).
// What the harness adds: an in-memory net.DKGClient (c09Bus) that routes Packet/BroadcastDKG by address and clones
// every message (as the wire would), byte images of each node's dkg.db at named stages, and "forks": a new
// Process opened on a copy of such an image (a restarted node: empty SeenPackets, same database).

import (
	"bytes"
	"context"
	"errors"
	"fmt"
	"io"
	"os"
	"path/filepath"
	"runtime/debug"
	"strings"
	"sync"
	"testing"
	"time"

	"github.com/BurntSushi/toml"
	"go.uber.org/zap/zapcore"
	bolt "go.etcd.io/bbolt"
	"google.golang.org/grpc"
	"google.golang.org/protobuf/proto"
	"google.golang.org/protobuf/types/known/timestamppb"

	"github.com/drand/drand/v2/common/key"
	"github.com/drand/drand/v2/common/log"
	"github.com/drand/drand/v2/crypto"
	"github.com/drand/drand/v2/internal/net"
	"github.com/drand/drand/v2/internal/util"
	drand "github.com/drand/drand/v2/protobuf/dkg"
)

const c09BeaconID = "vfc09"

// ---------------------------------------------------------------- identity provider

// c09Ident is the BeaconIdentifier of a node: like DrandDaemon.KeypairFor it knows a fixed set of beacon ids
// and answers an error for any other.
type c09Ident struct {
	kps map[string]*key.Pair
}

func (i c09Ident) KeypairFor(beaconID string) (*key.Pair, error) {
	kp, ok := i.kps[beaconID]
	if !ok {
		return nil, fmt.Errorf("no beacon found for ID %s", beaconID)
	}
	return kp, nil
}

// ---------------------------------------------------------------- in-memory DKG client

type c09Wire struct {
	To  string
	Pkt *drand.GossipPacket
}

// c09Bus routes by destination address. Unknown destinations swallow the message (answer ok), so that gossip to a
// node the scenario does not run never goes into the 5.6 s retry loop.
type c09Bus struct {
	mu       sync.Mutex
	procs    map[string]*Process
	wires    []c09Wire
	gossips  int64
	dkgPkts  int64
	swallowed int64
}

func c09NewBus() *c09Bus { return &c09Bus{procs: map[string]*Process{}} }

func (b *c09Bus) add(addr string, p *Process) {
	b.mu.Lock()
	b.procs[addr] = p
	b.mu.Unlock()
}

func (b *c09Bus) remove(addr string) {
	b.mu.Lock()
	delete(b.procs, addr)
	b.mu.Unlock()
}

func (b *c09Bus) Packet(_ context.Context, p net.Peer, packet *drand.GossipPacket, _ ...grpc.CallOption) (*drand.EmptyDKGResponse, error) {
	cp := proto.Clone(packet).(*drand.GossipPacket)
	b.mu.Lock()
	dst := b.procs[p.Address()]
	b.gossips++
	if len(b.wires) < 4096 {
		b.wires = append(b.wires, c09Wire{To: p.Address(), Pkt: proto.Clone(packet).(*drand.GossipPacket)})
	}
	if dst == nil {
		b.swallowed++
	}
	b.mu.Unlock()
	if dst == nil {
		return &drand.EmptyDKGResponse{}, nil
	}
	return dst.Packet(context.Background(), cp)
}

func (b *c09Bus) BroadcastDKG(_ context.Context, p net.Peer, in *drand.DKGPacket, _ ...grpc.CallOption) (*drand.EmptyDKGResponse, error) {
	cp := proto.Clone(in).(*drand.DKGPacket)
	b.mu.Lock()
	dst := b.procs[p.Address()]
	b.dkgPkts++
	b.mu.Unlock()
	if dst == nil {
		return &drand.EmptyDKGResponse{}, nil
	}
	return dst.BroadcastDKG(context.Background(), cp)
}

// firstWire returns the first recorded gossip packet satisfying pred.
func (b *c09Bus) firstWire(pred func(*drand.GossipPacket) bool) *drand.GossipPacket {
	b.mu.Lock()
	defer b.mu.Unlock()
	for _, w := range b.wires {
		if pred(w.Pkt) {
			return proto.Clone(w.Pkt).(*drand.GossipPacket)
		}
	}
	return nil
}

// ---------------------------------------------------------------- nodes

type c09Node struct {
	Name  string
	Addr  string
	KP    *key.Pair
	Part  *drand.Participant
	Proc  *Process
	Store *BoltStore
	Dir   string
}

var c09QuietLog = log.New(zapcore.AddSync(io.Discard), log.FatalLevel, true)

func c09Logger() log.Logger {
	if os.Getenv("C09_LOGS") != "" {
		return log.New(nil, log.DebugLevel, false)
	}
	return c09QuietLog
}

func c09TempDir(prefix string) (string, error) {
	base := os.Getenv("C09_TMP")
	if base == "" {
		if st, err := os.Stat("/dev/shm"); err == nil && st.IsDir() {
			base = "/dev/shm"
		}
	}
	return os.MkdirTemp(base, prefix)
}

func c09Participant(kp *key.Pair) *drand.Participant {
	p, err := util.PublicKeyAsParticipant(kp.Public)
	if err != nil {
		panic(err)
	}
	return p
}

// c09OpenNode opens a Process on dir (creating dkg.db if absent).
func c09OpenNode(name string, kp *key.Pair, dir string, client net.DKGClient, conf Config, beaconIDs ...string) (*c09Node, error) {
	store, err := NewDKGStore(dir)
	if err != nil {
		return nil, err
	}
	id := c09Ident{kps: map[string]*key.Pair{}}
	for _, b := range beaconIDs {
		id.kps[b] = kp
	}
	out := util.NewFanOutChan[SharingOutput]()
	proc := NewDKGProcess(store, id, out, client, nil, conf, c09Logger().Named(name))
	return &c09Node{Name: name, Addr: kp.Public.Address(), KP: kp, Part: c09Participant(kp), Proc: proc, Store: store, Dir: dir}, nil
}

func (n *c09Node) close() {
	if n == nil {
		return
	}
	done := make(chan struct{})
	go func() {
		defer close(done)
		defer func() { _ = recover() }()
		n.Proc.Close()
	}()
	select {
	case <-done:
	case <-time.After(5 * time.Second):
		// a wedged Process (C14) cannot be closed: its lock is held for ever. Leak it.
	}
	_ = os.RemoveAll(n.Dir)
}

// image returns a consistent byte image of the node's dkg.db (bolt read transaction).
func (n *c09Node) image() ([]byte, error) {
	var buf bytes.Buffer
	err := n.Store.db.View(func(tx *bolt.Tx) error {
		_, err := tx.WriteTo(&buf)
		return err
	})
	return buf.Bytes(), err
}

// dump returns every raw record of every bucket of dkg.db: "<bucket>/<key>" -> bytes.
func (n *c09Node) dump() (map[string]string, error) {
	out := map[string]string{}
	err := n.Store.db.View(func(tx *bolt.Tx) error {
		return tx.ForEach(func(name []byte, b *bolt.Bucket) error {
			return b.ForEach(func(k, v []byte) error {
				out[string(name)+"/"+string(k)] = string(v)
				return nil
			})
		})
	})
	return out, err
}

func c09DumpDiff(a, b map[string]string) string {
	var diff []string
	for k, v := range a {
		w, ok := b[k]
		if !ok {
			diff = append(diff, "deleted "+k)
		} else if w != v {
			diff = append(diff, "changed "+k)
		}
	}
	for k := range b {
		if _, ok := a[k]; !ok {
			diff = append(diff, "created "+k)
		}
	}
	if len(diff) == 0 {
		return ""
	}
	return fmt.Sprint(diff)
}

// ---------------------------------------------------------------- world: states prepared by real commands

type c09World struct {
	Scheme   *crypto.Scheme
	BeaconID string
	Bus      *c09Bus
	Sink     *c09Bus // client of forks: swallows everything
	Nodes    map[string]*c09Node
	Outsider *key.Pair
	// Stages: stage name -> node name -> image of dkg.db
	Stages map[string]map[string][]byte
	// Terms: the proposal terms the real leader gossiped, per epoch
	Terms map[int]*drand.ProposalTerms
	// Real: packets captured from the real gossip: proposal1 proposal2 accept2 execute1 abort2
	Real     map[string]*drand.GossipPacket
	Group1   *key.Group
	BuildSec float64
	conf     Config
}

func (w *c09World) close() {
	for _, n := range w.Nodes {
		n.close()
	}
}

func c09Cmd(n *c09Node, beaconID string, c *drand.DKGCommand) error {
	c.Metadata = &drand.CommandMetadata{BeaconID: beaconID}
	_, err := n.Proc.Command(context.Background(), c)
	return err
}

func (w *c09World) snapshot(stage string) error {
	m := map[string][]byte{}
	for name, n := range w.Nodes {
		img, err := n.image()
		if err != nil {
			return err
		}
		m[name] = img
	}
	w.Stages[stage] = m
	return nil
}

func (w *c09World) waitComplete(epoch uint32, names []string, d time.Duration) error {
	deadline := time.Now().Add(d)
	for {
		pending := ""
		for _, name := range names {
			st, err := w.Nodes[name].Store.GetFinished(w.BeaconID)
			if err != nil {
				return err
			}
			if st == nil || st.Epoch != epoch || st.State != Complete {
				cur, _ := w.Nodes[name].Store.GetCurrent(w.BeaconID)
				if cur != nil && (cur.State == Failed || cur.State == TimedOut || cur.State == Aborted) && cur.Epoch == epoch {
					return fmt.Errorf("node %s ended epoch %d in state %s", name, epoch, cur.State)
				}
				pending = name
				break
			}
		}
		if pending == "" {
			return nil
		}
		if time.Now().After(deadline) {
			return fmt.Errorf("DKG epoch %d not complete on %s after %s", epoch, pending, d)
		}
		time.Sleep(50 * time.Millisecond)
	}
}

func (w *c09World) waitCurrent(names []string, d time.Duration, what string, pred func(*DBState) bool) error {
	deadline := time.Now().Add(d)
	for {
		pending := ""
		for _, nm := range names {
			cur, err := w.Nodes[nm].Store.GetCurrent(w.BeaconID)
			if err != nil {
				return err
			}
			if !pred(cur) {
				pending = nm
				break
			}
		}
		if pending == "" {
			return nil
		}
		if time.Now().After(deadline) {
			return fmt.Errorf("%s: not on %s after %s", what, pending, d)
		}
		time.Sleep(10 * time.Millisecond)
	}
}

// names of the cast. Epoch 1 group: A(leader) B C D F. Epoch 2 proposal: remaining A B C, leaving D F, joining E G.
var c09Epoch1 = []string{"A", "B", "C", "D", "F"}
var c09Cast = []string{"A", "B", "C", "D", "F", "E", "G"}

type c09WorldOpts struct {
	UpTo      string // build up to and including this stage ("" = all): e1-complete | e2-proposed | e2-accepted | e2-aborted
	KickoffE2 time.Duration
}

// c09BuildWorld runs the real command sequence and takes images at the stages
// fresh, e1-proposed, e1-joined, e1-complete, e2-proposed, e2-accepted, e2-aborted.
func c09BuildWorld(scheme *crypto.Scheme, portBase int, opts c09WorldOpts) (w *c09World, err error) {
	t0 := time.Now()
	w = &c09World{Scheme: scheme, BeaconID: c09BeaconID, Bus: c09NewBus(), Sink: c09NewBus(),
		Nodes: map[string]*c09Node{}, Stages: map[string]map[string][]byte{}, Terms: map[int]*drand.ProposalTerms{},
		Real: map[string]*drand.GossipPacket{}}
	w.conf = Config{Timeout: time.Hour, TimeBetweenDKGPhases: 3 * time.Second, KickoffGracePeriod: 1 * time.Second}
	built := w
	defer func() {
		if err != nil {
			built.close()
		}
	}()
	for i, name := range c09Cast {
		kp, e := key.NewKeyPair(fmt.Sprintf("127.0.0.1:%d", portBase+i), scheme)
		if e != nil {
			return nil, e
		}
		dir, e := c09TempDir("c09-" + name + "-")
		if e != nil {
			return nil, e
		}
		n, e := c09OpenNode(name, kp, dir, w.Bus, w.conf, w.BeaconID)
		if e != nil {
			return nil, e
		}
		w.Nodes[name] = n
		w.Bus.add(n.Addr, n.Proc)
	}
	w.Outsider, err = key.NewKeyPair(fmt.Sprintf("127.0.0.1:%d", portBase+50), scheme)
	if err != nil {
		return nil, err
	}
	if err = w.snapshot("fresh"); err != nil {
		return nil, err
	}
	parts := func(names ...string) []*drand.Participant {
		var out []*drand.Participant
		for _, nm := range names {
			out = append(out, proto.Clone(w.Nodes[nm].Part).(*drand.Participant))
		}
		return out
	}
	long := time.Now().Add(6 * time.Hour)
	A := w.Nodes["A"]
	// --- epoch 1
	err = c09Cmd(A, w.BeaconID, &drand.DKGCommand{Command: &drand.DKGCommand_Initial{Initial: &drand.FirstProposalOptions{
		Timeout: timestamppb.New(long), Threshold: 3, PeriodSeconds: 3, Scheme: scheme.Name, CatchupPeriodSeconds: 1,
		GenesisTime: timestamppb.New(time.Now().Add(20 * time.Second).Truncate(time.Second)), Joining: parts(c09Epoch1...)}}})
	if err != nil {
		return nil, fmt.Errorf("StartNetwork: %w", err)
	}
	if err = w.snapshot("e1-proposed"); err != nil {
		return nil, err
	}
	for _, nm := range c09Epoch1[1:] {
		if err = c09Cmd(w.Nodes[nm], w.BeaconID, &drand.DKGCommand{Command: &drand.DKGCommand_Join{Join: &drand.JoinOptions{}}}); err != nil {
			return nil, fmt.Errorf("join %s: %w", nm, err)
		}
	}
	if err = w.snapshot("e1-joined"); err != nil {
		return nil, err
	}
	if err = c09Cmd(A, w.BeaconID, &drand.DKGCommand{Command: &drand.DKGCommand_Execute{Execute: &drand.ExecutionOptions{}}}); err != nil {
		return nil, fmt.Errorf("execute: %w", err)
	}
	if err = w.waitComplete(1, c09Epoch1, 90*time.Second); err != nil {
		return nil, err
	}
	if err = w.snapshot("e1-complete"); err != nil {
		return nil, err
	}
	fin, err := A.Store.GetFinished(w.BeaconID)
	if err != nil {
		return nil, err
	}
	w.Group1 = fin.FinalGroup
	w.Real["proposal1"] = w.Bus.firstWire(func(p *drand.GossipPacket) bool { return p.GetProposal() != nil && p.GetProposal().Epoch == 1 })
	w.Real["execute1"] = w.Bus.firstWire(func(p *drand.GossipPacket) bool { return p.GetExecute() != nil })
	if w.Real["proposal1"] == nil || w.Real["execute1"] == nil {
		return nil, errors.New("real epoch-1 proposal/execute not seen on the bus")
	}
	w.Terms[1] = proto.Clone(w.Real["proposal1"].GetProposal()).(*drand.ProposalTerms)
	if opts.UpTo == "e1-complete" {
		w.BuildSec = time.Since(t0).Seconds()
		return w, nil
	}
	// --- epoch 2 proposal
	if opts.KickoffE2 > 0 {
		A.Proc.config.KickoffGracePeriod = opts.KickoffE2
	}
	err = c09Cmd(A, w.BeaconID, &drand.DKGCommand{Command: &drand.DKGCommand_Resharing{Resharing: &drand.ProposalOptions{
		Timeout: timestamppb.New(long), Threshold: 3, CatchupPeriodSeconds: 1,
		Joining: parts("E", "G"), Remaining: parts("A", "B", "C"), Leaving: parts("D", "F")}}})
	if err != nil {
		return nil, fmt.Errorf("StartProposal: %w", err)
	}
	// the proposal reaches the leavers asynchronously (Command only waits for joiners and remainers)
	if err = w.waitCurrent(c09Cast, 20*time.Second, "epoch-2 proposal stored", func(s *DBState) bool { return s.Epoch == 2 }); err != nil {
		return nil, err
	}
	if err = w.snapshot("e2-proposed"); err != nil {
		return nil, err
	}
	w.Real["proposal2"] = w.Bus.firstWire(func(p *drand.GossipPacket) bool { return p.GetProposal() != nil && p.GetProposal().Epoch == 2 })
	if w.Real["proposal2"] == nil {
		return nil, errors.New("real epoch-2 proposal not seen on the bus")
	}
	w.Terms[2] = proto.Clone(w.Real["proposal2"].GetProposal()).(*drand.ProposalTerms)
	if opts.UpTo == "e2-proposed" {
		w.BuildSec = time.Since(t0).Seconds()
		return w, nil
	}
	for _, nm := range []string{"B", "C"} {
		if err = c09Cmd(w.Nodes[nm], w.BeaconID, &drand.DKGCommand{Command: &drand.DKGCommand_Accept{Accept: &drand.AcceptOptions{}}}); err != nil {
			return nil, fmt.Errorf("accept %s: %w", nm, err)
		}
	}
	var gf bytes.Buffer
	if err = toml.NewEncoder(&gf).Encode(w.Group1.TOML()); err != nil {
		return nil, err
	}
	for _, nm := range []string{"E", "G"} {
		if err = c09Cmd(w.Nodes[nm], w.BeaconID, &drand.DKGCommand{Command: &drand.DKGCommand_Join{Join: &drand.JoinOptions{GroupFile: gf.Bytes()}}}); err != nil {
			return nil, fmt.Errorf("join2 %s: %w", nm, err)
		}
	}
	// the accept gossip is asynchronous: wait until every node saw both acceptances
	if err = w.waitCurrent(c09Cast, 20*time.Second, "both acceptances stored", func(s *DBState) bool { return len(s.Acceptors) == 2 }); err != nil {
		return nil, err
	}
	if err = w.snapshot("e2-accepted"); err != nil {
		return nil, err
	}
	if err = w.deriveStage("e2-accepted", "e2-failed", Failed); err != nil {
		return nil, err
	}
	if err = w.deriveStage("e2-accepted", "e2-timedout", TimedOut); err != nil {
		return nil, err
	}
	w.Real["accept2"] = w.Bus.firstWire(func(p *drand.GossipPacket) bool {
		return p.GetAccept() != nil && p.GetMetadata().GetAddress() == w.Nodes["B"].Addr
	})
	if w.Real["accept2"] == nil {
		return nil, errors.New("real accept not seen on the bus")
	}
	if opts.UpTo == "e2-accepted" {
		w.BuildSec = time.Since(t0).Seconds()
		return w, nil
	}
	if err = c09Cmd(A, w.BeaconID, &drand.DKGCommand{Command: &drand.DKGCommand_Abort{Abort: &drand.AbortOptions{}}}); err != nil {
		return nil, fmt.Errorf("abort: %w", err)
	}
	if err = w.waitCurrent(c09Cast, 20*time.Second, "abort stored", func(s *DBState) bool { return s.State == Aborted }); err != nil {
		return nil, err
	}
	if err = w.snapshot("e2-aborted"); err != nil {
		return nil, err
	}
	w.Real["abort2"] = w.Bus.firstWire(func(p *drand.GossipPacket) bool { return p.GetAbort() != nil })
	if w.Real["abort2"] == nil {
		return nil, errors.New("real abort not seen on the bus")
	}
	w.BuildSec = time.Since(t0).Seconds()
	return w, nil
}

// deriveStage: the images of stage `from` with every node's current record moved to a terminal state (what an
// execution that failed / a proposal that timed out leaves behind); the finished records stay as they are.
func (w *c09World) deriveStage(from, to string, state Status) error {
	out := map[string][]byte{}
	for name, img := range w.Stages[from] {
		dir, err := c09TempDir("c09-derive-")
		if err != nil {
			return err
		}
		if err := os.WriteFile(filepath.Join(dir, BoltFileName), img, 0o660); err != nil {
			return err
		}
		st, err := NewDKGStore(dir)
		if err != nil {
			return err
		}
		cur, err := st.GetCurrent(w.BeaconID)
		if err == nil && cur != nil && cur.State != Fresh {
			cur.State = state
			err = st.SaveCurrent(w.BeaconID, cur)
		}
		var buf bytes.Buffer
		if err == nil {
			err = st.db.View(func(tx *bolt.Tx) error { _, e := tx.WriteTo(&buf); return e })
		}
		_ = st.Close()
		_ = os.RemoveAll(dir)
		if err != nil {
			return err
		}
		out[name] = buf.Bytes()
	}
	w.Stages[to] = out
	return nil
}

// fork opens a new Process for node `name` on a copy of its dkg.db image taken at `stage`.
// Its client is the swallowing sink; extra beacon ids can be made known to the fork.
func (w *c09World) fork(stage, name string, client net.DKGClient, extraBeaconIDs ...string) (*c09Node, error) {
	img, ok := w.Stages[stage][name]
	if !ok {
		return nil, fmt.Errorf("no image for %s at %s", name, stage)
	}
	dir, err := c09TempDir("c09-fork-")
	if err != nil {
		return nil, err
	}
	if err := os.WriteFile(filepath.Join(dir, BoltFileName), img, 0o660); err != nil {
		return nil, err
	}
	if client == nil {
		client = w.Sink
	}
	ids := append([]string{w.BeaconID}, extraBeaconIDs...)
	return c09OpenNode(name+"'", w.Nodes[name].KP, dir, client, w.conf, ids...)
}

// ---------------------------------------------------------------- signing (harness side)

// c09Sign signs pkt for the given terms with kp, exactly as an honest node would, and attaches metadata claiming
// `addr` as sender.
func c09Sign(kp *key.Pair, beaconID, addr string, pkt *drand.GossipPacket, terms *drand.ProposalTerms) error {
	sig, err := kp.Scheme().AuthScheme.Sign(kp.Key, messageForSigning(beaconID, pkt, terms))
	if err != nil {
		return err
	}
	pkt.Metadata = &drand.GossipMetadata{BeaconID: beaconID, Address: addr, Signature: sig}
	return nil
}

// c09VerifyReal checks a packet captured from the real gossip against the harness's own idea of what was signed
// (terms of the epoch, key of the node). A failure is a harness bug, not a finding.
func (w *c09World) verifyReal(name string, epoch int, signer string) error {
	pkt := w.Real[name]
	kp := w.Nodes[signer].KP
	msg := messageForSigning(w.BeaconID, pkt, w.Terms[epoch])
	if pkt.Metadata.Address != kp.Public.Address() {
		return fmt.Errorf("real %s claims %s, expected %s", name, pkt.Metadata.Address, kp.Public.Address())
	}
	if err := w.Scheme.AuthScheme.Verify(kp.Public.Key, msg, pkt.Metadata.Signature); err != nil {
		return fmt.Errorf("real %s does not verify under the harness's reconstruction: %w", name, err)
	}
	return nil
}

// c09Call runs f in its own goroutine with recover and a bound. It reports (answer, panic value+stack, timedOut).
type c09CallRes struct {
	OK       bool
	Err      string
	Panic    string
	Stack    string
	TimedOut bool
	Dur      time.Duration
}

func c09Call(bound time.Duration, f func() error) c09CallRes {
	ch := make(chan c09CallRes, 1)
	t0 := time.Now()
	go func() {
		var r c09CallRes
		defer func() {
			if p := recover(); p != nil {
				r.Panic = fmt.Sprint(p)
				r.Stack = c09Stack()
			}
			r.Dur = time.Since(t0)
			ch <- r
		}()
		err := f()
		if err != nil {
			r.Err = err.Error()
		} else {
			r.OK = true
		}
	}()
	select {
	case r := <-ch:
		return r
	case <-time.After(bound):
		return c09CallRes{TimedOut: true, Dur: time.Since(t0)}
	}
}

func c09Stack() string { return string(debug.Stack()) }

// c09PanicSite extracts the first drand frame below the panic from a stack trace ("pkg.func file:line").
func c09PanicSite(stack string) string {
	lines := strings.Split(stack, "\n")
	seenPanic := false
	for i := 0; i+1 < len(lines); i++ {
		l := lines[i]
		if strings.HasPrefix(l, "panic(") {
			seenPanic = true
			continue
		}
		if !seenPanic {
			continue
		}
		if strings.Contains(l, "github.com/drand/") && !strings.Contains(l, "c09") && !strings.Contains(l, "c14") {
			fn := l
			if j := strings.LastIndex(fn, "("); j > 0 {
				fn = fn[:j]
			}
			fn = strings.TrimPrefix(fn, "github.com/drand/drand/v2/")
			loc := strings.TrimSpace(lines[i+1])
			if j := strings.Index(loc, " +0x"); j > 0 {
				loc = loc[:j]
			}
			if j := strings.LastIndex(loc, "/"); j >= 0 {
				loc = loc[j+1:]
			}
			return fn + " " + loc
		}
	}
	return "unknown"
}

var _ = testing.Short
