package dkg

// C14 (dkg.Process part) — no gossip / broadcast packet can wedge or crash the DKG service object.
//
// Parent (TestVF_C14): for every node state {fresh, proposed, executing (board set up, kick-off pending),
// executing-live (the real reshare protocol running), complete} it re-executes the test binary as a child
// (TestVF_C14Child) that prepares the state with real commands (c09_env.go), then drives Process.Packet and
// Process.BroadcastDKG with structured hostile inputs, sequences of 1-5 requests. Every request is appended to a log
// file (fsync) before it is sent, so a crash of the child is attributable to its last input.
//
//   * a panic inside the call's own goroutine is recovered and counted (`contained_panics`, distinct sites in notes):
//     in the daemon the gRPC recovery interceptor contains it; it is not a violation at this level;
//   * a panic in a goroutine the Process spawned kills the child: violation C14/process-crash/...;
//   * after each request three probes must return within the bound: DKGStatus, Process.Packet with an honest packet
//     of that state, Process.BroadcastDKG with a well-formed bundle. A request or probe that does not return is a
//     violation C14/wedged/... only together with a goroutine dump that shows a goroutine parked inside
//     dkg.(*Process) (the dump is part of the record); without such a frame the case is inconclusive.

import (
	"bufio"
	"context"
	"encoding/json"
	"fmt"
	"math"
	"os"
	"os/exec"
	"path/filepath"
	"regexp"
	"sort"
	"strings"
	"testing"
	"time"

	"google.golang.org/protobuf/proto"
	"google.golang.org/protobuf/types/known/timestamppb"

	"github.com/drand/drand/v2/crypto"
	drand "github.com/drand/drand/v2/protobuf/dkg"
	pcommon "github.com/drand/drand/v2/protobuf/drand"
	"github.com/drand/kyber"
	kdkg "github.com/drand/kyber/share/dkg"
	"github.com/drand/kyber/sign/schnorr"
)

const c14Bound = 6 * time.Second

var c14States = []string{"fresh", "proposed", "executing", "executing-live", "complete"}

// complete-live is the second phase of the executing-live child: the reshare has finished, the node keeps running
var c14AllStates = []string{"fresh", "proposed", "executing", "executing-live", "complete", "complete-live"}

// ---------------------------------------------------------------- request kinds

type c14Kind struct {
	Name   string // "<class>:<detail>"
	EP     string // packet | broadcast
	Wire   bool   // can this shape be produced by a protobuf decoder (false: nil inside a oneof wrapper / repeated field)
	Wedgy  bool   // known to be expensive on a tree with the dead-lock (bounded number per state in the quick tier)
	Live   bool   // only meaningful while a board exists (insider-signed bundles)
	MkPkt  func(c *c14Ctx) *drand.GossipPacket
	MkDKG  func(c *c14Ctx) *drand.DKGPacket
}

func (k *c14Kind) class() string {
	if i := strings.Index(k.Name, ":"); i > 0 {
		return k.Name[:i]
	}
	return k.Name
}

type c14Ctx struct {
	w     *c09World
	rng   *vfRng
	epoch int
}

func (c *c14Ctx) terms() *drand.ProposalTerms {
	t := c.w.Terms[c.epoch]
	if t == nil {
		t = c.w.Terms[1]
	}
	return proto.Clone(t).(*drand.ProposalTerms)
}
func (c *c14Ctx) addr(n string) string { return c.w.Nodes[n].Addr }
func (c *c14Ctx) sig(n int) []byte       { return c.rng.Bytes(n) }
func (c *c14Ctx) meta(sigLen int) *drand.GossipMetadata {
	return &drand.GossipMetadata{BeaconID: c.w.BeaconID, Address: c.addr("A"), Signature: c.sig(sigLen)}
}

var c14SigLens = []int{0, 1, 2, 3, 4, 47, 48, 49, 95, 96, 97}

const c14MiB = 1 << 20

func c14Kinds() []*c14Kind {
	var ks []*c14Kind
	pk := func(name string, wire bool, f func(c *c14Ctx) *drand.GossipPacket) *c14Kind {
		k := &c14Kind{Name: name, EP: "packet", Wire: wire, MkPkt: f}
		ks = append(ks, k)
		return k
	}
	bc := func(name string, wire bool, f func(c *c14Ctx) *drand.DKGPacket) *c14Kind {
		k := &c14Kind{Name: name, EP: "broadcast", Wire: wire, MkDKG: f}
		ks = append(ks, k)
		return k
	}
	prop := func(c *c14Ctx, f func(t *drand.ProposalTerms)) *drand.GossipPacket {
		t := c.terms()
		f(t)
		return &drand.GossipPacket{Metadata: c.meta(96), Packet: &drand.GossipPacket_Proposal{Proposal: t}}
	}
	// ---- envelope
	pk("envelope:nil-packet", false, func(c *c14Ctx) *drand.GossipPacket { return nil })
	pk("envelope:empty", true, func(c *c14Ctx) *drand.GossipPacket { return &drand.GossipPacket{} })
	pk("envelope:nil-metadata+proposal", true, func(c *c14Ctx) *drand.GossipPacket {
		return &drand.GossipPacket{Packet: &drand.GossipPacket_Proposal{Proposal: c.terms()}}
	})
	pk("envelope:empty-metadata", true, func(c *c14Ctx) *drand.GossipPacket {
		return &drand.GossipPacket{Metadata: &drand.GossipMetadata{}, Packet: &drand.GossipPacket_Abort{Abort: &drand.AbortDKG{}}}
	})
	pk("envelope:no-oneof", true, func(c *c14Ctx) *drand.GossipPacket { return &drand.GossipPacket{Metadata: c.meta(96)} })
	for _, n := range c14SigLens {
		n := n
		pk(fmt.Sprintf("sig-length:%d", n), true, func(c *c14Ctx) *drand.GossipPacket {
			return &drand.GossipPacket{Metadata: c.meta(n), Packet: &drand.GossipPacket_Proposal{Proposal: c.terms()}}
		})
		pk(fmt.Sprintf("sig-length-execute:%d", n), true, func(c *c14Ctx) *drand.GossipPacket {
			return &drand.GossipPacket{Metadata: c.meta(n), Packet: &drand.GossipPacket_Execute{Execute: &drand.StartExecution{Time: timestamppb.Now()}}}
		})
	}
	pk("sig-length:1MiB", true, func(c *c14Ctx) *drand.GossipPacket {
		return &drand.GossipPacket{Metadata: c.meta(c14MiB), Packet: &drand.GossipPacket_Abort{Abort: &drand.AbortDKG{Reason: "x"}}}
	})
	pk("beacon-id:unknown", true, func(c *c14Ctx) *drand.GossipPacket {
		m := c.meta(96)
		m.BeaconID = "no-such-beacon"
		return &drand.GossipPacket{Metadata: m, Packet: &drand.GossipPacket_Proposal{Proposal: c.terms()}}
	})
	pk("beacon-id:empty", true, func(c *c14Ctx) *drand.GossipPacket {
		m := c.meta(96)
		m.BeaconID = ""
		return &drand.GossipPacket{Metadata: m, Packet: &drand.GossipPacket_Accept{Accept: &drand.AcceptProposal{Acceptor: c.w.Nodes["B"].Part}}}
	})
	pk("beacon-id:1MiB", true, func(c *c14Ctx) *drand.GossipPacket {
		m := c.meta(96)
		m.BeaconID = strings.Repeat("b", c14MiB)
		return &drand.GossipPacket{Metadata: m, Packet: &drand.GossipPacket_Abort{Abort: &drand.AbortDKG{}}}
	})
	pk("address:unknown", true, func(c *c14Ctx) *drand.GossipPacket {
		m := c.meta(96)
		m.Address = "203.0.113.9:1"
		return &drand.GossipPacket{Metadata: m, Packet: &drand.GossipPacket_Execute{Execute: &drand.StartExecution{Time: timestamppb.Now()}}}
	})
	pk("address:empty", true, func(c *c14Ctx) *drand.GossipPacket {
		m := c.meta(96)
		m.Address = ""
		return &drand.GossipPacket{Metadata: m, Packet: &drand.GossipPacket_Proposal{Proposal: c.terms()}}
	})
	pk("address:1MiB", true, func(c *c14Ctx) *drand.GossipPacket {
		m := c.meta(96)
		m.Address = strings.Repeat("a", c14MiB)
		return &drand.GossipPacket{Metadata: m, Packet: &drand.GossipPacket_Abort{Abort: &drand.AbortDKG{}}}
	})
	// ---- proposal
	pk("proposal:nil-terms", false, func(c *c14Ctx) *drand.GossipPacket {
		return &drand.GossipPacket{Metadata: c.meta(96), Packet: &drand.GossipPacket_Proposal{}}
	})
	pk("proposal:empty-terms", true, func(c *c14Ctx) *drand.GossipPacket {
		return &drand.GossipPacket{Metadata: c.meta(96), Packet: &drand.GossipPacket_Proposal{Proposal: &drand.ProposalTerms{}}}
	})
	pk("proposal:only-beacon-id", true, func(c *c14Ctx) *drand.GossipPacket {
		return &drand.GossipPacket{Metadata: c.meta(96), Packet: &drand.GossipPacket_Proposal{Proposal: &drand.ProposalTerms{BeaconID: c.w.BeaconID}}}
	})
	pk("proposal:nil-leader", true, func(c *c14Ctx) *drand.GossipPacket { return prop(c, func(t *drand.ProposalTerms) { t.Leader = nil }) })
	pk("proposal:empty-leader", true, func(c *c14Ctx) *drand.GossipPacket {
		return prop(c, func(t *drand.ProposalTerms) { t.Leader = &drand.Participant{} })
	})
	pk("proposal:nil-timeout", true, func(c *c14Ctx) *drand.GossipPacket { return prop(c, func(t *drand.ProposalTerms) { t.Timeout = nil }) })
	pk("proposal:nil-genesis-time", true, func(c *c14Ctx) *drand.GossipPacket {
		return prop(c, func(t *drand.ProposalTerms) { t.GenesisTime = nil })
	})
	pk("proposal:invalid-timestamps", true, func(c *c14Ctx) *drand.GossipPacket {
		return prop(c, func(t *drand.ProposalTerms) {
			t.Timeout = &timestamppb.Timestamp{Seconds: math.MaxInt64, Nanos: math.MaxInt32}
			t.GenesisTime = &timestamppb.Timestamp{Seconds: math.MinInt64, Nanos: -1}
		})
	})
	for _, ln := range []string{"joining", "remaining", "leaving"} {
		ln := ln
		pk("proposal:nil-entry-in-"+ln, false, func(c *c14Ctx) *drand.GossipPacket {
			return prop(c, func(t *drand.ProposalTerms) { l := c09ListOf(t, ln); *l = append([]*drand.Participant{nil}, *l...) })
		})
		pk("proposal:empty-entry-in-"+ln, true, func(c *c14Ctx) *drand.GossipPacket {
			return prop(c, func(t *drand.ProposalTerms) { l := c09ListOf(t, ln); *l = append(*l, &drand.Participant{}) })
		})
		pk("proposal:only-nil-entries-in-"+ln, false, func(c *c14Ctx) *drand.GossipPacket {
			return prop(c, func(t *drand.ProposalTerms) { l := c09ListOf(t, ln); *l = []*drand.Participant{nil, nil, nil} })
		})
		pk("proposal:1MiB-key-in-"+ln, true, func(c *c14Ctx) *drand.GossipPacket {
			return prop(c, func(t *drand.ProposalTerms) {
				l := c09ListOf(t, ln)
				*l = append(*l, &drand.Participant{Address: "203.0.113.7:7", Key: c.sig(c14MiB), Signature: c.sig(96)})
			})
		})
		pk("proposal:empty-key-in-"+ln, true, func(c *c14Ctx) *drand.GossipPacket {
			return prop(c, func(t *drand.ProposalTerms) {
				l := c09ListOf(t, ln)
				for _, p := range *l {
					p.Key = nil
				}
				if len(*l) == 0 {
					*l = append(*l, &drand.Participant{Address: "203.0.113.7:7"})
				}
			})
		})
	}
	pk("proposal:all-lists-nil", true, func(c *c14Ctx) *drand.GossipPacket {
		return prop(c, func(t *drand.ProposalTerms) { t.Joining, t.Remaining, t.Leaving = nil, nil, nil })
	})
	pk("proposal:huge-epoch", true, func(c *c14Ctx) *drand.GossipPacket {
		return prop(c, func(t *drand.ProposalTerms) { t.Epoch = math.MaxUint32 })
	})
	pk("proposal:epoch-zero", true, func(c *c14Ctx) *drand.GossipPacket { return prop(c, func(t *drand.ProposalTerms) { t.Epoch = 0 }) })
	pk("proposal:huge-threshold", true, func(c *c14Ctx) *drand.GossipPacket {
		return prop(c, func(t *drand.ProposalTerms) { t.Threshold = math.MaxUint32 })
	})
	pk("proposal:threshold-zero", true, func(c *c14Ctx) *drand.GossipPacket {
		return prop(c, func(t *drand.ProposalTerms) { t.Threshold = 0 })
	})
	pk("proposal:huge-periods", true, func(c *c14Ctx) *drand.GossipPacket {
		return prop(c, func(t *drand.ProposalTerms) { t.BeaconPeriodSeconds, t.CatchupPeriodSeconds = math.MaxUint32, math.MaxUint32 })
	})
	pk("proposal:unknown-scheme", true, func(c *c14Ctx) *drand.GossipPacket {
		return prop(c, func(t *drand.ProposalTerms) { t.SchemeID = "no-such-scheme" })
	})
	pk("proposal:1MiB-seed", true, func(c *c14Ctx) *drand.GossipPacket {
		return prop(c, func(t *drand.ProposalTerms) { t.GenesisSeed = c.sig(c14MiB) })
	})
	pk("proposal:leader-key-truncated", true, func(c *c14Ctx) *drand.GossipPacket {
		return prop(c, func(t *drand.ProposalTerms) {
			n := c14SigLens[c.rng.Intn(len(c14SigLens))]
			for _, l := range []*[]*drand.Participant{&t.Joining, &t.Remaining} {
				for _, p := range *l {
					if p.Address == t.Leader.Address {
						p.Key = c.sig(n)
					}
				}
			}
			t.Leader.Key = c.sig(n)
		})
	})
	pk("proposal:real-terms-junk-sig", true, func(c *c14Ctx) *drand.GossipPacket { return prop(c, func(t *drand.ProposalTerms) {}) })
	// ---- accept / reject
	pk("accept:nil-inner", false, func(c *c14Ctx) *drand.GossipPacket {
		return &drand.GossipPacket{Metadata: c.meta(96), Packet: &drand.GossipPacket_Accept{}}
	})
	pk("accept:nil-acceptor", true, func(c *c14Ctx) *drand.GossipPacket {
		return &drand.GossipPacket{Metadata: c.meta(96), Packet: &drand.GossipPacket_Accept{Accept: &drand.AcceptProposal{}}}
	})
	pk("accept:empty-acceptor", true, func(c *c14Ctx) *drand.GossipPacket {
		return &drand.GossipPacket{Metadata: c.meta(96), Packet: &drand.GossipPacket_Accept{Accept: &drand.AcceptProposal{Acceptor: &drand.Participant{}}}}
	})
	pk("accept:real-acceptor-junk-sig", true, func(c *c14Ctx) *drand.GossipPacket {
		m := c.meta(96)
		m.Address = c.addr("B")
		return &drand.GossipPacket{Metadata: m, Packet: &drand.GossipPacket_Accept{Accept: &drand.AcceptProposal{Acceptor: proto.Clone(c.w.Nodes["B"].Part).(*drand.Participant)}}}
	})
	pk("reject:nil-inner", false, func(c *c14Ctx) *drand.GossipPacket {
		return &drand.GossipPacket{Metadata: c.meta(96), Packet: &drand.GossipPacket_Reject{}}
	})
	pk("reject:nil-rejector", true, func(c *c14Ctx) *drand.GossipPacket {
		return &drand.GossipPacket{Metadata: c.meta(96), Packet: &drand.GossipPacket_Reject{Reject: &drand.RejectProposal{}}}
	})
	pk("reject:1MiB-fields", true, func(c *c14Ctx) *drand.GossipPacket {
		m := c.meta(96)
		m.Address = c.addr("B")
		return &drand.GossipPacket{Metadata: m, Packet: &drand.GossipPacket_Reject{Reject: &drand.RejectProposal{
			Rejector: proto.Clone(c.w.Nodes["B"].Part).(*drand.Participant), Reason: strings.Repeat("r", c14MiB), Secret: c.sig(c14MiB),
			PreviousGroupHash: c.sig(c14MiB), ProposalHash: c.sig(c14MiB)}}}
	})
	// ---- execute / abort
	pk("execute:nil-inner", false, func(c *c14Ctx) *drand.GossipPacket {
		return &drand.GossipPacket{Metadata: c.meta(96), Packet: &drand.GossipPacket_Execute{}}
	})
	pk("execute:nil-time", true, func(c *c14Ctx) *drand.GossipPacket {
		return &drand.GossipPacket{Metadata: c.meta(96), Packet: &drand.GossipPacket_Execute{Execute: &drand.StartExecution{}}}
	})
	pk("execute:invalid-time", true, func(c *c14Ctx) *drand.GossipPacket {
		return &drand.GossipPacket{Metadata: c.meta(96), Packet: &drand.GossipPacket_Execute{Execute: &drand.StartExecution{
			Time: &timestamppb.Timestamp{Seconds: math.MaxInt64, Nanos: math.MaxInt32}}}}
	})
	pk("abort:nil-inner", false, func(c *c14Ctx) *drand.GossipPacket {
		return &drand.GossipPacket{Metadata: c.meta(96), Packet: &drand.GossipPacket_Abort{}}
	})
	pk("abort:1MiB-reason", true, func(c *c14Ctx) *drand.GossipPacket {
		return &drand.GossipPacket{Metadata: c.meta(96), Packet: &drand.GossipPacket_Abort{Abort: &drand.AbortDKG{Reason: strings.Repeat("r", c14MiB)}}}
	})
	// ---- the Dkg variant inside a gossip packet
	pk("gossip-dkg-variant-nil:nil-inner", false, func(c *c14Ctx) *drand.GossipPacket {
		return &drand.GossipPacket{Metadata: c.meta(96), Packet: &drand.GossipPacket_Dkg{}}
	})
	pk("gossip-dkg-variant-nil:empty-dkgpacket", true, func(c *c14Ctx) *drand.GossipPacket {
		return &drand.GossipPacket{Metadata: c.meta(96), Packet: &drand.GossipPacket_Dkg{Dkg: &drand.DKGPacket{}}}
	})
	pk("gossip-dkg-variant-nil:no-inner-metadata", true, func(c *c14Ctx) *drand.GossipPacket {
		return &drand.GossipPacket{Metadata: c.meta(96), Packet: &drand.GossipPacket_Dkg{Dkg: &drand.DKGPacket{Dkg: &drand.Packet{}}}}
	})
	for _, b := range c14Bundles() {
		b := b
		for _, n := range []int{4, 96} {
			n := n
			k := pk(fmt.Sprintf("gossip-dkg-variant:%s/sig%d", b.name, n), b.wire, func(c *c14Ctx) *drand.GossipPacket {
				return &drand.GossipPacket{Metadata: c.meta(n), Packet: &drand.GossipPacket_Dkg{Dkg: b.mk(c, c.w.BeaconID)}}
			})
			k.Wedgy = true
		}
	}
	k := pk("gossip-dkg-variant:unknown-inner-beacon", true, func(c *c14Ctx) *drand.GossipPacket {
		return &drand.GossipPacket{Metadata: c.meta(4), Packet: &drand.GossipPacket_Dkg{Dkg: &drand.DKGPacket{Dkg: &drand.Packet{Metadata: &pcommon.Metadata{BeaconID: "nope"}}}}}
	})
	k.Wedgy = true

	// ---- BroadcastDKG
	bc("broadcast-envelope:nil-request", false, func(c *c14Ctx) *drand.DKGPacket { return nil })
	bc("broadcast-envelope:empty", true, func(c *c14Ctx) *drand.DKGPacket { return &drand.DKGPacket{} })
	bc("broadcast-envelope:no-metadata", true, func(c *c14Ctx) *drand.DKGPacket { return &drand.DKGPacket{Dkg: &drand.Packet{}} })
	bc("broadcast-envelope:no-metadata+deal", true, func(c *c14Ctx) *drand.DKGPacket {
		return &drand.DKGPacket{Dkg: &drand.Packet{Bundle: &drand.Packet_Deal{Deal: &drand.DealBundle{}}}}
	})
	bc("broadcast-beacon-id:unknown", true, func(c *c14Ctx) *drand.DKGPacket {
		return &drand.DKGPacket{Dkg: &drand.Packet{Metadata: &pcommon.Metadata{BeaconID: "nope"}, Bundle: &drand.Packet_Deal{Deal: &drand.DealBundle{}}}}
	})
	bc("broadcast-beacon-id:empty", true, func(c *c14Ctx) *drand.DKGPacket {
		return &drand.DKGPacket{Dkg: &drand.Packet{Metadata: &pcommon.Metadata{}, Bundle: &drand.Packet_Response{Response: &drand.ResponseBundle{}}}}
	})
	bc("broadcast-beacon-id:1MiB", true, func(c *c14Ctx) *drand.DKGPacket {
		return &drand.DKGPacket{Dkg: &drand.Packet{Metadata: &pcommon.Metadata{BeaconID: strings.Repeat("b", c14MiB), ChainHash: c.sig(c14MiB)}}}
	})
	for _, b := range c14Bundles() {
		b := b
		bc("broadcast-bundle:"+b.name, b.wire, func(c *c14Ctx) *drand.DKGPacket { return b.mk(c, c.w.BeaconID) })
	}
	for _, b := range c14InsiderBundles() {
		b := b
		kk := bc("broadcast-insider:"+b.name, true, func(c *c14Ctx) *drand.DKGPacket { return b.mk(c, c.w.BeaconID) })
		kk.Live = true
	}
	return ks
}

type c14Bundle struct {
	name string
	wire bool
	mk   func(c *c14Ctx, beaconID string) *drand.DKGPacket
}

func c14Wrap(beaconID string, p *drand.Packet) *drand.DKGPacket {
	p.Metadata = &pcommon.Metadata{BeaconID: beaconID}
	return &drand.DKGPacket{Dkg: p}
}

func c14Bundles() []c14Bundle {
	var bs []c14Bundle
	add := func(name string, wire bool, f func(c *c14Ctx) *drand.Packet) {
		bs = append(bs, c14Bundle{name: name, wire: wire, mk: func(c *c14Ctx, id string) *drand.DKGPacket { return c14Wrap(id, f(c)) }})
	}
	add("no-bundle", true, func(c *c14Ctx) *drand.Packet { return &drand.Packet{} })
	add("deal-nil", false, func(c *c14Ctx) *drand.Packet { return &drand.Packet{Bundle: &drand.Packet_Deal{}} })
	add("deal-empty", true, func(c *c14Ctx) *drand.Packet { return &drand.Packet{Bundle: &drand.Packet_Deal{Deal: &drand.DealBundle{}}} })
	add("response-nil", false, func(c *c14Ctx) *drand.Packet { return &drand.Packet{Bundle: &drand.Packet_Response{}} })
	add("response-empty", true, func(c *c14Ctx) *drand.Packet {
		return &drand.Packet{Bundle: &drand.Packet_Response{Response: &drand.ResponseBundle{}}}
	})
	add("justification-nil", false, func(c *c14Ctx) *drand.Packet { return &drand.Packet{Bundle: &drand.Packet_Justification{}} })
	add("justification-empty", true, func(c *c14Ctx) *drand.Packet {
		return &drand.Packet{Bundle: &drand.Packet_Justification{Justification: &drand.JustificationBundle{}}}
	})
	add("deal-nil-entries", false, func(c *c14Ctx) *drand.Packet {
		return &drand.Packet{Bundle: &drand.Packet_Deal{Deal: &drand.DealBundle{Deals: []*drand.Deal{nil, nil}, Commits: [][]byte{nil}, Signature: c.sig(64)}}}
	})
	add("response-nil-entries", false, func(c *c14Ctx) *drand.Packet {
		return &drand.Packet{Bundle: &drand.Packet_Response{Response: &drand.ResponseBundle{Responses: []*drand.Response{nil}, Signature: c.sig(64)}}}
	})
	add("justification-nil-entries", false, func(c *c14Ctx) *drand.Packet {
		return &drand.Packet{Bundle: &drand.Packet_Justification{Justification: &drand.JustificationBundle{Justifications: []*drand.Justification{nil}, Signature: c.sig(64)}}}
	})
	for _, n := range []int{0, 1, 47, 48, 49, 95, 96, 97} {
		n := n
		add(fmt.Sprintf("deal-commit-%dB", n), true, func(c *c14Ctx) *drand.Packet {
			return &drand.Packet{Bundle: &drand.Packet_Deal{Deal: &drand.DealBundle{DealerIndex: uint32(c.rng.Intn(6)), Commits: [][]byte{c.sig(n), c.sig(n), c.sig(n)},
				Deals: []*drand.Deal{{ShareIndex: 1, EncryptedShare: c.sig(80)}}, SessionId: c.sig(32), Signature: c.sig(64)}}}
		})
		add(fmt.Sprintf("justification-share-%dB", n), true, func(c *c14Ctx) *drand.Packet {
			return &drand.Packet{Bundle: &drand.Packet_Justification{Justification: &drand.JustificationBundle{DealerIndex: uint32(c.rng.Intn(6)),
				Justifications: []*drand.Justification{{ShareIndex: 1, Share: c.sig(n)}}, SessionId: c.sig(32), Signature: c.sig(64)}}}
		})
	}
	for _, n := range c14SigLens {
		n := n
		add(fmt.Sprintf("response-sig-%dB", n), true, func(c *c14Ctx) *drand.Packet {
			return &drand.Packet{Bundle: &drand.Packet_Response{Response: &drand.ResponseBundle{ShareIndex: uint32(c.rng.Intn(6)),
				Responses: []*drand.Response{{DealerIndex: 0, Status: true}}, SessionId: c.sig(32), Signature: c.sig(n)}}}
		})
	}
	add("deal-1MiB", true, func(c *c14Ctx) *drand.Packet {
		return &drand.Packet{Bundle: &drand.Packet_Deal{Deal: &drand.DealBundle{DealerIndex: math.MaxUint32, Commits: [][]byte{c.sig(c14MiB)},
			Deals: []*drand.Deal{{ShareIndex: math.MaxUint32, EncryptedShare: c.sig(c14MiB)}}, SessionId: c.sig(c14MiB), Signature: c.sig(c14MiB)}}}
	})
	add("response-huge-indices", true, func(c *c14Ctx) *drand.Packet {
		return &drand.Packet{Bundle: &drand.Packet_Response{Response: &drand.ResponseBundle{ShareIndex: math.MaxUint32,
			Responses: []*drand.Response{{DealerIndex: math.MaxUint32, Status: false}}, SessionId: c.sig(32), Signature: c.sig(64)}}}
	})
	return bs
}

// insider bundles: signed with the DKG long-term key of group member B for the running epoch-2 session, so that they
// pass echoBroadcast's signature check and reach the kyber protocol goroutine (a goroutine the Process spawned).
func c14InsiderBundles() []c14Bundle {
	var bs []c14Bundle
	type ins struct {
		oldIdx, newIdx uint32
		nonce          []byte
		thr            int
		sign           func(h []byte) []byte
		point          func() []byte
	}
	mkIns := func(c *c14Ctx) *ins {
		w := c.w
		B := w.Nodes["B"]
		st, err := B.Store.GetCurrent(w.BeaconID)
		if err != nil || st == nil {
			return nil
		}
		in := &ins{nonce: nonceFor(st), thr: int(st.Threshold)}
		for _, n := range w.Group1.Nodes {
			if n.Address() == B.Addr {
				in.oldIdx = n.Index
			}
		}
		sorted := append([]*drand.Participant{}, st.Remaining...)
		sorted = append(sorted, st.Joining...)
		sort.Slice(sorted, func(i, j int) bool { return string(sorted[i].Key) < string(sorted[j].Key) })
		for i, p := range sorted {
			if p.Address == B.Addr {
				in.newIdx = uint32(i)
			}
		}
		suite := w.Scheme.KeyGroup.(kdkg.Suite)
		auth := schnorr.NewScheme(suite)
		in.sign = func(h []byte) []byte {
			s, err := auth.Sign(B.KP.Key, h)
			if err != nil {
				return nil
			}
			return s
		}
		in.point = func() []byte {
			b, _ := w.Scheme.KeyGroup.Point().Pick(suite.RandomStream()).MarshalBinary()
			return b
		}
		return in
	}
	addDeal := func(name string, f func(c *c14Ctx, in *ins, d *kdkg.DealBundle)) {
		bs = append(bs, c14Bundle{name: name, wire: true, mk: func(c *c14Ctx, id string) *drand.DKGPacket {
			in := mkIns(c)
			if in == nil {
				return &drand.DKGPacket{Dkg: &drand.Packet{Metadata: &pcommon.Metadata{BeaconID: id}}}
			}
			d := &kdkg.DealBundle{DealerIndex: in.oldIdx, SessionID: in.nonce}
			f(c, in, d)
			d.Signature = in.sign(d.Hash())
			return &drand.DKGPacket{Dkg: dealToProto(d, id)}
		}})
	}
	pts := func(c *c14Ctx, in *ins, n int) []kyber.Point {
		out := make([]kyber.Point, n)
		for i := range out {
			p := c.w.Scheme.KeyGroup.Point()
			_ = p.UnmarshalBinary(in.point())
			out[i] = p
		}
		return out
	}
	addDeal("deal-no-commits", func(c *c14Ctx, in *ins, d *kdkg.DealBundle) {
		d.Deals = []kdkg.Deal{{ShareIndex: 0, EncryptedShare: c.sig(80)}}
	})
	addDeal("deal-too-few-commits", func(c *c14Ctx, in *ins, d *kdkg.DealBundle) {
		d.Public = pts(c, in, in.thr-1)
		d.Deals = []kdkg.Deal{{ShareIndex: 0, EncryptedShare: c.sig(80)}}
	})
	addDeal("deal-share-index-out-of-range", func(c *c14Ctx, in *ins, d *kdkg.DealBundle) {
		d.Public = pts(c, in, in.thr)
		d.Deals = []kdkg.Deal{{ShareIndex: math.MaxUint32, EncryptedShare: c.sig(80)}, {ShareIndex: 77, EncryptedShare: nil}}
	})
	addDeal("deal-garbage-shares-for-all", func(c *c14Ctx, in *ins, d *kdkg.DealBundle) {
		d.Public = pts(c, in, in.thr)
		for i := uint32(0); i < 5; i++ {
			d.Deals = append(d.Deals, kdkg.Deal{ShareIndex: i, EncryptedShare: c.sig(int(c.rng.Intn(200)))})
		}
	})
	addDeal("deal-empty-shares-duplicated", func(c *c14Ctx, in *ins, d *kdkg.DealBundle) {
		d.Public = pts(c, in, in.thr)
		for i := uint32(0); i < 5; i++ {
			d.Deals = append(d.Deals, kdkg.Deal{ShareIndex: i}, kdkg.Deal{ShareIndex: i})
		}
	})
	addDeal("deal-wrong-session", func(c *c14Ctx, in *ins, d *kdkg.DealBundle) {
		d.SessionID = c.sig(32)
		d.Public = pts(c, in, in.thr)
	})
	bs = append(bs, c14Bundle{name: "response-dealer-index-out-of-range", wire: true, mk: func(c *c14Ctx, id string) *drand.DKGPacket {
		in := mkIns(c)
		if in == nil {
			return &drand.DKGPacket{Dkg: &drand.Packet{Metadata: &pcommon.Metadata{BeaconID: id}}}
		}
		r := &kdkg.ResponseBundle{ShareIndex: in.newIdx, SessionID: in.nonce,
			Responses: []kdkg.Response{{DealerIndex: math.MaxUint32, Status: false}, {DealerIndex: 99, Status: true}, {DealerIndex: 0, Status: false}}}
		r.Signature = in.sign(r.Hash())
		return &drand.DKGPacket{Dkg: respToProto(r, id)}
	}})
	bs = append(bs, c14Bundle{name: "response-complaints-about-everyone", wire: true, mk: func(c *c14Ctx, id string) *drand.DKGPacket {
		in := mkIns(c)
		if in == nil {
			return &drand.DKGPacket{Dkg: &drand.Packet{Metadata: &pcommon.Metadata{BeaconID: id}}}
		}
		r := &kdkg.ResponseBundle{ShareIndex: in.newIdx, SessionID: in.nonce}
		for i := uint32(0); i < 6; i++ {
			r.Responses = append(r.Responses, kdkg.Response{DealerIndex: i, Status: false}, kdkg.Response{DealerIndex: i, Status: false})
		}
		r.Signature = in.sign(r.Hash())
		return &drand.DKGPacket{Dkg: respToProto(r, id)}
	}})
	bs = append(bs, c14Bundle{name: "justification-share-index-out-of-range", wire: true, mk: func(c *c14Ctx, id string) *drand.DKGPacket {
		in := mkIns(c)
		if in == nil {
			return &drand.DKGPacket{Dkg: &drand.Packet{Metadata: &pcommon.Metadata{BeaconID: id}}}
		}
		j := &kdkg.JustificationBundle{DealerIndex: in.oldIdx, SessionID: in.nonce}
		for _, si := range []uint32{math.MaxUint32, 0, 0, 42} {
			j.Justifications = append(j.Justifications, kdkg.Justification{ShareIndex: si, Share: c.w.Scheme.KeyGroup.Scalar().Pick(c.w.Scheme.KeyGroup.(kdkg.Suite).RandomStream())})
		}
		j.Signature = in.sign(j.Hash())
		return &drand.DKGPacket{Dkg: justifToProto(j, id)}
	}})
	return bs
}

// ---------------------------------------------------------------- cases

type c14Case struct {
	Idx   int      `json:"case_index"`
	State string   `json:"state"`
	Kinds []string `json:"kinds"`
}

// c14GenCases: a pure function of (seed, tier, state). First every kind once (a 1-request case), then seeded
// sequences of 2-5 requests. Wedgy kinds are capped in the quick tier and kept out of the random sequences there.
func c14GenCases(state string, seed uint64, thorough bool) []c14Case {
	kinds := c14Kinds()
	si := 0
	for i, s := range c14AllStates {
		if s == state {
			si = i
		}
	}
	rng := vfNewRng(vfCaseSeed(seed, "C14/"+state, 0))
	var singles, wedgy, pool []string
	for _, k := range kinds {
		switch {
		case state == "complete-live":
			// the board of the finished DKG is still registered: insider-signed bundles and the Dkg gossip variant
			if k.Live {
				singles = append(singles, k.Name)
				pool = append(pool, k.Name)
			} else if k.Wedgy {
				wedgy = append(wedgy, k.Name)
			}
		case k.Live:
			// insider bundles only where the application channels are (no longer) drained by a protocol run
		case k.Wedgy:
			if state != "executing-live" {
				wedgy = append(wedgy, k.Name)
			}
		default:
			singles = append(singles, k.Name)
			pool = append(pool, k.Name)
		}
	}
	if state == "complete-live" {
		singles = append(singles, singles...) // each insider bundle twice (fresh random content each time)
	}
	// every request that wedges the Process costs one watchdog period: a bounded, seeded choice of the Dkg-variant
	// shapes per state (2 quick / 6 thorough as single requests, thorough also 6 inside sequences)
	nW := 2
	if thorough {
		nW = 6
	}
	if len(wedgy) > nW {
		p := rng.Perm(len(wedgy))
		var pick []string
		for _, i := range p[:nW] {
			pick = append(pick, wedgy[i])
		}
		wedgy = pick
	}
	var cases []c14Case
	add := func(ks ...string) {
		cases = append(cases, c14Case{Idx: si*100000 + len(cases), State: state, Kinds: ks})
	}
	for _, k := range singles {
		add(k)
	}
	nSeq := 40
	if thorough {
		nSeq = 400
	}
	if state == "complete-live" {
		nSeq /= 4
	}
	for i := 0; i < nSeq; i++ {
		n := 2 + rng.Intn(4)
		var ks []string
		for j := 0; j < n; j++ {
			ks = append(ks, pool[rng.Intn(len(pool))])
		}
		add(ks...)
	}
	if state == "complete-live" {
		// more distinct, correctly signed bundles of ONE kind than the board has slots: nobody drains them any more,
		// and every one of them must still be answered (each kind's own channel is filled separately)
		for _, k := range []string{"broadcast-insider:justification-share-index-out-of-range", "broadcast-insider:response-complaints-about-everyone", "broadcast-insider:deal-garbage-shares-for-all"} {
			var ks []string
			for j := 0; j < 14; j++ {
				ks = append(ks, k)
			}
			add(ks...)
		}
	}
	if thorough && state != "complete-live" {
		for _, wk := range wedgy {
			n := 2 + rng.Intn(4)
			var ks []string
			for j := 0; j < n; j++ {
				ks = append(ks, pool[rng.Intn(len(pool))])
			}
			ks[rng.Intn(n)] = wk
			add(ks...)
		}
	}
	// wedgy singles last: on a live victim a wedge ends the scenario
	for _, k := range wedgy {
		add(k)
	}
	return cases
}

// ---------------------------------------------------------------- child

type c14Child struct {
	t      *testing.T
	state  string
	w      *c09World
	victim *c09Node
	isFork bool
	stage  string
	vnode  string
	kinds  map[string]*c14Kind
	reqLog *os.File
	res    *os.File
	nReq   int
	probeP *drand.GossipPacket
	probeB *drand.DKGPacket
	base   map[string]string
}

func (c *c14Child) emit(m map[string]any) {
	b, _ := json.Marshal(m)
	c.res.Write(append(b, '\n'))
}

func (c *c14Child) logReq(cs *c14Case, pos int, kind string) {
	c.nReq++
	b, _ := json.Marshal(map[string]any{"n": c.nReq, "case_index": cs.Idx, "pos": pos, "state": c.state, "kind": kind})
	c.reqLog.Write(append(b, '\n'))
	c.reqLog.Sync()
}

// the two wrappers give the goroutines recognisable frames in a dump
func c14DoHostile(bound time.Duration, f func() error) c09CallRes { return c09Call(bound, func() error { return f() }) }
func c14DoProbe(bound time.Duration, f func() error) c09CallRes   { return c09Call(bound, func() error { return f() }) }

var c14GoroutineHdr = regexp.MustCompile(`^goroutine \d+ \[([^\]]*)\]:`)
var c14ProcFrame = regexp.MustCompile(`internal/dkg\.\(\*(Process|echoBroadcast|dispatcher|sender)\)\.([A-Za-z0-9_.]+)`)

// c14FindParked looks for goroutines parked inside dkg.(*Process). It returns a short summary of the most telling
// one (a non-probe goroutine if there is one, else a probe parked on the Process lock) and the excerpt.
func c14FindParked(dump string) (summary, excerpt string, found bool) {
	blocks := strings.Split(dump, "\n\n")
	type cand struct {
		sum, exc string
		score    int
	}
	var best *cand
	for _, b := range blocks {
		lines := strings.Split(b, "\n")
		m := c14GoroutineHdr.FindStringSubmatch(lines[0])
		if m == nil {
			continue
		}
		state := m[1]
		blocking := false
		for _, s := range []string{"sync.Mutex.Lock", "semacquire", "chan send", "chan receive", "select", "sync.Cond.Wait", "sync.RWMutex"} {
			if strings.Contains(state, s) {
				blocking = true
			}
		}
		if !blocking {
			continue
		}
		var frames []string
		lockFromProcess := false
		for i, l := range lines {
			if fm := c14ProcFrame.FindStringSubmatch(l); fm != nil {
				frames = append(frames, fm[1]+"."+fm[2])
				if fm[1] == "Process" && i >= 2 && strings.Contains(lines[i-2], "sync.(*Mutex).Lock") {
					lockFromProcess = true
				}
			}
		}
		if len(frames) == 0 {
			continue
		}
		isProbe := strings.Contains(b, "c14DoProbe")
		isHostile := strings.Contains(b, "c14DoHostile")
		// Packet, Command and Close hold the process lock from entry to return: a goroutine that waits for that lock
		// in a frame above one of them waits for itself
		holdsBelow := false
		for _, f := range frames[1:] {
			if f == "Process.Packet" || f == "Process.Command" || f == "Process.Close" {
				holdsBelow = true
			}
		}
		c := &cand{exc: b}
		switch {
		case lockFromProcess && holdsBelow && !isProbe:
			c.score, c.sum = 4, "self-deadlock:"+strings.Join(frames, "<-")
		case isHostile:
			c.score, c.sum = 3, "request-parked:"+strings.Join(frames, "<-")
		case lockFromProcess && isProbe:
			c.score, c.sum = 2, "lock-never-released:probe-parked-in-"+frames[0]
		case lockFromProcess:
			c.score, c.sum = 1, "parked:"+strings.Join(frames, "<-")
		default:
			continue // e.g. the kick-off / protocol goroutines legitimately waiting in a select
		}
		if best == nil || c.score > best.score {
			best = c
		}
	}
	if best == nil {
		return "", "", false
	}
	if len(best.exc) > 3000 {
		best.exc = best.exc[:3000]
	}
	return best.sum, best.exc, true
}

func (c *c14Child) prepare() error {
	w := c.w
	switch c.state {
	case "fresh":
		c.stage, c.vnode, c.isFork = "fresh", "B", true
	case "proposed":
		c.stage, c.vnode, c.isFork = "e2-proposed", "C", true
	case "executing":
		c.stage, c.vnode, c.isFork = "e2-accepted", "C", true
	case "complete":
		c.stage, c.vnode, c.isFork = "e1-complete", "C", true
	case "executing-live":
		c.vnode = "C"
	}
	b := &c09Builder{w: w, rng: vfNewRng(7)}
	epoch := 2
	if c.state == "fresh" || c.state == "complete" {
		epoch = 1
	}
	// honest probe packet: answered by a state error that is stable for the state (never accepted, so it can be repeated)
	switch c.state {
	case "proposed":
		c.probeP = b.honest(&c09Group{Epoch: 2, Type: "execute"}) // Proposed -> Executing is not a legal transition
	default:
		c.probeP = b.honest(&c09Group{Epoch: epoch, Type: "abort"}) // Fresh/Complete/Executing -> Aborted is not legal
	}
	c.probeB = &drand.DKGPacket{Dkg: &drand.Packet{Metadata: &pcommon.Metadata{BeaconID: w.BeaconID},
		Bundle: &drand.Packet_Response{Response: &drand.ResponseBundle{ShareIndex: 1, Responses: []*drand.Response{{DealerIndex: 0, Status: true}},
			SessionId: []byte("probe"), Signature: make([]byte, 64)}}}}
	return c.newVictim()
}

func (c *c14Child) newVictim() error {
	w := c.w
	if !c.isFork {
		c.victim = w.Nodes[c.vnode]
		return nil
	}
	f, err := w.fork(c.stage, c.vnode, nil)
	if err != nil {
		return err
	}
	if c.state == "executing" {
		b := &c09Builder{w: w, rng: vfNewRng(7)}
		ex := b.honest(&c09Group{Epoch: 2, Type: "execute"})
		if _, err := f.Proc.Packet(context.Background(), ex); err != nil {
			return fmt.Errorf("honest execute rejected while preparing the executing state: %w", err)
		}
		cur, err := f.Store.GetCurrent(w.BeaconID)
		if err != nil || cur.State != Executing {
			return fmt.Errorf("victim not in Executing after the honest execute packet")
		}
	}
	c.victim = f
	return nil
}

func (c *c14Child) probes(cs *c14Case, pos int, baseline bool) (allOK bool, wedged bool) {
	w := c.w
	type pr struct {
		name string
		f    func() error
	}
	v := c.victim
	ps := []pr{
		{"status", func() error {
			_, err := v.Proc.DKGStatus(context.Background(), &drand.DKGStatusRequest{BeaconID: w.BeaconID})
			return err
		}},
		{"packet", func() error {
			_, err := v.Proc.Packet(context.Background(), proto.Clone(c.probeP).(*drand.GossipPacket))
			return err
		}},
		{"broadcast", func() error {
			_, err := v.Proc.BroadcastDKG(context.Background(), proto.Clone(c.probeB).(*drand.DKGPacket))
			return err
		}},
	}
	allOK = true
	for _, p := range ps {
		r := c14DoProbe(c14Bound, p.f)
		out := "ok"
		switch {
		case r.TimedOut:
			out = "timeout"
		case r.Panic != "":
			out = "panic"
		case !r.OK:
			out = "err"
		}
		ans := out + ":" + c09Short(r.Err, 80)
		if baseline {
			c.base[p.name] = ans
			c.emit(map[string]any{"t": "baseline", "state": c.state, "probe": p.name, "answer": ans})
			if r.TimedOut {
				allOK = false
			}
			continue
		}
		changed := c.base[p.name] != ans
		c.emit(map[string]any{"t": "probe", "state": c.state, "case_index": cs.Idx, "pos": pos, "probe": p.name, "out": out, "answer_changed": changed, "answer": ans,
			"site": c09PanicSiteIf(r)})
		if r.TimedOut {
			allOK = false
			dump := vfGoroutineDump()
			sum, exc, found := c14FindParked(dump)
			c.emit(map[string]any{"t": "wedge", "case_index": cs.Idx, "pos": pos, "state": c.state, "kinds": cs.Kinds, "where": "probe:" + p.name,
				"parked": found, "summary": sum, "excerpt": exc})
			return allOK, true
		}
	}
	return allOK, false
}

func c09PanicSiteIf(r c09CallRes) string {
	if r.Panic == "" {
		return ""
	}
	return c09PanicSite(r.Stack)
}

func (c *c14Child) runCase(cs *c14Case) (wedged bool) {
	ctx := &c14Ctx{w: c.w, rng: vfNewRng(vfCaseSeed(vfSeed(), "C14", cs.Idx)), epoch: 2}
	if c.state == "fresh" || c.state == "complete" {
		ctx.epoch = 1
		if c.state == "complete" && ctx.rng.Bool() && c.w.Terms[2] != nil {
			ctx.epoch = 2
		}
	}
	probesOK := true
	for pos, kn := range cs.Kinds {
		k := c.kinds[kn]
		v := c.victim
		var call func() error
		if k.EP == "packet" {
			pkt := k.MkPkt(ctx)
			call = func() error { _, err := v.Proc.Packet(context.Background(), pkt); return err }
		} else {
			pkt := k.MkDKG(ctx)
			call = func() error { _, err := v.Proc.BroadcastDKG(context.Background(), pkt); return err }
		}
		c.logReq(cs, pos, kn)
		r := c14DoHostile(c14Bound, call)
		out := "ok"
		switch {
		case r.TimedOut:
			out = "timeout"
		case r.Panic != "":
			out = "panic"
		case !r.OK:
			out = "err"
		}
		c.emit(map[string]any{"t": "req", "case_index": cs.Idx, "pos": pos, "state": c.state, "ep": k.EP, "kind": kn, "class": k.class(), "wire": k.Wire,
			"out": out, "err": c09Short(r.Err, 160), "panic": c09Short(r.Panic, 160), "site": c09PanicSiteIf(r), "ms": r.Dur.Milliseconds()})
		if r.TimedOut {
			dump := vfGoroutineDump()
			sum, exc, found := c14FindParked(dump)
			c.emit(map[string]any{"t": "wedge", "case_index": cs.Idx, "pos": pos, "state": c.state, "kinds": cs.Kinds, "where": "request", "ep": k.EP,
				"class": k.class(), "kind": kn, "parked": found, "summary": sum, "excerpt": exc})
			c.emit(map[string]any{"t": "case", "case_index": cs.Idx, "state": c.state, "kinds": cs.Kinds, "probes_ok": false, "wedged": true})
			return true
		}
		ok, w := c.probes(cs, pos, false)
		if w {
			// attribute the probe wedge to the request that preceded it
			c.emit(map[string]any{"t": "wedge-attr", "case_index": cs.Idx, "pos": pos, "ep": k.EP, "class": k.class(), "kind": kn})
			c.emit(map[string]any{"t": "case", "case_index": cs.Idx, "state": c.state, "kinds": cs.Kinds, "probes_ok": false, "wedged": true})
			return true
		}
		probesOK = probesOK && ok
	}
	c.emit(map[string]any{"t": "case", "case_index": cs.Idx, "state": c.state, "kinds": cs.Kinds, "probes_ok": probesOK, "wedged": false})
	return false
}

func TestVF_C14Child(t *testing.T) {
	state := os.Getenv("C14_CHILD_STATE")
	if state == "" {
		return // only meaningful as a child of TestVF_C14
	}
	res, err := os.OpenFile(os.Getenv("C14_RESULT"), os.O_APPEND|os.O_CREATE|os.O_WRONLY, 0o644)
	if err != nil {
		t.Fatal(err)
	}
	defer res.Close()
	rl, err := os.OpenFile(os.Getenv("C14_REQLOG"), os.O_APPEND|os.O_CREATE|os.O_WRONLY, 0o644)
	if err != nil {
		t.Fatal(err)
	}
	defer rl.Close()
	c := &c14Child{t: t, state: state, reqLog: rl, res: res, kinds: map[string]*c14Kind{}, base: map[string]string{}}
	for _, k := range c14Kinds() {
		c.kinds[k.Name] = k
	}
	start := 0
	fmt.Sscanf(os.Getenv("C14_START"), "%d", &start)
	replay, isReplay := vfReplayCase()
	opts := c09WorldOpts{}
	switch state {
	case "fresh", "complete":
		opts.UpTo = "e2-proposed" // epoch-2 terms are used as hostile material in the complete state
	case "proposed":
		opts.UpTo = "e2-proposed"
	case "executing", "executing-live":
		opts.UpTo = "e2-accepted"
		opts.KickoffE2 = 4 * time.Second
	}
	sch, _ := crypto.SchemeFromName(crypto.DefaultSchemeID)
	if id := os.Getenv("C14_SCHEME"); id != "" {
		if s, err := crypto.SchemeFromName(id); err == nil {
			sch = s
		}
	}
	var w *c09World
	for attempt := 0; attempt < 2; attempt++ {
		w, err = c09BuildWorld(sch, 43000, opts)
		if err == nil {
			break
		}
	}
	if err != nil {
		c.emit(map[string]any{"t": "inconclusive", "state": state, "why": "state could not be prepared by real commands: " + err.Error()})
		c.emit(map[string]any{"t": "done", "state": state})
		return
	}
	c.w = w
	if err := c.prepare(); err != nil {
		c.emit(map[string]any{"t": "inconclusive", "state": state, "why": err.Error()})
		c.emit(map[string]any{"t": "done", "state": state})
		return
	}
	if state == "executing-live" {
		// the real leader starts the real reshare; kick-off is 4 s away, the protocol then runs under the hostile traffic
		if err := c09Cmd(w.Nodes["A"], w.BeaconID, &drand.DKGCommand{Command: &drand.DKGCommand_Execute{Execute: &drand.ExecutionOptions{}}}); err != nil {
			c.emit(map[string]any{"t": "inconclusive", "state": state, "why": "execute command: " + err.Error()})
			c.emit(map[string]any{"t": "done", "state": state})
			return
		}
		if err := w.waitCurrent([]string{"C"}, 10*time.Second, "C executing", func(s *DBState) bool { return s.State == Executing }); err != nil {
			c.emit(map[string]any{"t": "inconclusive", "state": state, "why": err.Error()})
			c.emit(map[string]any{"t": "done", "state": state})
			return
		}
	}
	if ok, _ := c.probes(nil, 0, true); !ok {
		c.emit(map[string]any{"t": "inconclusive", "state": state, "why": "baseline probe did not return"})
		c.emit(map[string]any{"t": "done", "state": state})
		return
	}
	ran := 0
	runList := func(label string) (ended bool) {
		c.state = label
		cases := c14GenCases(label, vfSeed(), vfThorough())
		for i := range cases {
			cs := &cases[i]
			if isReplay && cs.Idx != replay {
				continue
			}
			if cs.Idx < start {
				continue
			}
			ran++
			if wedged := c.runCase(cs); wedged {
				if !c.isFork {
					c.emit(map[string]any{"t": "info", "state": label, "msg": "live victim wedged: scenario ends here", "skipped_cases": len(cases) - i - 1})
					return true
				}
				// leak the wedged Process, continue on a new fork of the same state
				if err := c.newVictim(); err != nil {
					c.emit(map[string]any{"t": "inconclusive", "state": label, "why": "re-fork: " + err.Error()})
					return true
				}
			}
		}
		return false
	}
	ended := runList(state)
	if state == "executing-live" {
		err := w.waitComplete(2, []string{"A", "B", "C", "E", "G"}, 90*time.Second)
		c.emit(map[string]any{"t": "live", "state": state, "dkg_completed": err == nil, "err": fmt.Sprint(err)})
		if err == nil && !ended {
			// the node keeps running after the reshare: new baseline, then the insider bundles and the Dkg gossip variant
			c.state = "complete-live"
			b := &c09Builder{w: w, rng: vfNewRng(7)}
			c.probeP = b.honest(&c09Group{Epoch: 2, Type: "abort"})
			if ok, _ := c.probes(nil, 0, true); ok {
				runList("complete-live")
			} else {
				c.emit(map[string]any{"t": "inconclusive", "state": "complete-live", "why": "baseline probe did not return"})
			}
		}
	}
	c.emit(map[string]any{"t": "done", "state": state, "cases": ran, "requests": c.nReq})
	// no w.close(): a wedged Process cannot be closed; the child exits anyway
	for _, n := range w.Nodes {
		os.RemoveAll(n.Dir)
	}
	if c.victim != nil && c.isFork {
		os.RemoveAll(c.victim.Dir)
	}
}

// ---------------------------------------------------------------- parent

var c14PanicLine = regexp.MustCompile(`(?m)^(panic: .*|fatal error: .*)$`)

func c14CrashSite(out string) (what, site string) {
	m := c14PanicLine.FindString(out)
	what = m
	i := strings.Index(out, m)
	if m == "" || i < 0 {
		return "no panic line", "unknown"
	}
	lines := strings.Split(out[i:], "\n")
	for j := 0; j+1 < len(lines); j++ {
		l := lines[j]
		if (strings.Contains(l, "github.com/drand/") || strings.Contains(l, "go.etcd.io/")) && !strings.Contains(l, "c14") && !strings.Contains(l, "c09") && strings.Contains(l, "(") {
			fn := l
			if k := strings.LastIndex(fn, "("); k > 0 {
				fn = fn[:k]
			}
			fn = strings.TrimPrefix(strings.TrimSpace(fn), "github.com/drand/drand/v2/")
			return what, fn
		}
	}
	return what, "unknown"
}

func TestVF_C14(t *testing.T) {
	if os.Getenv("C14_CHILD_STATE") != "" {
		return
	}
	run := vfNewRun("C14", "dkgsvc")
	defer run.Finish()
	replay, isReplay := vfReplayCase()
	dir, err := os.MkdirTemp("", "c14-")
	if err != nil {
		t.Fatal(err)
	}
	defer os.RemoveAll(dir)
	exe, err := os.Executable()
	if err != nil {
		t.Fatal(err)
	}
	for si, state := range c14States {
		if isReplay && replay/100000 != si && !(state == "executing-live" && replay/100000 == 5) {
			continue
		}
		start := 0
		finished := false
		defer func(state string) {
			if !finished {
				run.Inconclusive(fmt.Sprintf("state %s: the child did not reach the end of its case list (crashed repeatedly or timed out); cases from index %d on were not run", state, start))
			}
		}(state)
		for restart := 0; restart < 6; restart++ {
			resF := filepath.Join(dir, fmt.Sprintf("res-%s-%d.jsonl", state, restart))
			reqF := filepath.Join(dir, fmt.Sprintf("req-%s-%d.jsonl", state, restart))
			outF := filepath.Join(dir, fmt.Sprintf("out-%s-%d.txt", state, restart))
			cmd := exec.Command(exe, "-test.run", "^TestVF_C14Child$", "-test.timeout", "40m", "-test.count", "1")
			cmd.Env = append(os.Environ(), "C14_CHILD_STATE="+state, "C14_RESULT="+resF, "C14_REQLOG="+reqF, fmt.Sprintf("C14_START=%d", start), "VF_OUT="+os.DevNull)
			of, _ := os.Create(outF)
			cmd.Stdout, cmd.Stderr = of, of
			t0 := time.Now()
			err := cmd.Run()
			of.Close()
			run.Count("children", 1)
			done, lastCase := c14Absorb(run, state, resF)
			if err == nil && done {
				finished = true
				break
			}
			// the child died: attribute to the last logged request
			outB, _ := os.ReadFile(outF)
			out := string(outB)
			last := c14LastLine(reqF)
			what, site := c14CrashSite(out)
			tail := out
			if i := strings.Index(out, what); what != "" && i >= 0 {
				tail = out[i:]
			}
			if len(tail) > 6000 {
				tail = tail[:6000]
			}
			var lastReq map[string]any
			_ = json.Unmarshal([]byte(last), &lastReq)
			kind, _ := lastReq["kind"].(string)
			class := kind
			if i := strings.Index(kind, ":"); i > 0 {
				class = kind[:i]
			}
			ci := lastCase
			if v, ok := lastReq["case_index"].(float64); ok {
				ci = int(v)
			}
			if strings.Contains(out, "panic: test timed out") {
				run.Inconclusive(fmt.Sprintf("child for state %s hit the go test timeout after %s", state, time.Since(t0)))
				break
			}
			run.Violation(fmt.Sprintf("C14/process-crash/%s/%s", site, class),
				fmt.Sprintf("the process running dkg.Process in state %s died (%v) after request %s: %s", state, err, last, what),
				map[string]any{"case_index": ci, "state": state, "last_request": lastReq, "output_tail": tail})
			start = ci + 1
		}
	}
}

func c14LastLine(path string) string {
	b, err := os.ReadFile(path)
	if err != nil {
		return ""
	}
	lines := strings.Split(strings.TrimSpace(string(b)), "\n")
	return lines[len(lines)-1]
}

// c14Absorb folds a child's result file into the run. Returns whether the child finished and the last case seen.
func c14Absorb(run *vfRun, state, path string) (done bool, lastCase int) {
	f, err := os.Open(path)
	if err != nil {
		return false, -1
	}
	defer f.Close()
	sc := bufio.NewScanner(f)
	sc.Buffer(make([]byte, 1<<20), 16<<20)
	lastCase = -1
	wedgeAttr := map[int]map[string]any{}
	var wedges []map[string]any
	for sc.Scan() {
		var r map[string]any
		if json.Unmarshal(sc.Bytes(), &r) != nil {
			continue
		}
		str := func(k string) string { s, _ := r[k].(string); return s }
		state := state
		if s := str("state"); s != "" {
			state = s
		}
		ci := -1
		if v, ok := r["case_index"].(float64); ok {
			ci = int(v)
			lastCase = ci
		}
		switch r["t"] {
		case "req":
			run.Count("requests."+str("ep"), 1)
			run.Count("requests.state."+state, 1)
			run.Count("answers."+str("out"), 1)
			run.Seen("kinds", str("kind"))
			run.Seen("kind_x_state", state+"|"+str("kind"))
			if w, _ := r["wire"].(bool); !w {
				run.Count("requests.not_wire_producible", 1)
			}
			if str("out") == "panic" {
				run.Count("contained_panics", 1)
				w, _ := r["wire"].(bool)
				site := fmt.Sprintf("%s (wire-producible input: %v)", str("site"), w)
				run.Seen("panic_sites", site)
				run.Seen("panic_site_x_kind", site+" <- "+str("ep")+" "+str("kind"))
				c14NotePanic(run, site, str("ep")+" "+str("kind")+" ["+state+"]: "+str("panic"))
			}
		case "probe":
			run.Count("probes."+str("probe"), 1)
			if str("out") != "timeout" {
				run.Count("probes.returned", 1)
			}
			if ch, _ := r["answer_changed"].(bool); ch {
				run.Count("probe_answer_changed", 1)
				k := state + "|" + str("probe") + "|" + str("answer")
				run.Seen("probe_answer_changes", k)
				if !c14Noted[k] {
					c14Noted[k] = true
					run.Note("probe answer differs from the baseline taken before the hostile requests (legitimate when the real DKG moved on): " + k)
				}
			}
			if str("out") == "panic" {
				run.Count("contained_panics_in_probe", 1)
			}
		case "wedge":
			wedges = append(wedges, r)
		case "wedge-attr":
			wedgeAttr[ci] = r
		case "case":
			kinds, _ := r["kinds"].([]any)
			ks := make([]string, 0, len(kinds))
			for _, k := range kinds {
				ks = append(ks, fmt.Sprint(k))
			}
			key := state + "|" + strings.Join(ks, ",")
			run.Eval(key) // non-trivial: every request of the case was answered or its wedge was established from a dump
			run.Count("cases", 1)
			if len(ks) > 1 {
				run.Count("cases.sequences", 1)
			}
			if ok, _ := r["probes_ok"].(bool); ok {
				run.Count("cases.all_probes_answered", 1)
			}
			run.Sample(map[string]any{"state": state, "kinds": ks, "probes_ok": r["probes_ok"]})
		case "inconclusive":
			run.Inconclusive(state + ": " + str("why"))
		case "live":
			if ok, _ := r["dkg_completed"].(bool); ok {
				run.Count("live_dkg_completed_under_hostile_traffic", 1)
			} else {
				run.Note("executing-live: the real reshare did not complete under the hostile traffic: " + str("err"))
			}
		case "info":
			run.Note(state + ": " + str("msg"))
		case "baseline":
			run.Seen("baseline_answers", state+"|"+str("probe")+"|"+str("answer"))
		case "done":
			done = true
		}
	}
	for _, wd := range wedges {
		str := func(k string) string { s, _ := wd[k].(string); return s }
		state := state
		if s := str("state"); s != "" {
			state = s
		}
		ci := -1
		if v, ok := wd["case_index"].(float64); ok {
			ci = int(v)
		}
		ep, class := str("ep"), str("class")
		if a := wedgeAttr[ci]; a != nil && ep == "" {
			ep, _ = a["ep"].(string)
			class, _ = a["class"].(string)
		}
		parked, _ := wd["parked"].(bool)
		if !parked {
			run.Inconclusive(fmt.Sprintf("%s: %s did not return within %s but no goroutine is parked inside dkg.(*Process) (case %d)", state, str("where"), c14Bound, ci))
			continue
		}
		run.Count("wedges", 1)
		run.Violation(fmt.Sprintf("C14/wedged/%s/%s.%s", str("summary"), ep, class),
			fmt.Sprintf("state %s: %s did not return within %s after %s %v; parked goroutine:\n%s", state, str("where"), c14Bound, ep, wd["kinds"], str("excerpt")),
			map[string]any{"case_index": ci, "state": state, "kinds": wd["kinds"], "where": str("where"), "goroutine": str("excerpt")})
	}
	return done, lastCase
}

var c14Noted = map[string]bool{}

func c14NotePanic(run *vfRun, site, example string) {
	if c14Noted[site] {
		return
	}
	c14Noted[site] = true
	run.Note("contained panic at " + site + " e.g. " + c09Short(example, 200))
}
