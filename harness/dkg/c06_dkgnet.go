package dkg

// C06 — a completed DKG leaves all nodes with one group and matching key shares.
//
// Workload: real first DKG + 1..2 real reshares per case through the dkgnet bus under a seeded schedule
// (delays, duplication of packets, asynchronous/reordered bundles, one slow link-phase), participant lists
// shuffled per proposal. Oracle: after every participant of an epoch has completed (or failed) it, every
// completing node's FINISHED record is read back from its real dkg.db and the groups are compared field by
// field, the shares are checked against the public polynomial, and t-subsets of the shares must produce a
// signature that verifies under the group key.

import (
	"bytes"
	"encoding/hex"
	"fmt"
	"os"
	"sort"
	"strings"
	"sync"
	"testing"
	"time"

	"github.com/drand/drand/v2/common/key"
	"github.com/drand/drand/v2/crypto"
	"github.com/drand/kyber/share"
)

type c06Reshare struct {
	Kind   string `json:"kind"`
	Add    int    `json:"add"`
	Remove int    `json:"remove"`
	NewT   int    `json:"new_t"`
	Slow   *vfdSlowSpec `json:"slow,omitempty"`
}

// vfdSlowSpec: which participant (by position in the epoch's participant list) is behind the slow link.
type vfdSlowSpec struct {
	DestPos int    `json:"dest_pos"`
	Kind    string `json:"kind"`
	DelayMs int    `json:"delay_ms"`
	Async   bool   `json:"async"`
}

type c06Case struct {
	Index    int          `json:"case_index"`
	Seed     uint64       `json:"case_seed"`
	Scheme   string       `json:"scheme"`
	BeaconID string       `json:"beacon_id"`
	N        int          `json:"n"`
	T        int          `json:"t"`
	Period   int          `json:"period_s"`
	Catchup  int          `json:"catchup_s"`
	Slow1    *vfdSlowSpec `json:"slow_first,omitempty"`
	Reshares []c06Reshare `json:"reshares"`
	Sched    vfdSched     `json:"sched"`
	Family   string       `json:"family"` // "" | silent-participant | late-execute
	// silent-participant: one participant of epoch SilentEpoch (not the one with the largest key) is unreachable
	// and mute from just before the execution is started (a crash): the others complete with a strict subset.
	SilentEpoch int `json:"silent_epoch,omitempty"`
	SilentRaw   int `json:"silent_raw,omitempty"`
	// late-execute: in reshare HoldReshare (0-based) the execute packet towards one follower arrives HoldMs late
	// (after the kick-off time), followed in order by everything that was sent to it meanwhile.
	SilentOld bool `json:"silent_is_an_old_member,omitempty"`
	// faulty-dealer: in epoch FaultyEpoch the own deal bundle of one participant has FaultyK undecryptable shares
	FaultyK     int `json:"faulty_dealer_bad_shares,omitempty"`
	FaultyRaw   int `json:"faulty_dealer_raw,omitempty"`
	FaultyEpoch int `json:"faulty_dealer_epoch,omitempty"`
	// direct-link-lost: bundles of LinkKind sent by one participant reach one other participant only through echoes
	LinkKind         string `json:"lost_link_kind,omitempty"`
	LinkRaw          int    `json:"lost_link_raw,omitempty"`
	LinkToHighestKey bool   `json:"lost_link_towards_highest_key,omitempty"`
	HoldMs  int `json:"hold_ms,omitempty"`
	HoldRaw int `json:"hold_raw,omitempty"`
}

const (
	c06PhaseTimeout = 4 * time.Second
	c06Kickoff      = 1 * time.Second
	c06MaxNodes     = 8
)

func c06MinT(n int) int { return n/2 + 1 }

func c06SlowSpec(rng *vfRng, nParticipants int) *vfdSlowSpec {
	if nParticipants < 2 || rng.Chance(15) {
		return nil
	}
	kinds := []string{"resp", "resp", "resp", "deal", "deal", "just"}
	return &vfdSlowSpec{DestPos: rng.Intn(nParticipants), Kind: kinds[rng.Intn(len(kinds))],
		DelayMs: rng.Range(300, 900), Async: rng.Chance(60)}
}

func c06Clamp(v, lo, hi int) int {
	if v < lo {
		return lo
	}
	if v > hi {
		return hi
	}
	return v
}

// c06MakeFamilyCase: the two directed families (every 6th case each).
func c06MakeFamilyCase(idx int, fam string) c06Case {
	cs := vfCaseSeed(vfSeed(), "C06", idx)
	rng := vfNewRng(cs)
	schemes := crypto.ListSchemes()
	off := int(vfSeed() % 35)
	c := c06Case{Index: idx, Seed: cs, Family: fam}
	c.Scheme = schemes[(idx/6+off)%len(schemes)]
	c.BeaconID = []string{"default", "vfnet"}[rng.Intn(2)]
	c.Sched = vfdSched{GossipDelayMs: rng.Range(0, 80), BundleDelayMs: rng.Range(0, 50),
		DupPct: []int{100, 50, 0}[rng.Intn(3)], DupDelayMs: rng.Range(0, 150), AsyncPct: []int{0, 25}[rng.Intn(2)]}
	switch fam {
	case "silent-participant":
		c.N = 4 + (idx/6+off)%4
		c.T = rng.Range(c06MinT(c.N), c.N-1) // the n-1 others must be able to complete
		c.Period = []int{1, 2, 3, 5}[rng.Intn(4)]
		c.Catchup = rng.Range(0, c.Period)
		c.SilentEpoch = 1 + rng.Intn(2)
		c.SilentRaw = rng.Intn(1 << 20)
		var rs c06Reshare
		if c.SilentEpoch == 1 {
			// the reshare is run by the n-1 nodes that came out of the first epoch
			n2 := c.N - 1
			rs = c06Reshare{Kind: "same", NewT: c06Clamp(c.T, c06MinT(n2), n2)}
			rs.Slow = c06SlowSpec(rng, n2)
		} else {
			switch rng.Intn(3) {
			case 0:
				rs.Kind = "same"
			case 1:
				rs.Kind, rs.Add = "+1", 1
				if rng.Bool() {
					// an OLD member is the silent one and the threshold rises above the number of dealers left:
					// enough for the old threshold, fewer than the new one
					c.SilentOld = true
					rs.Kind = "+1,t-above-dealers"
				}
			default:
				if c.N-1 >= 4 && c.N-1 >= c.T {
					rs.Kind, rs.Remove = "-1", 1
				} else {
					rs.Kind, rs.Add = "+1", 1
				}
			}
			n2 := c.N - rs.Remove + rs.Add
			rs.NewT = rng.Range(c06MinT(n2), n2-1)
			if c.SilentOld {
				rs.NewT = n2 - 1 // = N > N-1 dealers >= T
			}
		}
		c.Reshares = []c06Reshare{rs}
	case "faulty-dealer":
		// one participant's own deal bundle carries undecryptable shares for K < t holders: complaints, a justification
		// bundle with K entries, and the same group for everybody at the end
		c.N = 4 + (idx/12+off)%3
		c.T = rng.Range(3, c.N-1)
		if c.T < c06MinT(c.N) {
			c.T = c06MinT(c.N)
		}
		c.Period = []int{1, 2, 3, 5}[rng.Intn(4)]
		c.Catchup = rng.Range(0, c.Period)
		c.FaultyK = rng.Range(1, 2)
		if c.FaultyK > c.T-1 {
			c.FaultyK = c.T - 1
		}
		c.FaultyRaw = rng.Intn(1 << 20)
		c.FaultyEpoch = 1 + rng.Intn(2)
		c.Reshares = []c06Reshare{{Kind: "same", NewT: c.T}}
	case "direct-link-lost":
		// one dealer's own bundles of one phase never arrive at one node directly: the re-broadcast by the others is
		// what the protocol relies on ("echo broadcast ... so all nodes see the same bundles")
		c.N = 4 + (idx/6+off)%3
		c.T = rng.Range(c06MinT(c.N), c.N-1)
		c.Period = []int{1, 2, 3, 5}[rng.Intn(4)]
		c.Catchup = rng.Range(0, c.Period)
		c.LinkKind = []string{"deal", "deal", "resp"}[rng.Intn(3)]
		c.LinkRaw = rng.Intn(1 << 20)
		c.LinkToHighestKey = rng.Bool()
		rs := c06Reshare{Kind: "same", NewT: c.T}
		if rng.Chance(40) {
			rs.Kind, rs.Add = "+1", 1
			rs.NewT = rng.Range(c06MinT(c.N+1), c.N)
		}
		c.Reshares = []c06Reshare{rs}
	case "late-execute":
		c.N = 3 + (idx/6+off)%4
		c.T = rng.Range(c06MinT(c.N), c.N)
		c.Period = 1
		c.Catchup = rng.Range(0, 1)
		c.Slow1 = c06SlowSpec(rng, c.N)
		rs := c06Reshare{Kind: "same", NewT: c.T}
		if rng.Chance(40) {
			rs.Kind, rs.Add = "+1", 1
			rs.NewT = rng.Range(c06MinT(c.N+1), c.N+1)
		}
		c.Reshares = []c06Reshare{rs}
		// the follower starts HoldMs - kick-off grace late: more than half a period, less than a DKG phase
		c.HoldMs = rng.Range(1600, 2500)
		c.HoldRaw = rng.Intn(1 << 20)
	}
	return c
}

// c06MakeCase: every parameter is a pure function of (seed, index).
func c06MakeCase(idx int) c06Case {
	switch idx % 6 {
	case 3:
		return c06MakeFamilyCase(idx, "silent-participant")
	case 5:
		return c06MakeFamilyCase(idx, "late-execute")
	case 1:
		return c06MakeFamilyCase(idx, "direct-link-lost")
	}
	if idx%12 == 10 {
		return c06MakeFamilyCase(idx, "faulty-dealer")
	}
	cs := vfCaseSeed(vfSeed(), "C06", idx)
	rng := vfNewRng(cs)
	schemes := crypto.ListSchemes()
	off := int(vfSeed() % 35)
	c := c06Case{Index: idx, Seed: cs}
	c.Scheme = schemes[(idx+off)%len(schemes)]
	// n cycles through 1..7 (7 and 5 are coprime, so scheme x n pairs are all met within 35 cases)
	c.N = (idx+off*3)%7 + 1
	c.T = rng.Range(c06MinT(c.N), c.N)
	c.Period = []int{1, 1, 2, 2, 3, 5}[rng.Intn(6)]
	c.Catchup = rng.Range(0, c.Period)
	if rng.Chance(50) {
		c.BeaconID = "default"
	} else {
		c.BeaconID = "vfnet"
	}
	c.Slow1 = c06SlowSpec(rng, c.N)
	c.Sched = vfdSched{GossipDelayMs: rng.Range(0, 120), BundleDelayMs: rng.Range(0, 80),
		DupPct: []int{100, 100, 50, 0}[rng.Intn(4)], DupDelayMs: rng.Range(0, 200), AsyncPct: []int{0, 25, 50}[rng.Intn(3)]}
	if idx%4 == 2 {
		c.Sched.GarbledFirstPct = []int{5, 15, 40}[rng.Intn(3)]
	}
	nres := 1
	if rng.Chance(35) {
		nres = 2
	}
	n, t := c.N, c.T
	for r := 0; r < nres; r++ {
		var rs c06Reshare
		kind := []string{"same", "add", "remove", "replace", "thr-up", "thr-down", "add", "remove"}[rng.Intn(8)]
		switch kind {
		case "add":
			rs.Add = rng.Range(1, 2)
		case "remove":
			rs.Remove = rng.Range(1, 2)
		case "replace":
			rs.Add, rs.Remove = 1, 1
		}
		// remaining nodes must be at least the old threshold
		if rs.Remove > n-t {
			rs.Remove = n - t
		}
		if n-rs.Remove+rs.Add > c06MaxNodes {
			rs.Add = c06MaxNodes - (n - rs.Remove)
		}
		n2 := n - rs.Remove + rs.Add
		lo, hi := c06MinT(n2), n2
		nt := t
		switch kind {
		case "thr-up":
			nt = t + 1
		case "thr-down":
			nt = t - 1
		default:
			if rng.Chance(30) {
				nt = rng.Range(lo, hi)
			}
		}
		if nt < lo {
			nt = lo
		}
		if nt > hi {
			nt = hi
		}
		rs.NewT = nt
		parts := []string{}
		if rs.Add > 0 {
			parts = append(parts, fmt.Sprintf("+%d", rs.Add))
		}
		if rs.Remove > 0 {
			parts = append(parts, fmt.Sprintf("-%d", rs.Remove))
		}
		if nt > t {
			parts = append(parts, "t-up")
		} else if nt < t {
			parts = append(parts, "t-down")
		}
		if len(parts) == 0 {
			parts = []string{"same"}
		}
		rs.Kind = strings.Join(parts, ",")
		rs.Slow = c06SlowSpec(rng, n2)
		c.Reshares = append(c.Reshares, rs)
		n, t = n2, nt
	}
	return c
}

func TestVF_C06_DKGNet(t *testing.T) {
	run := vfNewRun("C06", "dkgnet")
	defer run.Finish()
	nCases := vfPick(84, 1200)
	par := 12
	base, err := os.MkdirTemp("", "vf-c06-")
	if err != nil {
		t.Fatal(err)
	}
	defer os.RemoveAll(base)
	var idxs []int
	if ri, ok := vfReplayCase(); ok {
		idxs = []int{ri}
	} else {
		for i := 0; i < nCases; i++ {
			idxs = append(idxs, i)
		}
	}
	sem := make(chan struct{}, par)
	var wg sync.WaitGroup
	for _, i := range idxs {
		wg.Add(1)
		sem <- struct{}{}
		go func(i int) {
			defer wg.Done()
			defer func() { <-sem }()
			c06RunCase(run, base, c06MakeCase(i))
		}(i)
	}
	wg.Wait()
}

type c06Ctx struct {
	run    *vfRun
	c      c06Case
	net    *vfdNet
	rng    *vfRng
	epoch  uint32
	silent *vfdNode // the participant of the current epoch that is mute (nil: none)
}

// pickSilent: the participant with rank (raw mod n-1) in the byte order of the keys, i.e. never the largest key.
func (x *c06Ctx) pickSilent(participants []*vfdNode) *vfdNode {
	rank := vfdRankByKey(participants)
	want := uint32(x.c.SilentRaw % (len(participants) - 1))
	for _, nd := range participants {
		if rank[nd.addr] == want {
			return nd
		}
	}
	return nil
}

func (x *c06Ctx) info(extra map[string]any) map[string]any {
	m := map[string]any{"case_index": x.c.Index, "case": x.c, "epoch": x.epoch}
	if x.net != nil && x.net.errs != nil {
		m["error_log_tail"] = x.net.errs.tail()
	}
	for k, v := range extra {
		m[k] = v
	}
	return m
}

// applyFaulty: for the faulty-dealer family, pick the dealer among those who deal in this epoch.
func (x *c06Ctx) applyFaulty(dealers []*vfdNode) {
	x.net.setFaulty(nil)
	if x.c.Family != "faulty-dealer" || int(x.epoch) != x.c.FaultyEpoch || len(dealers) < 3 {
		return
	}
	d := dealers[x.c.FaultyRaw%len(dealers)]
	x.net.setFaulty(&vfdFaulty{Addr: d.addr, K: x.c.FaultyK})
	x.run.Count("epochs_with_a_faulty_dealer", 1)
}

// applyLostLink: for the direct-link-lost family, pick dealer and destination among the participants of the epoch.
func (x *c06Ctx) applyLostLink(participants []*vfdNode) {
	x.net.setDropLink(nil)
	if x.c.Family != "direct-link-lost" || len(participants) < 4 {
		return
	}
	rank := vfdRankByKey(participants)
	byRank := make([]*vfdNode, len(participants))
	for _, nd := range participants {
		byRank[rank[nd.addr]] = nd
	}
	dst := byRank[x.c.LinkRaw%len(byRank)]
	if x.c.LinkToHighestKey {
		dst = byRank[len(byRank)-1]
	}
	others := c06Without(participants, dst)
	src := others[(x.c.LinkRaw/7)%len(others)]
	x.net.setDropLink(map[string]string{src.addr + ">" + dst.addr: x.c.LinkKind})
	x.run.Count("epochs_with_a_lost_direct_link", 1)
}

func (x *c06Ctx) applySlow(sp *vfdSlowSpec, participants []*vfdNode) {
	if sp == nil || len(participants) == 0 {
		x.net.setSlow(nil)
		return
	}
	dest := participants[sp.DestPos%len(participants)]
	x.net.setSlow(&vfdSlow{Dest: dest.addr, Kind: sp.Kind, DelayMs: sp.DelayMs, Async: sp.Async})
}

func c06RunCase(run *vfRun, base string, c c06Case) {
	sch, err := crypto.GetSchemeByID(c.Scheme)
	if err != nil {
		run.Inconclusive("scheme: " + err.Error())
		return
	}
	dir, err := os.MkdirTemp(base, fmt.Sprintf("case%d-", c.Index))
	if err != nil {
		run.Inconclusive("mkdir: " + err.Error())
		return
	}
	cfg := Config{Timeout: time.Minute, TimeBetweenDKGPhases: c06PhaseTimeout, KickoffGracePeriod: c06Kickoff}
	nw := vfdNewNet(dir, c.BeaconID, sch, cfg, c.Seed)
	defer func() {
		if blocked := nw.closeAll(); len(blocked) > 0 {
			run.Count("nodes_whose_close_blocked", int64(len(blocked)))
			run.Note(fmt.Sprintf("case %d: Process.Close() blocked on %v; blocked frame: %s", c.Index, blocked, vfdBlockedFrame("passToApplication", 700)))
		}
	}()
	nw.setSched(c.Sched)
	nw.startLagMonitor()
	x := &c06Ctx{run: run, c: c, net: nw, rng: vfNewRng(c.Seed ^ 0xc06)}
	keyRng := vfNewRng(c.Seed ^ 0x6b6579)
	newNode := func() *vfdNode {
		nw.mu.Lock()
		k := len(nw.order)
		nw.mu.Unlock()
		nd, err := nw.addNode(fmt.Sprintf("vf%d.test:%d", k, 4000+k), keyRng, true)
		if err != nil {
			panic("harness: addNode: " + err.Error())
		}
		return nd
	}
	var members []*vfdNode
	for i := 0; i < c.N; i++ {
		members = append(members, newNode())
	}
	completedEpochs := 0
	defer func() {
		nw.addCounters(run)
		key := ""
		if completedEpochs > 0 && nw.disturbed() > 0 {
			kinds := []string{}
			for _, r := range c.Reshares {
				kinds = append(kinds, r.Kind)
			}
			key = fmt.Sprintf("%s/n%d/t%d/p%d/%s/%s/e%d/%s", c.Scheme, c.N, c.T, c.Period, strings.Join(kinds, ";"), nw.schedHash()[:12], completedEpochs, c.Family)
		}
		run.Eval(key)
		run.Seen("schedules", nw.schedHash())
		run.Seen("scheme_n_t", fmt.Sprintf("%s/%d/%d", c.Scheme, c.N, c.T))
		run.Sample(map[string]any{"case": c, "epochs_completed": completedEpochs, "trace_head": nw.traceCopy(30)})
	}()

	// ---- epoch 1: the harness issues the first proposal itself, genesis = now + 3 s
	x.epoch = 1
	if c.Family == "silent-participant" && c.SilentEpoch == 1 {
		x.silent = x.pickSilent(members)
	}
	leader := c06Without(members, x.silent)[x.rng.Intn(len(c06Without(members, x.silent)))]
	listed := vfdShuffled(x.rng, members)
	x.applySlow(c.Slow1, listed)
	x.applyLostLink(listed)
	x.applyFaulty(listed)
	genesis := time.Now().Add(3 * time.Second).Truncate(time.Second)
	if err := leader.cmdInitial(uint32(c.T), uint32(c.Period), uint32(c.Catchup), c.Scheme, time.Now().Add(time.Minute), genesis, vfdParts(listed)); err != nil {
		// a one-node network has nobody to gossip to: the command stores the proposal and then reports
		// "gossip recipients was empty"; the operator can go on with execute.
		if !(c.N == 1 && strings.Contains(err.Error(), "gossip recipients was empty")) {
			run.Inconclusive("first proposal refused: " + err.Error())
			return
		}
		run.Count("single_node_proposal_error_ignored", 1)
	}
	for _, nd := range members {
		if nd == leader {
			continue
		}
		if err := nd.cmdJoin(nil); err != nil {
			run.Inconclusive("join refused: " + err.Error())
			return
		}
	}
	if x.silent != nil {
		x.silent.broken.Store(true) // crashed: unreachable, and (receiving nothing) mute
		run.Count("epochs_with_a_silent_participant", 1)
	}
	nw.maxLatNs.Store(0)
	nw.resetLag()
	nw.resetTiming()
	if err := leader.cmdExecute(); err != nil {
		run.Inconclusive("execute refused: " + err.Error())
		return
	}
	exp := c06Expect{thr: c.T, scheme: c.Scheme, period: time.Duration(c.Period) * time.Second,
		catchup: time.Duration(c.Catchup) * time.Second, genesis: genesis.Unix(), beaconID: c.BeaconID}
	states, ok := x.waitAndCheck(members, exp, nil)
	if !ok {
		return
	}
	completedEpochs++
	seed := states[0].FinalGroup.GetGenesisSeed()
	prevGroup := states[0].FinalGroup
	x.silent = nil
	{
		var in []*vfdNode
		for _, nd := range members {
			if prevGroup.Find(nd.kp.Public) != nil {
				in = append(in, nd)
			}
		}
		members = in
	}
	if len(states) != len(members) || len(prevGroup.Nodes) != len(members) {
		run.Count("cases_stopped_after_partial_epoch", 1)
		return
	}

	// ---- reshares run AFTER genesis, so that the current round moves while nodes complete
	for ri, rs := range c.Reshares {
		if d := time.Until(genesis.Add(150 * time.Millisecond)); d > 0 {
			time.Sleep(d)
		}
		// a random sub-second offset so that completion lands anywhere in a period
		time.Sleep(time.Duration(x.rng.Intn(400)) * time.Millisecond)
		x.epoch = uint32(ri + 2)
		sh := vfdShuffled(x.rng, members)
		leaving := sh[:rs.Remove]
		remaining := sh[rs.Remove:]
		var joining []*vfdNode
		for i := 0; i < rs.Add; i++ {
			joining = append(joining, newNode())
		}
		participants := append(append([]*vfdNode{}, remaining...), joining...)
		x.silent = nil
		if c.Family == "silent-participant" && c.SilentEpoch == ri+2 && len(participants) >= 3 {
			x.silent = x.pickSilent(participants)
			if c.SilentOld && len(remaining) >= 3 {
				x.silent = x.pickSilent(remaining)
			}
		}
		rcand := c06Without(remaining, x.silent)
		rleader := rcand[x.rng.Intn(len(rcand))]
		x.applySlow(rs.Slow, participants)
		x.applyLostLink(participants)
		x.applyFaulty(remaining)
		if c.Family == "late-execute" && ri == 0 {
			followers := c06Without(participants, rleader)
			if len(followers) > 0 {
				f := followers[c.HoldRaw%len(followers)]
				nw.setHold(f.addr, time.Duration(c.HoldMs)*time.Millisecond)
				run.Count("epochs_with_a_late_execute_packet", 1)
			}
		}
		if err := rleader.cmdReshare(uint32(rs.NewT), uint32(c.Catchup), time.Now().Add(time.Minute),
			vfdParts(vfdShuffled(x.rng, joining)), vfdParts(vfdShuffled(x.rng, remaining)), vfdParts(vfdShuffled(x.rng, leaving))); err != nil {
			if !(len(participants) == 1 && strings.Contains(err.Error(), "gossip recipients was empty")) {
				run.Inconclusive(fmt.Sprintf("reshare proposal (%s) refused: %v", rs.Kind, err))
				return
			}
			run.Count("single_node_proposal_error_ignored", 1)
		}
		gf, err := vfdGroupTOML(prevGroup)
		if err != nil {
			run.Inconclusive("group toml: " + err.Error())
			return
		}
		for _, nd := range vfdShuffled(x.rng, participants) {
			var err error
			switch {
			case nd == rleader:
			case c06In(joining, nd):
				err = nd.cmdJoin(gf)
			default:
				err = nd.cmdAccept()
			}
			if err != nil {
				run.Inconclusive("accept/join refused: " + err.Error())
				return
			}
		}
		if x.silent != nil {
			x.silent.broken.Store(true)
			run.Count("epochs_with_a_silent_participant", 1)
		}
		nw.maxLatNs.Store(0)
		nw.resetLag()
		nw.resetTiming()
		if err := rleader.cmdExecute(); err != nil {
			run.Inconclusive("reshare execute refused: " + err.Error())
			return
		}
		exp.thr = rs.NewT
		exp.seed = seed
		states, ok := x.waitAndCheck(participants, exp, prevGroup)
		nw.clearHold()
		if !ok {
			return
		}
		completedEpochs++
		prevGroup = states[0].FinalGroup
		// the next epoch's current members are the nodes of the group that came out (an evicted or failed
		// participant is not a member)
		members = nil
		for _, nd := range participants {
			if prevGroup.Find(nd.kp.Public) != nil {
				members = append(members, nd)
			}
		}
		if len(members) != len(prevGroup.Nodes) || len(states) != len(prevGroup.Nodes) {
			run.Count("cases_stopped_after_partial_epoch", 1)
			return
		}
	}
}

func c06Without(l []*vfdNode, x *vfdNode) []*vfdNode {
	if x == nil {
		return l
	}
	var out []*vfdNode
	for _, nd := range l {
		if nd != x {
			out = append(out, nd)
		}
	}
	return out
}

func c06In(l []*vfdNode, nd *vfdNode) bool {
	for _, x := range l {
		if x == nd {
			return true
		}
	}
	return false
}

type c06Expect struct {
	thr      int
	scheme   string
	period   time.Duration
	catchup  time.Duration
	genesis  int64
	seed     []byte
	beaconID string
}

type c06NodeView struct {
	nd    *vfdNode
	state *DBState
	raw   []byte
}

// waitAndCheck waits for the outcome of the epoch on all participants, reads the finished records back from the
// real databases and applies the oracle. Returns the finished states of the completing nodes (participant order).
func (x *c06Ctx) waitAndCheck(participants []*vfdNode, exp c06Expect, prev *key.Group) ([]*DBState, bool) {
	run := x.run
	all := participants
	participants = c06Without(participants, x.silent) // the mute one neither completes nor fails
	out := vfdWaitOutcome(participants, x.epoch, 40*time.Second)
	// the traffic of this epoch (late duplicates, queued echoes, gossip retries) must be gone before the next
	// proposal: epochs of a real network are hours apart, a bundle of epoch e arriving during epoch e+1 is not a
	// schedule this property quantifies over (see the report: stale bundles are accepted by the next epoch's board)
	if !x.net.drain(25 * time.Second) {
		run.Inconclusive(fmt.Sprintf("case %d epoch %d: traffic of the epoch did not drain", x.c.Index, x.epoch))
		return nil, false
	}
	var views []c06NodeView
	nFailed, nPending := 0, 0
	for _, nd := range participants {
		switch out[nd.addr] {
		case "complete":
			_, fin := nd.raw()
			st, err := vfdDecode(fin)
			if err != nil || st == nil {
				run.Violation("C06/finished-record-unreadable", fmt.Sprintf("node %s: %v", nd.addr, err), x.info(nil))
				continue
			}
			views = append(views, c06NodeView{nd: nd, state: st, raw: fin})
		case "failed":
			nFailed++
		default:
			nPending++
		}
	}
	run.Count("dkg_node_completions", int64(len(views)))
	run.Count("dkg_node_failures", int64(nFailed))
	if nPending > 0 {
		run.Inconclusive(fmt.Sprintf("case %d epoch %d: %d nodes neither completed nor failed within the watchdog", x.c.Index, x.epoch, nPending))
		return nil, false
	}
	if len(views) == 0 {
		run.Inconclusive(fmt.Sprintf("case %d epoch %d: execution failed on every node", x.c.Index, x.epoch))
		return nil, false
	}
	run.Count("dkg_epochs_completed", 1)
	if x.epoch > 1 {
		run.Count("reshares_completed", 1)
	}
	// synchrony guard: the DKG protocol assumes that a bundle arrives within its phase
	lat := time.Duration(x.net.maxLatNs.Load())
	if lat > c06PhaseTimeout*3/4 {
		run.Inconclusive(fmt.Sprintf("case %d epoch %d: a bundle took %v (phase timeout %v): synchrony assumption not met on this box", x.c.Index, x.epoch, lat, c06PhaseTimeout))
		return nil, false
	}
	// ... measured per bundle against the schedule of the node it was handed to: a node that got the execute packet
	// at e starts at max(kick-off, e) at the earliest and closes its k-th phase k time-outs later; a bundle handed
	// over later than that (minus a margin for a select loop that was not scheduled in time) is a schedule outside
	// the synchronous model, and agreement is not owed
	margin := 300*time.Millisecond + 2*x.net.lag()
	var addrs []string
	for _, nd := range participants {
		addrs = append(addrs, nd.addr)
	}
	if late := x.net.synchronyKept(addrs, "", c06PhaseTimeout, margin); late != "" {
		run.Count("epochs_outside_the_synchronous_model", 1)
		run.Inconclusive(fmt.Sprintf("case %d epoch %d: %s: synchrony assumption not met", x.c.Index, x.epoch, late))
		return nil, false
	}
	evicted := nFailed > 0
	for _, v := range views {
		if v.state.FinalGroup != nil && len(v.state.FinalGroup.Nodes) != len(participants) {
			evicted = true
		}
	}
	if lag := x.net.lag(); lag > 300*time.Millisecond && evicted {
		// somebody failed or was evicted while timers on this box came back that late: kick-off and phase ends were
		// not kept, which is outside the protocol's assumptions
		run.Inconclusive(fmt.Sprintf("case %d epoch %d: eviction/failure while the box was not keeping time (timer lag %v)", x.c.Index, x.epoch, lag))
		return nil, false
	}
	if x.silent != nil {
		if len(views[0].state.FinalGroup.Nodes) < len(all) {
			run.Count("epochs_completed_by_a_strict_subset", 1)
		}
	}
	x.oracle(views, all, exp, prev, nFailed)
	states := make([]*DBState, len(views))
	for i, v := range views {
		states[i] = v.state
	}
	return states, true
}

// c06Round: the beacon round current at unix second t (harness arithmetic, independent of package common).
func c06Round(t int64, period time.Duration, genesis int64) int64 {
	if t < genesis {
		return 0
	}
	return (t-genesis)/int64(period/time.Second) + 1
}

func c06Points(g *key.Group) [][]byte {
	var out [][]byte
	if g.PublicKey == nil {
		return nil
	}
	for _, p := range g.PublicKey.Coefficients {
		b, _ := p.MarshalBinary()
		out = append(out, b)
	}
	return out
}

func c06NodesDesc(g *key.Group) []string {
	if g == nil {
		return nil
	}
	ns := append([]*key.Node(nil), g.Nodes...)
	sort.Slice(ns, func(i, j int) bool { return ns[i].Index < ns[j].Index })
	var out []string
	for _, n := range ns {
		kb, _ := n.Key.MarshalBinary()
		out = append(out, fmt.Sprintf("%d:%s:%s", n.Index, n.Addr, hex.EncodeToString(kb)))
	}
	return out
}

func c06NodeSigs(g *key.Group) []string {
	ns := append([]*key.Node(nil), g.Nodes...)
	sort.Slice(ns, func(i, j int) bool { return ns[i].Index < ns[j].Index })
	var out []string
	for _, n := range ns {
		out = append(out, hex.EncodeToString(n.Signature))
	}
	return out
}

func c06HashWithTT(g *key.Group, tt int64) []byte {
	cp := *g
	cp.Nodes = append([]*key.Node(nil), g.Nodes...)
	cp.TransitionTime = tt
	return cp.Hash()
}

func (x *c06Ctx) oracle(views []c06NodeView, participants []*vfdNode, exp c06Expect, prev *key.Group, nFailed int) {
	run := x.run
	phase := "first"
	if x.epoch > 1 {
		phase = "reshare"
	}
	ref := views[0]
	rg := ref.state.FinalGroup
	if rg == nil || ref.state.KeyShare == nil {
		run.Violation("C06/finished-record-without-group-or-share/"+phase, ref.nd.addr, x.info(nil))
		return
	}
	// ---------- (1) agreement, field by field, of every completing node with the first one
	type fieldCmp struct {
		name string
		get  func(g *key.Group) string
	}
	fields := []fieldCmp{
		{"nodes", func(g *key.Group) string { return strings.Join(c06NodesDesc(g), ",") }},
		{"node-signatures", func(g *key.Group) string { return strings.Join(c06NodeSigs(g), ",") }},
		{"threshold", func(g *key.Group) string { return fmt.Sprint(g.Threshold) }},
		{"scheme", func(g *key.Group) string { return g.Scheme.Name }},
		{"period", func(g *key.Group) string { return g.Period.String() }},
		{"catchup-period", func(g *key.Group) string { return g.CatchupPeriod.String() }},
		{"genesis-time", func(g *key.Group) string { return fmt.Sprint(g.GenesisTime) }},
		{"genesis-seed", func(g *key.Group) string { return hex.EncodeToString(g.GenesisSeed) }},
		{"beacon-id", func(g *key.Group) string { return g.ID }},
		{"public-coefficients", func(g *key.Group) string {
			var s []string
			for _, b := range c06Points(g) {
				s = append(s, hex.EncodeToString(b))
			}
			return strings.Join(s, ",")
		}},
	}
	for _, v := range views[1:] {
		g := v.state.FinalGroup
		if g == nil || v.state.KeyShare == nil {
			run.Violation("C06/finished-record-without-group-or-share/"+phase, v.nd.addr, x.info(nil))
			continue
		}
		for _, f := range fields {
			a, b := f.get(rg), f.get(g)
			if a != b {
				run.Violation("C06/group-disagrees/"+f.name+"/"+phase,
					fmt.Sprintf("epoch %d: %s has %s=%q but %s has %q", x.epoch, ref.nd.addr, f.name, a, v.nd.addr, b),
					x.info(map[string]any{"a": ref.nd.addr, "b": v.nd.addr}))
			}
		}
		ttDiff := g.TransitionTime != rg.TransitionTime
		if ttDiff {
			d := g.TransitionTime - rg.TransitionTime
			if d < 0 {
				d = -d
			}
			variant := "other"
			ps := int64(exp.period / time.Second)
			tts, rounds, offs := map[string]int64{}, map[string]int64{}, map[string]int64{}
			for _, w := range views {
				tts[w.nd.addr] = w.state.FinalGroup.TransitionTime
				var at time.Time
				if w.nd.tap != nil {
					at = w.nd.tap.finishedAt(x.epoch)
				}
				if at.IsZero() || ps <= 0 {
					continue
				}
				since := at.Sub(time.Unix(exp.genesis, 0))
				rounds[w.nd.addr], offs[w.nd.addr] = int64(since/exp.period)+1, int64((since%exp.period)/time.Millisecond)
			}
			if x.epoch > 1 && ps > 0 && d%ps == 0 {
				variant = "completion-straddles-round-boundary"
			}
			run.Violation("C06/transition-time-disagrees/"+variant,
				fmt.Sprintf("epoch %d (%s, period %v): nodes completed the same epoch with transition times %d (%s) and %d (%s); group hashes %x / %x; completion rounds %v (ms into the round %v)",
					x.epoch, phase, exp.period, rg.TransitionTime, ref.nd.addr, g.TransitionTime, v.nd.addr, rg.Hash()[:6], g.Hash()[:6], rounds, offs),
				x.info(map[string]any{"transition_times": tts, "completion_rounds": rounds, "completion_ms_into_round": offs,
					"slow": x.net.sched.Slow, "timer_lag_ms": x.net.lag().Milliseconds()}))
		}
		ha, hb := rg.Hash(), g.Hash()
		if !bytes.Equal(ha, hb) {
			// a hash difference that is fully explained by the transition time is already reported above
			if !(ttDiff && bytes.Equal(ha, c06HashWithTT(g, rg.TransitionTime))) {
				run.Violation("C06/group-disagrees/hash/"+phase,
					fmt.Sprintf("epoch %d: group hash %x at %s, %x at %s", x.epoch, ha, ref.nd.addr, hb, v.nd.addr), x.info(nil))
			}
		}
	}
	// ---------- (1b) each node's transition time is "10 rounds after the round in which its protocol run ended":
	// the instant sampled by the real code lies between the first hand-over of a response bundle to that node (in
	// fast-sync mode a node ends only after it has processed the responses of every other member of its final
	// group) and the entry of its SaveFinished. Both bounds are observed at the boundary, so the verdict does not
	// depend on how fast the box is.
	if x.epoch > 1 && exp.period >= time.Second {
		tm := x.net.timing()
		for _, v := range views {
			g := v.state.FinalGroup
			if g == nil || len(g.Nodes) < 2 || v.nd.tap == nil {
				continue
			}
			lo, okLo := tm.FirstRespIn[v.nd.addr]
			hi := v.nd.tap.finishedEntered(x.epoch)
			if !okLo || hi.IsZero() || lo.Unix() < exp.genesis {
				continue // (reshares are issued after genesis; before it no round is current)
			}
			sampled := c06Round(g.TransitionTime, exp.period, exp.genesis) - 10
			rLo := c06Round(lo.Unix(), exp.period, exp.genesis)
			rHi := c06Round(hi.Unix(), exp.period, exp.genesis)
			run.Count("transition_times_checked_against_completion_window", 1)
			if sampled < rLo || sampled > rHi {
				where := "before-the-run-could-have-ended"
				if sampled > rHi {
					where = "after-the-record-was-written"
				}
				run.Violation("C06/transition-time-not-from-completion-instant/"+where,
					fmt.Sprintf("epoch %d node %s: transition time %d = round %d + 10, but its protocol run ended between rounds %d (first response bundle handed over) and %d (finished record about to be written)",
						x.epoch, v.nd.addr, g.TransitionTime, sampled, rLo, rHi), x.info(nil))
			}
		}
	}
	// ---------- (2) the agreed group against what was proposed (harness-known values)
	chk := func(name string, ok bool, detail string) {
		if !ok {
			run.Violation("C06/group-differs-from-proposal/"+name+"/"+phase, fmt.Sprintf("epoch %d node %s: %s", x.epoch, ref.nd.addr, detail), x.info(nil))
		}
	}
	chk("threshold", rg.Threshold == exp.thr, fmt.Sprintf("%d != %d", rg.Threshold, exp.thr))
	chk("scheme", rg.Scheme != nil && rg.Scheme.Name == exp.scheme, "scheme")
	chk("period", rg.Period == exp.period, fmt.Sprintf("%v != %v", rg.Period, exp.period))
	chk("catchup-period", rg.CatchupPeriod == exp.catchup, fmt.Sprintf("%v != %v", rg.CatchupPeriod, exp.catchup))
	chk("genesis-time", rg.GenesisTime == exp.genesis, fmt.Sprintf("%d != %d", rg.GenesisTime, exp.genesis))
	chk("beacon-id", rg.ID == exp.beaconID, rg.ID)
	if exp.seed != nil {
		chk("genesis-seed", bytes.Equal(rg.GenesisSeed, exp.seed), "seed changed across a reshare")
	} else {
		chk("genesis-seed", len(rg.GenesisSeed) > 0, "empty seed after the first DKG")
	}
	if rg.PublicKey == nil || len(rg.PublicKey.Coefficients) != rg.Threshold {
		chk("coefficient-count", false, fmt.Sprintf("threshold %d", rg.Threshold))
		return
	}
	// indices: independent of the order in which participants were listed = rank in the byte order of the keys
	rank := vfdRankByKey(participants)
	evicted := len(rg.Nodes) != len(participants)
	if evicted {
		run.Count("epochs_with_eviction", 1)
	}
	for _, gn := range rg.Nodes {
		want, known := rank[gn.Addr]
		if !known {
			chk("node-set", false, "group contains a node that was not a participant: "+gn.Addr)
			continue
		}
		if gn.Index != want {
			chk("index-not-canonical", false, fmt.Sprintf("%s has index %d, rank of its key among the participants is %d (listing order must not matter)", gn.Addr, gn.Index, want))
		}
	}
	if !evicted && nFailed == 0 && len(views) != len(participants) {
		chk("node-set", false, "missing completions")
	}
	// every reachable participant the completed group lists must itself have completed: a listed member whose own
	// run failed holds no share of the key, and a group of n listed nodes with fewer share holders than its threshold
	// can never sign
	done := map[string]bool{}
	for _, v := range views {
		done[v.nd.addr] = true
	}
	for _, nd := range participants {
		if nd == x.silent || done[nd.addr] || rg.Find(nd.kp.Public) == nil {
			continue
		}
		run.Violation("C06/listed-member-did-not-complete/"+phase,
			fmt.Sprintf("epoch %d: %s is listed (index %d) in the group %d node(s) completed with, but its own run of the protocol failed: it holds no share", x.epoch, nd.addr, rg.Find(nd.kp.Public).Index, len(views)), x.info(nil))
	}
	if x.silent != nil && rg.Find(x.silent.kp.Public) == nil && len(rg.Nodes) == len(participants)-1 {
		run.Count("groups_equal_to_participants_minus_the_silent_one", 1)
	}
	// ---------- (3) each node's share lies on the public polynomial at its own index
	sch := rg.Scheme
	pubPoly := share.NewPubPoly(sch.KeyGroup, sch.KeyGroup.Point().Base(), rg.PublicKey.Coefficients)
	var shares []*share.PriShare
	for _, v := range views {
		ks := v.state.KeyShare
		g := v.state.FinalGroup
		if ks == nil || ks.Share == nil || g == nil {
			continue
		}
		me := g.Find(v.nd.kp.Public)
		if me == nil {
			run.Violation("C06/completing-node-not-in-its-own-group/"+phase, v.nd.addr, x.info(nil))
			continue
		}
		if uint32(ks.Share.I) != me.Index {
			run.Violation("C06/share-index-differs-from-group-index/"+phase,
				fmt.Sprintf("epoch %d node %s: share index %d, index in group %d", x.epoch, v.nd.addr, ks.Share.I, me.Index), x.info(nil))
		}
		if len(ks.Commits) != len(g.PublicKey.Coefficients) {
			run.Violation("C06/share-commits-differ-from-group-key/"+phase, v.nd.addr, x.info(nil))
		} else {
			for i := range ks.Commits {
				if !ks.Commits[i].Equal(g.PublicKey.Coefficients[i]) {
					run.Violation("C06/share-commits-differ-from-group-key/"+phase, v.nd.addr, x.info(nil))
					break
				}
			}
		}
		lhs := sch.KeyGroup.Point().Mul(ks.Share.V, nil)
		rhs := pubPoly.Eval(ks.Share.I).V
		if !lhs.Equal(rhs) {
			run.Violation("C06/share-not-on-public-polynomial/"+phase,
				fmt.Sprintf("epoch %d node %s index %d: share*G != PubPoly(index)", x.epoch, v.nd.addr, ks.Share.I), x.info(nil))
		}
		run.Count("shares_checked", 1)
		shares = append(shares, ks.Share)
	}
	// ---------- (4) any threshold of the shares signs under the group key
	t := rg.Threshold
	if len(shares) >= t {
		msg := x.rng.Bytes(32)
		var partials [][]byte
		for _, s := range shares {
			p, err := sch.ThresholdScheme.Sign(s, msg)
			if err != nil {
				run.Violation("C06/partial-sign-failed/"+phase, err.Error(), x.info(nil))
				return
			}
			partials = append(partials, p)
		}
		subsets := c06Subsets(x.rng, len(shares), t, len(participants) <= 5, 20)
		for _, sub := range subsets {
			var sigs [][]byte
			for _, i := range sub {
				sigs = append(sigs, partials[i])
			}
			sig, err := sch.ThresholdScheme.Recover(pubPoly, msg, sigs, t, len(rg.Nodes))
			if err == nil {
				err = sch.ThresholdScheme.VerifyRecovered(pubPoly.Commit(), msg, sig)
			}
			run.Count("threshold_subsets_checked", 1)
			if err != nil {
				run.Violation("C06/threshold-subset-signature-invalid/"+phase,
					fmt.Sprintf("epoch %d subset %v of shares: %v", x.epoch, sub, err), x.info(nil))
				break
			}
		}
	} else {
		run.Count("epochs_with_fewer_completions_than_threshold", 1)
	}
	_ = prev
}

// c06Subsets: all t-subsets of 0..n-1 when `all`, else up to k sampled ones.
func c06Subsets(rng *vfRng, n, t int, all bool, k int) [][]int {
	var out [][]int
	if all {
		var rec func(start int, cur []int)
		rec = func(start int, cur []int) {
			if len(cur) == t {
				out = append(out, append([]int(nil), cur...))
				return
			}
			for i := start; i < n; i++ {
				rec(i+1, append(cur, i))
			}
		}
		rec(0, nil)
		return out
	}
	seen := map[string]bool{}
	for tries := 0; len(out) < k && tries < 10*k; tries++ {
		p := rng.Perm(n)[:t]
		sort.Ints(p)
		key := fmt.Sprint(p)
		if !seen[key] {
			seen[key] = true
			out = append(out, p)
		}
	}
	return out
}
