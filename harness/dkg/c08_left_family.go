package dkg

// C08, directed family "left": a network is driven to a state in which one node X has LEFT (it completed epoch
// E-1, was a leaver in the reshare of epoch E that the others completed, and now holds current = Left@E, finished =
// Complete@E-1, E >= 3). X is then sent every invalid invitation class as a packet correctly signed by a current
// member (stale epochs E, E-1, ..., 1 in particular), and finally the valid re-invitation as joiner, which must be
// accepted and whose DKG must complete. The oracles are the generic ones of c08_dkgnet.go: every store write is
// judged by the tap (legal edge, epoch monotone, finished record), every invalid class must be answered with an
// error and write nothing.

import (
	"strings"
	"bytes"
	"context"
	"fmt"
	"time"

	"google.golang.org/protobuf/proto"
	"google.golang.org/protobuf/types/known/timestamppb"

	"github.com/drand/drand/v2/crypto"
	pdkg "github.com/drand/drand/v2/protobuf/dkg"
)

// cleanEpoch: everybody answers the proposal the right way, the leader executes, nothing is disturbed. Returns true
// when every participant completed the epoch.
func (h *c08H) cleanEpoch(p *c08Proposal) bool {
	gf := h.groupFile()
	for _, nd := range vfdShuffled(h.rng, p.participants()) {
		nd := nd
		var err error
		switch {
		case nd == p.leader:
		case c06In(p.joining, nd):
			g := gf
			if p.epoch == 1 {
				g = nil
			}
			err = h.step(c08Opt{kind: "cmd-join", class: "valid", actor: nd, target: nd}, func() error { return nd.cmdJoin(g) })
		default:
			err = h.step(c08Opt{kind: "cmd-accept", class: "valid", actor: nd, target: nd}, func() error { return nd.cmdAccept() })
		}
		if err != nil {
			return false
		}
	}
	if err := h.step(c08Opt{kind: "cmd-execute", class: "valid-undisturbed", actor: p.leader, target: p.leader}, func() error { return p.leader.cmdExecute() }); err != nil {
		return false
	}
	h.mu.Lock()
	h.execs++
	h.mu.Unlock()
	h.net.quiesce(2 * time.Second)
	h.waitExecutions()
	h.net.drain(10 * time.Second)
	for _, nd := range p.participants() {
		if v := h.view(nd); v.fin == nil || v.fin.Epoch != p.epoch {
			return false
		}
	}
	return true
}

// proposeReshare: a reshare proposal with the given places, issued by leader (who must be in remaining).
func (h *c08H) proposeReshare(leader *vfdNode, remaining, joining, leaving []*vfdNode, thr int, class string) *c08Proposal {
	_, fin, _ := h.latest()
	if fin == nil {
		return nil
	}
	p := &c08Proposal{leader: leader, remaining: remaining, joining: joining, leaving: leaving, epoch: fin.Epoch + 1,
		expires: time.Now().Add(40 * time.Second)}
	err := h.step(c08Opt{kind: "cmd-reshare", class: class, actor: leader, target: leader}, func() error {
		return leader.cmdReshare(uint32(thr), 1, p.expires, vfdParts(joining), vfdParts(vfdShuffled(h.rng, remaining)), vfdParts(leaving))
	})
	if err != nil {
		return nil
	}
	return p
}

var c08LeftClasses = []string{"stale-epoch-E-1", "stale-epoch-E-2", "stale-epoch-1-as-first-proposal", "stale-epoch-equal-E",
	"expired-timeout", "threshold-below-minimum", "threshold-above-n", "unknown-scheme", "genesis-time-changed",
	"genesis-seed-changed", "leader-joining", "leader-leaving", "nil-terms", "empty-terms", "foreign-beacon-id-in-terms",
	"self-missing", "changed-beacon-period", "changed-scheme"}

// leftInvite sends X (state Left) an invitation of the given class, signed by a member of the current group with its
// real key. Returns false when the class has no meaning here.
func (h *c08H) leftInvite(X *vfdNode, class string) bool {
	v := h.view(X)
	if v.cur == nil || v.cur.State != Left {
		return false
	}
	E := v.cur.Epoch
	_, fin, members := h.latest()
	if fin == nil || len(members) == 0 || c06In(members, X) {
		return false
	}
	leader := h.pick(members)
	n := len(members) + 1
	terms := &pdkg.ProposalTerms{BeaconID: h.c.BeaconID, Epoch: fin.Epoch + 1, Leader: proto.Clone(leader.part).(*pdkg.Participant),
		Threshold: uint32(n/2 + 1), Timeout: timestamppb.New(time.Now().Add(40 * time.Second)),
		CatchupPeriodSeconds: uint32(fin.CatchupPeriod.Seconds()), BeaconPeriodSeconds: uint32(fin.BeaconPeriod.Seconds()),
		SchemeID: fin.SchemeID, GenesisTime: timestamppb.New(fin.GenesisTime), GenesisSeed: append([]byte{}, fin.GenesisSeed...),
		Remaining: vfdParts(vfdShuffled(h.rng, members)), Joining: vfdParts([]*vfdNode{X})}
	must := true
	switch class {
	case "valid-shape":
		must = false
	case "stale-epoch-E-1":
		if E < 3 {
			return false
		}
		terms.Epoch = E - 1
	case "stale-epoch-E-2":
		if E < 4 {
			return false
		}
		terms.Epoch = E - 2
	case "stale-epoch-1-as-first-proposal":
		// epoch 1 has its own shape: joiners only, no seed
		terms.Epoch = 1
		terms.GenesisSeed = nil
		terms.Remaining = nil
		terms.Joining = vfdParts(vfdShuffled(h.rng, append(append([]*vfdNode{}, members...), X)))
	case "stale-epoch-equal-E":
		terms.Epoch = E
	case "expired-timeout":
		terms.Timeout = timestamppb.New(time.Now().Add(-2 * time.Second))
	case "threshold-below-minimum":
		terms.Threshold = uint32(n / 2)
	case "threshold-above-n":
		terms.Threshold = uint32(n + 1)
	case "unknown-scheme":
		terms.SchemeID = "bls-vf-no-such-scheme"
	case "genesis-time-changed":
		terms.GenesisTime = timestamppb.New(fin.GenesisTime.Add(time.Duration(h.rng.Range(1, 90)) * time.Second))
	case "genesis-seed-changed":
		if len(terms.GenesisSeed) == 0 {
			return false
		}
		terms.GenesisSeed[h.rng.Intn(len(terms.GenesisSeed))] ^= 0x20
	case "leader-joining":
		terms.Remaining = c08RemoveAddr(terms.Remaining, leader.addr)
		terms.Joining = append(terms.Joining, proto.Clone(leader.part).(*pdkg.Participant))
	case "leader-leaving":
		terms.Remaining = c08RemoveAddr(terms.Remaining, leader.addr)
		terms.Leaving = []*pdkg.Participant{proto.Clone(leader.part).(*pdkg.Participant)}
	case "nil-terms":
		terms = nil
	case "empty-terms":
		terms = &pdkg.ProposalTerms{}
	case "foreign-beacon-id-in-terms":
		terms.BeaconID = "vf-some-other-beacon"
	case "self-missing":
		terms.Joining = nil
	case "changed-beacon-period":
		// X still holds the chain's period in the record of the attempt it left in
		terms.BeaconPeriodSeconds += uint32(h.rng.Range(1, 30))
	case "changed-scheme":
		for _, id := range vfdShuffledStrings(h.rng, crypto.ListSchemes()) {
			if id != fin.SchemeID {
				terms.SchemeID = id
				break
			}
		}
	default:
		return false
	}
	pk := &pdkg.GossipPacket{Packet: &pdkg.GossipPacket_Proposal{Proposal: terms}}
	h.sign(leader, leader.addr, h.c.BeaconID, pk, terms)
	h.run.Count("invitations_sent_to_a_node_in_state_left", 1)
	_ = h.step(c08Opt{kind: "pkt-invite-left-node", class: class, actor: leader, target: X, mustReject: must}, func() error {
		_, err := X.proc.Packet(context.Background(), pk)
		return err
	})
	return true
}

func (h *c08H) driveLeft() {
	run := h.run
	setupFailed := func(where string) {
		run.Count("left_family_setup_not_reached", 1)
		run.Seen("left_family_setup_stopped_at", where)
	}
	// epoch 1
	p := h.proposeValid(false)
	if p == nil || !h.cleanEpoch(p) {
		setupFailed("epoch-1")
		return
	}
	// epochs 2 .. E-1 with everybody remaining (threshold at its minimum so that somebody can leave afterwards)
	extra := h.rng.Range(1, 2)
	for i := 0; i < extra; i++ {
		_, _, members := h.latest()
		if len(members) < 3 {
			setupFailed("members")
			return
		}
		p = h.proposeReshare(h.pick(members), members, nil, nil, len(members)/2+1, "valid")
		if p == nil || !h.cleanEpoch(p) {
			setupFailed(fmt.Sprintf("epoch-%d", i+2))
			return
		}
		if i == 0 && h.rng.Chance(40) {
			h.noise(nil)
		}
	}
	// epoch E: X leaves, the others complete
	_, fin, members := h.latest()
	if len(members) < 3 || len(members)-1 < int(fin.Threshold) {
		setupFailed("cannot-leave")
		return
	}
	leader := h.pick(members)
	X := h.pick(c08Without(members, leader))
	rest := c08Without(members, X)
	p = h.proposeReshare(leader, rest, nil, []*vfdNode{X}, len(rest)/2+1, "valid-with-leaver")
	tLeave := time.Now()
	if p == nil || !h.cleanEpoch(p) {
		setupFailed("epoch-E")
		return
	}
	vx := h.view(X)
	if vx.cur == nil || vx.cur.State != Left {
		setupFailed("x-not-left")
		return
	}
	E := vx.cur.Epoch
	run.Count("left_family_nodes_driven_to_left", 1)
	run.Seen("left_family_epoch_E", fmt.Sprint(E))
	// sometimes the network moves on once more without X
	if h.rng.Chance(30) {
		_, _, members = h.latest()
		if pp := h.proposeReshare(h.pick(members), members, nil, nil, len(members)/2+1, "valid"); pp != nil {
			h.cleanEpoch(pp)
		}
	}
	// every invalid invitation, in random order, with a little noise in between. Every second history of the family
	// goes straight to the valid re-invitation instead, so that the re-join is exercised whatever X answered before
	// (an invitation that is wrongly accepted takes X out of Left for good).
	if (h.c.Index/20)%2 == 1 {
		for _, i := range h.rng.Perm(len(c08LeftClasses)) {
			h.leftInvite(X, c08LeftClasses[i])
			if h.rng.Chance(15) {
				h.noise(nil)
			}
		}
	}
	// A leaver's own execution goroutine of epoch E only ends two phase time-outs after E's kick-off (its kyber
	// instance answers "leaving node can process responses only after creating shares" at the justification tick) and
	// then stores Failed over whatever the node's current record is, if that is Executing. With real phase time-outs
	// (10 s and more) nobody is invited back that fast; with the harness's 0.8 s phases the re-invitation has to wait
	// for it, otherwise X's re-join is marked Failed by the execution of the epoch it LEFT in.
	if d := time.Until(tLeave.Add(c08Kickoff + 3*c08Phase + 500*time.Millisecond)); d > 0 {
		time.Sleep(d)
	}
	// the valid re-invitation, by a real command of a current member
	if v := h.view(X); v.cur == nil || v.cur.State != Left {
		run.Count("left_family_x_no_longer_left_before_reinvitation", 1)
		return
	}
	g, gfin, members := h.latest()
	if g == nil || len(members) != len(g.Nodes) {
		run.Count("left_family_reinvitation_skipped_members_inconsistent", 1)
		return
	}
	for _, m := range members {
		// same precondition as the recovery step: every member holds the epoch the proposal starts from, with the
		// same group (a DKG that ended differently on different nodes — a run outside the synchronous model — leaves
		// members whose own proposal would not be the one the harness builds from the latest record)
		if v := h.view(m); v.fin == nil || v.fin.Epoch != gfin.Epoch || v.inFlight() || v.fin.FinalGroup == nil ||
			strings.Join(c06NodesDesc(v.fin.FinalGroup), ",") != strings.Join(c06NodesDesc(g), ",") || !bytes.Equal(v.fin.GenesisSeed, gfin.GenesisSeed) {
			run.Count("left_family_reinvitation_skipped_members_inconsistent", 1)
			return
		}
	}
	n := len(members) + 1
	p = h.proposeReshare(h.pick(members), members, []*vfdNode{X}, nil, h.rng.Range(n/2+1, n), "re-invitation-of-left-node")
	if p == nil {
		// the command's answer is in the history; was it X that refused?
		last := ""
		h.mu.Lock()
		if len(h.steps) > 0 {
			last = h.steps[len(h.steps)-1].Err
		}
		h.mu.Unlock()
		busy := false
		for _, m := range members {
			if h.view(m).inFlight() {
				busy = true
			}
		}
		if !busy {
			run.Violation("C08/not-recoverable/valid-reinvitation-of-left-node-refused",
				fmt.Sprintf("X=%s holds Left@%d; a valid proposal of the current members with X as joiner was answered: %s", X.addr, E, last), h.info(nil))
		}
		return
	}
	run.Count("left_family_reinvitations_accepted", 1)
	// (f) for the node that left: the valid invitation has been accepted by everybody; everybody now answers it the
	// right way (X joins with the current group file) and the leader executes undisturbed: the DKG must complete, for X
	// too. A box that does not keep time (timer lag, slow bundles) makes this inconclusive, never a violation.
	gf := h.groupFile()
	for _, nd := range vfdShuffled(h.rng, p.participants()) {
		nd := nd
		var err error
		switch {
		case nd == p.leader:
		case nd == X:
			err = h.step(c08Opt{kind: "cmd-join", class: "left-node-rejoins", actor: X, target: X}, func() error { return X.cmdJoin(gf) })
		default:
			err = h.step(c08Opt{kind: "cmd-accept", class: "valid", actor: nd, target: nd}, func() error { return nd.cmdAccept() })
		}
		if err != nil {
			if nd == X {
				run.Violation("C08/not-recoverable/join-of-reinvited-left-node-refused",
					fmt.Sprintf("X=%s (Left@%d) was validly re-invited for epoch %d and its join with the current group file was answered: %v", X.addr, E, p.epoch, err), h.info(nil))
			} else {
				run.Count("left_family_rejoin_answers_refused", 1)
			}
			return
		}
	}
	h.net.resetLag()
	h.net.maxLatNs.Store(0)
	h.net.resetTiming()
	if err := h.step(c08Opt{kind: "cmd-execute", class: "rejoin-of-left-node", actor: p.leader, target: p.leader}, func() error { return p.leader.cmdExecute() }); err != nil {
		run.Count("left_family_rejoin_execute_refused", 1)
		return
	}
	h.mu.Lock()
	h.execs++
	h.mu.Unlock()
	h.net.quiesce(2 * time.Second)
	h.waitExecutions()
	lag, lat := h.net.lag(), time.Duration(h.net.maxLatNs.Load())
	h.net.drain(10 * time.Second)
	out := map[string]string{}
	xDone, othersDone := false, 0
	for _, nd := range p.participants() {
		v := h.view(nd)
		out[nd.addr] = c08Desc(v)
		done := v.fin != nil && v.fin.Epoch == p.epoch
		if nd == X {
			xDone = done
		} else if done {
			othersDone++
		}
	}
	run.Count("left_family_rejoin_dkgs_run", 1)
	if xDone && othersDone == len(p.participants())-1 {
		run.Count("left_family_rejoin_dkgs_completed", 1)
		return
	}
	if lag > 150*time.Millisecond || lat > c08Phase/2 {
		run.Inconclusive(fmt.Sprintf("case %d: re-join DKG of the node that left ended %v while the box was not keeping time (timer lag %v, slowest bundle %v)", h.c.Index, out, lag, lat))
		return
	}
	var paddrs []string
	for _, nd := range p.participants() {
		paddrs = append(paddrs, nd.addr)
	}
	if late := h.net.synchronyKept(paddrs, "", c08Phase, 250*time.Millisecond+2*lag); late != "" {
		run.Inconclusive(fmt.Sprintf("case %d: re-join DKG of the node that left ended %v outside the synchronous model: %s", h.c.Index, out, late))
		return
	}
	if !xDone {
		run.Violation("C08/not-recoverable/rejoin-dkg-of-left-node-fails",
			fmt.Sprintf("X=%s left in epoch %d (Left@%d, finished %d), was validly invited back as joiner for epoch %d, joined with the current group file, everybody accepted, the leader executed undisturbed: the DKG did not complete for X (%s); %d of %d other participants completed",
				X.addr, E, E, E-1, p.epoch, out[X.addr], othersDone, len(p.participants())-1),
			h.info(map[string]any{"outcomes": out, "timer_lag_ms": lag.Milliseconds(), "slowest_bundle_ms": lat.Milliseconds()}))
		return
	}
	run.Count("left_family_rejoin_dkgs_x_completed_but_not_everybody", 1)
}
