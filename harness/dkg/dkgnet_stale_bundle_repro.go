package dkg

// Reproduction aid (NOT part of any registered run; `go test -run '^TestVFX_StaleBundleReplay$'`): a deal bundle of
// epoch e, delivered again during epoch e+1, passes echoBroadcast.BroadcastDKG (only the dealer's signature is
// checked, not the session) and reaches kyber, which evicts the honest dealer ("Deal with invalid session ID" /
// two different bundles from one dealer). Delivered to a subset of the nodes, the nodes finish the epoch with
// different groups. Found while building C06 (before the harness drained the echo queues between epochs).

import (
	"context"
	"fmt"
	"os"
	"testing"
	"time"

	"github.com/drand/drand/v2/crypto"
	pdkg "github.com/drand/drand/v2/protobuf/dkg"
)

func TestVFX_StaleBundleReplay(t *testing.T) {
	sch := crypto.NewPedersenBLSChained()
	dir, _ := os.MkdirTemp("", "vfx-stale-")
	defer os.RemoveAll(dir)
	cfg := Config{Timeout: time.Minute, TimeBetweenDKGPhases: 2 * time.Second, KickoffGracePeriod: time.Second}
	nw := vfdNewNet(dir, "default", sch, cfg, 7)
	defer nw.closeAll()
	nw.keepBundles = true
	rng := vfNewRng(7)
	var nodes []*vfdNode
	for i := 0; i < 4; i++ {
		nd, err := nw.addNode(fmt.Sprintf("s%d.test:%d", i, 7000+i), rng, false)
		if err != nil {
			t.Fatal(err)
		}
		nodes = append(nodes, nd)
	}
	genesis := time.Now().Add(3 * time.Second)
	if err := nodes[0].cmdInitial(3, 1, 1, sch.Name, time.Now().Add(time.Minute), genesis, vfdParts(nodes)); err != nil {
		t.Fatal(err)
	}
	for _, nd := range nodes[1:] {
		if err := nd.cmdJoin(nil); err != nil {
			t.Fatal(err)
		}
	}
	if err := nodes[0].cmdExecute(); err != nil {
		t.Fatal(err)
	}
	t.Log("epoch 1:", vfdWaitOutcome(nodes, 1, 30*time.Second))
	nw.drain(10 * time.Second)
	// a deal bundle of epoch 1 (any participant of epoch 1 has seen all of them)
	nw.mu.Lock()
	var stale *pdkg.DKGPacket
	for _, b := range nw.bundles {
		if vfdBundleKind(b) == "deal" {
			stale = b
			break
		}
	}
	nw.mu.Unlock()
	if stale == nil {
		t.Fatal("no deal bundle recorded")
	}
	t.Logf("stale bundle: deal of dealer index %d of epoch 1", stale.GetDkg().GetDeal().GetDealerIndex())
	if err := nodes[1].cmdReshare(3, 1, time.Now().Add(time.Minute), nil, vfdParts(nodes), nil); err != nil {
		t.Fatal(err)
	}
	for _, nd := range nodes {
		if nd != nodes[1] {
			if err := nd.cmdAccept(); err != nil {
				t.Fatal(err)
			}
		}
	}
	if err := nodes[1].cmdExecute(); err != nil {
		t.Fatal(err)
	}
	// once the boards of epoch 2 are set up, the old bundle is delivered to two of the four nodes
	time.Sleep(300 * time.Millisecond)
	for _, nd := range nodes[:2] {
		_, err := nd.proc.BroadcastDKG(context.Background(), stale)
		t.Logf("stale deal delivered to %s: answer err=%v", nd.addr, err)
	}
	t.Log("epoch 2:", vfdWaitOutcome(nodes, 2, 40*time.Second))
	for _, nd := range nodes {
		fin, _ := nd.bolt.GetFinished("default")
		cur, _ := nd.bolt.GetCurrent("default")
		if fin != nil && fin.Epoch == 2 {
			t.Logf("%s: epoch 2 complete, group nodes %v hash %x", nd.addr, c06NodesDescShort(fin), fin.FinalGroup.Hash()[:6])
		} else {
			t.Logf("%s: epoch 2 NOT complete, current state %s", nd.addr, cur.State)
		}
	}
}

func c06NodesDescShort(st *DBState) []string {
	var out []string
	for _, n := range st.FinalGroup.Nodes {
		out = append(out, fmt.Sprintf("%d:%s", n.Index, n.Addr))
	}
	return out
}

// Reproduction aid (not part of any registered run): a first DKG with n=4, t=3 in which two nodes deal and then
// stop talking (their response bundles are lost, as after a crash): the two others "complete" the epoch with a
// group of 2 nodes and threshold 3, store it with SaveFinished, and can never read their dkg.db again
// (Group.FromTOML: "group file threshold greater than number of participants"): every later command fails.
func TestVFX_QualBelowThreshold(t *testing.T) {
	sch := crypto.NewPedersenBLSChained()
	dir, _ := os.MkdirTemp("", "vfx-qual-")
	defer os.RemoveAll(dir)
	cfg := Config{Timeout: time.Minute, TimeBetweenDKGPhases: time.Second, KickoffGracePeriod: time.Second}
	nw := vfdNewNet(dir, "default", sch, cfg, 9)
	defer nw.closeAll()
	rng := vfNewRng(9)
	var nodes []*vfdNode
	for i := 0; i < 4; i++ {
		nd, err := nw.addNode(fmt.Sprintf("q%d.test:%d", i, 7100+i), rng, false)
		if err != nil {
			t.Fatal(err)
		}
		nodes = append(nodes, nd)
	}
	nw.dropFrom = map[string]string{nodes[2].addr: "resp", nodes[3].addr: "resp"}
	if err := nodes[0].cmdInitial(3, 1, 1, sch.Name, time.Now().Add(time.Minute), time.Now().Add(5*time.Second), vfdParts(nodes)); err != nil {
		t.Fatal(err)
	}
	for _, nd := range nodes[1:] {
		if err := nd.cmdJoin(nil); err != nil {
			t.Fatal(err)
		}
	}
	if err := nodes[0].cmdExecute(); err != nil {
		t.Fatal(err)
	}
	time.Sleep(6 * time.Second)
	for _, nd := range nodes {
		cur, errC := nd.bolt.GetCurrent("default")
		_, errF := nd.bolt.GetFinished("default")
		st := "?"
		if cur != nil {
			st = cur.State.String()
		}
		t.Logf("%s: GetCurrent -> state %s err=%v ; GetFinished err=%v", nd.addr, st, errC, errF)
		if errC != nil {
			t.Logf("   next command on %s: %v", nd.addr, nd.cmdAbort())
		}
	}
}
