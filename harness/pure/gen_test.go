package chain_test

// Generators shared by the pure-engine checks (C17, C20): deterministic key material and groups.

import (
	"fmt"
	"time"

	"github.com/drand/kyber"
	"github.com/drand/kyber/share"
	"github.com/drand/kyber/share/dkg"
	"github.com/drand/kyber/util/random"

	"github.com/drand/drand/v2/common/key"
	"github.com/drand/drand/v2/crypto"
)

func vfSchemes() []*crypto.Scheme {
	var out []*crypto.Scheme
	for _, n := range crypto.ListSchemes() {
		s, err := crypto.SchemeFromName(n)
		if err != nil {
			panic(err)
		}
		out = append(out, s)
	}
	return out
}

func vfGenPair(rng *vfRng, sch *crypto.Scheme, addr string) *key.Pair {
	k := sch.KeyGroup.Scalar().Pick(random.New(rng))
	p := &key.Pair{Key: k, Public: &key.Identity{Key: sch.KeyGroup.Point().Mul(k, nil), Addr: addr, Scheme: sch}}
	if err := p.SelfSign(); err != nil {
		panic(err)
	}
	return p
}

type vfGroupOpts struct {
	N          int
	Thr        int
	WithPublic bool
	WithSeed   bool
	Transition bool
	CatchupZero bool
	ID         string
}

func vfGenPoint(rng *vfRng, sch *crypto.Scheme) kyber.Point {
	return sch.KeyGroup.Point().Mul(sch.KeyGroup.Scalar().Pick(random.New(rng)), nil)
}

// vfGenGroup builds a group the way a finished DKG would (sorted indices, whole-second period,
// non-zero genesis), with optional fields present/absent.
func vfGenGroup(rng *vfRng, sch *crypto.Scheme, o vfGroupOpts) (*key.Group, []*key.Pair, *share.PriPoly) {
	pairs := make([]*key.Pair, o.N)
	nodes := make([]*key.Node, o.N)
	idx := rng.Perm(o.N + 2)[:o.N] // indices need not be 0..n-1 after reshares
	// keep them sorted as the system does
	for i := 0; i < len(idx); i++ {
		for j := i + 1; j < len(idx); j++ {
			if idx[j] < idx[i] {
				idx[i], idx[j] = idx[j], idx[i]
			}
		}
	}
	for i := 0; i < o.N; i++ {
		pairs[i] = vfGenPair(rng, sch, fmt.Sprintf("127.0.0.1:%d", 20000+rng.Intn(30000)))
		nodes[i] = &key.Node{Identity: pairs[i].Public, Index: dkg.Index(idx[i])}
	}
	g := &key.Group{
		Threshold:     o.Thr,
		Period:        time.Duration(rng.Range(1, 3600)) * time.Second,
		Scheme:        sch,
		ID:            o.ID,
		CatchupPeriod: time.Duration(rng.Range(1, 60)) * time.Second,
		Nodes:         nodes,
		GenesisTime:   int64(1 + rng.U64()%(1<<32)),
	}
	if o.CatchupZero {
		g.CatchupPeriod = 0
	}
	var pri *share.PriPoly
	if o.WithPublic {
		pri = share.NewPriPoly(sch.KeyGroup, o.Thr, nil, random.New(rng))
		_, commits := pri.Commit(sch.KeyGroup.Point().Base()).Info()
		g.PublicKey = &key.DistPublic{Coefficients: commits}
	}
	if o.WithSeed {
		g.GenesisSeed = rng.Bytes(32)
	}
	if o.Transition {
		g.TransitionTime = g.GenesisTime + int64(rng.Range(1, 100000))*int64(g.Period/time.Second)
	}
	return g, pairs, pri
}

func vfCloneGroup(g *key.Group) *key.Group {
	c := *g
	c.Nodes = make([]*key.Node, len(g.Nodes))
	for i, n := range g.Nodes {
		id := *n.Identity
		id.Signature = append([]byte(nil), n.Identity.Signature...)
		c.Nodes[i] = &key.Node{Identity: &id, Index: n.Index}
	}
	if g.GenesisSeed != nil {
		c.GenesisSeed = append([]byte(nil), g.GenesisSeed...)
	}
	if g.PublicKey != nil {
		c.PublicKey = &key.DistPublic{Coefficients: append([]kyber.Point(nil), g.PublicKey.Coefficients...)}
	}
	return &c
}

func vfRandomOpts(rng *vfRng, ids []string) vfGroupOpts {
	n := rng.Range(1, 10)
	min := n/2 + 1
	return vfGroupOpts{N: n, Thr: rng.Range(min, n), WithPublic: true, WithSeed: rng.Chance(70),
		Transition: rng.Bool(), CatchupZero: rng.Chance(15), ID: ids[rng.Intn(len(ids))]}
}
