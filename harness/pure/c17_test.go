package chain_test

// C17 — chain hash and group hash commit to exactly the parameters they identify.

import (
	"bytes"
	"encoding/hex"
	"encoding/json"
	"fmt"
	"os"
	"path/filepath"
	"testing"
	"time"

	"github.com/drand/drand/v2/common"
	chaininfo "github.com/drand/drand/v2/common/chain"
	"github.com/drand/drand/v2/common/key"
	"github.com/drand/drand/v2/crypto"
	"github.com/drand/drand/v2/protobuf/drand"
)

type c17Ctx struct {
	run  *vfRun
	idx  int
	sch  *crypto.Scheme
	desc map[string]any
}

func (c *c17Ctx) viol(sig, detail string) {
	c.run.Violation("C17/"+sig, detail, map[string]any{"case_index": c.idx, "scheme": c.sch.Name, "group": c.desc})
}

func c17InfoClone(i *chaininfo.Info) *chaininfo.Info {
	c := *i
	c.GenesisSeed = append([]byte(nil), i.GenesisSeed...)
	return &c
}

func TestVF_C17(t *testing.T) {
	run := vfNewRun("C17", "pure")
	defer run.Finish()
	n := vfPick(120, 3000)
	schemes := vfSchemes()
	ids := []string{"", "default", "quicknet", "fastnet", "x", "evmnet-t"}
	tmp := t.TempDir()
	lo, hi := 0, n
	if ri, ok := vfReplayCase(); ok {
		lo, hi = ri, ri+1
	}
	for idx := lo; idx < hi; idx++ {
		rng := vfNewRng(vfCaseSeed(vfSeed(), "C17", idx))
		sch := schemes[idx%len(schemes)]
		o := vfRandomOpts(rng, ids)
		g, _, _ := vfGenGroup(rng, sch, o)
		c := &c17Ctx{run: run, idx: idx, sch: sch, desc: map[string]any{"n": o.N, "thr": o.Thr, "id": o.ID, "seed": o.WithSeed, "transition": o.Transition}}
		if idx < 3 {
			run.Sample(c.desc)
		}
		run.Eval(fmt.Sprintf("%s/%d/%d/%s/%v/%v/%d", sch.Name, o.N, o.Thr, o.ID, o.WithSeed, o.Transition, idx))

		// ---------------- chain hash: equal parameters ⇒ equal hash on every path
		info := chaininfo.NewChainInfo(g)
		h := info.Hash()
		run.Count("infos", 1)
		check := func(path string, other *chaininfo.Info, err error) {
			run.Count("encoding_paths", 1)
			if err != nil || other == nil {
				c.viol("chain-hash/path-fails/"+path, fmt.Sprintf("%s: %v", path, err))
				return
			}
			if !bytes.Equal(other.Hash(), h) {
				c.viol("chain-hash/differs-across-paths/"+path, fmt.Sprintf("%s: %x != %x", path, other.Hash(), h))
			}
		}
		p := info.ToProto(nil)
		if !bytes.Equal(p.Hash, h) {
			c.viol("chain-hash/proto-embedded-hash-differs", fmt.Sprintf("%x != %x", p.Hash, h))
		}
		i2, err := chaininfo.InfoFromProto(p)
		check("proto", i2, err)
		// the same paths with metadata supplied by the caller (as the daemon and the relays do): whatever the
		// metadata said before, the packet describes THIS info
		for _, md := range []*drand.Metadata{{}, {BeaconID: "default"}, {BeaconID: "some-other-beacon"}, {BeaconID: info.ID, ChainHash: []byte{1, 2, 3}}} {
			pm := info.ToProto(md)
			if !bytes.Equal(pm.Hash, h) {
				c.viol("chain-hash/proto-embedded-hash-differs", fmt.Sprintf("with caller metadata %q: %x != %x", md.GetBeaconID(), pm.Hash, h))
			}
			im, err := chaininfo.InfoFromProto(pm)
			check("proto-with-caller-metadata", im, err)
			var mb bytes.Buffer
			if err := info.ToJSON(&mb, &drand.Metadata{BeaconID: md.GetBeaconID()}); err == nil {
				ij, err := chaininfo.InfoFromJSON(&mb)
				check("hexjson-with-caller-metadata", ij, err)
			}
		}
		jb, err := json.Marshal(info)
		if err != nil {
			c.viol("chain-hash/path-fails/json-marshal", err.Error())
		} else {
			i3 := new(chaininfo.Info)
			err = json.Unmarshal(jb, i3)
			check("json-v2", i3, err)
		}
		var hb bytes.Buffer
		if err := info.ToJSON(&hb, nil); err != nil {
			c.viol("chain-hash/path-fails/hexjson-encode", err.Error())
		} else {
			i4, err := chaininfo.InfoFromJSON(&hb)
			check("hexjson", i4, err)
		}
		// group file path
		gf := filepath.Join(tmp, fmt.Sprintf("g%d.toml", idx))
		if err := key.Save(gf, g, false); err != nil {
			c.viol("chain-hash/path-fails/group-file-save", err.Error())
		} else {
			g2 := new(key.Group)
			if err := key.Load(gf, g2); err != nil {
				c.viol("chain-hash/path-fails/group-file-load", err.Error())
			} else {
				check("group-file", chaininfo.NewChainInfo(g2), nil)
				if !bytes.Equal(g2.Hash(), vfCloneGroup(g).Hash()) {
					c.viol("group-hash/differs-after-group-file-roundtrip", "")
				}
			}
			os.Remove(gf)
		}
		g3, err := key.GroupFromProto(g.ToProto(common.GetAppVersion()), nil)
		if err != nil {
			c.viol("chain-hash/path-fails/group-proto", err.Error())
		} else {
			check("group-proto", chaininfo.NewChainInfo(g3), nil)
			if !bytes.Equal(g3.Hash(), vfCloneGroup(g).Hash()) {
				c.viol("group-hash/differs-after-proto-roundtrip", "")
			}
		}

		// ---------------- chain hash: every single-field perturbation changes it
		pert := func(name string, f func(i *chaininfo.Info)) {
			run.Count("chain_hash_perturbations", 1)
			x := c17InfoClone(info)
			f(x)
			if bytes.Equal(x.Hash(), h) {
				c.viol("chain-hash/insensitive-to/"+name, fmt.Sprintf("changing %s left the chain hash unchanged", name))
			}
		}
		pert("period", func(i *chaininfo.Info) { i.Period += time.Duration(rng.Range(1, 1000)) * time.Second })
		pert("period-x256", func(i *chaininfo.Info) {
			if i.Period < 1<<23*time.Second {
				i.Period *= 256
			} else {
				i.Period++
			}
		})
		pert("genesis-time", func(i *chaininfo.Info) { i.GenesisTime += int64(rng.Range(1, 1000)) })
		pert("genesis-time-high-bits", func(i *chaininfo.Info) { i.GenesisTime += 1 << 32 })
		pert("public-key", func(i *chaininfo.Info) { i.PublicKey = vfGenPoint(rng, sch) })
		pert("seed-bitflip", func(i *chaininfo.Info) { i.GenesisSeed[rng.Intn(len(i.GenesisSeed))] ^= 1 << uint(rng.Intn(8)) })
		pert("seed-append", func(i *chaininfo.Info) { i.GenesisSeed = append(i.GenesisSeed, 0) })
		pert("seed-truncate", func(i *chaininfo.Info) { i.GenesisSeed = i.GenesisSeed[:len(i.GenesisSeed)-1] })
		pert("beacon-id", func(i *chaininfo.Info) {
			if common.IsDefaultBeaconID(i.ID) {
				i.ID = "other"
			} else {
				i.ID += "x"
			}
		})
		if !common.IsDefaultBeaconID(info.ID) {
			pert("beacon-id-to-default", func(i *chaininfo.Info) { i.ID = "" })
		} else {
			// "" and "default" name the same chain
			x := c17InfoClone(info)
			if x.ID == "" {
				x.ID = "default"
			} else {
				x.ID = ""
			}
			if !bytes.Equal(x.Hash(), h) {
				c.viol("chain-hash/default-id-spellings-differ", "")
			}
		}

		// ---------------- chain hash: membership changes do not change it (seed fixed, as after a DKG)
		gm := vfCloneGroup(g)
		gm.GenesisSeed = append([]byte(nil), info.GenesisSeed...)
		base := chaininfo.NewChainInfo(gm).Hash()
		member := func(name string, f func(x *key.Group)) {
			run.Count("membership_changes", 1)
			x := vfCloneGroup(gm)
			f(x)
			if !bytes.Equal(chaininfo.NewChainInfo(x).Hash(), base) {
				c.viol("chain-hash/changes-with-membership/"+name, "")
			}
		}
		member("add-node", func(x *key.Group) {
			np := vfGenPair(rng, sch, "127.0.0.1:9999")
			x.Nodes = append(x.Nodes, &key.Node{Identity: np.Public, Index: 99})
		})
		if len(gm.Nodes) > 1 {
			member("remove-node", func(x *key.Group) { x.Nodes = x.Nodes[1:] })
		}
		member("threshold", func(x *key.Group) { x.Threshold++ })
		member("transition-time", func(x *key.Group) { x.TransitionTime += 12345 })
		member("catchup", func(x *key.Group) { x.CatchupPeriod += time.Second })
		member("higher-coefficients", func(x *key.Group) {
			// a reshare keeps coefficient 0 (the public key) and replaces the others
			cs := x.PublicKey.Coefficients
			for k := 1; k < len(cs); k++ {
				cs[k] = vfGenPoint(rng, sch)
			}
		})

		// ---------------- embedded hash must match the fields (v2 JSON)
		if jb != nil {
			var m map[string]any
			_ = json.Unmarshal(jb, &m)
			tamper := func(name string, f func(m map[string]any)) {
				run.Count("json_tamperings", 1)
				cp := map[string]any{}
				for k, v := range m {
					cp[k] = v
				}
				f(cp)
				b, _ := json.Marshal(cp)
				out := new(chaininfo.Info)
				if err := json.Unmarshal(b, out); err == nil {
					c.viol("chain-info-json/mismatching-hash-accepted/"+name, string(b))
				}
			}
			tamper("chain_hash", func(m map[string]any) {
				hh, _ := hex.DecodeString(m["chain_hash"].(string))
				hh[rng.Intn(len(hh))] ^= 0x10
				m["chain_hash"] = hex.EncodeToString(hh)
			})
			// a hash of the right shape that belongs to other parameters, and malformed spellings of a hash:
			// none of them matches the fields, so all must be refused (only an absent/empty hash means "no hash given")
			other := c17InfoClone(info)
			other.GenesisTime++
			good := m["chain_hash"].(string)
			for name, v := range map[string]string{
				"chain_hash-of-other-info": other.HashString(),
				"chain_hash-0x-prefixed":   "0x" + other.HashString(),
				"chain_hash-non-hex":       "zz" + good[2:],
				"chain_hash-non-hex-tail":  good[:len(good)-2] + "zz",
				"chain_hash-truncated":     good[:len(good)-2],
				"chain_hash-extended":      good + "00",
				"chain_hash-other-spaced":  " " + other.HashString(),
				"chain_hash-garbage":       "not a hash",
				"chain_hash-odd-length":    good[:len(good)-1],
			} {
				v := v
				tamper(name, func(m map[string]any) { m["chain_hash"] = v })
			}
			tamper("period", func(m map[string]any) { m["period"] = uint64(info.Period/time.Second) + 1 })
			tamper("genesis_time", func(m map[string]any) { m["genesis_time"] = info.GenesisTime + 1 })
			tamper("genesis_seed", func(m map[string]any) {
				s, _ := hex.DecodeString(m["genesis_seed"].(string))
				s[0] ^= 1
				m["genesis_seed"] = hex.EncodeToString(s)
			})
			tamper("public_key", func(m map[string]any) {
				b, _ := vfGenPoint(rng, sch).MarshalBinary()
				m["public_key"] = hex.EncodeToString(b)
			})
			tamper("beacon_id", func(m map[string]any) { m["beacon_id"] = "tampered-" + fmt.Sprint(m["beacon_id"]) })
		}
		// protobuf path recomputes: the altered embedded hash must not be adopted
		{
			run.Count("proto_tamperings", 1)
			pp := info.ToProto(&drand.Metadata{})
			pp.Hash = append([]byte(nil), pp.Hash...)
			pp.Hash[0] ^= 0x80
			if out, err := chaininfo.InfoFromProto(pp); err == nil && bytes.Equal(out.Hash(), pp.Hash) {
				c.viol("chain-info-proto/altered-embedded-hash-adopted", "")
			}
		}

		// ---------------- group hash
		gh := vfCloneGroup(g).Hash()
		for k := 0; k < 5; k++ {
			run.Count("group_permutations", 1)
			x := vfCloneGroup(g)
			perm := rng.Perm(len(x.Nodes))
			nodes := make([]*key.Node, len(x.Nodes))
			for a, b := range perm {
				nodes[a] = x.Nodes[b]
			}
			x.Nodes = nodes
			if !bytes.Equal(x.Hash(), gh) {
				c.viol("group-hash/depends-on-node-order", fmt.Sprintf("perm %v", perm))
			}
		}
		gpert := func(name string, f func(x *key.Group)) {
			run.Count("group_hash_perturbations", 1)
			x := vfCloneGroup(g)
			f(x)
			if bytes.Equal(x.Hash(), gh) {
				c.viol("group-hash/insensitive-to/"+name, "")
			}
		}
		vi := rng.Intn(len(g.Nodes))
		gpert("member-key", func(x *key.Group) { x.Nodes[vi].Identity.Key = vfGenPoint(rng, sch) })
		gpert("member-index", func(x *key.Group) { x.Nodes[vi].Index += 50 })
		gpert("threshold", func(x *key.Group) { x.Threshold++ })
		gpert("genesis-time", func(x *key.Group) { x.GenesisTime++ })
		gpert("genesis-time-high-bits", func(x *key.Group) { x.GenesisTime += 1 << 32 })
		gpert("transition-time", func(x *key.Group) { x.TransitionTime += 1 + int64(rng.Intn(5000)) })
		gpert("public-coefficient", func(x *key.Group) {
			cs := x.PublicKey.Coefficients
			cs[rng.Intn(len(cs))] = vfGenPoint(rng, sch)
		})
		gpert("drop-public-key", func(x *key.Group) { x.PublicKey = nil })
		gpert("id", func(x *key.Group) {
			if common.IsDefaultBeaconID(x.ID) {
				x.ID = "other"
			} else {
				x.ID += "x"
			}
		})
		if len(g.Nodes) > 1 {
			gpert("remove-member", func(x *key.Group) { x.Nodes = x.Nodes[:len(x.Nodes)-1] })
			gpert("swap-two-member-indices", func(x *key.Group) {
				x.Nodes[0].Index, x.Nodes[1].Index = x.Nodes[1].Index, x.Nodes[0].Index
			})
		}
	}
	run.Note("groups of 1..10 nodes over the 5 schemes with optional seed / transition time / non-default id; per group: 6 encoding paths, ~10 chain-hash perturbations, 6 membership changes, 6 JSON tamperings, 5 node permutations, ~11 group-hash perturbations")
}
