package chain_test

// C18 — every storage back-end answers as one sorted round→beacon map.
// Real stores (bolt trimmed / bolt untrimmed / memdb ring) are driven with generated
// operation sequences; every answer is compared with a reference map.

import (
	"bytes"
	"context"
	"errors"
	"fmt"
	"io"
	"os"
	"path/filepath"
	"sort"
	"strings"
	"sync"
	"sync/atomic"
	"testing"
	"time"

	"github.com/anishathalye/porcupine"
	"go.uber.org/zap/zapcore"

	"github.com/drand/drand/v2/common"
	"github.com/drand/drand/v2/common/log"
	"github.com/drand/drand/v2/internal/chain"
	"github.com/drand/drand/v2/internal/chain/boltdb"
	chainerrors "github.com/drand/drand/v2/internal/chain/errors"
	"github.com/drand/drand/v2/internal/chain/memdb"
)

func vfQuietLogger() log.Logger {
	return log.New(zapcore.AddSync(io.Discard), int(zapcore.FatalLevel), true)
}

func vfScratchDir(t *testing.T, name string) string {
	base := os.TempDir()
	if st, err := os.Stat("/dev/shm"); err == nil && st.IsDir() {
		base = "/dev/shm"
	}
	d, err := os.MkdirTemp(base, "vf-"+name+"-")
	if err != nil {
		t.Fatal(err)
	}
	t.Cleanup(func() { os.RemoveAll(d) })
	return d
}

// ---------------------------------------------------------------- back-ends

type c18Backend struct {
	Kind    string // bolt-trimmed | bolt-untrimmed | memdb
	Chained bool
	Cap     int // memdb only
}

func (b c18Backend) String() string {
	s := b.Kind
	if b.Kind == "memdb" {
		s += fmt.Sprintf("-%d", b.Cap)
	}
	if b.Chained {
		s += "/chained"
	} else {
		s += "/unchained"
	}
	return s
}

func (b c18Backend) sigTag() string {
	s := b.Kind
	if b.Kind == "bolt-trimmed" {
		if b.Chained {
			s += "-chained"
		} else {
			s += "-unchained"
		}
	}
	return s
}

func c18Open(t *testing.T, b c18Backend, dir string) chain.Store {
	ctx := context.Background()
	if b.Chained {
		ctx = chain.SetPreviousRequiredOnContext(ctx)
	}
	switch b.Kind {
	case "memdb":
		return memdb.NewStore(b.Cap)
	case "bolt-untrimmed":
		ctx = boltdb.IsATest(ctx)
	}
	s, err := boltdb.NewBoltStore(ctx, vfQuietLogger(), dir)
	if err != nil {
		t.Fatalf("open %s: %v", b, err)
	}
	return s
}

// ---------------------------------------------------------------- reference map

type c18Ref struct {
	b c18Backend
	m map[uint64]*common.Beacon // as put
}

func newC18Ref(b c18Backend) *c18Ref { return &c18Ref{b: b, m: map[uint64]*common.Beacon{}} }

func (r *c18Ref) keys() []uint64 {
	ks := make([]uint64, 0, len(r.m))
	for k := range r.m {
		ks = append(ks, k)
	}
	sort.Slice(ks, func(i, j int) bool { return ks[i] < ks[j] })
	return ks
}

func (r *c18Ref) put(b *common.Beacon) {
	cp := &common.Beacon{Round: b.Round, Signature: append([]byte{}, b.Signature...), PreviousSig: append([]byte{}, b.PreviousSig...)}
	if r.b.Kind == "memdb" {
		if _, ok := r.m[b.Round]; ok {
			return // ring keeps the old value
		}
		r.m[b.Round] = cp
		ks := r.keys()
		for len(ks) > r.b.Cap { // forgets the oldest rounds beyond capacity
			delete(r.m, ks[0])
			ks = ks[1:]
		}
		return
	}
	r.m[b.Round] = cp
}

func (r *c18Ref) del(round uint64) { delete(r.m, round) }

// view: what a read that lands on stored round k must return. readable=false: the read must fail
// (reconstructed previous signature unavailable).
func (r *c18Ref) view(k uint64) (want *common.Beacon, readable bool) {
	st := r.m[k]
	w := &common.Beacon{Round: k, Signature: st.Signature}
	switch r.b.Kind {
	case "bolt-trimmed":
		if r.b.Chained && k > 0 {
			p, ok := r.m[k-1]
			if !ok {
				return nil, false
			}
			w.PreviousSig = p.Signature
		}
	default:
		w.PreviousSig = st.PreviousSig
	}
	return w, true
}

func (r *c18Ref) ceil(k uint64) (uint64, bool) {
	for _, x := range r.keys() {
		if x >= k {
			return x, true
		}
	}
	return 0, false
}

func (r *c18Ref) after(k uint64) (uint64, bool) {
	for _, x := range r.keys() {
		if x > k {
			return x, true
		}
	}
	return 0, false
}

// ---------------------------------------------------------------- operations

type c18Op struct {
	Op string `json:"op"` // put get last del len scan seek clast
	R  uint64 `json:"r,omitempty"`
	V  int    `json:"v,omitempty"` // value variant for put
	N  int    `json:"n,omitempty"` // number of Next() after seek
}

func (o c18Op) String() string {
	switch o.Op {
	case "put":
		return fmt.Sprintf("put(%d,v%d)", o.R, o.V)
	case "get", "del":
		return fmt.Sprintf("%s(%d)", o.Op, o.R)
	case "seek":
		return fmt.Sprintf("seek(%d)+%dnext", o.R, o.N)
	case "cmulti":
		return fmt.Sprintf("one-cursor[%s seek-target %d]", strings.Join(c18Moves(o.N), ","), o.R)
	}
	return o.Op
}

func c18Beacon(round uint64, variant int) *common.Beacon {
	sig := []byte(fmt.Sprintf("sig-%d-v%d", round, variant))
	prev := []byte(fmt.Sprintf("prev-%d-v%d", round, variant))
	if variant == 2 {
		prev = nil // as round 0 of a chained chain, or any beacon of an unchained one
	}
	return &common.Beacon{Round: round, Signature: sig, PreviousSig: prev}
}

type c18Checker struct {
	run   *vfRun
	b     c18Backend
	store chain.Store
	ref   *c18Ref
	trace []string
	bad   bool
	idx   int
}

func (c *c18Checker) fail(what, detail string) {
	c.bad = true
	sig := "C18/" + what + "/" + c.b.sigTag()
	c.run.Violation(sig, fmt.Sprintf("%s: %s | history: %s", c.b, detail, strings.Join(c.trace, " ")),
		map[string]any{"case_index": c.idx, "backend": c.b.String(), "history": append([]string{}, c.trace...)})
}

func bstr(b *common.Beacon) string {
	if b == nil {
		return "nil"
	}
	return fmt.Sprintf("{r=%d sig=%q prev=%q}", b.Round, b.Signature, b.PreviousSig)
}

// expectAt: the read landed (by the store's contract) on stored round k.
func (c *c18Checker) expectAt(op string, k uint64, got *common.Beacon, err error) {
	want, readable := c.ref.view(k)
	if !readable {
		if err == nil && got != nil {
			// the preceding round is absent: the statement allows only a failing read here
			c.fail("read-succeeds-without-preceding-round/"+op, fmt.Sprintf("%s: round %d read back as %s while round %d is absent", op, k, bstr(got), k-1))
		}
		return
	}
	if err != nil || got == nil {
		c.fail("stored-round-not-returned/"+op, fmt.Sprintf("%s must return round %d (%s), got err=%v", op, k, bstr(want), err))
		return
	}
	if got.Round != k {
		if st, ok := c.ref.m[got.Round]; ok && bytes.Equal(st.Signature, got.Signature) {
			c.fail("wrong-round-returned/"+op, fmt.Sprintf("%s must return round %d, got %s", op, k, bstr(got)))
		} else {
			c.fail("mislabelled/"+op, fmt.Sprintf("%s must return round %d %s, got %s", op, k, bstr(want), bstr(got)))
		}
		return
	}
	if !bytes.Equal(got.Signature, want.Signature) {
		c.fail("wrong-data/"+op, fmt.Sprintf("%s round %d: want %s got %s", op, k, bstr(want), bstr(got)))
		return
	}
	if !bytes.Equal(got.PreviousSig, want.PreviousSig) {
		c.fail("wrong-previous/"+op, fmt.Sprintf("%s round %d: want %s got %s", op, k, bstr(want), bstr(got)))
	}
}

func (c *c18Checker) expectNone(op string, got *common.Beacon, err error) {
	if err == nil && got != nil {
		c.fail("phantom/"+op, fmt.Sprintf("%s must find nothing, got %s", op, bstr(got)))
	}
}

// labelled: whatever was returned must be a stored round carrying that round's data.
func (c *c18Checker) expectLabelled(op string, got *common.Beacon, err error) {
	if err != nil || got == nil {
		return
	}
	st, ok := c.ref.m[got.Round]
	if !ok || !bytes.Equal(st.Signature, got.Signature) {
		c.fail("mislabelled/"+op, fmt.Sprintf("%s returned %s which is not the stored beacon of round %d (stored rounds %v)", op, bstr(got), got.Round, c.ref.keys()))
		return
	}
	want, readable := c.ref.view(got.Round)
	if !readable {
		// (trimmed chained store: the previous signature is rebuilt from the preceding round, which is absent)
		c.fail("read-succeeds-without-preceding-round/"+op, fmt.Sprintf("%s: round %d read back as %s while round %d is absent", op, got.Round, bstr(got), got.Round-1))
		return
	}
	if readable && !bytes.Equal(got.PreviousSig, want.PreviousSig) {
		c.fail("wrong-previous/"+op, fmt.Sprintf("%s round %d: want %s got %s", op, got.Round, bstr(want), bstr(got)))
	}
}

func (c *c18Checker) apply(o c18Op) {
	ctx := context.Background()
	c.trace = append(c.trace, o.String())
	c.run.Count("ops."+o.Op, 1)
	switch o.Op {
	case "put":
		b := c18Beacon(o.R, o.V)
		if err := c.store.Put(ctx, b); err != nil {
			c.fail("put-failed", fmt.Sprintf("put(%d): %v", o.R, err))
			return
		}
		c.ref.put(c18Beacon(o.R, o.V))
	case "del":
		if err := c.store.Del(ctx, o.R); err != nil {
			c.fail("del-failed", fmt.Sprintf("del(%d): %v", o.R, err))
			return
		}
		c.ref.del(o.R)
	case "get":
		got, err := c.store.Get(ctx, o.R)
		if _, ok := c.ref.m[o.R]; ok {
			c.expectAt("get", o.R, got, err)
		} else {
			c.expectNone("get", got, err)
		}
	case "last":
		got, err := c.store.Last(ctx)
		ks := c.ref.keys()
		if len(ks) == 0 {
			c.expectNone("last", got, err)
		} else {
			c.expectAt("last", ks[len(ks)-1], got, err)
		}
	case "len":
		n, err := c.store.Len(ctx)
		if err != nil || n != len(c.ref.m) {
			c.fail("wrong-len", fmt.Sprintf("len=%d err=%v want %d", n, err, len(c.ref.m)))
		}
	case "scan":
		ks := c.ref.keys()
		var out []*common.Beacon
		var errs []error
		_ = c.store.Cursor(ctx, func(ctx context.Context, cur chain.Cursor) error {
			b, err := cur.First(ctx)
			out, errs = append(out, b), append(errs, err)
			for i := 0; i < len(ks)+1; i++ {
				b, err = cur.Next(ctx)
				out, errs = append(out, b), append(errs, err)
			}
			return nil
		})
		// position i of the output must be key i (or an admissible failure for an unreadable one), then none
		for i := range out {
			op := "cursor-next"
			if i == 0 {
				op = "cursor-first"
			}
			if i < len(ks) {
				c.expectAt(op, ks[i], out[i], errs[i])
			} else {
				c.expectNone(op, out[i], errs[i])
			}
		}
	case "clast":
		ks := c.ref.keys()
		_ = c.store.Cursor(ctx, func(ctx context.Context, cur chain.Cursor) error {
			b, err := cur.Last(ctx)
			if len(ks) == 0 {
				c.expectNone("cursor-last", b, err)
				return nil
			}
			c.expectAt("cursor-last", ks[len(ks)-1], b, err)
			b, err = cur.Next(ctx)
			c.expectNone("cursor-next-after-last", b, err)
			return nil
		})
	case "cmulti":
		// several moves of ONE cursor: every answer must be the stored beacon of the position reached, whatever the
		// cursor returned before
		_ = c.store.Cursor(ctx, func(ctx context.Context, cur chain.Cursor) error {
			pos, positioned := uint64(0), false
			for _, mv := range c18Moves(o.N) {
				ks := c.ref.keys()
				switch mv {
				case "first":
					b, err := cur.First(ctx)
					if len(ks) == 0 {
						c.expectNone("cursor-first", b, err)
						return nil
					}
					c.expectAt("cursor-first/moved-cursor", ks[0], b, err)
					pos, positioned = ks[0], true
				case "last":
					b, err := cur.Last(ctx)
					if len(ks) == 0 {
						c.expectNone("cursor-last", b, err)
						return nil
					}
					c.expectAt("cursor-last/moved-cursor", ks[len(ks)-1], b, err)
					pos, positioned = ks[len(ks)-1], true
				case "seek":
					b, err := cur.Seek(ctx, o.R)
					if _, ok := c.ref.m[o.R]; ok {
						c.expectAt("cursor-seek-stored/moved-cursor", o.R, b, err)
						pos, positioned = o.R, true
					} else {
						c.expectLabelled("cursor-seek-absent", b, err)
						k, ok := c.ref.ceil(o.R)
						if c.b.Kind == "memdb" || !ok {
							return nil // position undefined from here on
						}
						pos, positioned = k, true
					}
				case "next":
					if !positioned {
						return nil
					}
					b, err := cur.Next(ctx)
					k, ok := c.ref.after(pos)
					if !ok {
						c.expectNone("cursor-next", b, err)
						return nil
					}
					c.expectAt("cursor-next/moved-cursor", k, b, err)
					pos = k
				}
				if c.bad {
					return nil
				}
			}
			return nil
		})
	case "seek":
		_ = c.store.Cursor(ctx, func(ctx context.Context, cur chain.Cursor) error {
			b, err := cur.Seek(ctx, o.R)
			pos, positioned := uint64(0), false
			if _, ok := c.ref.m[o.R]; ok {
				c.expectAt("cursor-seek-stored", o.R, b, err)
				pos, positioned = o.R, true
			} else {
				// the statement fixes only that whatever comes back is correctly labelled
				c.run.Count("seek_absent", 1)
				c.expectLabelled("cursor-seek-absent", b, err)
				if err == nil && b != nil {
					c.run.Count("seek_absent_answered", 1)
				}
				if c.b.Kind != "memdb" {
					// bolt cursors land on the next greater key; continue from there
					if k, ok := c.ref.ceil(o.R); ok {
						pos, positioned = k, true
					}
				}
			}
			for i := 0; positioned && i < o.N; i++ {
				b, err = cur.Next(ctx)
				k, ok := c.ref.after(pos)
				if !ok {
					c.expectNone("cursor-next", b, err)
					break
				}
				c.expectAt("cursor-next", k, b, err)
				pos = k
			}
			return nil
		})
	}
}

// c18Moves: the move sequence number n of a multi-move cursor operation.
func c18Moves(n int) []string {
	seqs := [][]string{
		{"last", "first", "next"},
		{"seek", "first", "next"},
		{"last", "seek", "next"},
		{"first", "last", "first"},
		{"seek", "last", "first", "next", "next"},
		{"first", "next", "first"},
	}
	if n < 0 {
		n = -n
	}
	return seqs[n%len(seqs)]
}

func c18Alphabet(maxRound uint64) []c18Op {
	var ops []c18Op
	for r := uint64(0); r <= maxRound; r++ {
		ops = append(ops, c18Op{Op: "put", R: r, V: 1}, c18Op{Op: "put", R: r, V: 2}, c18Op{Op: "get", R: r}, c18Op{Op: "del", R: r})
	}
	for r := uint64(0); r <= maxRound+1; r++ {
		ops = append(ops, c18Op{Op: "seek", R: r, N: 2})
	}
	ops = append(ops, c18Op{Op: "last"}, c18Op{Op: "len"}, c18Op{Op: "scan"}, c18Op{Op: "clast"},
		c18Op{Op: "cmulti", N: 0}, c18Op{Op: "cmulti", N: 1, R: 2}, c18Op{Op: "cmulti", N: 2, R: 1})
	return ops
}

func c18Backends() []c18Backend {
	return []c18Backend{
		{Kind: "bolt-trimmed", Chained: true}, {Kind: "bolt-trimmed", Chained: false},
		{Kind: "bolt-untrimmed", Chained: true},
		{Kind: "memdb", Cap: 10}, {Kind: "memdb", Cap: 16},
	}
}

// c18Reset empties a store (so that thousands of short histories can share one open database).
func c18Reset(t *testing.T, s chain.Store, maxRound uint64) {
	for r := uint64(0); r <= maxRound; r++ {
		if err := s.Del(context.Background(), r); err != nil {
			t.Fatal(err)
		}
	}
}

func TestVF_C18_Exhaustive(t *testing.T) {
	run := vfNewRun("C18", "pure-exhaustive")
	defer run.Finish()
	maxRound := uint64(3)
	alpha := c18Alphabet(maxRound)
	depth := vfPick(3, 4)
	run.Note(fmt.Sprintf("exhaustive: every operation sequence of length 1..%d over an alphabet of %d operations on rounds 0..%d, per back-end; stores re-opened every 2000 histories", depth, len(alpha), maxRound))
	var wg sync.WaitGroup
	for _, be := range c18Backends() {
		if be.Kind == "memdb" && be.Cap != 10 {
			continue
		}
		// split the first operation over workers
		for w := 0; w < len(alpha); w++ {
			wg.Add(1)
			go func(be c18Backend, first int) {
				defer wg.Done()
				dir := vfScratchDir(t, "c18x")
				store := c18Open(t, be, dir)
				count := 0
				seq := make([]int, 0, depth)
				var rec func()
				runSeq := func() {
					count++
					if count%2000 == 0 && be.Kind != "memdb" {
						store.Close()
						store = c18Open(t, be, dir)
					}
					c18Reset(t, store, maxRound+1)
					ck := &c18Checker{run: run, b: be, store: store, ref: newC18Ref(be)}
					for _, i := range seq {
						ck.apply(alpha[i])
					}
					key := be.String() + ":" + strings.Join(ck.trace, ",")
					run.Eval(key)
				}
				rec = func() {
					if len(seq) > 0 {
						runSeq()
					}
					if len(seq) == depth {
						return
					}
					for i := range alpha {
						if len(seq) == 0 && i != first {
							continue
						}
						seq = append(seq, i)
						rec()
						seq = seq[:len(seq)-1]
					}
				}
				rec()
				store.Close()
			}(be, w)
		}
	}
	wg.Wait()
	run.Sample(map[string]any{"backend": "bolt-trimmed/chained", "history": []string{"put(2,v1)", "put(3,v2)", "seek(1)+2next", "del(2)"}})
}

func TestVF_C18_Random(t *testing.T) {
	run := vfNewRun("C18", "pure-random")
	defer run.Finish()
	n := vfPick(60, 600)
	type job struct {
		idx int
		be  c18Backend
	}
	jobs := make(chan job)
	var wg sync.WaitGroup
	for w := 0; w < 16; w++ {
		wg.Add(1)
		go func() {
			defer wg.Done()
			for j := range jobs {
				rng := vfNewRng(vfCaseSeed(vfSeed(), "C18r", j.idx))
				dir := vfScratchDir(t, "c18r")
				store := c18Open(t, j.be, dir)
				ck := &c18Checker{run: run, b: j.be, store: store, ref: newC18Ref(j.be), idx: j.idx}
				length := rng.Range(50, 400)
				span := uint64(rng.Range(6, 40))
				contiguousBias := rng.Chance(50)
				next := uint64(0)
				for i := 0; i < length && !ck.bad; i++ {
					var o c18Op
					r := rng.U64() % span
					switch x := rng.Intn(100); {
					case x < 35:
						if contiguousBias && rng.Chance(70) {
							r = next
							next++
						}
						o = c18Op{Op: "put", R: r, V: rng.Range(1, 3)}
					case x < 50:
						o = c18Op{Op: "get", R: r}
					case x < 58:
						o = c18Op{Op: "del", R: r}
					case x < 66:
						o = c18Op{Op: "last"}
					case x < 72:
						o = c18Op{Op: "len"}
					case x < 80:
						o = c18Op{Op: "scan"}
					case x < 90:
						o = c18Op{Op: "seek", R: r, N: rng.Range(0, 5)}
					case x < 96:
						o = c18Op{Op: "cmulti", R: r, N: rng.Intn(6)}
					default:
						o = c18Op{Op: "clast"}
					}
					ck.apply(o)
					if j.be.Kind != "memdb" && rng.Chance(2) {
						store.Close()
						store = c18Open(t, j.be, dir)
						ck.store = store
						ck.trace = append(ck.trace, "reopen")
					}
				}
				store.Close()
				run.Eval(fmt.Sprintf("%s#%d", j.be, j.idx))
				if j.idx < 2 {
					tr := ck.trace
					if len(tr) > 25 {
						tr = tr[:25]
					}
					run.Sample(map[string]any{"backend": j.be.String(), "length": length, "history_prefix": tr})
				}
			}
		}()
	}
	idx := 0
	if ri, ok := vfReplayCase(); ok {
		bes := c18Backends()
		jobs <- job{ri, bes[ri%len(bes)]}
	} else {
		for i := 0; i < n; i++ {
			for _, be := range c18Backends() {
				jobs <- job{idx, be}
				idx++
			}
		}
	}
	close(jobs)
	wg.Wait()
}

// ---------------------------------------------------------------- memdb: mutation between cursor steps

// Between two cursor steps of the in-memory ring the store may be modified (its cursor is a live
// index). The statement then still demands that whatever a step returns is a stored round with its
// own data; ordering is only demanded between steps with no modification in between.
func TestVF_C18_MemdbLiveCursor(t *testing.T) {
	run := vfNewRun("C18", "pure-memdb-live-cursor")
	defer run.Finish()
	n := vfPick(300, 3000)
	for i := 0; i < n; i++ {
		rng := vfNewRng(vfCaseSeed(vfSeed(), "C18m", i))
		be := c18Backend{Kind: "memdb", Cap: []int{10, 16}[rng.Intn(2)]}
		store := memdb.NewStore(be.Cap)
		ck := &c18Checker{run: run, b: be, store: store, ref: newC18Ref(be), idx: i}
		head := uint64(0)
		for r := 0; r < rng.Range(3, 25); r++ {
			head++
			ck.apply(c18Op{Op: "put", R: head, V: 1})
		}
		ctx := context.Background()
		_ = store.Cursor(ctx, func(ctx context.Context, cur chain.Cursor) error {
			ks := ck.ref.keys()
			start := ks[rng.Intn(len(ks))]
			b, err := cur.Seek(ctx, start)
			ck.trace = append(ck.trace, fmt.Sprintf("seek(%d)", start))
			ck.expectAt("cursor-seek-stored", start, b, err)
			lastRound, modified := start, false
			for s := 0; s < rng.Range(3, 30); s++ {
				switch x := rng.Intn(10); {
				case x < 3:
					head++
					ck.apply(c18Op{Op: "put", R: head, V: 1})
					modified = true
				case x < 4:
					ks := ck.ref.keys()
					ck.apply(c18Op{Op: "del", R: ks[rng.Intn(len(ks))]})
					modified = true
				default:
					b, err := cur.Next(ctx)
					ck.trace = append(ck.trace, "next")
					run.Count("live_next", 1)
					if modified {
						run.Count("live_next_after_modification", 1)
						ck.expectLabelled("cursor-next-live", b, err)
					} else if k, ok := ck.ref.after(lastRound); ok {
						ck.expectAt("cursor-next", k, b, err)
					} else {
						ck.expectNone("cursor-next", b, err)
					}
					if err == nil && b != nil {
						lastRound = b.Round
						modified = false
					} else if err != nil && !errors.Is(err, chainerrors.ErrNoBeaconStored) {
						ck.fail("cursor-error", err.Error())
					}
				}
				if len(ck.ref.m) == 0 {
					break
				}
			}
			return nil
		})
		run.Eval(fmt.Sprintf("m#%d", i))
	}
}

// ---------------------------------------------------------------- concurrent variant (porcupine)

type c18In struct {
	Op string // put get del
	R  uint64
	V  int
}
type c18Out struct {
	Found bool
	Sig   string
}

func c18Model(ring bool) porcupine.Model {
	return porcupine.Model{
		Partition: func(h []porcupine.Operation) [][]porcupine.Operation {
			m := map[uint64][]porcupine.Operation{}
			for _, o := range h {
				r := o.Input.(c18In).R
				m[r] = append(m[r], o)
			}
			var out [][]porcupine.Operation
			for _, v := range m {
				out = append(out, v)
			}
			return out
		},
		Init: func() any { return "" },
		Step: func(st, in, out any) (bool, any) {
			s, i, o := st.(string), in.(c18In), out.(c18Out)
			switch i.Op {
			case "put":
				v := string(c18Beacon(i.R, i.V).Signature)
				if ring && s != "" {
					return true, s
				}
				return true, v
			case "del":
				return true, ""
			default:
				if s == "" {
					return !o.Found, s
				}
				return o.Found && o.Sig == s, s
			}
		},
		DescribeOperation: func(in, out any) string { return fmt.Sprintf("%+v -> %+v", in, out) },
	}
}

func TestVF_C18_Concurrent(t *testing.T) {
	run := vfNewRun("C18", "pure-porcupine")
	defer run.Finish()
	n := vfPick(12, 120)
	bes := []c18Backend{{Kind: "bolt-trimmed"}, {Kind: "bolt-untrimmed"}, {Kind: "memdb", Cap: 16}}
	for i := 0; i < n; i++ {
		be := bes[i%len(bes)]
		rng := vfNewRng(vfCaseSeed(vfSeed(), "C18c", i))
		dir := vfScratchDir(t, "c18c")
		store := c18Open(t, be, dir)
		var clock int64
		var mu sync.Mutex
		var hist []porcupine.Operation
		var wg sync.WaitGroup
		clients := rng.Range(2, 5)
		for c := 0; c < clients; c++ {
			seed := rng.U64()
			wg.Add(1)
			go func(c int) {
				defer wg.Done()
				r := vfNewRng(seed)
				for k := 0; k < 12; k++ {
					in := c18In{Op: []string{"put", "put", "get", "get", "del"}[r.Intn(5)], R: uint64(r.Intn(4)), V: r.Range(1, 3)}
					var out c18Out
					t0 := atomic.AddInt64(&clock, 1)
					switch in.Op {
					case "put":
						_ = store.Put(context.Background(), c18Beacon(in.R, in.V))
					case "del":
						_ = store.Del(context.Background(), in.R)
					default:
						b, err := store.Get(context.Background(), in.R)
						if err == nil && b != nil {
							out = c18Out{Found: true, Sig: string(b.Signature)}
							if b.Round != in.R {
								run.Violation("C18/mislabelled/get-concurrent/"+be.sigTag(), fmt.Sprintf("get(%d) returned round %d", in.R, b.Round), map[string]any{"case_index": i})
							}
						}
					}
					t1 := atomic.AddInt64(&clock, 1)
					mu.Lock()
					hist = append(hist, porcupine.Operation{ClientId: c, Input: in, Output: out, Call: t0, Return: t1})
					mu.Unlock()
				}
			}(c)
		}
		wg.Wait()
		store.Close()
		res, _ := porcupine.CheckOperationsVerbose(c18Model(be.Kind == "memdb"), hist, 60*time.Second)
		run.Count("porcupine_ops", int64(len(hist)))
		switch res {
		case porcupine.Ok:
			run.Eval(fmt.Sprintf("c#%d/%s/%d", i, be, clients))
		case porcupine.Unknown:
			run.Inconclusive("porcupine timeout")
		default:
			run.Eval(fmt.Sprintf("c#%d", i))
			var hs []string
			for _, o := range hist {
				hs = append(hs, fmt.Sprintf("c%d[%d,%d] %+v->%+v", o.ClientId, o.Call, o.Return, o.Input, o.Output))
			}
			run.Violation("C18/not-linearizable/get-put-del/"+be.sigTag(), "history not linearizable against a per-round register", map[string]any{"case_index": i, "history": hs})
		}
		if i == 0 {
			run.Sample(map[string]any{"backend": be.String(), "clients": clients, "ops": len(hist)})
		}
	}
	_ = filepath.Join
}

// c18OpenNoT opens a back-end without a testing.T (nil on error).
func c18OpenNoT(b c18Backend, dir string) chain.Store {
	ctx := context.Background()
	if b.Chained {
		ctx = chain.SetPreviousRequiredOnContext(ctx)
	}
	switch b.Kind {
	case "memdb":
		return memdb.NewStore(b.Cap)
	case "bolt-untrimmed":
		ctx = boltdb.IsATest(ctx)
	}
	s, err := boltdb.NewBoltStore(ctx, vfQuietLogger(), dir)
	if err != nil {
		return nil
	}
	return s
}
