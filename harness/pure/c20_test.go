package chain_test

// C20 (pure part) — persisted and transmitted state round-trips without loss; out-of-range group
// encodings are rejected.

import (
	"bytes"
	"context"
	"encoding/json"
	"fmt"
	"os"
	"path/filepath"
	"testing"
	"time"

	"github.com/BurntSushi/toml"
	"github.com/drand/kyber/share"
	"github.com/drand/kyber/share/dkg"
	"google.golang.org/protobuf/proto"

	"github.com/drand/drand/v2/common"
	chaininfo "github.com/drand/drand/v2/common/chain"
	"github.com/drand/drand/v2/common/key"
	"github.com/drand/drand/v2/crypto"
	"github.com/drand/drand/v2/protobuf/drand"
)

type c20Ctx struct {
	run *vfRun
	idx int
	sch string
}

func (c *c20Ctx) viol(sig, detail string) {
	c.run.Violation("C20/"+sig, detail, map[string]any{"case_index": c.idx, "scheme": c.sch})
}

// c20GroupDiff lists the fields in which two groups differ (the type's own Equal ignores some).
func c20GroupDiff(a, b *key.Group) []string {
	var d []string
	add := func(f string, ok bool) {
		if !ok {
			d = append(d, f)
		}
	}
	add("threshold", a.Threshold == b.Threshold)
	add("period", a.Period == b.Period)
	add("catchup-period", a.CatchupPeriod == b.CatchupPeriod)
	add("scheme", a.Scheme != nil && b.Scheme != nil && a.Scheme.Name == b.Scheme.Name)
	add("id", common.CompareBeaconIDs(a.ID, b.ID))
	add("genesis-time", a.GenesisTime == b.GenesisTime)
	add("genesis-seed", bytes.Equal(a.GenesisSeed, b.GenesisSeed))
	add("transition-time", a.TransitionTime == b.TransitionTime)
	add("node-count", len(a.Nodes) == len(b.Nodes))
	if len(a.Nodes) == len(b.Nodes) {
		for i := range a.Nodes {
			x, y := a.Nodes[i], b.Nodes[i]
			add(fmt.Sprintf("node-index"), x.Index == y.Index)
			add(fmt.Sprintf("node-address"), x.Addr == y.Addr)
			add(fmt.Sprintf("node-key"), x.Key.Equal(y.Key))
			add(fmt.Sprintf("node-signature"), bytes.Equal(x.Signature, y.Signature))
			add(fmt.Sprintf("node-scheme"), x.Scheme != nil && y.Scheme != nil && x.Scheme.Name == y.Scheme.Name)
		}
	}
	add("public-key-presence", (a.PublicKey == nil) == (b.PublicKey == nil))
	if a.PublicKey != nil && b.PublicKey != nil {
		add("public-key", a.PublicKey.Equal(b.PublicKey))
	}
	return d
}

func c20TomlBytes(v any) []byte {
	var b bytes.Buffer
	_ = toml.NewEncoder(&b).Encode(v)
	return b.Bytes()
}

func TestVF_C20_Values(t *testing.T) {
	run := vfNewRun("C20", "pure")
	defer run.Finish()
	n := vfPick(100, 2500)
	schemes := vfSchemes()
	ids := []string{"", "default", "quicknet", "x", "evmnet-t"}
	tmp := t.TempDir()
	lo, hi := 0, n
	if ri, ok := vfReplayCase(); ok {
		lo, hi = ri, ri+1
	}
	for idx := lo; idx < hi; idx++ {
		rng := vfNewRng(vfCaseSeed(vfSeed(), "C20", idx))
		sch := schemes[idx%len(schemes)]
		o := vfRandomOpts(rng, ids)
		o.WithPublic = rng.Chance(85)
		g, pairs, pri := vfGenGroup(rng, sch, o)
		c := &c20Ctx{run: run, idx: idx, sch: sch.Name}
		run.Eval(fmt.Sprintf("%s/%d/%d/%q/%v/%v/%v/%v", sch.Name, o.N, o.Thr, o.ID, o.WithPublic, o.WithSeed, o.Transition, o.CatchupZero))
		if idx < 3 {
			run.Sample(map[string]any{"scheme": sch.Name, "n": o.N, "thr": o.Thr, "id": o.ID, "public": o.WithPublic, "seed": o.WithSeed, "transition": o.Transition, "catchup0": o.CatchupZero})
		}
		orig := vfCloneGroup(g)
		orig.GetGenesisSeed() // encoding fixes the seed; compare against the fixed value
		origHash := vfCloneGroup(orig).Hash()

		// ---- group file (TOML through the real key.Save / key.Load)
		run.Count("group_toml", 1)
		gf := filepath.Join(tmp, fmt.Sprintf("g%d.toml", idx))
		if err := key.Save(gf, g, false); err != nil {
			c.viol("group-toml/encode-fails", err.Error())
		} else {
			g2 := new(key.Group)
			if err := key.Load(gf, g2); err != nil {
				c.viol("group-toml/decode-fails", err.Error())
			} else {
				if d := c20GroupDiff(orig, g2); len(d) > 0 {
					c.viol("group-toml/field-lost/"+d[0], fmt.Sprintf("fields differing: %v", d))
				}
				if !bytes.Equal(vfCloneGroup(g2).Hash(), origHash) {
					c.viol("group-toml/hash-differs", "")
				}
				canon := vfCloneGroup(orig)
				canon.ID = common.GetCanonicalBeaconID(canon.ID) // "" and "default" are the same id; decoding canonicalises
				if !bytes.Equal(c20TomlBytes(g2.TOML()), c20TomlBytes(canon.TOML())) {
					c.viol("group-toml/re-encoding-differs", "")
				}
			}
			os.Remove(gf)
		}
		// ---- group protobuf (through the wire bytes)
		run.Count("group_proto", 1)
		pb := orig.ToProto(common.GetAppVersion())
		wire, err := proto.Marshal(pb)
		if err != nil {
			c.viol("group-proto/encode-fails", err.Error())
		} else {
			pb2 := new(drand.GroupPacket)
			if err := proto.Unmarshal(wire, pb2); err != nil {
				c.viol("group-proto/decode-fails", err.Error())
			} else if g3, err := key.GroupFromProto(pb2, nil); err != nil {
				c.viol("group-proto/decode-fails", err.Error())
			} else {
				if d := c20GroupDiff(orig, g3); len(d) > 0 {
					c.viol("group-proto/field-lost/"+d[0], fmt.Sprintf("fields differing: %v", d))
				}
				if !bytes.Equal(vfCloneGroup(g3).Hash(), origHash) {
					c.viol("group-proto/hash-differs", "")
				}
			}
		}

		// ---- key pair and identity (file store)
		run.Count("keypair", 1)
		ks := key.NewFileStore(filepath.Join(tmp, fmt.Sprintf("ks%d", idx)), "b")
		p := pairs[0]
		if err := ks.SaveKeyPair(p); err != nil {
			c.viol("keypair/save-fails", err.Error())
		} else if p2, err := ks.LoadKeyPair(); err != nil {
			c.viol("keypair/load-fails", err.Error())
		} else {
			if !p2.Key.Equal(p.Key) {
				c.viol("keypair/private-key-differs", "")
			}
			if !p2.Public.Equal(p.Public) || !bytes.Equal(p2.Public.Signature, p.Public.Signature) || p2.Public.Scheme.Name != sch.Name {
				c.viol("keypair/identity-differs", "")
			}
			if p2.Public.ValidSignature() != nil {
				c.viol("keypair/self-signature-lost", "")
			}
		}
		// identity over protobuf
		run.Count("identity_proto", 1)
		if id2, err := key.IdentityFromProto(p.Public.ToProto(), sch); err != nil {
			c.viol("identity-proto/decode-fails", err.Error())
		} else if !id2.Equal(p.Public) || !bytes.Equal(id2.Signature, p.Public.Signature) {
			c.viol("identity-proto/differs", "")
		}

		// ---- share + distributed public key
		if pri != nil {
			run.Count("share", 1)
			shares := pri.Shares(len(g.Nodes) + 2)
			ps := shares[int(g.Nodes[rng.Intn(len(g.Nodes))].Index)]
			sh := &key.Share{DistKeyShare: dkg.DistKeyShare{Share: ps, Commits: g.PublicKey.Coefficients}, Scheme: sch}
			if err := ks.SaveShare(sh); err != nil {
				c.viol("share/save-fails", err.Error())
			} else if sh2, err := ks.LoadShare(); err != nil {
				c.viol("share/load-fails", err.Error())
			} else {
				if sh2.Share.I != sh.Share.I || !sh2.Share.V.Equal(sh.Share.V) {
					c.viol("share/private-share-differs", "")
				}
				if !sh2.Public().Equal(sh.Public()) || sh2.Scheme.Name != sch.Name {
					c.viol("share/commits-differ", "")
				}
			}
			_ = share.PriShare{}
		}
		os.RemoveAll(filepath.Join(tmp, fmt.Sprintf("ks%d", idx)))

		// ---- chain info
		if g.PublicKey != nil {
			run.Count("chain_info", 1)
			info := chaininfo.NewChainInfo(orig)
			jb, _ := json.Marshal(info)
			i2 := new(chaininfo.Info)
			if err := json.Unmarshal(jb, i2); err != nil {
				c.viol("chain-info-json/decode-fails", err.Error())
			} else if !i2.Equal(info) || !bytes.Equal(i2.Hash(), info.Hash()) {
				c.viol("chain-info-json/differs", string(jb))
			}
			wire, _ := proto.Marshal(info.ToProto(nil))
			pk := new(drand.ChainInfoPacket)
			_ = proto.Unmarshal(wire, pk)
			if i3, err := chaininfo.InfoFromProto(pk); err != nil {
				c.viol("chain-info-proto/decode-fails", err.Error())
			} else if !i3.Equal(info) || !bytes.Equal(i3.Hash(), info.Hash()) {
				c.viol("chain-info-proto/differs", "")
			}
			var hb bytes.Buffer
			_ = info.ToJSON(&hb, nil)
			if i4, err := chaininfo.InfoFromJSON(&hb); err != nil {
				c.viol("chain-info-hexjson/decode-fails", err.Error())
			} else if !i4.Equal(info) || !bytes.Equal(i4.Hash(), info.Hash()) {
				c.viol("chain-info-hexjson/differs", "")
			}
			// cross-form: what the HTTP relays serve (ToJSON) read by a client that decodes with encoding/json
			// (the decoder accepts both spellings of the field names)
			var sb bytes.Buffer
			_ = info.ToJSON(&sb, nil)
			served := append([]byte(nil), sb.Bytes()...)
			i5 := new(chaininfo.Info)
			if err := json.Unmarshal(served, i5); err != nil {
				run.Count("served_json_refused_by_the_v2_decoder", 1)
			} else if !i5.Equal(info) || !bytes.Equal(i5.Hash(), info.Hash()) {
				c.viol("chain-info-served-json-read-by-v2-decoder/differs", string(served))
			} else {
				run.Count("served_json_read_by_the_v2_decoder", 1)
			}
		}

		// ---- rejection of out-of-range encodings
		c20Reject(c, rng, orig, tmp)

		// ---- beacons with arbitrary byte strings
		c20Beacons(c, rng, tmp)
	}
}

func c20Reject(c *c20Ctx, rng *vfRng, g *key.Group, tmp string) {
	n := len(g.Nodes)
	min := n/2 + 1
	type bad struct {
		name string
		thr  int
		sch  string
	}
	bads := []bad{{"threshold-above-n", n + 1 + rng.Intn(3), ""}, {"unknown-scheme", g.Threshold, "not-a-scheme"}, {"threshold-zero", 0, ""}}
	if min-1 >= 1 {
		bads = append(bads, bad{"threshold-below-minimum", min - 1, ""})
	}
	for _, b := range bads {
		c.run.Count("reject_cases", 2)
		// TOML
		gt := vfCloneGroup(g).TOML().(*key.GroupTOML)
		gt.Threshold = b.thr
		if b.sch != "" {
			gt.SchemeID = b.sch
		}
		if gt.PublicKey != nil && b.sch == "" {
			// keep the encoding otherwise self-consistent: as many coefficients as the threshold says
			for len(gt.PublicKey.Coefficients) < b.thr {
				gt.PublicKey.Coefficients = append(gt.PublicKey.Coefficients, gt.PublicKey.Coefficients[0])
			}
			if b.thr >= 0 && len(gt.PublicKey.Coefficients) > b.thr {
				gt.PublicKey.Coefficients = gt.PublicKey.Coefficients[:b.thr]
			}
		}
		f := filepath.Join(tmp, "bad.toml")
		_ = os.WriteFile(f, c20TomlBytes(gt), 0o600)
		out := new(key.Group)
		if err := key.Load(f, out); err == nil {
			c.viol("group-toml/accepts/"+b.name, fmt.Sprintf("n=%d threshold=%d scheme=%q decoded without error", n, b.thr, gt.SchemeID))
		}
		// protobuf
		pb := vfCloneGroup(g).ToProto(common.GetAppVersion())
		pb.Threshold = uint32(b.thr)
		if b.sch != "" {
			pb.SchemeID = b.sch
		}
		if len(pb.DistKey) > 0 && b.sch == "" {
			for len(pb.DistKey) < b.thr {
				pb.DistKey = append(pb.DistKey, pb.DistKey[0])
			}
			if len(pb.DistKey) > b.thr {
				pb.DistKey = pb.DistKey[:b.thr]
			}
		}
		if _, err := key.GroupFromProto(pb, nil); err == nil {
			c.viol("group-proto/accepts/"+b.name, fmt.Sprintf("n=%d threshold=%d scheme=%q dist_key=%d decoded without error", n, b.thr, pb.SchemeID, len(pb.DistKey)))
		}
	}
}

func c20Beacons(c *c20Ctx, rng *vfRng, tmp string) {
	sizes := []int{0, 1, 2, 47, 48, 96, rng.Range(3, 300)}
	if c.idx%50 == 0 {
		sizes = append(sizes, 1<<20)
	}
	for _, sz := range sizes {
		c.run.Count("beacons", 1)
		b := &common.Beacon{Round: rng.U64() >> uint(rng.Intn(64)), Signature: rng.Bytes(sz), PreviousSig: rng.Bytes([]int{0, sz, 48}[rng.Intn(3)])}
		buf, err := b.Marshal()
		if err != nil {
			c.viol("beacon-json/encode-fails", err.Error())
			continue
		}
		b2 := new(common.Beacon)
		if err := b2.Unmarshal(buf); err != nil {
			c.viol("beacon-json/decode-fails", err.Error())
		} else if !b2.Equal(b) {
			c.viol("beacon-json/differs", fmt.Sprintf("sig %d bytes prev %d bytes", len(b.Signature), len(b.PreviousSig)))
		} else if !bytes.Equal(b2.Randomness(), b.Randomness()) {
			c.viol("beacon-json/randomness-differs", "")
		}
		// public protobuf form
		pr := &drand.PublicRandResponse{Round: b.Round, Signature: b.Signature, PreviousSignature: b.PreviousSig}
		w, _ := proto.Marshal(pr)
		pr2 := new(drand.PublicRandResponse)
		if err := proto.Unmarshal(w, pr2); err != nil || pr2.Round != b.Round || !bytes.Equal(pr2.Signature, b.Signature) || !bytes.Equal(pr2.PreviousSignature, b.PreviousSig) {
			c.viol("beacon-proto/differs", "")
		}
	}
	// through the stores (non-empty signatures: an empty signature cannot be produced by the system)
	if c.idx%10 == 0 {
		for _, be := range []c18Backend{{Kind: "bolt-trimmed", Chained: true}, {Kind: "bolt-trimmed"}, {Kind: "bolt-untrimmed", Chained: true}, {Kind: "memdb", Cap: 10}} {
			dir, _ := os.MkdirTemp(tmp, "st")
			var st = c18OpenNoT(be, dir)
			if st == nil {
				continue
			}
			var prev []byte
			var put []*common.Beacon
			for r := uint64(0); r < 6; r++ {
				b := &common.Beacon{Round: r, Signature: rng.Bytes(rng.Range(1, 120)), PreviousSig: prev}
				if r == 0 {
					b.PreviousSig = nil
				}
				if err := st.Put(context.Background(), b); err != nil {
					c.viol("beacon-store/put-fails/"+be.sigTag(), err.Error())
				}
				put = append(put, &common.Beacon{Round: r, Signature: append([]byte(nil), b.Signature...), PreviousSig: append([]byte(nil), b.PreviousSig...)})
				prev = b.Signature
			}
			st.Close()
			if be.Kind != "memdb" {
				st = c18OpenNoT(be, dir)
				for _, w := range put {
					c.run.Count("beacons_via_store", 1)
					got, err := st.Get(context.Background(), w.Round)
					if err != nil {
						c.viol("beacon-store/read-fails-after-reopen/"+be.sigTag(), err.Error())
						continue
					}
					want := *w
					if be.Kind == "bolt-trimmed" && !be.Chained {
						want.PreviousSig = nil // the unchained trimmed store keeps signatures only
					}
					if !got.Equal(&want) {
						c.viol("beacon-store/differs-after-reopen/"+be.sigTag(), fmt.Sprintf("round %d", w.Round))
					}
				}
				st.Close()
			}
			os.RemoveAll(dir)
		}
	}
	_ = time.Second
	_ = crypto.DefaultSchemeID
}
