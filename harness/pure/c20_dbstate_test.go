package chain_test

// C20 — key-generation database records: every exported field of dkg.DBState (found by reflection, so
// a field forgotten in the hand-written TOML mirror is caught without naming it) survives the real
// bolt store; and re-saving key material over a longer previous file yields exactly the new value.

import (
	"bytes"
	"fmt"
	"path/filepath"
	"reflect"
	"testing"
	"time"

	"github.com/drand/kyber/share"
	"github.com/drand/kyber/share/dkg"
	"google.golang.org/protobuf/proto"

	"github.com/drand/drand/v2/common/key"
	dkgpkg "github.com/drand/drand/v2/internal/dkg"
	pdkg "github.com/drand/drand/v2/protobuf/dkg"
)

func c20Participant(rng *vfRng, i int) *pdkg.Participant {
	return &pdkg.Participant{Address: fmt.Sprintf("10.9.%d.%d:%d", rng.Intn(200), i, 1000+rng.Intn(60000)), Key: rng.Bytes(48), Signature: rng.Bytes(96)}
}

// c20FillState sets every exported field of DBState to a generated non-zero value.
func c20FillState(t *testing.T, rng *vfRng, status dkgpkg.Status, withOutput bool, idx int) *dkgpkg.DBState {
	schemes := vfSchemes()
	sch := schemes[idx%len(schemes)]
	st := &dkgpkg.DBState{}
	v := reflect.ValueOf(st).Elem()
	tp := v.Type()
	for i := 0; i < v.NumField(); i++ {
		f := v.Field(i)
		name := tp.Field(i).Name
		switch x := f.Addr().Interface().(type) {
		case *string:
			*x = fmt.Sprintf("%s-%d", name, rng.Intn(1000))
			if name == "SchemeID" {
				*x = sch.Name
			}
		case *uint32:
			*x = uint32(rng.Range(1, 1000))
		case *dkgpkg.Status:
			*x = status
		case *time.Time:
			*x = time.Unix(int64(1+rng.U64()%(1<<32)), 0).UTC()
		case *[]byte:
			*x = rng.Bytes(rng.Range(1, 64))
		case *time.Duration:
			*x = time.Duration(rng.Range(1, 3600)) * time.Second
		case **pdkg.Participant:
			*x = c20Participant(rng, 0)
		case *[]*pdkg.Participant:
			n := rng.Range(1, 4)
			for k := 0; k < n; k++ {
				*x = append(*x, c20Participant(rng, k+1))
			}
		case **key.Group:
			if withOutput {
				g, _, _ := vfGenGroup(rng, sch, vfRandomOpts(rng, []string{"default", "quicknet"}))
				g.GetGenesisSeed()
				g.ID = "default"
				*x = g
			}
		case **key.Share:
			if withOutput {
				g, _, pri := vfGenGroup(rng, sch, vfRandomOpts(rng, []string{"default"}))
				*x = &key.Share{DistKeyShare: dkg.DistKeyShare{Share: pri.Shares(len(g.Nodes) + 2)[rng.Intn(len(g.Nodes))], Commits: g.PublicKey.Coefficients}, Scheme: sch}
			}
		default:
			t.Fatalf("C20 harness: DBState field %s of type %s has no generator (new field? extend c20FillState)", name, f.Type())
		}
		if f.IsZero() && name != "State" && !((name == "FinalGroup" || name == "KeyShare") && !withOutput) {
			t.Fatalf("C20 harness: field %s left zero", name)
		}
	}
	return st
}

func c20StateDiff(a, b *dkgpkg.DBState) []string {
	var d []string
	va, vb := reflect.ValueOf(a).Elem(), reflect.ValueOf(b).Elem()
	for i := 0; i < va.NumField(); i++ {
		name := va.Type().Field(i).Name
		fa, fb := va.Field(i).Interface(), vb.Field(i).Interface()
		same := false
		switch x := fa.(type) {
		case time.Time:
			same = x.Equal(fb.(time.Time))
		case []byte:
			same = bytes.Equal(x, fb.([]byte))
		case *pdkg.Participant:
			same = proto.Equal(x, fb.(*pdkg.Participant))
		case []*pdkg.Participant:
			y := fb.([]*pdkg.Participant)
			same = len(x) == len(y)
			for k := 0; same && k < len(x); k++ {
				same = proto.Equal(x[k], y[k])
			}
		case *key.Group:
			y := fb.(*key.Group)
			same = (x == nil) == (y == nil)
			if x != nil && y != nil {
				same = len(c20GroupDiff(x, y)) == 0
			}
		case *key.Share:
			y := fb.(*key.Share)
			same = (x == nil) == (y == nil)
			if x != nil && y != nil {
				same = x.Share.I == y.Share.I && x.Share.V.Equal(y.Share.V) && x.Public().Equal(y.Public()) && x.Scheme.Name == y.Scheme.Name
			}
		default:
			same = reflect.DeepEqual(fa, fb)
		}
		if !same {
			d = append(d, name)
		}
	}
	return d
}

func TestVF_C20_DBState(t *testing.T) {
	run := vfNewRun("C20", "pure-dbstate")
	defer run.Finish()
	n := vfPick(60, 600)
	dir := t.TempDir()
	store, err := dkgpkg.NewDKGStore(dir)
	if err != nil {
		t.Fatal(err)
	}
	defer store.Close()
	for idx := 0; idx < n; idx++ {
		rng := vfNewRng(vfCaseSeed(vfSeed(), "C20db", idx))
		status := dkgpkg.Status(idx % 12)
		withOutput := (idx/12)%2 == 0
		st := c20FillState(t, rng, status, withOutput, idx)
		bid := fmt.Sprintf("beacon-%d", idx)
		info := map[string]any{"case_index": idx, "status": status.String(), "with_output": withOutput}
		run.Eval(fmt.Sprintf("%s/%v/%d", status, withOutput, idx%5))
		for _, path := range []string{"current", "finished"} {
			run.Count("dbstate_roundtrips", 1)
			var got *dkgpkg.DBState
			if path == "current" {
				if err := store.SaveCurrent(bid, st); err != nil {
					run.Violation("C20/dkg-db/save-fails/"+path, err.Error(), info)
					continue
				}
				got, err = store.GetCurrent(bid)
			} else {
				if err := store.SaveFinished(bid, st); err != nil {
					run.Violation("C20/dkg-db/save-fails/"+path, err.Error(), info)
					continue
				}
				got, err = store.GetFinished(bid)
			}
			if err != nil || got == nil {
				run.Violation("C20/dkg-db/read-back-fails/"+path, fmt.Sprint(err), info)
				continue
			}
			if d := c20StateDiff(st, got); len(d) > 0 {
				run.Violation("C20/dkg-db/field-lost/"+d[0], fmt.Sprintf("status %s: fields that did not survive the %s record: %v", status, path, d), info)
			}
			if !st.Equals(got) {
				run.Count("type_equals_false", 1)
			}
		}
		if idx < 2 {
			run.Sample(info)
		}
	}
}

// Re-saving over a longer previous file: what is loaded must be exactly the second value.
func TestVF_C20_Resave(t *testing.T) {
	run := vfNewRun("C20", "pure-resave")
	defer run.Finish()
	n := vfPick(40, 400)
	tmp := t.TempDir()
	schemes := vfSchemes()
	for idx := 0; idx < n; idx++ {
		rng := vfNewRng(vfCaseSeed(vfSeed(), "C20rs", idx))
		sch := schemes[idx%len(schemes)]
		info := map[string]any{"case_index": idx, "scheme": sch.Name}
		ks := key.NewFileStore(filepath.Join(tmp, fmt.Sprintf("k%d", idx)), "b")
		// two groups/shares of different size: large then small and small then large
		big, _, bigPri := vfGenGroup(rng, sch, vfGroupOpts{N: 9, Thr: rng.Range(6, 9), WithPublic: true, WithSeed: true, Transition: true, ID: "resave-long-id"})
		small, _, smallPri := vfGenGroup(rng, sch, vfGroupOpts{N: 3, Thr: 2, WithPublic: true, WithSeed: true, ID: "x"})
		shareOf := func(g *key.Group, p *share.PriPoly) *key.Share {
			return &key.Share{DistKeyShare: dkg.DistKeyShare{Share: p.Shares(len(g.Nodes) + 2)[int(g.Nodes[0].Index)], Commits: g.PublicKey.Coefficients}, Scheme: sch}
		}
		order := [][2]*key.Group{{big, small}, {small, big}}
		pris := map[*key.Group]*share.PriPoly{big: bigPri, small: smallPri}
		for oi, pair := range order {
			for step, g := range pair {
				run.Count("resaves", 1)
				sh := shareOf(g, pris[g])
				if err := ks.SaveGroup(g); err != nil {
					run.Violation("C20/resave/group-save-fails", err.Error(), info)
				}
				if err := ks.SaveShare(sh); err != nil {
					run.Violation("C20/resave/share-save-fails", err.Error(), info)
				}
				g2, err := ks.LoadGroup()
				if err != nil || g2 == nil {
					run.Violation("C20/resave/group-unreadable-after-resave", fmt.Sprintf("order %d step %d: %v", oi, step, err), info)
				} else if d := c20GroupDiff(g, g2); len(d) > 0 {
					run.Violation("C20/resave/group-differs-after-resave/"+d[0], fmt.Sprintf("order %d step %d: %v", oi, step, d), info)
				}
				sh2, err := ks.LoadShare()
				if err != nil {
					run.Violation("C20/resave/share-unreadable-after-resave", fmt.Sprintf("order %d step %d (previous file was %s): %v", oi, step, map[bool]string{true: "longer", false: "shorter"}[step == 1 && oi == 0], err), info)
				} else if sh2.Share.I != sh.Share.I || !sh2.Share.V.Equal(sh.Share.V) || !sh2.Public().Equal(sh.Public()) {
					run.Violation("C20/resave/share-differs-after-resave", fmt.Sprintf("order %d step %d", oi, step), info)
				}
			}
		}
		// key pair re-saved under a scheme with a shorter / longer name
		for _, s2 := range []int{idx, idx + 1, idx + 3, idx} {
			p := vfGenPair(rng, schemes[s2%len(schemes)], "127.0.0.1:8080")
			if err := ks.SaveKeyPair(p); err != nil {
				run.Violation("C20/resave/keypair-save-fails", err.Error(), info)
				continue
			}
			p2, err := ks.LoadKeyPair()
			if err != nil {
				run.Violation("C20/resave/keypair-unreadable-after-resave", err.Error(), info)
			} else if !p2.Key.Equal(p.Key) || !p2.Public.Equal(p.Public) || p2.Public.Scheme.Name != p.Public.Scheme.Name {
				run.Violation("C20/resave/keypair-differs-after-resave", "", info)
			}
		}
		run.Eval(fmt.Sprintf("%s/%d/%d", sch.Name, big.Threshold, idx))
		if idx == 0 {
			run.Sample(map[string]any{"scheme": sch.Name, "first": "9 nodes", "second": "3 nodes", "then": "reverse"})
		}
	}
}
