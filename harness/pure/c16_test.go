package chain_test

// C16 — round/time conversion against a math/big reference.

import (
	"fmt"
	"math"
	"math/big"
	"testing"
	"time"

	"github.com/drand/drand/v2/common"
)

type c16Case struct {
	P uint64 `json:"period_s"`
	G int64  `json:"genesis"`
	T int64  `json:"t,omitempty"`
	R uint64 `json:"round,omitempty"`
	K string `json:"kind"`
}

var (
	c16MaxOK = new(big.Int).Sub(big.NewInt(math.MaxInt64), new(big.Int).Lsh(big.NewInt(1), 36))
)

// refT is the scheduled time of round r >= 1 in unbounded integers.
func refT(p uint64, g int64, r uint64) *big.Int {
	x := new(big.Int).SetUint64(r)
	x.Sub(x, big.NewInt(1))
	x.Mul(x, new(big.Int).SetUint64(p))
	return x.Add(x, big.NewInt(g))
}

func c16CheckInstant(run *vfRun, p uint64, g, t int64, kind string, nontrivial bool) {
	per := time.Duration(p) * time.Second
	c := common.CurrentRound(t, per, g)
	nr, nt := common.NextRound(t, per, g)
	cs := c16Case{P: p, G: g, T: t, K: kind}
	key := ""
	if nontrivial {
		key = fmt.Sprintf("i/%d/%d/%d", p, g, t)
	}
	run.Eval(key)
	run.Count("instants", 1)
	bt := big.NewInt(t)
	if c < 1 {
		run.Violation("C16/current-round/zero-after-genesis", fmt.Sprintf("CurrentRound=%d for t>=genesis %+v", c, cs), cs)
		return
	}
	lo, hi := refT(p, g, c), refT(p, g, c+1)
	if !(lo.Cmp(bt) <= 0 && bt.Cmp(hi) < 0) {
		run.Violation("C16/current-round/not-the-enclosing-round",
			fmt.Sprintf("CurrentRound(%d)=%d but T(c)=%s T(c+1)=%s %+v", t, c, lo, hi, cs), cs)
	}
	// the reference current round, independently
	d := new(big.Int).Sub(bt, big.NewInt(g))
	d.Div(d, new(big.Int).SetUint64(p))
	want := d.Uint64() + 1
	if c != want {
		run.Violation("C16/current-round/differs-from-reference", fmt.Sprintf("CurrentRound=%d want %d %+v", c, want, cs), cs)
	}
	if nr != want+1 || big.NewInt(nt).Cmp(refT(p, g, want+1)) != 0 {
		run.Violation("C16/next-round/not-current-plus-one-with-its-time",
			fmt.Sprintf("NextRound=(%d,%d) want (%d,%s) %+v", nr, nt, want+1, refT(p, g, want+1), cs), cs)
	}
	// TimeOfRound agrees on the rounds involved (they are schedulable: within 2^50+ of genesis)
	for _, r := range []uint64{c, c + 1} {
		tr := common.TimeOfRound(per, g, r)
		if big.NewInt(tr).Cmp(refT(p, g, r)) != 0 {
			sig := "C16/time-of-round/inexact"
			if tr == common.TimeOfRoundErrorValue {
				sig = "C16/time-of-round/error-for-schedulable-round"
			}
			run.Violation(sig, fmt.Sprintf("TimeOfRound(%d)=%d want %s %+v", r, tr, refT(p, g, r), cs), cs)
		}
	}
}

func c16CheckRound(run *vfRun, p uint64, g int64, r uint64, kind string, nontrivial bool) {
	per := time.Duration(p) * time.Second
	cs := c16Case{P: p, G: g, R: r, K: kind}
	key := ""
	if nontrivial {
		key = fmt.Sprintf("r/%d/%d/%d", p, g, r)
	}
	run.Eval(key)
	run.Count("rounds", 1)
	if r == 0 {
		if v := common.TimeOfRound(per, g, 0); v != g {
			run.Violation("C16/time-of-round/round0-not-genesis", fmt.Sprintf("TimeOfRound(0)=%d %+v", v, cs), cs)
		}
		return
	}
	v := common.TimeOfRound(per, g, r)
	want := refT(p, g, r)
	isErr := v == common.TimeOfRoundErrorValue
	if want.Cmp(c16MaxOK) > 0 {
		run.Count("rounds_unschedulable", 1)
		if !isErr {
			run.Violation("C16/time-of-round/no-error-for-unschedulable-round",
				fmt.Sprintf("TimeOfRound=%d but exact time %s exceeds MaxInt64-2^36 %+v", v, want, cs), cs)
		}
		return
	}
	if isErr {
		run.Count("rounds_error_value", 1)
		// documented error value: only acceptable for rounds far beyond the quantified range
		lim := new(big.Int).Add(big.NewInt(g), new(big.Int).Lsh(big.NewInt(1), 50))
		if want.Cmp(lim) <= 0 {
			run.Violation("C16/time-of-round/error-for-schedulable-round",
				fmt.Sprintf("error value for a round whose time %s is within 2^50 s of genesis %+v", want, cs), cs)
		}
	} else {
		if v < g {
			run.Violation("C16/time-of-round/wrapped-or-negative", fmt.Sprintf("TimeOfRound=%d < genesis %+v", v, cs), cs)
		}
		if big.NewInt(v).Cmp(want) != 0 {
			run.Violation("C16/time-of-round/inexact", fmt.Sprintf("TimeOfRound=%d want %s %+v", v, want, cs), cs)
		}
	}
	// strict monotonicity with the successor when neither is the error value
	if r < math.MaxUint64 {
		v2 := common.TimeOfRound(per, g, r+1)
		if !isErr && v2 != common.TimeOfRoundErrorValue && v2 <= v {
			run.Violation("C16/time-of-round/not-strictly-increasing",
				fmt.Sprintf("TimeOfRound(%d)=%d TimeOfRound(%d)=%d %+v", r, v, r+1, v2, cs), cs)
		}
	}
}

func c16Periods() []uint64 {
	ps := []uint64{1, 2, 3, 4, 5, 6, 7, 8, 29, 30, 31, 59, 60, 3600}
	for k := uint(1); k <= 32; k++ {
		for _, d := range []int64{-3, -2, -1, 0, 1, 2} { // (the overflow guard counts the bits of period+1: 2^k-2 and 2^k-1 fall on different sides)
			v := int64(1)<<k + d
			if v >= 1 && v <= math.MaxUint32 {
				ps = append(ps, uint64(v))
			}
		}
	}
	return ps
}

func TestVF_C16(t *testing.T) {
	run := vfNewRun("C16", "pure")
	defer run.Finish()
	rng := vfNewRng(vfCaseSeed(vfSeed(), "C16", 0))
	gens := []int64{0, 1, 1 << 31, 1 << 32, 1595431050, 1692803367}

	// 1. exhaustive small grid
	for _, p := range []uint64{1, 2, 3, 4, 5, 6, 7, 8, 29, 30, 31, 59, 60, 3600} {
		for _, g := range []int64{0, 1, 1 << 31, 1 << 32} {
			for d := int64(0); d <= int64(3*p+2); d++ {
				c16CheckInstant(run, p, g, g+d, "grid", true)
			}
			for r := uint64(0); r <= 6; r++ {
				c16CheckRound(run, p, g, r, "grid", true)
			}
		}
	}
	run.Sample(c16Case{P: 30, G: 1 << 31, T: 1<<31 + 92, K: "grid"})

	// 2. boundary-directed instants: t = g + k*p + {-1,0,1}
	max50 := int64(1) << 50
	for _, p := range c16Periods() {
		for _, g := range gens {
			ks := []int64{1, 2, 3, max50 / int64(p), max50/int64(p) - 1}
			nk := vfPick(6, 40)
			for i := 0; i < nk; i++ {
				ks = append(ks, int64(rng.U64()%uint64(max50/int64(p)+1)))
			}
			for _, k := range ks {
				for _, d := range []int64{-1, 0, 1} {
					tt := g + k*int64(p) + d
					if tt < g || tt-g > max50 {
						continue
					}
					c16CheckInstant(run, p, g, tt, "boundary", true)
				}
			}
		}
	}
	run.Sample(c16Case{P: 1<<32 - 1, G: 1 << 32, T: 1<<32 + 262143*(1<<32-1) - 1, K: "boundary"})

	// 3. boundary-directed rounds: around the guard and around the last schedulable round
	for _, p := range c16Periods() {
		bits := int(math.Log2(float64(p) + 1))
		guard := uint64(math.MaxUint64) >> (bits + 2)
		for _, g := range gens {
			lastOK := new(big.Int).Sub(c16MaxOK, big.NewInt(g))
			lastOK.Div(lastOK, new(big.Int).SetUint64(p))
			lastOK.Add(lastOK, big.NewInt(1))
			cands := []uint64{guard, math.MaxUint64, math.MaxUint64 - 1, 1 << 63, 1<<63 - 1, 1 << 62, uint64(max50)/p + 1}
			if lastOK.IsUint64() {
				cands = append(cands, lastOK.Uint64())
			}
			for _, c := range cands {
				for d := int64(-2); d <= 2; d++ {
					r := c + uint64(d)
					c16CheckRound(run, p, g, r, "guard", true)
				}
			}
		}
	}
	run.Sample(c16Case{P: 3, G: 1, R: math.MaxUint64 >> 4, K: "guard"})

	// 4. random points
	n := vfPick(300000, 5000000)
	for i := 0; i < n; i++ {
		var p uint64
		switch rng.Intn(4) {
		case 3:
			// a little below a power of two: the largest product round*period the shift guard lets through
			p = uint64(1)<<uint(rng.Range(2, 32)) - uint64(rng.Range(2, 2000))
			if p < 1 || p > math.MaxUint32 {
				p = math.MaxUint32 - 1
			}
		case 0:
			p = uint64(rng.Range(1, 120))
		case 1:
			p = 1 + rng.U64()%(1<<32-1)
		default:
			p = 1 + rng.U64()%(1<<uint(rng.Range(1, 32)))
			if p > math.MaxUint32 {
				p = math.MaxUint32
			}
		}
		g := int64(rng.U64() % (1<<32 + 1))
		if rng.Bool() {
			d := int64(rng.U64() % (uint64(1)<<uint(rng.Range(1, 50)) + 1))
			c16CheckInstant(run, p, g, g+d, "random", false)
		} else {
			r := rng.U64() >> uint(rng.Intn(64))
			if rng.Intn(3) == 0 {
				// around the last schedulable round of this (period, genesis)
				lo := new(big.Int).Sub(c16MaxOK, big.NewInt(g))
				lo.Div(lo, new(big.Int).SetUint64(p))
				if lo.IsUint64() {
					r = lo.Uint64() + uint64(rng.Intn(5))
				}
			}
			c16CheckRound(run, p, g, r, "random", false)
		}
	}
	run.Note("periods 1..2^32-1 s, genesis 0..2^32, instants genesis..genesis+2^50, rounds over all of uint64; non-trivial = grid/boundary/guard points (distinct (p,g,t|r))")
}
