package beacon

// C05 — liveness restated as bounded progress: after a fault script has ended and the network is
// healed (>= t honest nodes running and connected), every running honest node reaches the round of
// its clock within a bound counted in clock steps, then produces every due round, and restarted
// nodes contribute again.

import (
	"fmt"
	"sort"
	"strings"
	"sync"
	"sync/atomic"
	"testing"
	"time"

	"github.com/drand/drand/v2/common"
	proto "github.com/drand/drand/v2/protobuf/drand"
)

func c05Kinds(sc vfbScenario) string {
	set := map[string]bool{}
	for _, s := range sc.Script {
		p := strings.Split(s, ":")
		if len(p) > 1 {
			set[p[1]] = true
		}
	}
	if sc.DropPct > 0 {
		set["loss"] = true
	}
	var ks []string
	for k := range set {
		ks = append(ks, k)
	}
	sort.Strings(ks)
	if len(ks) == 0 {
		return "none"
	}
	return strings.Join(ks, "+")
}

func c05Gen(idx int) vfbScenario {
	sc := vfbGenScenario("C05", idx, 2)
	rng := vfNewRng(sc.Seed ^ 0xc05)
	// liveness needs a catch-up rate faster than the round rate
	if sc.PeriodS < 2 {
		sc.PeriodS = 2
	}
	sc.CatchupS = []int{0, 1}[rng.Intn(2)]
	if idx%3 == 2 {
		// the rate family: a long period against a 1 s catch-up period makes "waited for the next tick" and "went on
		// after the catch-up period" distinguishable in logical seconds
		sc.PeriodS, sc.CatchupS = 10, 1
	}
	// denser fault scripts than W1's default, incl. outages that leave fewer than t nodes
	honest := sc.N - len(sc.Corrupted)
	extra := rng.Range(1, 3)
	for i := 0; i < extra; i++ {
		r := rng.Range(2, sc.Rounds-2)
		switch rng.Intn(4) {
		case 0:
			sc.Script = append(sc.Script, fmt.Sprintf("%d:blackout:%d", r, rng.Range(1, 4)))
		case 1:
			sc.Script = append(sc.Script, fmt.Sprintf("%d:partition:%d", r, rng.Range(1, 4)))
		case 2:
			for k := 0; k < rng.Range(1, honest); k++ {
				sc.Script = append(sc.Script, fmt.Sprintf("%d:stop:%d:%d", r, k, rng.Range(1, 4)))
			}
		case 3:
			sc.Script = append(sc.Script, fmt.Sprintf("%d:isolate:%d:%d", r, rng.Intn(honest), rng.Range(1, 4)))
		}
	}
	return sc
}

func c05Run(run *vfRun, sc vfbScenario) {
	info := map[string]any{"case_index": sc.Index, "scenario": sc}
	kinds := c05Kinds(sc)
	var emu sync.Mutex
	lastEmit := map[int]uint64{} // node -> highest round it emitted a partial for
	restarted := map[int]bool{}
	nontrivial := false
	// catch-up RATE, event by event (cases idx%3==2): when a node that is behind its clock has just run its own
	// aggregation of round r (hook aggregator.beforeput), its partial for r+1 must leave after the catch-up period,
	// not at the next period tick. Both instants are read on the node's own fake clock.
	victim := -1
	var fineSteps int32
	hookNote := map[[2]uint64]string{}
	var victimLog []string
	hookAt := map[[2]uint64]int64{}
	emitAt := map[[2]uint64]int64{}
	vfbRunScenario(run, sc, vfbScenarioHooks{
		afterStart: func(nt *vfbNet, adv *vfbAdversary) {
			if sc.Index%3 == 2 {
				// interleaving pressure on ONE node: its own aggregation is parked briefly before the Put so that a live
				// sync stream from a peer (which aggregated the same round unhindered) stores the round first
				victim = sc.Index / 3 % nt.cfg.N
				if vn := nt.nodes[victim]; vn.logger != nil {
					vn.logger.sink = func(level, msg string, kv []interface{}) {
						line := fmt.Sprintf("%d %s %s %v", vn.clk.Now().Unix(), level, msg, kv)
						if !strings.Contains(line, "catchup") && !strings.Contains(line, "beacon_loop") && !strings.Contains(line, "chain_store") && !strings.Contains(line, "broadcast") {
							return
						}
						emu.Lock()
						victimLog = append(victimLog, line)
						if len(victimLog) > 400 {
							victimLog = victimLog[200:]
						}
						emu.Unlock()
					}
				}
				nt.mu.Lock()
				nt.onHook = func(name string, n *vfbNode, args []any) {
					if name != "aggregator.beforeput" || len(args) == 0 || n.pos != victim {
						return
					}
					b, ok := args[0].(*common.Beacon)
					if !ok {
						return
					}
					atomic.AddInt64(&nt.inflight, 1)
					defer atomic.AddInt64(&nt.inflight, -1)
					deadline := time.Now().Add(100 * time.Millisecond)
					for time.Now().Before(deadline) && nt.Head(n) < b.Round {
						time.Sleep(time.Millisecond)
					}
					if nt.Head(n) >= b.Round {
						run.Count("aggregations_overtaken_by_sync", 1)
					}
					emu.Lock()
					// (only while the harness moves the clocks in 1 s steps: during the scripted phase a step is a whole period
					// and logical time has no finer grain)
					if _, seen := hookAt[[2]uint64{uint64(n.pos), b.Round}]; !seen && atomic.LoadInt32(&fineSteps) == 1 {
						hookAt[[2]uint64{uint64(n.pos), b.Round}] = n.clk.Now().Unix()
						hookNote[[2]uint64{uint64(n.pos), b.Round}] = fmt.Sprintf("sync-stored-it-first=%v head-at-hook-exit=%d", nt.Head(n) >= b.Round, nt.Head(n))
					}
					emu.Unlock()
				}
				nt.mu.Unlock()
			}
			prevEmit := nt.onEmit
			nt.onEmit = func(from *vfbNode, to int, p *proto.PartialBeaconPacket, clk int64) {
				prevEmit(from, to, p, clk)
				emu.Lock()
				if p.GetRound() > lastEmit[from.pos] {
					lastEmit[from.pos] = p.GetRound()
				}
				if _, seen := emitAt[[2]uint64{uint64(from.pos), p.GetRound()}]; !seen {
					if atomic.LoadInt32(&fineSteps) == 1 {
						emitAt[[2]uint64{uint64(from.pos), p.GetRound()}] = clk
					} else {
						emitAt[[2]uint64{uint64(from.pos), p.GetRound()}] = -1 // left during a whole-period step: no usable instant
					}
				}
				emu.Unlock()
			}
			nt.onOpen = func(n *vfbNode) {
				emu.Lock()
				if _, seen := lastEmit[n.pos]; seen {
					restarted[n.pos] = true
				}
				lastEmit[n.pos] = lastEmit[n.pos] // mark as seen
				emu.Unlock()
			}
		},
		atEnd: func(nt *vfbNet, adv *vfbAdversary) {
			var slowestStep time.Duration
			atomic.StoreInt32(&fineSteps, 1)
			defer func() {
				if victim < 0 {
					return
				}
				emu.Lock()
				defer emu.Unlock()
				ps, cs := int64(sc.PeriodS), int64(sc.CatchupS)
				for k, th := range hookAt {
					r := k[1]
					if th < nt.genesis {
						continue
					}
					cr := uint64((th-nt.genesis)/ps) + 1
					te, emitted := emitAt[[2]uint64{k[0], r + 1}]
					if cr <= r || !emitted || te < 0 {
						continue // not behind, the next round came by another way, or no usable instant
					}
					run.Count("catch_up_launches_timed", 1)
					if d := te - th; d >= cs+5 && ps >= cs+7 {
						if slowestStep > time.Second {
							run.Count("catch_up_rate_verdicts_skipped_box_not_keeping_pace", 1)
							continue
						}
						info["victim_log_tail"] = append([]string(nil), victimLog...)
						run.Violation("C05/catch-up-slower-than-the-catch-up-rate/after-own-aggregation",
							fmt.Sprintf("node %d ran its aggregation of round %d at its clock %d while behind (clock round %d); its partial for round %d left %d s later (catch-up period %d s, period %d s): it waited for the next tick [%s]", k[0], r, th, cr, r+1, d, cs, ps, hookNote[k]), info)
						return
					}
				}
			}()
			// pacing for the rate oracle: a 1 s step returns as soon as the network is quiet, which can be sooner than the
			// victim needs to sign and send the partial its catch-up sleep has just released; logical time must not run
			// away from it. Wait (bounded) for that emission — or for the round to arrive some other way.
			waitVictim := func() {
				if victim < 0 {
					return
				}
				vn := nt.nodes[victim]
				for i := 0; i < 300; i++ {
					pending := false
					now := vn.clk.Now().Unix()
					emu.Lock()
					for k, th := range hookAt {
						if int(k[0]) != victim || now < th+int64(sc.CatchupS) {
							continue
						}
						if _, sent := emitAt[[2]uint64{k[0], k[1] + 1}]; !sent && nt.Head(vn) == k[1] && vn.running {
							pending = true
						}
					}
					emu.Unlock()
					if !pending {
						return
					}
					time.Sleep(time.Millisecond)
				}
				run.Count("steps_that_waited_300ms_for_the_victims_catch_up_partial", 1)
			}
			hs := nt.honestRunning()
			if len(hs) < nt.cfg.Thr {
				run.Inconclusive("fewer than t honest nodes after heal")
				return
			}
			behind := func() (uint64, []string) {
				var worst uint64
				var who []string
				for _, n := range hs {
					cr, h := nt.clockRound(n), nt.Head(n)
					if h < cr {
						if cr-h > worst {
							worst = cr - h
						}
						who = append(who, fmt.Sprintf("n%d:head=%d,clock-round=%d", n.pos, h, cr))
					}
				}
				return worst, who
			}
			missed, _ := behind()
			if missed >= 2 {
				nontrivial = true
			}
			q := time.Second // catch-up period is 0 or 1 s: one logical step = 1 s
			perRound := 1
			B := int(missed)*perRound*3 + 2*nt.cfg.N + 10 + 2*sc.PeriodS
			steps, ok := 0, false
			for ; steps < B; steps++ {
				if w, _ := behind(); w == 0 {
					ok = true
					break
				}
				t0 := time.Now()
				nt.Step(q)
				if d := time.Since(t0); d > slowestStep {
					slowestStep = d
				}
				waitVictim()
			}
			run.Count("heal_steps_used", int64(steps))
			run.Count("missed_rounds_at_heal", int64(missed))
			if !ok {
				// slow machine? give real time with frozen clocks, then the same bound again with a slower pace
				run.Count("slow_convergence_rechecks", 1)
				// a 1 s step returns when the network is quiet, which on a busy box can be before the nodes have done the
				// signing and verifying the step released: give every logical second 200 ms of real time as well
				time.Sleep(2 * time.Second)
				nt.Settle()
				for i := 0; i < B && !ok; i++ {
					nt.Step(q)
					time.Sleep(200 * time.Millisecond)
					nt.Settle()
					if w, _ := behind(); w == 0 {
						ok = true
					}
				}
			}
			if !ok {
				_, who := behind()
				run.Violation(fmt.Sprintf("C05/not-caught-up-within-bound/%s/%s", kinds, nt.cfg.Backend),
					fmt.Sprintf("after the fault script ended and %d logical steps (bound) with %d/%d honest nodes running and connected, still behind: %v", 2*B, len(hs), nt.cfg.N, who), info)
				return
			}
			run.Count("converged_cases", 1)
			// steady state: every due round keeps being produced by all (gaps are C02's subject; here: nobody
			// falls behind again). Four periods, then a bounded number of 1 s steps to be level with the clock.
			atomic.StoreInt32(&fineSteps, 0)
			for i := 0; i < 4; i++ {
				nt.Step(nt.cfg.Period)
			}
			level := false
			for s := 0; s < 2*nt.cfg.N+10 && !level; s++ {
				if w, _ := behind(); w == 0 {
					level = true
					break
				}
				nt.Step(q)
			}
			if !level {
				time.Sleep(time.Second)
				for s := 0; s < 2*nt.cfg.N+10 && !level; s++ {
					nt.Step(q)
					time.Sleep(200 * time.Millisecond)
					nt.Settle()
					if w, _ := behind(); w == 0 {
						level = true
					}
				}
				run.Count("steady_state_rechecks_with_real_time", 1)
			}
			if !level {
				_, who := behind()
				run.Violation(fmt.Sprintf("C05/due-round-not-produced-after-convergence/%s/%s", kinds, nt.cfg.Backend),
					fmt.Sprintf("4 periods and %d logical seconds after convergence: %v", 2*(2*nt.cfg.N+10), who), info)
				return
			}
			// restarted nodes contribute again: they emitted a partial for one of the last rounds
			emu.Lock()
			defer emu.Unlock()
			for _, n := range hs {
				if restarted[n.pos] && nt.cfg.N > 1 { // a single-node group has nobody to send partials to
					run.Count("restarted_nodes_checked", 1)
					if lastEmit[n.pos]+3 < nt.Head(n) {
						run.Violation(fmt.Sprintf("C05/restarted-node-does-not-contribute/%s", nt.cfg.Backend),
							fmt.Sprintf("node %d restarted, head %d, last partial it emitted was for round %d", n.pos, nt.Head(n), lastEmit[n.pos]), info)
					}
				}
			}
		},
	})
	key := ""
	if nontrivial {
		key = sc.key()
	}
	run.Eval(key)
	run.Seen("fault_kinds", kinds)
	_ = common.Beacon{}
}

func TestVF_C05(t *testing.T) {
	run := vfNewRun("C05", "beaconnet-faults")
	defer run.Finish()
	n := vfPick(40, 400)
	lo, hi := 0, n
	if ri, ok := vfReplayCase(); ok {
		lo, hi = ri, ri+1
	}
	var wg sync.WaitGroup
	sem := make(chan struct{}, 8)
	for idx := lo; idx < hi; idx++ {
		wg.Add(1)
		sem <- struct{}{}
		go func(idx int) {
			defer wg.Done()
			defer func() { <-sem }()
			sc := c05Gen(idx)
			if idx < 3 {
				run.Sample(sc)
			}
			c05Run(run, sc)
		}(idx)
	}
	wg.Wait()
}
