package beacon

// C16 (ticker clause) — the round ticker announces, for every tick, the round that is current at the announced
// time: round = (time-genesis)/period + 1 (harness arithmetic), whatever the clock did between two ticks
// (sub-period steps, exact periods, jumps of many periods as after a paused process or VM).

import (
	"fmt"
	"sync"
	"testing"
	"time"

	clock "github.com/jonboulle/clockwork"
)

func c16RefRound(t, genesis int64, period time.Duration) uint64 {
	if t < genesis {
		return 0
	}
	return uint64((t-genesis)/int64(period/time.Second)) + 1
}

func c16TickerCase(run *vfRun, idx int) {
	rng := vfNewRng(vfCaseSeed(vfSeed(), "C16t", idx))
	period := time.Duration([]int{1, 2, 3, 5, 7, 30, 60}[rng.Intn(7)]) * time.Second
	ps := int64(period / time.Second)
	start := int64(1_700_000_000 + rng.Intn(1_000_000))
	var genesis int64
	switch rng.Intn(3) {
	case 0:
		genesis = start + int64(rng.Range(1, 3))*ps // not started yet
	case 1:
		genesis = start - int64(rng.Range(0, 50))*ps - int64(rng.Intn(int(ps)))
	default:
		genesis = start - int64(rng.Range(1000, 100000))*ps - int64(rng.Intn(int(ps)))
	}
	clk := clock.NewFakeClockAt(time.Unix(start, 0))
	tk := newTicker(clk, period, genesis)
	defer tk.Stop()
	ch := tk.ChannelAt(0)
	info := map[string]any{"case_index": idx, "period_s": ps, "genesis": genesis, "start": start}
	var steps []string
	var lastRound uint64
	ticks, jumps := 0, 0
	drain := func(wait bool) {
		// positive signal: a tick shows up; otherwise a short bounded wait (a tick that never comes is not a verdict here)
		deadline := 40
		if !wait {
			deadline = 3
		}
		for i := 0; i < deadline; i++ {
			select {
			case ri, ok := <-ch:
				if !ok {
					return
				}
				ticks++
				run.Count("ticks_observed", 1)
				now := clk.Now().Unix()
				ref := c16RefRound(ri.time, genesis, period)
				if ri.time >= genesis && ri.round != ref { // before genesis the statement fixes nothing
					info["steps"] = steps
					run.Violation("C16/ticker-announces-round-not-current-at-its-time",
						fmt.Sprintf("period %ds genesis %d: tick announces round %d at time %d, the round current at that time is %d (clock steps so far: %v)", ps, genesis, ri.round, ri.time, ref, steps), info)
					return
				}
				if ri.time > now {
					info["steps"] = steps
					run.Violation("C16/ticker-announces-future-time", fmt.Sprintf("tick time %d, clock %d", ri.time, now), info)
					return
				}
				if ri.round < lastRound {
					info["steps"] = steps
					run.Violation("C16/ticker-round-goes-back", fmt.Sprintf("round %d after %d", ri.round, lastRound), info)
					return
				}
				lastRound = ri.round
				i = 0
				if !wait {
					deadline = 3
				}
			default:
				time.Sleep(time.Millisecond)
			}
		}
	}
	// let the ticker's goroutine arm its first sleep before time moves
	clk.BlockUntil(1)
	for s := 0; s < rng.Range(8, 20); s++ {
		var d time.Duration
		switch rng.Intn(5) {
		case 0:
			d = time.Duration(rng.Range(1, int(ps))) * time.Second / 2 // sub-period
			if d <= 0 {
				d = 500 * time.Millisecond
			}
		case 1, 2:
			d = period
		case 3:
			d = time.Duration(rng.Range(2, 5)) * period // a few rounds missed
			jumps++
		default:
			d = time.Duration(rng.Range(6, 60))*period + time.Duration(rng.Intn(int(ps)))*time.Second // paused process
			jumps++
		}
		steps = append(steps, d.String())
		clk.Advance(d)
		drain(true)
		if got, want := tk.CurrentRound(), c16RefRound(clk.Now().Unix(), genesis, period); clk.Now().Unix() >= genesis && got != want {
			info["steps"] = steps
			run.Violation("C16/ticker-current-round-differs-from-reference", fmt.Sprintf("CurrentRound()=%d, reference %d at %d", got, want, clk.Now().Unix()), info)
			return
		}
	}
	key := ""
	if ticks >= 2 && jumps >= 1 {
		key = fmt.Sprintf("%d/%d/%v", ps, genesis-start, steps)
	}
	run.Eval(key)
	if idx == 0 {
		run.Sample(map[string]any{"period_s": ps, "genesis_minus_start": genesis - start, "clock_steps": steps, "ticks": ticks})
	}
}

func TestVF_C16_Ticker(t *testing.T) {
	run := vfNewRun("C16", "ticker")
	defer run.Finish()
	n := vfPick(300, 6000)
	lo, hi := 0, n
	if ri, ok := vfReplayCase(); ok {
		lo, hi = ri, ri+1
	}
	var wg sync.WaitGroup
	sem := make(chan struct{}, 16)
	for idx := lo; idx < hi; idx++ {
		wg.Add(1)
		sem <- struct{}{}
		go func(idx int) {
			defer wg.Done()
			defer func() { <-sem }()
			c16TickerCase(run, idx)
		}(idx)
	}
	wg.Wait()
}
