package beacon

// C02 (engine B) — concurrent Puts at the CallbackStore boundary are linearizable against a sequential
// append-only chain, and the base store below never sees a gap. Writers play the aggregation path and
// sync paths racing on one node: valid next rounds, duplicates, stale rounds, future rounds, same round
// with different bytes.

import (
	"bytes"
	"context"
	"errors"
	"fmt"
	"sync"
	"sync/atomic"
	"testing"
	"time"

	"github.com/anishathalye/porcupine"

	"github.com/drand/drand/v2/common"
	"github.com/drand/drand/v2/internal/chain"
)

type c02In struct {
	Round uint64
	Sig   string
	Prev  string
}
type c02Out struct {
	OK      bool
	Already bool
	Err     string
}
type c02State struct {
	Round uint64
	Sig   string
}

func c02Model(chained bool) porcupine.Model {
	return porcupine.Model{
		Init: func() any { return c02State{Round: 0, Sig: "genesis-seed-0000000000000000000"} },
		Step: func(st, in, out any) (bool, any) {
			s, i, o := st.(c02State), in.(c02In), out.(c02Out)
			switch {
			case i.Round == s.Round+1 && (!chained || i.Prev == s.Sig):
				// the next round with the right link: must be stored
				return o.OK, c02State{Round: i.Round, Sig: i.Sig}
			case i.Round == s.Round:
				// same round again: never a success (identical => AlreadyStored or, on unchained schemes where the
				// stored object lost its previous signature, another error; different bytes => error)
				return !o.OK, s
			default:
				// stale, future, or wrong link: refused, state unchanged
				return !o.OK, s
			}
		},
		Equal:             func(a, b any) bool { return a.(c02State) == b.(c02State) },
		DescribeOperation: func(in, out any) string { return fmt.Sprintf("Put(r=%d sig=%s prev=%s)->%+v", in.(c02In).Round, in.(c02In).Sig, in.(c02In).Prev, out) },
	}
}

// c02GapTap sits at the base store: whatever the layers above let through must extend the chain by one.
type c02GapTap struct {
	chain.Store
	mu    sync.Mutex
	head  uint64
	sig   []byte
	onBad func(string)
}

func (t *c02GapTap) Put(ctx context.Context, b *common.Beacon) error {
	t.mu.Lock()
	if b.Round != 0 && b.Round != t.head+1 {
		t.onBad(fmt.Sprintf("base store received round %d while its head is %d", b.Round, t.head))
	}
	t.mu.Unlock()
	err := t.Store.Put(ctx, b)
	if err == nil {
		t.mu.Lock()
		if b.Round > t.head {
			t.head, t.sig = b.Round, b.Signature
		}
		t.mu.Unlock()
	}
	return err
}

func c02PutsCase(run *vfRun, idx int) {
	rng := vfNewRng(vfCaseSeed(vfSeed(), "C02p", idx))
	backend := []string{"memdb", "bolt-trimmed", "bolt-untrimmed"}[idx%3]
	chained := (idx/3)%2 == 0
	info := map[string]any{"case_index": idx, "backend": backend, "chained": chained}
	st, err := vfsNewStackWith(backend, chained, 2000, 0, func(base chain.Store) chain.Store {
		return &c02GapTap{Store: base, onBad: func(d string) {
			run.Violation(fmt.Sprintf("C02/gap-reaches-base-store/%s/%s", backend, map[bool]string{true: "chained", false: "unchained"}[chained]), d, info)
		}}
	})
	if err != nil {
		run.Inconclusive(err.Error())
		return
	}
	defer st.Close()
	sigOf := func(r uint64, variant int) []byte { return []byte(fmt.Sprintf("sig-%d-v%d", r, variant)) }
	var clock int64
	var hmu sync.Mutex
	var hist []porcupine.Operation
	writers := rng.Range(2, 4)
	var known sync.Map // round -> signature accepted (so that followers can link to it)
	known.Store(uint64(0), []byte("genesis-seed-0000000000000000000"))
	var top uint64
	var wg sync.WaitGroup
	for w := 0; w < writers; w++ {
		seed := rng.U64()
		wg.Add(1)
		go func(w int) {
			defer wg.Done()
			r := vfNewRng(seed)
			for k := 0; k < 10; k++ {
				cur := atomic.LoadUint64(&top)
				var round uint64
				variant := 1
				switch x := r.Intn(10); {
				case x < 5:
					round = cur + 1
				case x < 6:
					round = cur + 2 // future
				case x < 7:
					round = cur + uint64(r.Range(3, 6))
				case x < 8:
					round = cur // duplicate of the head
				case x < 9:
					round = cur
					variant = 2 // same round, different bytes
				default:
					if cur > 1 {
						round = cur - 1 // stale
					} else {
						round = cur + 1
					}
				}
				if round == 0 {
					round = 1
				}
				var prev []byte
				if p, ok := known.Load(round - 1); ok {
					prev = p.([]byte)
				} else {
					prev = sigOf(round-1, 1)
				}
				if r.Chance(8) {
					prev = []byte("wrong-link")
				}
				b := &common.Beacon{Round: round, Signature: sigOf(round, variant), PreviousSig: append([]byte(nil), prev...)}
				in := c02In{Round: round, Sig: string(b.Signature), Prev: string(prev)}
				t0 := atomic.AddInt64(&clock, 1)
				err := st.cb.Put(context.Background(), b)
				t1 := atomic.AddInt64(&clock, 1)
				out := c02Out{OK: err == nil}
				if err != nil {
					out.Already = errors.Is(err, ErrBeaconAlreadyStored)
					out.Err = err.Error()
					if len(out.Err) > 40 {
						out.Err = out.Err[:40]
					}
				} else {
					known.Store(round, []byte(b.Signature))
					for {
						c := atomic.LoadUint64(&top)
						if round <= c || atomic.CompareAndSwapUint64(&top, c, round) {
							break
						}
					}
				}
				hmu.Lock()
				hist = append(hist, porcupine.Operation{ClientId: w, Input: in, Output: out, Call: t0, Return: t1})
				hmu.Unlock()
			}
		}(w)
	}
	wg.Wait()
	run.Count("put_ops", int64(len(hist)))
	okPuts := 0
	for _, o := range hist {
		if o.Output.(c02Out).OK {
			okPuts++
		}
	}
	run.Count("put_ops_accepted", int64(okPuts))
	res, _ := porcupine.CheckOperationsVerbose(c02Model(chained), hist, 60*time.Second)
	switch res {
	case porcupine.Unknown:
		run.Inconclusive("porcupine timeout")
		return
	case porcupine.Illegal:
		var hs []string
		for _, o := range hist {
			hs = append(hs, fmt.Sprintf("w%d[%d,%d] %s", o.ClientId, o.Call, o.Return, c02Model(chained).DescribeOperation(o.Input, o.Output)))
		}
		info["history"] = hs
		run.Violation(fmt.Sprintf("C02/put-history-not-linearizable/%s/%s", backend, map[bool]string{true: "chained", false: "unchained"}[chained]),
			"the recorded Put history has no linearization as an append-only chain (round = last+1, link, write-once)", info)
	}
	// the persisted result is the chain of accepted puts
	bs, _ := vfbScan(st.base)
	for i, b := range bs {
		if uint64(i) != b.Round {
			run.Violation("C02/persisted-chain-has-gap/"+backend, fmt.Sprintf("rounds %v", vfbRoundsOf(bs)), info)
			break
		}
		if v, ok := known.Load(b.Round); ok && b.Round > 0 && !bytes.Equal(v.([]byte), b.Signature) {
			run.Violation("C02/persisted-differs-from-what-was-put/"+backend, fmt.Sprintf("round %d", b.Round), info)
		}
	}
	key := ""
	if okPuts >= 3 && okPuts < len(hist) {
		key = fmt.Sprintf("%s/%v/%d/%d/%d", backend, chained, writers, okPuts, idx)
	}
	run.Eval(key)
	if idx == 0 {
		run.Sample(map[string]any{"backend": backend, "chained": chained, "writers": writers, "ops": len(hist), "accepted": okPuts})
	}
}

func TestVF_C02_Puts(t *testing.T) {
	run := vfNewRun("C02", "streams-puts")
	defer run.Finish()
	n := vfPick(150, 3000)
	lo, hi := 0, n
	if ri, ok := vfReplayCase(); ok {
		lo, hi = ri, ri+1
	}
	var wg sync.WaitGroup
	sem := make(chan struct{}, 12)
	for idx := lo; idx < hi; idx++ {
		wg.Add(1)
		sem <- struct{}{}
		go func(idx int) {
			defer wg.Done()
			defer func() { <-sem }()
			c02PutsCase(run, idx)
		}(idx)
	}
	wg.Wait()
}

// The in-memory back-end "keeps only the newest window" also under the writes a repair makes: ReSync puts old
// rounds straight into the base store (no append store in between). The ring must still hold the newest rounds,
// contiguous.
func TestVF_C02_MemdbWindow(t *testing.T) {
	run := vfNewRun("C02", "streams-memdb-window")
	defer run.Finish()
	n := vfPick(60, 600)
	for idx := 0; idx < n; idx++ {
		rng := vfNewRng(vfCaseSeed(vfSeed(), "C02w", idx))
		capN := []int{10, 12, 16, 25}[rng.Intn(4)]
		st, err := vfsNewStack("memdb", rng.Bool(), capN, uint64(capN+rng.Range(0, 30)))
		if err != nil {
			run.Inconclusive(err.Error())
			continue
		}
		info := map[string]any{"case_index": idx, "cap": capN, "head": st.head}
		var ops []string
		for k := 0; k < rng.Range(1, 6); k++ {
			switch rng.Intn(3) {
			case 0: // a repair re-writes a round older than the window (or inside it)
				r := uint64(1 + rng.Intn(int(st.head)))
				_ = st.base.Put(context.Background(), &common.Beacon{Round: r, Signature: vfsSig(r)})
				ops = append(ops, fmt.Sprintf("raw-put(%d)", r))
			case 1:
				if _, err := st.Append(); err != nil {
					run.Note("append: " + err.Error())
				}
				ops = append(ops, "append")
			default:
				r := st.head - uint64(rng.Intn(capN))
				_ = st.base.Put(context.Background(), &common.Beacon{Round: r, Signature: vfsSig(r)})
				ops = append(ops, fmt.Sprintf("raw-put(%d)", r))
			}
			bs, _ := vfbScan(st.base)
			rounds := vfbRoundsOf(bs)
			run.Count("window_scans", 1)
			// expected: the newest min(cap, head+1) rounds
			lo := uint64(0)
			if st.head+1 > uint64(capN) {
				lo = st.head + 1 - uint64(capN)
			}
			okWin := len(rounds) > 0 && rounds[len(rounds)-1] == st.head
			for i := range rounds {
				if i > 0 && rounds[i] != rounds[i-1]+1 {
					okWin = false
				}
			}
			if okWin && rounds[0] > lo+1 { // may hold one round less transiently, never more than the window start + 1
				okWin = false
			}
			if !okWin {
				info["ops"] = ops
				run.Violation("C02/memdb-window-not-the-newest-contiguous-rounds", fmt.Sprintf("ring of %d after %v holds %v (head %d)", capN, ops, rounds, st.head), info)
				break
			}
		}
		st.Close()
		run.Eval(fmt.Sprintf("%d/%v/%d", capN, ops, idx))
		if idx == 0 {
			run.Sample(map[string]any{"cap": capN, "ops": ops})
		}
	}
}
