package beacon

// C01 (every stored / peer-served beacon verifies) and C02 (one gap-free append-only chain, no
// disagreement): online oracles at the base-store tap and at the sync wire, plus store scans at the end.

import (
	"time"
	"bytes"
	"context"
	"fmt"
	"sync"
	"testing"

	"github.com/drand/drand/v2/common"
	proto "github.com/drand/drand/v2/protobuf/drand"
)

type vfbChainOracle struct {
	nt     *vfbNet
	sc     vfbScenario
	mu     sync.Mutex
	shadow map[int]map[uint64]*common.Beacon // node -> round -> what the base store holds
	heads  map[int]uint64
	global map[uint64]*common.Beacon // first writer of each round, network-wide
	c01    bool
	c02    bool
	info   func() map[string]any
	pending map[int]*common.Beacon // node -> Put in flight at its base store (base Puts of one node are serialised by the append store)
}

func newChainOracle(nt *vfbNet, sc vfbScenario, c01, c02 bool) *vfbChainOracle {
	o := &vfbChainOracle{nt: nt, sc: sc, shadow: map[int]map[uint64]*common.Beacon{}, heads: map[int]uint64{}, global: map[uint64]*common.Beacon{}, c01: c01, c02: c02}
	o.info = func() map[string]any { return map[string]any{"case_index": sc.Index, "scenario": sc} }
	return o
}

func (o *vfbChainOracle) resetNode(pos int) { // memdb loses its content on restart
	o.mu.Lock()
	defer o.mu.Unlock()
	delete(o.shadow, pos)
	delete(o.heads, pos)
}

func (o *vfbChainOracle) onPut(n *vfbNode, b *common.Beacon, src string, seq int64) {
	run, be := o.nt.run, o.nt.backendOf(n)
	run.Count("puts."+src, 1)
	if o.c01 && b.Round > 0 {
		if err := o.nt.verifyBeacon(b); err != nil {
			run.Violation(fmt.Sprintf("C01/unverifiable-beacon-stored/%s/%s", src, be),
				fmt.Sprintf("node %d stored round %d (via %s) that does not verify under the group key: %v", n.pos, b.Round, src, err), o.info())
		} else {
			run.Count("stored_beacons_verified", 1)
		}
	}
	if !o.c02 {
		return
	}
	o.mu.Lock()
	defer o.mu.Unlock()
	sh := o.shadow[n.pos]
	if sh == nil {
		sh = map[uint64]*common.Beacon{}
		o.shadow[n.pos] = sh
	}
	if old, ok := sh[b.Round]; ok {
		if !bytes.Equal(old.Signature, b.Signature) || (o.nt.chained() && b.Round > 0 && !bytes.Equal(old.PreviousSig, b.PreviousSig)) {
			run.Violation(fmt.Sprintf("C02/round-rewritten-with-different-value/%s/%s", src, be),
				fmt.Sprintf("node %d: round %d replaced (via %s)", n.pos, b.Round, src), o.info())
		} else {
			run.Count("identical_reputs", 1) // e.g. the genesis beacon on every start
		}
		return
	}
	if b.Round > 0 {
		head, has := o.heads[n.pos]
		if src == "bootstrap" && be == "memdb" {
			has = false // the ring of a (re)started node is seeded with a verified recent beacon
		}
		if !has && be != "memdb" {
			run.Violation("C02/put-before-genesis/"+be, fmt.Sprintf("node %d: round %d stored into an empty store", n.pos, b.Round), o.info())
		}
		if has && b.Round != head+1 {
			run.Violation(fmt.Sprintf("C02/gap-or-out-of-order-put/%s/%s", src, be),
				fmt.Sprintf("node %d: round %d stored while head is %d (via %s)", n.pos, b.Round, head, src), o.info())
		}
		if o.nt.chained() {
			if prev, ok := sh[b.Round-1]; ok && !bytes.Equal(prev.Signature, b.PreviousSig) {
				run.Violation(fmt.Sprintf("C02/broken-link/%s/%s", src, be),
					fmt.Sprintf("node %d: round %d carries a previous signature different from stored round %d", n.pos, b.Round, b.Round-1), o.info())
			}
		}
		if g, ok := o.global[b.Round]; ok {
			if !bytes.Equal(g.Signature, b.Signature) {
				run.Violation("C02/honest-nodes-disagree/"+be, fmt.Sprintf("round %d: node %d stores bytes different from another honest node", b.Round, n.pos), o.info())
			} else if !bytes.Equal(g.PreviousSig, b.PreviousSig) {
				run.Violation("C02/honest-nodes-disagree-on-previous-signature/"+be,
					fmt.Sprintf("round %d: node %d hands its store previous signature %x…, another honest node %x… (via %s)", b.Round, n.pos, vfHex(b.PreviousSig), vfHex(g.PreviousSig), src), o.info())
			}
		} else {
			o.global[b.Round] = b
		}
	}
	// the shadow is committed when the base store has answered without error (onPutRet): a Put refused by a
	// store that is being closed (node stopping) must not count as stored
	if o.pending == nil {
		o.pending = map[int]*common.Beacon{}
	}
	o.pending[n.pos] = b
}

func (o *vfbChainOracle) onPutRet(n *vfbNode, b *common.Beacon, src string, err error) {
	if !o.c02 {
		return
	}
	o.mu.Lock()
	defer o.mu.Unlock()
	p := o.pending[n.pos]
	delete(o.pending, n.pos)
	if err != nil || p == nil || p.Round != b.Round {
		if err != nil {
			o.nt.run.Count("base_puts_failed", 1)
		}
		return
	}
	sh := o.shadow[n.pos]
	if sh == nil {
		sh = map[uint64]*common.Beacon{}
		o.shadow[n.pos] = sh
	}
	sh[p.Round] = p
	if _, has := o.heads[n.pos]; !has || p.Round >= o.heads[n.pos] {
		o.heads[n.pos] = p.Round
	}
}

func (o *vfbChainOracle) onSyncSend(server *vfbNode, p *proto.BeaconPacket) {
	if !o.c01 {
		return
	}
	b := &common.Beacon{Round: p.GetRound(), Signature: p.GetSignature(), PreviousSig: p.GetPreviousSignature()}
	if !o.nt.chained() {
		b.PreviousSig = nil
	}
	if b.Round == 0 {
		return
	}
	if err := o.nt.verifyBeacon(b); err != nil {
		o.nt.run.Violation("C01/unverifiable-beacon-served/peer-sync/"+o.nt.backendOf(server),
			fmt.Sprintf("node %d served round %d on SyncChain that does not verify: %v", server.pos, b.Round, err), o.info())
	} else {
		o.nt.run.Count("served_beacons_verified", 1)
	}
}

// finalScan: stop every node, re-open its store with fresh objects and check the persisted chain.
func (o *vfbChainOracle) finalScan() {
	nt, run := o.nt, o.nt.run
	byRound := map[uint64][]byte{}
	byRoundPrev := map[uint64][]byte{}
	for _, n := range nt.nodes {
		if !n.honest || n.tap == nil {
			continue
		}
		be := nt.backendOf(n)
		var bs []*common.Beacon
		var err error
		if be == "memdb" {
			if !n.running {
				continue
			}
			bs, err = vfbScanStable(n.tap.Store)
		} else {
			nt.StopNode(n)
			st, e := nt.openStore(n)
			if e != nil {
				run.Violation("C02/store-does-not-reopen/"+be, e.Error(), o.info())
				continue
			}
			bs, err = vfbScan(st)
			st.Close()
		}
		if err != nil {
			run.Note("scan error: " + err.Error())
		}
		run.Count("final_scans", 1)
		run.Count("final_scan_beacons", int64(len(bs)))
		if len(bs) == 0 {
			continue
		}
		for i, b := range bs {
			if o.c02 {
				if i > 0 && b.Round != bs[i-1].Round+1 {
					if !(be == "memdb" && bs[i-1].Round == 0) { // ring: genesis may precede the live window
						run.Violation("C02/persisted-chain-has-gap/"+be, fmt.Sprintf("node %d: rounds %v", n.pos, vfbRoundsOf(bs)), o.info())
						break
					}
				}
				if i == 0 && b.Round != 0 && be != "memdb" {
					run.Violation("C02/persisted-chain-does-not-start-at-genesis/"+be, fmt.Sprintf("node %d: first round %d", n.pos, b.Round), o.info())
				}
				if nt.chained() && i > 0 && b.Round == bs[i-1].Round+1 && !bytes.Equal(b.PreviousSig, bs[i-1].Signature) {
					run.Violation("C02/persisted-broken-link/"+be, fmt.Sprintf("node %d: round %d", n.pos, b.Round), o.info())
				}
				if prev, ok := byRound[b.Round]; ok && !bytes.Equal(prev, b.Signature) {
					run.Violation("C02/honest-nodes-disagree-persisted/"+be, fmt.Sprintf("round %d", b.Round), o.info())
				}
				byRound[b.Round] = b.Signature
				// stores that keep the whole beacon must agree on all of it (trimmed bolt reconstructs the previous signature)
				if be != "bolt-trimmed" && b.Round > 0 {
					if pp, ok := byRoundPrev[b.Round]; ok && !bytes.Equal(pp, b.PreviousSig) {
						run.Violation("C02/honest-nodes-disagree-on-previous-signature-persisted/"+be, fmt.Sprintf("round %d", b.Round), o.info())
					}
					byRoundPrev[b.Round] = b.PreviousSig
				}
				o.mu.Lock()
				if sh, ok := o.shadow[n.pos][b.Round]; ok && !bytes.Equal(sh.Signature, b.Signature) {
					run.Violation("C02/persisted-differs-from-what-was-put/"+be, fmt.Sprintf("node %d round %d", n.pos, b.Round), o.info())
				}
				o.mu.Unlock()
			}
			if o.c01 && b.Round > 0 {
				x := *b
				if !nt.chained() {
					x.PreviousSig = nil
				}
				if err := nt.verifyBeacon(&x); err != nil {
					run.Violation("C01/unverifiable-beacon-persisted/"+be, fmt.Sprintf("node %d round %d: %v", n.pos, b.Round, err), o.info())
				}
			}
		}
		if o.c02 && be != "memdb" {
			// a Put that committed while the node was being stopped reports its return a moment after the store could be
			// re-opened: wait for that report (positive signal) before comparing; a Put still pending for exactly the
			// persisted head is a write whose answer nobody got, which the statement allows either way
			persisted := bs[len(bs)-1].Round
			var head uint64
			inFlight := false
			for i := 0; i < 300; i++ {
				o.mu.Lock()
				head = o.heads[n.pos]
				pend := o.pending[n.pos]
				o.mu.Unlock()
				inFlight = pend != nil && pend.Round == persisted
				if persisted == head {
					break
				}
				time.Sleep(10 * time.Millisecond)
			}
			if persisted != head && inFlight {
				run.Count("puts_in_flight_at_shutdown_found_persisted", 1)
			} else if persisted != head {
				run.Violation("C02/persisted-head-differs-from-put-head/"+be, fmt.Sprintf("node %d: persisted head %d, last put %d", n.pos, persisted, head), o.info())
			}
		}
	}
}

func vfbChainCases(t *testing.T, prop string, c01, c02 bool, quick, thorough int) {
	run := vfNewRun(prop, "beaconnet")
	defer run.Finish()
	n := vfPick(quick, thorough)
	lo, hi := 0, n
	if ri, ok := vfReplayCase(); ok {
		lo, hi = ri, ri+1
	}
	var wg sync.WaitGroup
	sem := make(chan struct{}, 8)
	for idx := lo; idx < hi; idx++ {
		wg.Add(1)
		sem <- struct{}{}
		go func(idx int) {
			defer wg.Done()
			defer func() { <-sem }()
			sc := vfbGenScenario("W1", idx, 2)
			var orc *vfbChainOracle
			var maxHead uint64
			vfbRunScenario(run, sc, vfbScenarioHooks{
				afterStart: func(nt *vfbNet, adv *vfbAdversary) {
					orc = newChainOracle(nt, sc, c01, c02)
					prevPut := nt.onPut
					nt.onOpen = func(n *vfbNode) {
						if nt.backendOf(n) == "memdb" {
							orc.resetNode(n.pos) // a ring starts empty on every start
						}
					}
					nt.onPut = func(n *vfbNode, b *common.Beacon, src string, seq int64) {
						prevPut(n, b, src, seq)
						orc.onPut(n, b, src, seq)
					}
					nt.onSyncSend = orc.onSyncSend
					nt.onPutRet = orc.onPutRet
				},
				atEnd: func(nt *vfbNet, adv *vfbAdversary) {
					// a few healed rounds so that stopped / partitioned nodes sync (the sync path must be exercised)
					for i := 0; i < 6; i++ {
						nt.Step(nt.cfg.Period)
					}
					for _, n := range nt.honestRunning() {
						if h := nt.Head(n); h > maxHead {
							maxHead = h
						}
					}
					orc.finalScan()
				},
			})
			key := ""
			if maxHead >= 3 {
				key = sc.key()
			}
			run.Eval(key)
			run.Count("rounds_reached", int64(maxHead))
			if idx < 2 {
				run.Sample(sc)
			}
		}(idx)
	}
	wg.Wait()
	_ = context.Background
}

func TestVF_C01_Net(t *testing.T) { vfbChainCases(t, "C01", true, false, 24, 300) }
func TestVF_C02_Net(t *testing.T) { vfbChainCases(t, "C02", false, true, 24, 300) }
