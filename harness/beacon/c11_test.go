package beacon

// C11 — a stream delivers every round once, in order, from the requested round, also while beacons
// are being appended during its catch-up phase. Engine B: the real callbackStore stack + the real
// SyncChain, with a gated Send and a parking hook at the scan→live hand-over, so interleavings are chosen.

import (
	"bytes"
	"context"
	"errors"
	"fmt"
	"os"
	"runtime"
	"strings"
	"sync"
	"sync/atomic"
	"testing"
	"time"

	"github.com/drand/drand/v2/common"
	"github.com/drand/drand/v2/crypto"
	"github.com/drand/drand/v2/internal/chain"
	"github.com/drand/drand/v2/internal/chain/boltdb"
	"github.com/drand/drand/v2/internal/chain/memdb"
	proto "github.com/drand/drand/v2/protobuf/drand"
)

// ---------------------------------------------------------------- a store stack as newChainStore builds it

type vfsStack struct {
	backend string
	chained bool
	dir     string
	base    chain.Store
	cb      CallbackStore
	head    uint64
	last    []byte
	mu      sync.Mutex

	appenderMu sync.Mutex
	appender   string
}

func vfsSig(r uint64) []byte { return []byte(fmt.Sprintf("signature-of-round-%08d", r)) }

func vfsNewStack(backend string, chained bool, memCap int, prefill uint64) (*vfsStack, error) {
	return vfsNewStackWith(backend, chained, memCap, prefill, nil)
}

// vfsNewStackWith: wrap (optional) decorates the base store before the checking stores are stacked on it.
func vfsNewStackWith(backend string, chained bool, memCap int, prefill uint64, wrap func(chain.Store) chain.Store) (*vfsStack, error) {
	st := &vfsStack{backend: backend, chained: chained}
	ctx := context.Background()
	if chained {
		ctx = chain.SetPreviousRequiredOnContext(ctx)
	}
	switch backend {
	case "memdb":
		st.base = memdb.NewStore(memCap)
	default:
		basedir := os.TempDir()
		if fi, err := os.Stat("/dev/shm"); err == nil && fi.IsDir() {
			basedir = "/dev/shm"
		}
		d, err := os.MkdirTemp(basedir, "vfs-")
		if err != nil {
			return nil, err
		}
		st.dir = d
		if backend == "bolt-untrimmed" {
			ctx = boltdb.IsATest(ctx)
		}
		b, err := boltdb.NewBoltStore(ctx, vfbNewLogger("s"), d)
		if err != nil {
			return nil, err
		}
		st.base = b
	}
	if wrap != nil {
		st.base = wrap(st.base)
	}
	seed := []byte("genesis-seed-0000000000000000000")
	if err := st.base.Put(ctx, chain.GenesisBeacon(seed)); err != nil {
		return nil, err
	}
	st.last = seed
	// pre-fill directly at the base store (fast), then stack scheme/append/callback stores on top
	for r := uint64(1); r <= prefill; r++ {
		b := &common.Beacon{Round: r, Signature: vfsSig(r)}
		if chained {
			b.PreviousSig = st.last
		}
		if err := st.base.Put(ctx, b); err != nil {
			return nil, err
		}
		st.last, st.head = b.Signature, r
	}
	schName := crypto.UnchainedSchemeID
	if chained {
		schName = crypto.DefaultSchemeID
	}
	sch, _ := crypto.SchemeFromName(schName)
	ss, err := NewSchemeStore(ctx, st.base, sch)
	if err != nil {
		return nil, err
	}
	as, err := newAppendStore(ctx, ss)
	if err != nil {
		return nil, err
	}
	st.cb = NewCallbackStore(vfbNewLogger("cb"), as)
	return st, nil
}

// Append stores the next round through the full stack (what aggregation / sync do).
func (st *vfsStack) Append() (uint64, error) {
	st.mu.Lock()
	defer st.mu.Unlock()
	r := st.head + 1
	// (the aggregator hands over the previous signature its partials were sent with on every scheme; on unchained
	// ones the scheme store drops it before the beacon is written)
	b := &common.Beacon{Round: r, Signature: vfsSig(r), PreviousSig: append([]byte(nil), st.last...)}
	if err := st.cb.Put(context.Background(), b); err != nil {
		return r, err
	}
	st.head, st.last = r, b.Signature
	return r, nil
}

func (st *vfsStack) Close() {
	done := make(chan struct{})
	go func() { _ = st.cb.Close(); close(done) }()
	select {
	case <-done:
	case <-time.After(2 * time.Second): // a wedged store must not wedge the harness
	}
	if st.dir != "" {
		os.RemoveAll(st.dir)
	}
}

// ---------------------------------------------------------------- hand-over parking (hook H1, process-global)

var (
	vfsParkMu   sync.Mutex
	vfsParks    = map[string]chan struct{}{} // SyncChain id -> release channel
	vfsParked   = map[string]chan struct{}{} // SyncChain id -> closed when the stream reached the hand-over
)

func vfsHandoverHook(name string, args ...any) bool {
	if name != "syncchain.handover" || len(args) == 0 {
		return false
	}
	id, _ := args[0].(string)
	vfsParkMu.Lock()
	rel, ok := vfsParks[id]
	reached := vfsParked[id]
	vfsParkMu.Unlock()
	if !ok {
		return true
	}
	close(reached)
	select {
	case <-rel:
	case <-time.After(5 * time.Second):
	}
	return true
}

// ---------------------------------------------------------------- a consumer stream

type vfsConsumer struct {
	id       string
	addr     string
	from     uint64
	ctx      context.Context
	cancel   context.CancelFunc
	mu       sync.Mutex
	got      []*proto.BeaconPacket
	sends    int64
	gateAt   int           // park inside the k-th Send (1-based), 0 = never
	gate     chan struct{} // closed to release
	atGate   chan struct{} // closed when parked
	gateOnce sync.Once
	done     chan error
	preReg   int64 // appends that started before this stream's live callback was registered
	notToken string // registration token of the stream this one replaces (same id)
}

func vfsAddr(i int) string { return fmt.Sprintf("44.%d.%d.%d", (i>>16)&255, (i>>8)&255, i&255) }

var vfsAddrCounter int64

func vfsNewConsumer(from uint64, gateAt int) *vfsConsumer {
	i := int(atomic.AddInt64(&vfsAddrCounter, 1))
	addr := vfsAddr(i) + ":30000"
	ctx, cancel := context.WithCancel(vfbPeerCtx(context.Background(), addr))
	return &vfsConsumer{addr: addr, id: "SyncChain-" + addr, from: from, ctx: ctx, cancel: cancel, gateAt: gateAt,
		gate: make(chan struct{}), atGate: make(chan struct{}), done: make(chan error, 1)}
}

func (c *vfsConsumer) Context() context.Context { return c.ctx }
func (c *vfsConsumer) Send(b *proto.BeaconPacket) error {
	n := int(atomic.AddInt64(&c.sends, 1))
	if c.gateAt > 0 && n == c.gateAt {
		c.gateOnce.Do(func() { close(c.atGate) })
		select {
		case <-c.gate:
		case <-c.ctx.Done():
			return c.ctx.Err()
		}
	}
	cp := &proto.BeaconPacket{Round: b.GetRound(), Signature: append([]byte(nil), b.GetSignature()...), PreviousSignature: append([]byte(nil), b.GetPreviousSignature()...)}
	c.mu.Lock()
	c.got = append(c.got, cp)
	c.mu.Unlock()
	return nil
}

func (c *vfsConsumer) rounds() []uint64 {
	c.mu.Lock()
	defer c.mu.Unlock()
	out := make([]uint64, len(c.got))
	for i, b := range c.got {
		out[i] = b.Round
	}
	return out
}

func (c *vfsConsumer) start(st *vfsStack) {
	go func() {
		c.done <- SyncChain(vfbNewLogger("sc"), st.cb, &proto.SyncRequest{FromRound: c.from, Metadata: &proto.Metadata{BeaconID: "vf"}}, c)
	}()
}

// ---------------------------------------------------------------- cases

type c11Case struct {
	Index    int    `json:"case_index"`
	Backend  string `json:"backend"`
	Chained  bool   `json:"chained"`
	MemCap   int    `json:"memcap,omitempty"`
	Prefill  uint64 `json:"prefill"`
	From     uint64 `json:"from"`
	Schedule string `json:"schedule"` // quiet | append-during-scan | append-at-handover | append-both | two-streams | replace-same-addr | stall-then-resume-live
	GateAt   int    `json:"gate_at"`
	DuringN  int    `json:"appended_while_parked"`
	AfterN   int    `json:"appended_after"`
}

func c11Gen(idx int) c11Case {
	rng := vfNewRng(vfCaseSeed(vfSeed(), "C11", idx))
	c := c11Case{Index: idx, Backend: []string{"bolt-trimmed", "bolt-untrimmed", "memdb"}[idx%3], Chained: rng.Bool(),
		Schedule: []string{"quiet", "append-during-scan", "append-at-handover", "append-both", "two-streams", "append-during-scan", "append-at-handover", "replace-same-addr", "stall-then-resume-live", "start-in-gap"}[(idx/3)%10]}
	switch c.Backend {
	case "memdb":
		c.MemCap = []int{100, 100, 2000}[rng.Intn(3)]
		c.Prefill = uint64(rng.Range(20, 150))
	default:
		// large enough that appends do not need to grow the bolt mmap while a scan's read transaction is parked
		c.Prefill = uint64(rng.Range(3000, 3400))
	}
	lo := uint64(1)
	if c.Backend == "memdb" && c.Prefill+12 > uint64(c.MemCap) && c.Prefill <= uint64(c.MemCap) {
		// the ring fills up DURING the case (<= 9 appends, two writers at most): round 1 may be gone by the time a
		// stream asks for it
		lo = c.Prefill + 12 - uint64(c.MemCap) + 10
	}
	if c.Backend == "memdb" && c.Prefill > uint64(c.MemCap) {
		// the ring forgets its oldest rounds as the case appends (<= 9 rounds, two writers at most):
		// a stream can only be owed rounds that are still held when it starts
		lo = c.Prefill - uint64(c.MemCap) + 2 + 20
	}
	switch rng.Intn(6) {
	case 5:
		// beyond the head: refused today; if a stream from head+k is ever accepted it owes exactly head+k first
		c.From = c.Prefill + uint64(rng.Range(1, 2))
	case 0:
		c.From = 0 // follow from now
	case 1:
		c.From = c.Prefill // head
	case 2:
		c.From = lo
		if c.Backend != "memdb" {
			c.From = c.Prefill - uint64(rng.Range(1, 40))
		}
	default:
		span := c.Prefill - lo
		if span > 60 {
			span = 60
		}
		c.From = c.Prefill - uint64(rng.Intn(int(span)+1))
	}
	scanLen := 0
	if c.From > 0 && c.From <= c.Prefill {
		scanLen = int(c.Prefill-c.From) + 1
	}
	if scanLen > 0 {
		c.GateAt = 1 + rng.Intn(scanLen)
	}
	c.DuringN = rng.Range(1, 4)
	c.AfterN = rng.Range(1, 5)
	return c
}

func c11Check(run *vfRun, c c11Case, st *vfsStack, cons *vfsConsumer, label string, mustBeComplete bool) bool {
	info := map[string]any{"case_index": c.Index, "case": c, "stream": label, "delivered": cons.rounds(), "head": st.head}
	got := cons.rounds()
	be := c.Backend
	sched := c.Schedule
	ok := true
	if c.From > c.Prefill && len(got) == 0 {
		// requested from beyond the head the store had: a refusal (stream ended, nothing delivered) is a legal answer
		select {
		case err := <-cons.done:
			cons.done <- err
			run.Count("streams_from_beyond_the_head_refused", 1)
			return true
		default:
		}
	}
	cons.mu.Lock()
	pk := append([]*proto.BeaconPacket(nil), cons.got...)
	cons.mu.Unlock()
	for i, r := range got {
		if i == 0 && c.From != 0 && r != c.From {
			run.Violation(fmt.Sprintf("C11/first-round-not-requested-round/%s/%s", sched, be), fmt.Sprintf("stream from %d starts with %d", c.From, r), info)
			ok = false
		}
		if i > 0 && r == got[i-1] && atomic.LoadInt64(&cons.preReg) > 0 {
			// the same hand-over window seen from its other side: a round committed to the base store before the
			// scan's view was taken, whose callback dispatch (callbackStore.Put, after the store write) ran after
			// the stream's AddCallback, is delivered by the scan and again by the callback
			run.Violation(fmt.Sprintf("C11/round-appended-during-catchup-delivered-twice/%s", be),
				fmt.Sprintf("stream from %d delivered round %d twice: …%v; %d append(s) started before the live callback was registered (schedule %s)", c.From, r, tail(got[:i+1], 8), cons.preReg, sched), info)
			ok = false
			break
		}
		if i > 0 && r <= got[i-1] {
			run.Violation(fmt.Sprintf("C11/repeated-or-reordered/%s/%s", sched, be), fmt.Sprintf("delivered %v", tail(got, 12)), info)
			ok = false
			break
		}
		if i > 0 && r != got[i-1]+1 {
			if atomic.LoadInt64(&cons.preReg) > 0 {
				run.Violation(fmt.Sprintf("C11/rounds-appended-during-catchup-not-delivered/%s", be),
					fmt.Sprintf("stream from %d skipped %d..%d: delivered …%v (head %d); %d append(s) started before the live callback was registered (schedule %s)", c.From, got[i-1]+1, r-1, tail(got, 8), st.head, cons.preReg, sched), info)
			} else {
				run.Violation(fmt.Sprintf("C11/skip/no-append-during-catchup/%s/%s", sched, be), fmt.Sprintf("stream from %d skipped %d..%d: delivered …%v (head %d)", c.From, got[i-1]+1, r-1, tail(got, 8), st.head), info)
			}
			ok = false
			break
		}
		if !bytes.Equal(pk[i].Signature, vfsSig(r)) {
			run.Violation(fmt.Sprintf("C11/delivered-differs-from-stored/%s/%s", sched, be), fmt.Sprintf("round %d", r), info)
			ok = false
		} else if stored, err := st.base.Get(context.Background(), r); err == nil && stored != nil && !bytes.Equal(stored.PreviousSig, pk[i].PreviousSignature) {
			// every field: what a live stream hands out must be what a catch-up stream reads back later
			chainedStr := map[bool]string{true: "chained", false: "unchained"}[c.Chained]
			run.Violation(fmt.Sprintf("C11/delivered-differs-from-stored/previous-signature/%s/%s", chainedStr, be),
				fmt.Sprintf("round %d delivered with previous signature %q, the store holds %q", r, pk[i].PreviousSignature, stored.PreviousSig), info)
			ok = false
			break
		}
	}
	if mustBeComplete && ok {
		want := st.head
		if len(got) == 0 || got[len(got)-1] != want {
			lastGot := uint64(0)
			if len(got) > 0 {
				lastGot = got[len(got)-1]
			}
			// a stream that ENDED (with an error the client sees and reconnects on) has not skipped anything; only an
			// in-memory store whose ring has moved past the consumer may legitimately end one this way
			select {
			case err := <-cons.done:
				cons.done <- err
				if be == "memdb" && err != nil && want-lastGot >= uint64(c.MemCap)-2 {
					run.Count("streams_ended_because_the_ring_moved_past_the_consumer", 1)
					return ok
				}
				run.Violation(fmt.Sprintf("C11/stream-ended-behind-head/%s/%s", sched, be),
					fmt.Sprintf("stream from %d ended with %v after delivering up to %d while the store head is %d and the consumer was reading", c.From, err, lastGot, want), info)
				return false
			default:
			}
			if atomic.LoadInt64(&cons.preReg) > 0 && c.From != 0 {
				run.Violation(fmt.Sprintf("C11/rounds-appended-during-catchup-not-delivered/%s", be),
					fmt.Sprintf("stream from %d still open, all appends returned, last delivered %d, store head %d; %d append(s) started before the live callback was registered (schedule %s)", c.From, lastGot, want, cons.preReg, sched), info)
			} else if c.From == 0 && atomic.LoadInt64(&cons.preReg) > 0 {
				// follow-from-now stream: what was appended before it was live is not owed
			} else {
				run.Violation(fmt.Sprintf("C11/stalls-behind-head-at-quiescence/%s/%s", sched, be),
					fmt.Sprintf("stream from %d still open, all appends returned, last delivered %d, store head %d", c.From, lastGot, want), info)
			}
			ok = false
		}
	}
	return ok
}

func tail(x []uint64, n int) []uint64 {
	if len(x) > n {
		return x[len(x)-n:]
	}
	return x
}

// appendN appends n rounds in its own goroutine (a bolt Put may have to wait for a parked read transaction).
// vfsLastAppender: goroutine id of the most recent appendN goroutine of a stack (to find it in a dump).
func goid() string {
	buf := make([]byte, 64)
	n := runtime.Stack(buf, false)
	f := strings.Fields(string(buf[:n]))
	if len(f) > 1 {
		return f[1]
	}
	return "?"
}

func appendN(st *vfsStack, n int, watch ...*vfsConsumer) chan error {
	ch := make(chan error, 1)
	go func() {
		st.appenderMu.Lock()
		st.appender = goid()
		st.appenderMu.Unlock()
		for i := 0; i < n; i++ {
			for _, w := range watch {
				if w != nil && !isRegistered(st, w) {
					atomic.AddInt64(&w.preReg, 1)
				}
			}
			if _, err := st.Append(); err != nil {
				ch <- err
				return
			}
		}
		ch <- nil
	}()
	return ch
}

func waitErr(ch chan error, d time.Duration) (error, bool) {
	select {
	case err := <-ch:
		return err, true
	case <-time.After(d):
		return nil, false
	}
}

// regToken identifies the live registration currently held under a SyncChain id ("" = none).
func regToken(st *vfsStack, id string) string {
	cs, ok := st.cb.(*callbackStore)
	if !ok {
		return ""
	}
	cs.RLock()
	defer cs.RUnlock()
	if ch, reg := cs.newJob[id]; reg {
		return fmt.Sprintf("%p", ch)
	}
	return ""
}

func isRegistered(st *vfsStack, c *vfsConsumer) bool {
	tok := regToken(st, c.id)
	return tok != "" && tok != c.notToken
}

// waitRegistered polls the real callbackStore until the stream's live callback exists (white-box, read lock).
func waitRegistered(st *vfsStack, c *vfsConsumer) bool {
	for i := 0; i < 600; i++ {
		if isRegistered(st, c) {
			return true
		}
		time.Sleep(5 * time.Millisecond)
	}
	return false
}

// quiesce: wait until the consumer's delivered count has been stable for a while.
// awaitHead waits (bounded, generous: the box may be loaded) until the consumer has been handed the store's
// head; the verdict "behind the head" is only taken after that wait, a gap in the middle needs no waiting.
func (c *vfsConsumer) awaitHead(st *vfsStack) {
	for i := 0; i < 800; i++ {
		r := c.rounds()
		if len(r) > 0 && r[len(r)-1] >= st.head {
			return
		}
		select {
		case <-c.ctx.Done():
			return
		default:
		}
		time.Sleep(5 * time.Millisecond)
	}
}

func (c *vfsConsumer) quiesce() {
	last, stable := -1, 0
	for i := 0; i < 400 && stable < 8; i++ {
		time.Sleep(5 * time.Millisecond)
		n := len(c.rounds())
		if n == last {
			stable++
		} else {
			stable, last = 0, n
		}
	}
}

func c11Run(run *vfRun, c c11Case) {
	st, err := vfsNewStack(c.Backend, c.Chained, c.MemCap, c.Prefill)
	if err != nil {
		run.Inconclusive(err.Error())
		return
	}
	defer st.Close()
	gateAt := 0
	if c.Schedule == "append-during-scan" || c.Schedule == "append-both" {
		gateAt = c.GateAt
	}
	if c.Schedule == "start-in-gap" {
		// a store with a hole (an interrupted deletion leaves one) and a stream asked to start inside it: the stream owes
		// every stored round from the first one after the hole, in order, then the live ones. (The in-memory ring seeks
		// exact rounds only and the trimmed chained store cannot rebuild the first beacon after a hole: not judged.)
		if c.Backend == "memdb" || (c.Backend == "bolt-trimmed" && c.Chained) || c.Prefill < 30 {
			run.Eval("")
			return
		}
		g2 := c.Prefill - uint64(5+c.Index%7)
		g1 := g2 - uint64(2+c.Index%5)
		for r := g1; r <= g2; r++ {
			_ = st.base.Del(context.Background(), r)
		}
		from := g1 + uint64(c.Index%int(g2-g1+1))
		cons := vfsNewConsumer(from, 0)
		defer cons.cancel()
		cons.start(st)
		if !waitRegistered(st, cons) {
			select {
			case err := <-cons.done:
				run.Count("streams_from_inside_a_hole_refused", 1)
				run.Note(fmt.Sprintf("stream from inside a hole ended: %v", err))
				run.Eval("")
			default:
				run.Inconclusive("live callback never registered")
			}
			return
		}
		if err, done := waitErr(appendN(st, c.AfterN, cons), 5*time.Second); !done || err != nil {
			run.Inconclusive(fmt.Sprintf("live append did not return: %v", err))
			return
		}
		cons.awaitHead(st)
		cons.quiesce()
		got := cons.rounds()
		info := map[string]any{"case_index": c.Index, "case": c, "hole": []uint64{g1, g2}, "from": from, "delivered": tail(got, 16), "head": st.head}
		want := g2 + 1
		okSeq := len(got) > 0 && got[0] == want && got[len(got)-1] == st.head
		for i := 1; i < len(got) && okSeq; i++ {
			if got[i] != got[i-1]+1 {
				okSeq = false
			}
		}
		if !okSeq {
			first := uint64(0)
			if len(got) > 0 {
				first = got[0]
			}
			run.Violation(fmt.Sprintf("C11/stored-rounds-after-a-hole-not-delivered/%s", c.Backend),
				fmt.Sprintf("rounds %d..%d are missing from the store, a stream from %d must deliver %d..%d (head); it delivered %d round(s) starting at %d: …%v", g1, g2, from, want, st.head, len(got), first, tail(got, 8)), info)
		}
		run.Count("streams_started_inside_a_hole", 1)
		run.Eval(fmt.Sprintf("%s/%v/%d/%d-%d/%d", c.Backend, c.Chained, c.Prefill, g1, g2, from))
		return
	}
	if c.Schedule == "stall-then-resume-live" {
		// a consumer that stops reading at its first LIVE beacon while a burst larger than the callback queue is
		// stored, then resumes: nothing may be lost or reordered
		if c.From == 0 || c.From > c.Prefill {
			c.From = c.Prefill
		}
		cons := vfsNewConsumer(c.From, int(c.Prefill-c.From)+2)
		defer cons.cancel()
		cons.start(st)
		if !waitRegistered(st, cons) {
			run.Inconclusive("live callback never registered")
			return
		}
		burst := CallbackWorkerQueue + 30 + int(c.Index%40)
		ch := appendN(st, burst, cons)
		select {
		case <-cons.atGate:
		case <-time.After(3 * time.Second):
			run.Inconclusive("consumer never reached its first live Send")
			return
		}
		// let the writer run into the backlog (it blocks on the full queue in the unchanged code: C12's subject)
		err, done := waitErr(ch, 400*time.Millisecond)
		close(cons.gate)
		if !done {
			err, done = waitErr(ch, 15*time.Second)
		} else {
			run.Count("bursts_completed_while_consumer_stalled", 1)
		}
		if !done || err != nil {
			run.Inconclusive(fmt.Sprintf("burst did not complete after the consumer resumed: %v", err))
			return
		}
		cons.awaitHead(st)
		cons.quiesce()
		run.Count("streams", 1)
		run.Count("beacons_delivered", int64(len(cons.rounds())))
		c11Check(run, c, st, cons, "stalled-then-resumed", true)
		run.Eval(fmt.Sprintf("%s/%v/%d/%d/%s/%d", c.Backend, c.Chained, c.Prefill, c.From, c.Schedule, burst))
		run.Seen("schedules", fmt.Sprintf("%s/%s", c.Schedule, c.Backend))
		return
	}
	cons := vfsNewConsumer(c.From, gateAt)
	defer cons.cancel()
	parkHandover := c.Schedule == "append-at-handover" || c.Schedule == "append-both"
	var rel, reached chan struct{}
	if parkHandover {
		rel, reached = make(chan struct{}), make(chan struct{})
		vfsParkMu.Lock()
		vfsParks[cons.id], vfsParked[cons.id] = rel, reached
		vfsParkMu.Unlock()
		defer func() { vfsParkMu.Lock(); delete(vfsParks, cons.id); delete(vfsParked, cons.id); vfsParkMu.Unlock() }()
	}
	cons.start(st)
	nontrivial := false
	interleaved := 0
	// 1. appends while the scan is parked inside Send
	if gateAt > 0 {
		gateReleased := false
		select {
		case <-cons.atGate:
			ch := appendN(st, c.DuringN, cons)
			if _, done := waitErr(ch, 1500*time.Millisecond); done {
				interleaved += c.DuringN
				nontrivial = true
			} else {
				run.Count("appends_blocked_behind_parked_scan", 1) // C12's subject; here it only means no interleaving happened
				close(cons.gate)
				gateReleased = true
				if _, done := waitErr(ch, 10*time.Second); !done {
					run.Inconclusive("append did not return after the scan was released")
					return
				}
			}
			if !gateReleased {
				close(cons.gate)
			}
		case <-time.After(3 * time.Second):
			run.Inconclusive("scan never reached the gated Send")
			return
		}
	}
	// 2. appends while the stream is parked between the end of the scan and AddCallback
	if parkHandover {
		select {
		case <-reached:
			ch := appendN(st, c.DuringN, cons)
			if err, done := waitErr(ch, 3*time.Second); !done || err != nil {
				run.Inconclusive(fmt.Sprintf("append at hand-over did not return: %v", err))
				close(rel)
				return
			}
			interleaved += c.DuringN
			nontrivial = true
			close(rel)
		case err := <-cons.done:
			if c.From > st.head {
				run.Count("streams_from_beyond_the_head_refused", 1)
				run.Eval("")
				return
			}
			run.Inconclusive(fmt.Sprintf("stream ended before the hand-over: %v", err))
			return
		case <-time.After(5 * time.Second):
			run.Inconclusive("stream never reached the hand-over point")
			return
		}
	}
	var second *vfsConsumer
	if c.Schedule == "two-streams" {
		second = vfsNewConsumer(c.From, 0)
		defer second.cancel()
		second.start(st)
		nontrivial = true
	}
	if c.Schedule == "replace-same-addr" {
		// a reconnecting client: same remote address, so the new stream replaces the old callback
		cons.quiesce()
		waitRegistered(st, cons)
		second = &vfsConsumer{notToken: regToken(st, cons.id), addr: cons.addr, id: cons.id, from: c.From, gate: make(chan struct{}), atGate: make(chan struct{}), done: make(chan error, 1)}
		second.ctx, second.cancel = context.WithCancel(vfbPeerCtx(context.Background(), cons.addr))
		defer second.cancel()
		second.start(st)
		nontrivial = true
	}
	// a stream from round 0 ("follow from now") has no defined first round before its callback exists:
	// wait for the registration, everything appended afterwards must arrive
	if c.From == 0 {
		if !waitRegistered(st, cons) {
			run.Inconclusive("live callback never registered")
			return
		}
		if second != nil && !waitRegistered(st, second) {
			run.Inconclusive("live callback never registered")
			return
		}
	}
	// 3. live phase
	ch := appendN(st, c.AfterN, cons, second)
	if err, done := waitErr(ch, 5*time.Second); !done || err != nil {
		run.Inconclusive(fmt.Sprintf("live append did not return: %v", err))
		return
	}
	cons.awaitHead(st)
	cons.quiesce()
	run.Count("streams", 1)
	run.Count("beacons_delivered", int64(len(cons.rounds())))
	run.Count("appends_interleaved_with_catchup", int64(interleaved))
	replaced := false
	select {
	case err := <-cons.done:
		replaced = errors.Is(err, ErrCallbackReplaced)
		if !replaced && c.From <= c.Prefill {
			run.Note(fmt.Sprintf("stream ended early: %v", err))
		}
		c11Check(run, c, st, cons, "first", false)
	default:
		c11Check(run, c, st, cons, "first", true)
	}
	if second != nil {
		second.awaitHead(st)
		second.quiesce()
		run.Count("streams", 1)
		c11Check(run, c, st, second, "second", true)
		if c.Schedule == "replace-same-addr" && !replaced {
			select {
			case err := <-cons.done:
				replaced = errors.Is(err, ErrCallbackReplaced)
			case <-time.After(500 * time.Millisecond):
			}
			run.Count("replaced_streams_ended", map[bool]int64{true: 1, false: 0}[replaced])
		}
	}
	key := ""
	if nontrivial || c.Schedule == "quiet" {
		key = fmt.Sprintf("%s/%v/%d/%d/%s/%d/%d/%d", c.Backend, c.Chained, c.Prefill, c.From, c.Schedule, c.GateAt, c.DuringN, c.AfterN)
	}
	if interleaved > 0 && c.Index < 40 {
		run.Sample(map[string]any{"case": c, "appends_interleaved_with_catchup": interleaved, "store_head": st.head, "delivered_tail": tail(cons.rounds(), 10)})
	}
	run.Eval(key)
	run.Seen("schedules", fmt.Sprintf("%s/%s/%v", c.Schedule, c.Backend, interleaved > 0))
}

func vfsInstallHook() { vfbInstallHooks() }

func TestVF_C11(t *testing.T) {
	vfsInstallHook()
	run := vfNewRun("C11", "streams")
	defer run.Finish()
	n := vfPick(240, 4000)
	lo, hi := 0, n
	if ri, ok := vfReplayCase(); ok {
		lo, hi = ri, ri+1
	}
	var wg sync.WaitGroup
	sem := make(chan struct{}, 12)
	for idx := lo; idx < hi; idx++ {
		wg.Add(1)
		sem <- struct{}{}
		go func(idx int) {
			defer wg.Done()
			defer func() { <-sem }()
			c := c11Gen(idx)
			if idx < 3 {
				run.Sample(c)
			}
			c11Run(run, c)
		}(idx)
	}
	wg.Wait()
}
