package beacon

// Shared workload W1 of engine A: honest ticking of a real handler network under a fault script,
// with an adversary owning up to n-t shares (forged partials, lying sync peer), node stop/restart.
// Used with different armed oracles by C01, C02, C04, C05.

import (
	"bytes"
	"context"
	"fmt"
	"sort"
	"sync"
	"sync/atomic"
	"time"

	"github.com/drand/kyber/share"
	"github.com/drand/kyber/util/random"

	"github.com/drand/drand/v2/common"
	"github.com/drand/drand/v2/crypto"
	proto "github.com/drand/drand/v2/protobuf/drand"
)

type vfbScenario struct {
	Index     int      `json:"case_index"`
	Scheme    string   `json:"scheme"`
	N         int      `json:"n"`
	Thr       int      `json:"thr"`
	Backend   string   `json:"backend"`
	MemCap    int      `json:"memcap,omitempty"`
	PeriodS   int      `json:"period_s"`
	CatchupS  int      `json:"catchup_s"`
	Corrupted []int    `json:"corrupted"`
	Rounds    int      `json:"rounds"`
	DropPct   int      `json:"drop_pct"`
	DupPct    int      `json:"dup_pct"`
	DelayUs   int      `json:"delay_us"`
	Script    []string `json:"script"` // fault script steps, see vfbApplyStep
	Adversary bool     `json:"adversary"`
	Seed      uint64   `json:"seed"`
}

var vfbNT = [][2]int{{1, 1}, {3, 2}, {4, 3}, {5, 3}, {7, 4}, {4, 4}, {6, 4}}

func vfbSchemeList() []*crypto.Scheme {
	var out []*crypto.Scheme
	for _, n := range crypto.ListSchemes() {
		s, _ := crypto.SchemeFromName(n)
		out = append(out, s)
	}
	return out
}

// vfbGenScenario: every choice is a pure function of (VERIF_SEED, property, index).
func vfbGenScenario(prop string, idx int, quickSchemes int) vfbScenario {
	seed := vfCaseSeed(vfSeed(), prop, idx)
	rng := vfNewRng(seed)
	schemes := vfbSchemeList()
	if !vfThorough() && quickSchemes < len(schemes) {
		schemes = schemes[:quickSchemes]
	}
	nt := vfbNT[rng.Intn(len(vfbNT))]
	if !vfThorough() && nt[0] > 5 {
		nt = vfbNT[1+rng.Intn(3)]
	}
	sc := vfbScenario{Index: idx, Scheme: schemes[idx%len(schemes)].Name, N: nt[0], Thr: nt[1],
		Backend: []string{"bolt-trimmed", "bolt-untrimmed", "memdb", "mixed"}[(idx/len(schemes))%4],
		PeriodS: rng.Range(1, 4), Rounds: rng.Range(6, vfPick(14, 30)), Seed: seed, Adversary: true}
	if sc.Backend == "memdb" || sc.Backend == "mixed" {
		sc.MemCap = []int{10, 12, 2000}[rng.Intn(3)]
	}
	sc.CatchupS = []int{0, 1, sc.PeriodS}[rng.Intn(3)]
	if sc.CatchupS > sc.PeriodS {
		sc.CatchupS = sc.PeriodS
	}
	f := rng.Intn(sc.N - sc.Thr + 1)
	for _, p := range rng.Perm(sc.N)[:f] {
		sc.Corrupted = append(sc.Corrupted, p)
	}
	sort.Ints(sc.Corrupted)
	if rng.Chance(50) {
		sc.DropPct = rng.Range(1, 25)
	}
	if rng.Chance(40) {
		sc.DupPct = rng.Range(5, 40)
	}
	if rng.Chance(40) {
		sc.DelayUs = rng.Range(50, 3000)
	}
	// fault script: one entry per round index at which something happens
	honest := sc.N - f
	for r := 2; r < sc.Rounds-2; r++ {
		if !rng.Chance(22) {
			continue
		}
		switch rng.Intn(6) {
		case 0:
			sc.Script = append(sc.Script, fmt.Sprintf("%d:partition:%d", r, rng.Range(1, 3)))
		case 1:
			if honest > 1 {
				sc.Script = append(sc.Script, fmt.Sprintf("%d:stop:%d:%d", r, rng.Intn(honest), rng.Range(1, 4)))
			}
		case 2:
			sc.Script = append(sc.Script, fmt.Sprintf("%d:burst:%d", r, rng.Range(2, 4)))
		case 3:
			sc.Script = append(sc.Script, fmt.Sprintf("%d:blackout:%d", r, rng.Range(1, 3)))
		case 4:
			sc.Script = append(sc.Script, fmt.Sprintf("%d:substeps:%d", r, rng.Range(2, 4)))
		case 5:
			sc.Script = append(sc.Script, fmt.Sprintf("%d:isolate:%d:%d", r, rng.Intn(honest), rng.Range(1, 3)))
		}
	}
	return sc
}

func (sc vfbScenario) key() string {
	return fmt.Sprintf("%s/%d-%d/%s%d/c%v/d%d-%d-%d/%v", sc.Scheme, sc.N, sc.Thr, sc.Backend, sc.MemCap, sc.Corrupted, sc.DropPct, sc.DupPct, sc.DelayUs, sc.Script)
}

func (sc vfbScenario) config() vfbConfig {
	sch, _ := crypto.SchemeFromName(sc.Scheme)
	return vfbConfig{Scheme: sch, N: sc.N, Thr: sc.Thr, Period: time.Duration(sc.PeriodS) * time.Second,
		Catchup: time.Duration(sc.CatchupS) * time.Second, Backend: sc.Backend, MemCap: sc.MemCap, BeaconID: "vfnet",
		GenesisIn: time.Duration(sc.PeriodS) * time.Second, Corrupted: sc.Corrupted, Seed: sc.Seed}
}

// ---------------------------------------------------------------- adversary

type vfbAdversary struct {
	nt       *vfbNet
	rng      *vfRng
	mu       sync.Mutex
	seen     []*proto.PartialBeaconPacket // honest partials observed on the wire
	seenFrom []int
	produced map[uint64]*common.Beacon // beacons the network has produced (first writer)
	kinds    map[string]int
}

func vfbNewAdversary(nt *vfbNet) *vfbAdversary {
	a := &vfbAdversary{nt: nt, rng: vfNewRng(nt.cfg.Seed ^ 0xadadadad), produced: map[uint64]*common.Beacon{}, kinds: map[string]int{}}
	for _, c := range nt.cfg.Corrupted {
		addr := nt.nodes[c].addr
		nt.syncServers[addr] = a.serveSync
	}
	return a
}

func (a *vfbAdversary) observeEmit(p *proto.PartialBeaconPacket, from int) {
	a.mu.Lock()
	defer a.mu.Unlock()
	if len(a.seen) < 4000 {
		a.seen = append(a.seen, p)
		a.seenFrom = append(a.seenFrom, from)
	}
}

func (a *vfbAdversary) observePut(b *common.Beacon) {
	a.mu.Lock()
	defer a.mu.Unlock()
	if _, ok := a.produced[b.Round]; !ok {
		a.produced[b.Round] = b
	}
}

func (a *vfbAdversary) lastProduced() *common.Beacon {
	a.mu.Lock()
	defer a.mu.Unlock()
	var best *common.Beacon
	for _, b := range a.produced {
		if best == nil || b.Round > best.Round {
			best = b
		}
	}
	return best
}

func flipBit(b []byte, rng *vfRng) []byte {
	c := append([]byte(nil), b...)
	if len(c) > 0 {
		c[rng.Intn(len(c))] ^= 1 << uint(rng.Intn(8))
	}
	return c
}

// inject sends a handful of hostile partials to honest nodes. Everything here is something a real
// adversary holding the corrupted shares (and nothing else) can produce.
func (a *vfbAdversary) inject() {
	nt := a.nt
	honest := nt.honestRunning()
	if len(honest) == 0 {
		return
	}
	last := a.lastProduced()
	var lastRound uint64
	var lastSig, lastPrev []byte
	if last != nil {
		lastRound, lastSig, lastPrev = last.Round, last.Signature, last.PreviousSig
	} else {
		lastSig = nt.group.GenesisSeed
	}
	prevFor := func(r uint64) []byte { // the previous signature an honest partial for round r carries
		if r == lastRound+1 {
			return lastSig
		}
		if r == lastRound {
			return lastPrev
		}
		return a.rng.Bytes(len(lastSig))
	}
	corrupted := nt.cfg.Corrupted
	for k := 0; k < 3; k++ {
		victim := honest[a.rng.Intn(len(honest))]
		next := lastRound + 1
		var from int
		if len(corrupted) > 0 {
			from = corrupted[a.rng.Intn(len(corrupted))]
		} else {
			from = (victim.pos + 1) % nt.cfg.N
		}
		kind := ""
		var pkt *proto.PartialBeaconPacket
		choice := a.rng.Intn(12)
		if len(corrupted) == 0 && choice < 4 {
			choice = 4 + a.rng.Intn(8) // kinds 0..3 need a real corrupted share
		}
		switch choice {
		case 0: // valid partial of a corrupted member
			kind = "valid"
			pkt = nt.packet(next, prevFor(next), nt.signPartial(from, next, prevFor(next)))
		case 1: // valid but for another previous signature (equivocation)
			kind = "valid-other-prev"
			p := a.rng.Bytes(len(lastSig))
			pkt = nt.packet(next, p, nt.signPartial(from, next, p))
		case 2: // signed for round r, labelled r+1 / r-1
			kind = "wrong-round-label"
			lbl := next + 1
			if a.rng.Bool() && next > 1 {
				lbl = next - 1
			}
			pkt = nt.packet(lbl, prevFor(next), nt.signPartial(from, next, prevFor(next)))
		case 3: // signed over prev A, packet carries prev B
			kind = "wrong-prev-label"
			pkt = nt.packet(next, a.rng.Bytes(len(lastSig)), nt.signPartial(from, next, prevFor(next)))
		case 4: // bit-flipped honest partial
			kind = "bitflip"
			if p := a.pickSeen(); p != nil {
				pkt = nt.packet(p.Round, p.PreviousSignature, flipBit(p.PartialSig, a.rng))
			}
		case 5: // truncated
			kind = "truncated"
			if p := a.pickSeen(); p != nil {
				cut := []int{0, 1, 2, len(p.PartialSig) / 2, len(p.PartialSig) - 1}[a.rng.Intn(5)]
				pkt = nt.packet(p.Round, p.PreviousSignature, p.PartialSig[:cut])
			}
		case 6: // replay of an old honest partial
			kind = "replay"
			if p := a.pickSeen(); p != nil {
				pkt = nt.packet(p.Round, p.PreviousSignature, p.PartialSig)
			}
		case 7: // replay of the victim's own partial back to it
			kind = "replay-own"
			a.mu.Lock()
			for i := len(a.seen) - 1; i >= 0; i-- {
				if a.seenFrom[i] == victim.pos {
					p := a.seen[i]
					pkt = nt.packet(p.Round, p.PreviousSignature, p.PartialSig)
					break
				}
			}
			a.mu.Unlock()
		case 8: // non-member index (an adversary below the threshold cannot evaluate the polynomial there: random share)
			kind = "non-member-index"
			sh := &share.PriShare{I: nt.cfg.N + a.rng.Intn(3), V: nt.cfg.Scheme.KeyGroup.Scalar().Pick(random.New(a.rng))}
			s, _ := nt.cfg.Scheme.ThresholdScheme.Sign(sh, nt.digest(next, prevFor(next)))
			pkt = nt.packet(next, prevFor(next), s)
		case 9: // wrong key under an honest member's index: random bytes after the index prefix
			kind = "forged-honest-index"
			if p := a.pickSeen(); p != nil && len(p.PartialSig) > 4 {
				s := append([]byte(nil), p.PartialSig[:2]...)
				s = append(s, a.rng.Bytes(len(p.PartialSig)-2)...)
				pkt = nt.packet(next, prevFor(next), s)
			}
		case 10: // far future round signed by a corrupted member (or garbage if none)
			kind = "future-round"
			fr := next + uint64(a.rng.Range(2, 50))
			if len(corrupted) > 0 {
				pkt = nt.packet(fr, prevFor(fr), nt.signPartial(from, fr, prevFor(fr)))
			} else {
				pkt = nt.packet(fr, prevFor(fr), a.rng.Bytes(50))
			}
		case 11: // empty / nil fields
			kind = "empty"
			pkt = nt.packet(next, nil, nil)
		}
		if pkt == nil {
			continue
		}
		a.mu.Lock()
		a.kinds[kind]++
		a.mu.Unlock()
		nt.run.Count("adversary_partials."+kind, 1)
		func() {
			defer func() { // a panic inside the handler is a finding of its own (C14), not of this run
				if r := recover(); r != nil {
					nt.run.Count("handler_panics", 1)
					nt.run.Note(fmt.Sprintf("panic in ProcessPartialBeacon on %s partial: %v", kind, r))
				}
			}()
			_ = nt.Deliver(from, victim, pkt, "adversary")
		}()
	}
}

func (a *vfbAdversary) pickSeen() *proto.PartialBeaconPacket {
	a.mu.Lock()
	defer a.mu.Unlock()
	if len(a.seen) == 0 {
		return nil
	}
	return a.seen[a.rng.Intn(len(a.seen))]
}

// serveSync: the adversary as a sync peer. It only knows beacons the network has produced.
func (a *vfbAdversary) serveSync(ctx context.Context, req *proto.SyncRequest, out chan<- *proto.BeaconPacket) {
	a.mu.Lock()
	var rounds []uint64
	for r := range a.produced {
		if r >= req.GetFromRound() && r > 0 {
			rounds = append(rounds, r)
		}
	}
	sort.Slice(rounds, func(i, j int) bool { return rounds[i] < rounds[j] })
	bs := make([]*common.Beacon, len(rounds))
	for i, r := range rounds {
		bs[i] = a.produced[r]
	}
	mode := a.rng.Intn(8)
	at := 0
	if len(bs) > 0 {
		at = a.rng.Intn(len(bs))
	}
	a.mu.Unlock()
	a.nt.run.Count(fmt.Sprintf("adversary_sync_streams.mode%d", mode), 1)
	id := common.GetCanonicalBeaconID(a.nt.cfg.BeaconID)
	send := func(b *common.Beacon, beaconID string) bool {
		select {
		case out <- &proto.BeaconPacket{Round: b.Round, Signature: b.Signature, PreviousSignature: b.PreviousSig, Metadata: &proto.Metadata{BeaconID: beaconID}}:
			return true
		case <-ctx.Done():
			return false
		}
	}
	for i, b := range bs {
		x := &common.Beacon{Round: b.Round, Signature: b.Signature, PreviousSig: b.PreviousSig}
		bid := id
		if i == at {
			switch mode {
			case 0: // honest stream
			case 1:
				x.Signature = flipBit(x.Signature, a.rng)
			case 2:
				x.Round++ // valid signature of r labelled r+1
			case 3:
				x.PreviousSig = flipBit(append([]byte{1}, x.PreviousSig...), a.rng)
			case 4:
				bid = "other-chain"
			case 5: // skip one (valid but out of order)
				continue
			case 6: // close early
				return
			case 7: // stall until cancelled
				<-ctx.Done()
				return
			}
		}
		if !send(x, bid) {
			return
		}
	}
	if mode == 5 && at < len(bs) { // and replay the skipped one late
		send(bs[at], id)
	}
}

// ---------------------------------------------------------------- running a scenario

type vfbScenarioHooks struct {
	afterStart func(nt *vfbNet, adv *vfbAdversary)
	eachStep   func(nt *vfbNet, round int)
	atEnd      func(nt *vfbNet, adv *vfbAdversary)
}

func vfbRunScenario(run *vfRun, sc vfbScenario, hk vfbScenarioHooks) {
	start := time.Unix(1700000000+int64(sc.Index)*1000, 0)
	nt, err := vfbNewNet(run, sc.config(), start)
	if err != nil {
		run.Inconclusive("net: " + err.Error())
		return
	}
	defer nt.Close()
	nt.dropPct, nt.dupPct, nt.delayMax = sc.DropPct, sc.DupPct, time.Duration(sc.DelayUs)*time.Microsecond
	adv := vfbNewAdversary(nt)
	prevPut, prevEmit := nt.onPut, nt.onEmit
	nt.onPut = func(n *vfbNode, b *common.Beacon, src string, seq int64) {
		if b.Round > 0 {
			adv.observePut(b)
		}
		if prevPut != nil {
			prevPut(n, b, src, seq)
		}
	}
	nt.onEmit = func(from *vfbNode, to int, p *proto.PartialBeaconPacket, clk int64) {
		adv.observeEmit(p, from.pos)
		if prevEmit != nil {
			prevEmit(from, to, p, clk)
		}
	}
	if hk.afterStart != nil {
		hk.afterStart(nt, adv) // arms oracles (may wrap onPut/onEmit again)
	}
	if err := nt.StartAll(); err != nil {
		run.Inconclusive("start: " + err.Error())
		return
	}
	nt.Settle()
	period := nt.cfg.Period
	script := map[int][]string{}
	for _, s := range sc.Script {
		var r int
		var rest string
		fmt.Sscanf(s, "%d:%s", &r, &rest)
		script[r] = append(script[r], rest)
	}
	pending := map[int][]func(){} // round -> undo actions
	honest := []*vfbNode{}
	for _, n := range nt.nodes {
		if n.honest {
			honest = append(honest, n)
		}
	}
	for r := 0; r < sc.Rounds; r++ {
		for _, undo := range pending[r] {
			undo()
		}
		steps, burst := 1, 1
		for _, act := range script[r] {
			var a string
			var x, y int
			parts := bytes.Split([]byte(act), []byte(":"))
			a = string(parts[0])
			if len(parts) > 1 {
				fmt.Sscanf(string(parts[1]), "%d", &x)
			}
			if len(parts) > 2 {
				fmt.Sscanf(string(parts[2]), "%d", &y)
			}
			switch a {
			case "partition":
				nt.mu.Lock()
				nt.partition = map[int]int{}
				for i := range nt.nodes {
					nt.partition[i] = nt.rng.Intn(2)
				}
				nt.mu.Unlock()
				pending[r+x] = append(pending[r+x], func() { nt.mu.Lock(); nt.partition = nil; nt.mu.Unlock() })
			case "blackout":
				nt.mu.Lock()
				old := nt.dropPct
				nt.dropPct = 100
				nt.mu.Unlock()
				pending[r+x] = append(pending[r+x], func() { nt.mu.Lock(); nt.dropPct = old; nt.mu.Unlock() })
			case "isolate":
				n := honest[x%len(honest)]
				setOff(n, 1)
				pending[r+y] = append(pending[r+y], func() { setOff(n, 0) })
			case "stop":
				n := honest[x%len(honest)]
				if n.running {
					nt.StopNode(n)
					run.Count("node_stops", 1)
					pending[r+y] = append(pending[r+y], func() {
						if err := nt.StartNode(n, "catchup"); err != nil {
							run.Note("restart failed: " + err.Error())
						} else {
							run.Count("node_restarts", 1)
						}
					})
				}
			case "burst":
				burst = x
			case "substeps":
				steps = x
			}
		}
		for s := 0; s < steps; s++ {
			d := period * time.Duration(burst) / time.Duration(steps)
			if d <= 0 {
				d = time.Second
			}
			// sub-steps are whole seconds; the remainder goes into the last one
			d = d.Truncate(time.Second)
			if s == steps-1 {
				d = period*time.Duration(burst) - d*time.Duration(steps-1)
			}
			if d > 0 {
				nt.Step(d)
			}
			if sc.Adversary {
				adv.inject()
				nt.Settle()
			}
		}
		if hk.eachStep != nil {
			hk.eachStep(nt, r)
		}
	}
	// heal everything and let the network converge for a bounded number of steps
	for r, undos := range pending {
		if r >= sc.Rounds {
			for _, u := range undos {
				u()
			}
		}
	}
	nt.mu.Lock()
	nt.partition, nt.dropPct, nt.dupPct, nt.delayMax = nil, 0, 0, 0
	nt.mu.Unlock()
	if hk.atEnd != nil {
		hk.atEnd(nt, adv)
	}
	run.Seen("schedules", nt.scheduleHash())
}

func setOff(n *vfbNode, v int32) {
	atomic.StoreInt32(&n.recvOff, v)
	atomic.StoreInt32(&n.sendOff, v)
}
