package beacon

// C12 — remote parties cannot stall beacon storage or grow node state without bound.
//   (a) stream consumers that stop reading (after catch-up / inside the catch-up scan / then disconnect)
//       while many beacons are appended: Put must keep returning, a healthy consumer must keep receiving;
//   (b) a member flooding valid partials for many distinct (round, previous signature) pairs: the
//       aggregator's cache stays bounded per member and the honest partials of the round being
//       aggregated survive the flood.

import (
	"bytes"
	"sort"
	"context"
	"fmt"
	"regexp"
	"strings"
	"sync"
	"sync/atomic"
	"testing"
	"time"

	"github.com/drand/drand/v2/common"
	"github.com/drand/drand/v2/crypto"
)

type c12StallCase struct {
	Index    int    `json:"case_index"`
	Backend  string `json:"backend"`
	Chained  bool   `json:"chained"`
	Where    string `json:"where"` // after-catchup | in-scan
	Stalled  int    `json:"stalled_consumers"`
	Appends  int    `json:"appends"`
	Prefill  uint64 `json:"prefill"`
	Behaviour string `json:"behaviour"` // never-reads | slow | disconnects
}

func c12StallGen(idx int) c12StallCase {
	rng := vfNewRng(vfCaseSeed(vfSeed(), "C12s", idx))
	c := c12StallCase{Index: idx, Backend: []string{"bolt-trimmed", "memdb", "bolt-untrimmed"}[idx%3], Chained: rng.Bool(),
		Where: []string{"after-catchup", "in-scan", "after-catchup"}[(idx/3)%3], Stalled: []int{1, 3}[rng.Intn(2)],
		Appends: 10 * CallbackWorkerQueue, Behaviour: []string{"never-reads", "slow", "disconnects"}[(idx/9)%3]}
	c.Prefill = uint64(rng.Range(5, 60))
	if c.Where == "in-scan" && c.Backend != "memdb" {
		c.Prefill = uint64(rng.Range(5, 40)) // small db: the appends will have to grow the bolt mmap
	}
	return c
}

var c12Frame = regexp.MustCompile(`beacon\.\(\*callbackStore\)\.(Put|AddCallback|RemoveCallback)|bbolt\.\(\*DB\)\.(mmap|beginRWTx|Update)|boltdb\.\(\*\w+\)\.Put`)

// c12Blocked extracts, from a goroutine dump, the frames that explain why a Put is parked.
func c12Blocked(st *vfsStack, dump string) (string, string) {
	st.appenderMu.Lock()
	id := st.appender
	st.appenderMu.Unlock()
	for _, g := range strings.Split(dump, "\n\n") {
		if !strings.HasPrefix(g, "goroutine "+id+" [") { // only this case's appending goroutine
			continue
		}
		first := strings.SplitN(g, "\n", 2)[0]
		if !strings.Contains(g, "callbackStore).Put") {
			return "", first
		}
		var frames []string
		for _, m := range c12Frame.FindAllString(g, -1) {
			frames = append(frames, m)
		}
		where := "other"
		switch {
		case strings.Contains(first, "chan send") && strings.Contains(g, "callbackStore).Put"):
			where = "callback-queue-full"
		case strings.Contains(g, "bbolt.(*DB).mmap"):
			where = "bolt-mmap-waits-for-read-tx"
		case strings.Contains(first, "[runnable]") || strings.Contains(first, "[running]"):
			return "", first // not parked: just slow
		}
		return where, first + " | " + strings.Join(frames, " <- ")
	}
	return "", ""
}

func c12StallRun(run *vfRun, c c12StallCase) {
	st, err := vfsNewStack(c.Backend, c.Chained, 2000, c.Prefill)
	if err != nil {
		run.Inconclusive(err.Error())
		return
	}
	defer st.Close()
	info := map[string]any{"case_index": c.Index, "case": c}
	// stalled consumers
	var stalled []*vfsConsumer
	for i := 0; i < c.Stalled; i++ {
		gateAt := int(c.Prefill) + 1 // first live Send
		from := uint64(1)
		if c.Where == "in-scan" {
			gateAt = 1 + i // inside the scan
		}
		cons := vfsNewConsumer(from, gateAt)
		defer cons.cancel()
		cons.start(st)
		stalled = append(stalled, cons)
	}
	healthy := vfsNewConsumer(1, 0)
	defer healthy.cancel()
	healthy.start(st)
	if c.Where == "in-scan" {
		for _, s := range stalled {
			select {
			case <-s.atGate:
			case <-time.After(3 * time.Second):
				run.Inconclusive("consumer never reached the gated Send")
				return
			}
		}
	} else {
		for _, s := range stalled {
			if !waitRegistered(st, s) {
				run.Inconclusive("stalled consumer's callback never registered")
				return
			}
		}
	}
	if !waitRegistered(st, healthy) {
		run.Inconclusive("healthy consumer's callback never registered")
		return
	}
	if c.Behaviour == "slow" { // reads one beacon every few ms instead of never
		for _, s := range stalled {
			s := s
			go func() {
				select {
				case <-s.atGate:
				case <-s.ctx.Done():
					return
				}
				close(s.gate)
			}()
		}
	}
	start := time.Now()
	ch := appendN(st, c.Appends)
	var appended uint64
	sig := ""
	errA, done := waitErr(ch, 8*time.Second)
	if !done {
		dump := vfGoroutineDump()
		where, frames := c12Blocked(st, dump)
		// how far did it get? (head is updated under the same mutex Append holds, read the consumer instead)
		appended = uint64(len(healthy.rounds()))
		if where == "" {
			run.Inconclusive("appends did not finish in 8 s but no Put frame is parked (slow machine?)")
			return
		}
		sig = fmt.Sprintf("C12/put-blocked/consumer-stalled-%s/%s/%s", c.Where, where, c.Backend)
		if where == "callback-queue-full" { // the callbackStore layer, whatever the back-end below it
			sig = fmt.Sprintf("C12/put-blocked/consumer-stalled-%s/%s", c.Where, where)
		}
		if c.Behaviour == "slow" {
			sig = ""
		}
		if sig != "" {
			run.Violation(sig, fmt.Sprintf("Put has not returned for 8 s while %d consumer(s) stopped reading %s (healthy consumer got %d of %d); parked at: %s",
				c.Stalled, c.Where, appended, c.Prefill+uint64(c.Appends), frames), info)
		}
		// does it recover when the stalled consumers go away?
		for _, s := range stalled {
			s.cancel()
		}
		if _, done2 := waitErr(ch, 6*time.Second); !done2 {
			where2, frames2 := c12Blocked(st, vfGoroutineDump())
			if where2 != "" {
				sig2 := fmt.Sprintf("C12/put-still-blocked-after-consumer-left/%s/%s", where2, c.Backend)
				if where2 == "callback-queue-full" {
					sig2 = "C12/put-still-blocked-after-consumer-left/callback-queue-full"
				}
				run.Violation(sig2,
					fmt.Sprintf("the stalled consumer(s) disconnected 6 s ago, Put is still parked at: %s", frames2), info)
			}
			run.Eval(fmt.Sprintf("%s/%v/%s/%d/%s", c.Backend, c.Chained, c.Where, c.Stalled, c.Behaviour))
			return
		}
	} else if errA != nil {
		run.Note("append error: " + errA.Error())
	}
	run.Count("append_batches_completed", 1)
	run.Count("appends", int64(c.Appends))
	run.Count("append_wall_ms", time.Since(start).Milliseconds())
	// the healthy consumer must have everything
	healthy.quiesce()
	got := healthy.rounds()
	want := c.Prefill + uint64(c.Appends)
	if sig == "" && (len(got) == 0 || got[len(got)-1] != want) && atomic.LoadInt64(&healthy.preReg) == 0 {
		last := uint64(0)
		if len(got) > 0 {
			last = got[len(got)-1]
		}
		run.Violation(fmt.Sprintf("C12/healthy-consumer-starved/%s/%s", c.Where, c.Backend),
			fmt.Sprintf("a consumer that keeps reading received up to round %d of %d while %d other consumer(s) stopped reading", last, want, c.Stalled), info)
	}
	if c.Behaviour == "disconnects" {
		for _, s := range stalled {
			s.cancel()
		}
		ch2 := appendN(st, 50)
		if _, ok := waitErr(ch2, 6*time.Second); !ok {
			where2, frames2 := c12Blocked(st, vfGoroutineDump())
			if where2 != "" {
				run.Violation(fmt.Sprintf("C12/put-blocked-after-disconnect/%s/%s", where2, c.Backend), frames2, info)
			}
		}
	}
	run.Eval(fmt.Sprintf("%s/%v/%s/%d/%s", c.Backend, c.Chained, c.Where, c.Stalled, c.Behaviour))
}

func TestVF_C12_Stall(t *testing.T) {
	vfsInstallHook()
	run := vfNewRun("C12", "streams-stall")
	defer run.Finish()
	n := vfPick(27, 108)
	var wg sync.WaitGroup
	sem := make(chan struct{}, 9)
	lo, hi := 0, n
	if ri, ok := vfReplayCase(); ok && ri < 100000 {
		lo, hi = ri, ri+1
	}
	for idx := lo; idx < hi; idx++ {
		wg.Add(1)
		sem <- struct{}{}
		go func(idx int) {
			defer wg.Done()
			defer func() { <-sem }()
			c := c12StallGen(idx)
			if idx < 2 {
				run.Sample(c)
			}
			c12StallRun(run, c)
		}(idx)
	}
	wg.Wait()
}

// ---------------------------------------------------------------- partial flood

type c12FloodCase struct {
	Index  int    `json:"case_index"`
	Scheme string `json:"scheme"`
	N      int    `json:"n"`
	Thr    int    `json:"thr"`
	L1     int    `json:"flood_1"`
	L2     int    `json:"flood_2"`
	Flooders int  `json:"flooders"`
	LiveFirst bool `json:"flooder_signs_the_live_round_first"`
}

type c12CacheStats struct {
	rounds, rcvdMax, sigsOfFlooder int
}

func c12FloodRun(run *vfRun, c c12FloodCase) {
	sch, _ := crypto.SchemeFromName(c.Scheme)
	corrupted := []int{}
	for i := 1; i < c.N; i++ {
		corrupted = append(corrupted, i) // only node 0 is a real handler; the harness plays everybody else
	}
	cfg := vfbConfig{Scheme: sch, N: c.N, Thr: c.Thr, Period: 2 * time.Second, Catchup: time.Second, Backend: "memdb", BeaconID: "c12",
		GenesisIn: 2 * time.Second, Corrupted: corrupted, Seed: vfCaseSeed(vfSeed(), "C12f", c.Index)}
	nt, err := vfbNewNet(run, cfg, time.Unix(1730000000+int64(c.Index)*1000, 0))
	if err != nil {
		run.Inconclusive(err.Error())
		return
	}
	defer nt.Close()
	nt.syncOff = true
	info := map[string]any{"case_index": c.Index, "case": c}
	rng := vfNewRng(cfg.Seed ^ 0xf100d)
	v := nt.nodes[0]
	flooders := corrupted[len(corrupted)-c.Flooders:]
	var smu sync.Mutex
	var last c12CacheStats
	liveCache := "cache hook never fired"
	var hookFirings int64
	var ownCached int32
	nt.mu.Lock()
	nt.onHook = func(name string, n *vfbNode, args []any) {
		if name != "aggregator.cache" || len(args) == 0 {
			return
		}
		pc, ok := args[0].(*partialCache)
		if !ok {
			return
		}
		atomic.AddInt64(&hookFirings, 1)
		s := c12CacheStats{rounds: len(pc.rounds)}
		for _, ids := range pc.rcvd {
			if len(ids) > s.rcvdMax {
				s.rcvdMax = len(ids)
			}
		}
		live := ""
		for _, rc := range pc.rounds {
			if _, ok := rc.sigs[flooders[0]]; ok {
				s.sigsOfFlooder++
			}
			if rc.round == 1 && bytes.Equal(rc.prev, nt.group.GenesisSeed) {
				var who []int
				for idx := range rc.sigs {
					who = append(who, idx)
				}
				sort.Ints(who)
				live = fmt.Sprintf("round-1 cache holds partials of indices %v", who)
				for _, idx := range who {
					if idx == v.index {
						atomic.StoreInt32(&ownCached, 1)
					}
				}
			}
		}
		smu.Lock()
		last = s
		if live == "" {
			live = "no round cache for (round 1, genesis seed)"
		}
		liveCache = live
		smu.Unlock()
	}
	nt.mu.Unlock()
	var puts int64
	nt.onPut = func(n *vfbNode, b *common.Beacon, src string, seq int64) {
		if b.Round > 0 {
			atomic.AddInt64(&puts, 1)
		}
	}
	if err := nt.StartAll(); err != nil {
		run.Inconclusive(err.Error())
		return
	}
	nt.Settle()
	nt.Step(cfg.Period * 5) // clock at round ~4: partials for rounds 1..4 pass the window (head 0 + 4) and the clock check
	// precondition, not a verdict: the victim's own partial for round 1 is in its cache. The handler registers its
	// tick channel with the ticker asynchronously; a first tick that fires before the registration is consumed is
	// not delivered to it (in real time the next one follows a period later; here the clock only moves when the
	// harness moves it), so further periods are stepped until the cache hook has shown the victim's index.
	for extra := 0; atomic.LoadInt32(&ownCached) == 0; extra++ {
		for i := 0; i < 200 && atomic.LoadInt32(&ownCached) == 0; i++ {
			time.Sleep(10 * time.Millisecond)
		}
		if atomic.LoadInt32(&ownCached) != 0 {
			break
		}
		if extra == 5 {
			run.Inconclusive("the victim's own partial for round 1 never appeared in its cache (6 ticks offered)")
			return
		}
		run.Count("extra_ticks_for_own_partial", 1)
		nt.Step(cfg.Period)
	}
	seed := nt.group.GenesisSeed
	prevOf := func() []byte { return seed } // honest nodes always carry the last signature, also in unchained schemes
	// t-2 honest members' partials for round 1 arrive before the flood (the victim's own is cached by its tick)
	honestBefore := 0
	lim := c.Thr - 2
	if c.LiveFirst {
		lim = c.Thr - 3 // own + (t-3) honest + the flooder's own genuine partial = t-1 cached before the flood
	}
	for m := 1; m <= lim; m++ {
		if err := nt.Deliver(m, v, nt.packet(1, prevOf(), nt.signPartial(m, 1, prevOf())), "honest"); err != nil {
			run.Inconclusive("honest partial refused before the flood: " + err.Error())
			return
		}
		honestBefore++
	}
	nt.Settle()
	if atomic.LoadInt64(&puts) != 0 {
		run.Inconclusive("round 1 aggregated before the flood")
		return
	}
	if c.LiveFirst {
		// the flooder's genuine partial for the round being aggregated becomes the OLDEST entry of its list:
		// it is the first one its own flood evicts, which must not take the other members' partials with it
		for _, f := range flooders[:1] {
			_ = nt.Deliver(f, v, nt.packet(1, prevOf(), nt.signPartial(f, 1, prevOf())), "adversary")
		}
		nt.Settle()
		if atomic.LoadInt64(&puts) != 0 { // threshold reached by own + honest + flooder: pick a case with a higher threshold
			run.Eval("")
			return
		}
	}
	flood := func(L int) c12CacheStats {
		for i := 0; i < L; i++ {
			f := flooders[i%len(flooders)]
			round := uint64(1 + rng.Intn(4))
			var prev []byte
			if nt.chained() {
				prev = rng.Bytes(96) // signed over: a valid partial for a previous signature that does not exist
			} else {
				prev = rng.Bytes(8) // not signed over in unchained schemes: free for the attacker
			}
			_ = nt.Deliver(f, v, nt.packet(round, prev, nt.signPartial(f, round, prev)), "adversary")
			if i%200 == 199 {
				nt.Settle()
			}
		}
		nt.Settle()
		smu.Lock()
		defer smu.Unlock()
		return last
	}
	s1 := flood(c.L1)
	s2 := flood(c.L2 - c.L1)
	run.Count("flood_partials", int64(c.L2))
	run.Count("cache_hook_firings", atomic.LoadInt64(&hookFirings))
	run.Seen("cache_sizes", fmt.Sprintf("rounds=%d rcvd=%d", s2.rounds, s2.rcvdMax))
	if atomic.LoadInt64(&hookFirings) == 0 {
		run.Inconclusive("cache hook never fired")
		return
	}
	bound := 3 * MaxPartialsPerNode * c.Flooders
	grew := func(a, b int) bool { return b > a+a/10+5 }
	if s2.rounds > bound+10 || s2.rcvdMax > bound || grew(s1.rounds, s2.rounds) && s2.rounds > bound/3*2 {
		run.Violation("C12/partial-cache-unbounded/"+map[bool]string{true: "chained", false: "unchained"}[nt.chained()],
			fmt.Sprintf("after %d flood partials: %d round caches, longest per-member list %d; after %d: %d / %d (documented per-member limit %d)", c.L1, s1.rounds, s1.rcvdMax, c.L2, s2.rounds, s2.rcvdMax, MaxPartialsPerNode), info)
	}
	// the honest partials of the round being aggregated must have survived: the t-th arrives now
	// (the flooder's own partial for that round is legitimately lost to its own flood, so without it)
	for m := lim + 1; m <= c.Thr-1; m++ {
		if err := nt.Deliver(m, v, nt.packet(1, prevOf(), nt.signPartial(m, 1, prevOf())), "honest"); err != nil {
			run.Note("late honest partial refused: " + err.Error())
		}
	}
	// positive signal ends the wait; the generous cap only matters on a loaded machine (the aggregator may still be
	// draining the flood from its channel when the honest partial is queued behind it)
	nt.Settle()
	for i := 0; i < 3000 && atomic.LoadInt64(&puts) == 0; i++ {
		time.Sleep(10 * time.Millisecond)
	}
	if atomic.LoadInt64(&puts) == 0 {
		run.Violation("C12/flood-evicted-honest-partials/"+map[bool]string{true: "chained", false: "unchained"}[nt.chained()],
			fmt.Sprintf("own + %d honest partials for round 1 were cached before a flood of %d partials by %d member(s); the threshold-th honest partial arriving afterwards did not produce the beacon; at the last inspection: %s; victim head %d", honestBefore, c.L2, c.Flooders, func() string { smu.Lock(); defer smu.Unlock(); return liveCache }(), nt.Head(v)), info)
	} else {
		run.Count("aggregated_after_flood", 1)
	}
	run.Eval(fmt.Sprintf("%s/%d-%d/%d/%d/%d", c.Scheme, c.N, c.Thr, c.L1, c.L2, c.Flooders))
	_ = context.Background
}

func TestVF_C12_Flood(t *testing.T) {
	vfsInstallHook()
	run := vfNewRun("C12", "beaconnet-flood")
	defer run.Finish()
	schemes := vfbSchemeList()
	if !vfThorough() {
		schemes = schemes[:2]
	}
	var cases []c12FloodCase
	i := 0
	for _, sch := range schemes {
		for _, nt := range [][2]int{{4, 3}, {5, 3}, {7, 4}} {
			f := 1
			if nt[0]-nt[1] >= 2 && i%2 == 1 {
				f = 2
			}
			cases = append(cases, c12FloodCase{Index: i, Scheme: sch.Name, N: nt[0], Thr: nt[1], L1: vfPick(300, 1000), L2: vfPick(1200, 5000), Flooders: f, LiveFirst: i%2 == 0})
			i++
		}
	}
	var wg sync.WaitGroup
	sem := make(chan struct{}, 8)
	for _, c := range cases {
		wg.Add(1)
		sem <- struct{}{}
		go func(c c12FloodCase) {
			defer wg.Done()
			defer func() { <-sem }()
			if c.Index == 0 {
				run.Sample(c)
			}
			c12FloodRun(run, c)
		}(c)
	}
	wg.Wait()
}
