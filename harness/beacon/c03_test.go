package beacon

// C03 — no beacon without a threshold of valid partials from distinct current members.
// Manual network: the harness chooses which members contribute and the arrival order at each node;
// sync is disabled, so every Put of round >= 1 is an aggregation.

import (
	"bytes"
	"fmt"
	"sort"
	"sync"
	"testing"
	"time"

	"github.com/drand/drand/v2/common"
	"github.com/drand/drand/v2/crypto"
	proto "github.com/drand/drand/v2/protobuf/drand"
)

type c03Case struct {
	Index        int    `json:"case_index"`
	Scheme       string `json:"scheme"`
	N            int    `json:"n"`
	Thr          int    `json:"thr"`
	Backend      string `json:"backend"`
	Contributors []int  `json:"contributors"`
	K            string `json:"k"` // t-1 | t | t+1
	PermNo       int    `json:"perm_no"`
	Rounds       int    `json:"rounds"`
	Hostile      bool   `json:"hostile"`
	Withhold     bool   `json:"withhold_a_round_from_one_node"`
	Seed         uint64 `json:"seed"`
}

func c03Gen(idx int) c03Case {
	seed := vfCaseSeed(vfSeed(), "C03", idx)
	rng := vfNewRng(seed)
	schemes := vfbSchemeList()
	if !vfThorough() {
		schemes = schemes[:3]
	}
	// all (n,t) with n <= 7 (quick: n <= 5) and t in [n/2+1, n]
	var nts [][2]int
	maxN := vfPick(5, 7)
	for n := 1; n <= maxN; n++ {
		for t := n/2 + 1; t <= n; t++ {
			nts = append(nts, [2]int{n, t})
		}
	}
	nt := nts[idx%len(nts)]
	c := c03Case{Index: idx, Scheme: schemes[(idx/len(nts))%len(schemes)].Name, N: nt[0], Thr: nt[1], Seed: seed,
		Backend: []string{"bolt-trimmed", "memdb", "bolt-untrimmed"}[rng.Intn(3)], Rounds: rng.Range(3, 5), Hostile: rng.Chance(70), PermNo: rng.Intn(720), Withhold: rng.Chance(35)}
	ks := []int{nt[1] - 1, nt[1], nt[1] + 1}
	names := []string{"t-1", "t", "t+1"}
	w := (idx / (len(nts) * len(schemes))) % 3
	k := ks[w]
	c.K = names[w]
	if k > c.N {
		k, c.K = c.N, "t"
		if c.N == c.Thr {
			c.K = "t"
		}
	}
	if k < 0 {
		k = 0
	}
	c.Contributors = rng.Perm(c.N)[:k]
	sort.Ints(c.Contributors)
	return c
}

func nthPerm(items []int, no int) []int {
	its := append([]int(nil), items...)
	var out []int
	for len(its) > 0 {
		i := no % len(its)
		no /= len(its)
		out = append(out, its[i])
		its = append(its[:i], its[i+1:]...)
	}
	return out
}

func c03Run(run *vfRun, c c03Case) { c03RunMode(run, c, "c03") }

// c03RunMode: mode "c03" arms the counting oracle; mode "c01" runs the same chosen-arrival-order workload (incl. the
// schedule in which a node sees round r+1's partials before round r's) with the signature-verification oracle of C01.
func c03RunMode(run *vfRun, c c03Case, mode string) {
	sch, _ := crypto.SchemeFromName(c.Scheme)
	cfg := vfbConfig{Scheme: sch, N: c.N, Thr: c.Thr, Period: 2 * time.Second, Catchup: time.Second, Backend: c.Backend, BeaconID: "c03",
		GenesisIn: 2 * time.Second, ManualNet: true, Seed: c.Seed}
	nt, err := vfbNewNet(run, cfg, time.Unix(1710000000+int64(c.Index)*500, 0))
	if err != nil {
		run.Inconclusive(err.Error())
		return
	}
	defer nt.Close()
	nt.syncOff = true
	rng := vfNewRng(c.Seed ^ 0xc03)
	isContrib := map[int]bool{}
	for _, p := range c.Contributors {
		isContrib[p] = true
	}
	for _, n := range nt.nodes {
		if !isContrib[n.pos] {
			setOff(n, 1) // silent members: nothing leaves them, nothing reaches them
		}
	}
	info := map[string]any{"case_index": c.Index, "case": c}
	kind := "unchained"
	if nt.chained() {
		kind = "chained"
	}
	var omu sync.Mutex
	minD, puts, maxValidSeen := 1<<30, 0, 0
	// the oracle: at every first Put of a round at a node, count what that node had been handed before
	nt.onPut = func(n *vfbNode, b *common.Beacon, src string, seq int64) {
		if b.Round == 0 {
			return
		}
		run.Count("aggregation_puts", 1)
		if mode == "c01" {
			omu.Lock()
			puts++
			minD = 0
			omu.Unlock()
			if err := nt.verifyBeacon(b); err != nil {
				run.Violation(fmt.Sprintf("C01/unverifiable-beacon-stored/%s/%s", src, nt.backendOf(n)),
					fmt.Sprintf("node %d stored round %d (via %s, chosen arrival order) that does not verify under the group key: %v", n.pos, b.Round, src, err), info)
			} else {
				run.Count("stored_beacons_verified", 1)
			}
			return
		}
		D := map[int]bool{n.pos: true} // own partial is credited unconditionally (enqueued before any tap can see it)
		for _, e := range nt.eventsCopy() {
			if e.Seq >= seq {
				break
			}
			if e.Kind != "deliver" || e.Node != n.pos || e.Round != b.Round {
				continue
			}
			if nt.chained() && !bytes.Equal(e.Prev, b.PreviousSig) {
				continue
			}
			if e.Idx < 0 || e.Idx >= c.N || D[e.Idx] {
				continue
			}
			prev := e.Prev
			if !nt.chained() {
				prev = nil
			}
			if nt.verifyPartial(b.Round, prev, e.Sig) {
				D[e.Idx] = true
			}
		}
		omu.Lock()
		puts++
		if len(D) < minD {
			minD = len(D)
		}
		omu.Unlock()
		run.Seen("aggregation_set_sizes", fmt.Sprintf("%d/%d of %d", len(D), c.Thr, c.N))
		if len(D) < c.Thr {
			run.Violation("C03/beacon-with-fewer-than-threshold-valid-partials/"+kind,
				fmt.Sprintf("node %d stored round %d having been handed valid partials from only %d distinct members %v (own included), threshold %d", n.pos, b.Round, len(D), keysOf(D), c.Thr), info)
		}
		// members whose partials can reach this node at all: itself, plus the contributors if it is one of them
		reach := 1
		if isContrib[n.pos] {
			reach = len(c.Contributors)
		}
		if reach < c.Thr {
			run.Violation("C03/beacon-produced-with-fewer-than-threshold-contributors/"+kind,
				fmt.Sprintf("round %d stored at node %d although only %d members' partials can reach it (threshold %d)", b.Round, n.pos, reach, c.Thr), info)
		}
	}
	adv := vfbNewAdversary(nt)
	nt.onEmit = func(from *vfbNode, to int, p *proto.PartialBeaconPacket, clk int64) { adv.observeEmit(p, from.pos) }
	if err := nt.StartAll(); err != nil {
		run.Inconclusive(err.Error())
		return
	}
	nt.Settle()
	lite := func() { // let the aggregator digest one delivery
		time.Sleep(3 * time.Millisecond)
		nt.Settle()
	}
	var held []*vfbQueued // partials of one round kept back from one node: it falls a round behind the others
	heldFor, heldRound := -1, uint64(0)
	if c.Withhold && len(c.Contributors) > c.Thr {
		heldFor = c.Contributors[rng.Intn(len(c.Contributors))]
		heldRound = uint64(rng.Range(1, c.Rounds-1))
	}
	for r := 0; r < c.Rounds+1; r++ {
		nt.Step(cfg.Period)
		for loop := 0; loop < 6; loop++ {
			q := nt.TakeQueue()
			if heldFor >= 0 {
				var rest []*vfbQueued
				for _, m := range q {
					if m.to == heldFor && m.p.GetRound() == heldRound {
						held = append(held, m)
						run.Count("partials_withheld", 1)
					} else {
						rest = append(rest, m)
					}
				}
				q = rest
				// release them once the others have moved on: the late node now sees round r+1 before round r
				if len(held) > 0 && uint64(r) > heldRound+1 {
					q = append(q, held...)
					held, heldFor = nil, -1
				}
			}
			if len(q) == 0 {
				break
			}
			byTo := map[int][]*vfbQueued{}
			for _, m := range q {
				byTo[m.to] = append(byTo[m.to], m)
			}
			tos := make([]int, 0, len(byTo))
			for t := range byTo {
				tos = append(tos, t)
			}
			sort.Ints(tos)
			for _, to := range tos {
				ms := byTo[to]
				sort.Slice(ms, func(i, j int) bool { return ms[i].from < ms[j].from })
				order := nthPerm(seqInts(len(ms)), c.PermNo+r)
				valid := 0
				for _, oi := range order {
					m := ms[oi]
					if c.Hostile && rng.Chance(60) {
						c03Hostile(nt, adv, rng, nt.nodes[to], m)
					}
					if nt.linkUp(m.from, m.to) {
						_ = nt.Deliver(m.from, nt.nodes[m.to], m.p, "honest")
						valid++
						if c.Hostile && rng.Chance(30) { // duplicate of the same member's partial: must count once
							_ = nt.Deliver(m.from, nt.nodes[m.to], m.p, "honest")
							run.Count("duplicates_delivered", 1)
						}
					}
					lite()
				}
				omu.Lock()
				if valid > maxValidSeen {
					maxValidSeen = valid
				}
				omu.Unlock()
			}
		}
	}
	omu.Lock()
	defer omu.Unlock()
	key := ""
	switch {
	case puts > 0 && minD <= c.Thr+1:
		key = fmt.Sprintf("%s/%d-%d/%v/%d/%v", c.Scheme, c.N, c.Thr, c.Contributors, c.PermNo, c.Hostile)
	case c.Thr > 1 && len(c.Contributors) < c.Thr && puts == 0 && maxValidSeen >= c.Thr-2:
		key = fmt.Sprintf("%s/%d-%d/%v/starved", c.Scheme, c.N, c.Thr, c.Contributors)
		run.Count("starved_cases_without_beacon", 1)
	}
	run.Eval(key)
	run.Seen("schedules", nt.scheduleHash())
}

func seqInts(n int) []int {
	s := make([]int, n)
	for i := range s {
		s[i] = i
	}
	return s
}

func keysOf(m map[int]bool) []int {
	var k []int
	for x := range m {
		k = append(k, x)
	}
	sort.Ints(k)
	return k
}

// c03Hostile hands the victim one partial that must not count, derived from the honest one about to arrive.
func c03Hostile(nt *vfbNet, adv *vfbAdversary, rng *vfRng, victim *vfbNode, m *vfbQueued) {
	p := m.p
	n := nt.cfg.N
	silent := -1
	for _, nd := range nt.nodes { // a member that does not contribute: the adversary speaks in its name (without its share)
		if nd.pos != victim.pos && nd.recvOff == 1 {
			silent = nd.pos
			break
		}
	}
	var pkt *proto.PartialBeaconPacket
	kind := ""
	switch rng.Intn(8) {
	case 0:
		kind = "bitflip"
		pkt = nt.packet(p.Round, p.PreviousSignature, flipBit(p.PartialSig, rng))
	case 1:
		kind = "other-round-label"
		pkt = nt.packet(p.Round+1, p.PreviousSignature, p.PartialSig)
	case 2:
		kind = "other-prev-label"
		pkt = nt.packet(p.Round, rng.Bytes(len(p.PreviousSignature)+1), p.PartialSig)
	case 3:
		kind = "forged-under-silent-member-index"
		if silent >= 0 && len(p.PartialSig) > 2 {
			s := []byte{byte(silent >> 8), byte(silent)}
			s = append(s, rng.Bytes(len(p.PartialSig)-2)...)
			pkt = nt.packet(p.Round, p.PreviousSignature, s)
		}
	case 4:
		kind = "honest-sig-relabelled-to-silent-member-index"
		if silent >= 0 && len(p.PartialSig) > 2 {
			s := append([]byte{byte(silent >> 8), byte(silent)}, p.PartialSig[2:]...)
			pkt = nt.packet(p.Round, p.PreviousSignature, s)
		}
	case 7:
		// a correct evaluation of the sharing polynomial at an index no member holds (the harness owns the
		// polynomial; a real adversary below the threshold cannot compute it, but if it existed it must not count)
		kind = "valid-evaluation-at-non-member-index"
		sh := nt.pri.Shares(n + 3)[n+rng.Intn(3)]
		prev := p.PreviousSignature
		if !nt.chained() {
			prev = nil
		}
		sg, _ := nt.cfg.Scheme.ThresholdScheme.Sign(sh, nt.digest(p.Round, prev))
		pkt = nt.packet(p.Round, p.PreviousSignature, sg)
	case 5:
		kind = "non-member-index"
		if len(p.PartialSig) > 2 {
			x := n + rng.Intn(5)
			s := append([]byte{byte(x >> 8), byte(x)}, p.PartialSig[2:]...)
			pkt = nt.packet(p.Round, p.PreviousSignature, s)
		}
	case 6:
		kind = "replay-own"
		adv.mu.Lock()
		for i := len(adv.seen) - 1; i >= 0; i-- {
			if adv.seenFrom[i] == victim.pos {
				q := adv.seen[i]
				pkt = nt.packet(q.Round, q.PreviousSignature, q.PartialSig)
				break
			}
		}
		adv.mu.Unlock()
	}
	if pkt == nil {
		return
	}
	nt.run.Count("hostile_partials."+kind, 1)
	from := m.from
	if silent >= 0 {
		from = silent
	}
	_ = nt.Deliver(from, victim, pkt, "adversary")
}

func TestVF_C03(t *testing.T) {
	run := vfNewRun("C03", "beaconnet-manual")
	defer run.Finish()
	n := vfPick(72, 900)
	lo, hi := 0, n
	if ri, ok := vfReplayCase(); ok {
		lo, hi = ri, ri+1
	}
	var wg sync.WaitGroup
	sem := make(chan struct{}, 8)
	for idx := lo; idx < hi; idx++ {
		wg.Add(1)
		sem <- struct{}{}
		go func(idx int) {
			defer wg.Done()
			defer func() { <-sem }()
			c := c03Gen(idx)
			if idx < 3 {
				run.Sample(c)
			}
			c03Run(run, c)
		}(idx)
	}
	wg.Wait()
}

// C01 on the manual network: same workload, signature oracle.
func TestVF_C01_Manual(t *testing.T) {
	run := vfNewRun("C01", "beaconnet-manual")
	defer run.Finish()
	n := vfPick(72, 600)
	var wg sync.WaitGroup
	sem := make(chan struct{}, 8)
	for idx := 0; idx < n; idx++ {
		wg.Add(1)
		sem <- struct{}{}
		go func(idx int) {
			defer wg.Done()
			defer func() { <-sem }()
			c := c03Gen(idx)
			c.Withhold = idx%2 == 0 // half of the cases keep one round back from one node
			if idx == 0 {
				run.Sample(c)
			}
			c03RunMode(run, c, "c01")
		}(idx)
	}
	wg.Wait()
}
