package beacon

// Engine A ("beaconnet"): n real Handlers with real stores and fake clocks, joined by an in-memory
// net.ProtocolClient with a fault scheduler, an event log and taps at the base store and at the wire.
// Oracles (C01..C05, C07, C10..C12) are in the per-property files; this file only runs the real code
// and records what it does.

import (
	"bytes"
	"context"
	"errors"
	"fmt"
	gonet "net"
	"os"
	"runtime"
	"sort"
	"strings"
	"sync"
	"sync/atomic"
	"time"

	clock "github.com/jonboulle/clockwork"
	"google.golang.org/grpc"
	"google.golang.org/grpc/peer"

	"github.com/drand/kyber"
	"github.com/drand/kyber/share"
	kdkg "github.com/drand/kyber/share/dkg"
	"github.com/drand/kyber/util/random"

	"github.com/drand/drand/v2/common"
	"github.com/drand/drand/v2/common/key"
	"github.com/drand/drand/v2/common/log"
	"github.com/drand/drand/v2/crypto"
	"github.com/drand/drand/v2/internal/chain"
	"github.com/drand/drand/v2/internal/chain/boltdb"
	"github.com/drand/drand/v2/internal/chain/memdb"
	"github.com/drand/drand/v2/internal/net"
	"github.com/drand/drand/v2/internal/vfhook"
	proto "github.com/drand/drand/v2/protobuf/drand"
)

// ---------------------------------------------------------------- logger (never exits the process)

type vfbLogger struct {
	name   string
	fatals *int64
	sink   func(level, msg string, kv []interface{})
}

func vfbNewLogger(name string) *vfbLogger { var n int64; return &vfbLogger{name: name, fatals: &n} }

func (l *vfbLogger) emit(level, msg string, kv []interface{}) {
	if l.sink != nil {
		l.sink(level, msg, kv)
	}
}
func (l *vfbLogger) Info(kv ...interface{})               {}
func (l *vfbLogger) Debug(kv ...interface{})              {}
func (l *vfbLogger) Warn(kv ...interface{})               {}
func (l *vfbLogger) Error(kv ...interface{})              { l.emit("error", "", kv) }
func (l *vfbLogger) Fatal(kv ...interface{})              { atomic.AddInt64(l.fatals, 1); l.emit("fatal", "", kv) }
func (l *vfbLogger) Panic(kv ...interface{})              { atomic.AddInt64(l.fatals, 1); l.emit("panic", "", kv) }
func (l *vfbLogger) Infow(m string, kv ...interface{})    { l.emit("info", m, kv) }
func (l *vfbLogger) Debugw(m string, kv ...interface{})   { l.emit("debug", m, kv) }
func (l *vfbLogger) Warnw(m string, kv ...interface{})    { l.emit("warn", m, kv) }
func (l *vfbLogger) Errorw(m string, kv ...interface{})   { l.emit("error", m, kv) }
func (l *vfbLogger) Fatalw(m string, kv ...interface{})   { atomic.AddInt64(l.fatals, 1); l.emit("fatal", m, kv) }
func (l *vfbLogger) Panicw(m string, kv ...interface{})   { atomic.AddInt64(l.fatals, 1); l.emit("panic", m, kv) }
func (l *vfbLogger) With(args ...interface{}) log.Logger  { return l }
func (l *vfbLogger) Named(s string) log.Logger            { return l }
func (l *vfbLogger) Name() string                         { return l.name }
func (l *vfbLogger) AddCallerSkip(skip int) log.Logger    { return l }

// ---------------------------------------------------------------- events

type vfbEvent struct {
	Seq   int64
	Kind  string // emit deliver deliver-ret put put-ret sync-send sync-recv
	Node  int    // the node the event happens at (receiver for deliver, owner for put)
	From  int    // sender (deliver/emit), -1 if none
	Round uint64
	Prev  []byte
	Sig   []byte
	Idx   int    // share index carried by a partial (-1 unknown)
	Src   string // put: agg | sync | genesis | other ; deliver: honest | adversary
	Err   string
	Clock int64 // unix time of the relevant fake clock when recorded
}

func (e vfbEvent) String() string {
	return fmt.Sprintf("#%d %s node=%d from=%d round=%d src=%s idx=%d clock=%d err=%q", e.Seq, e.Kind, e.Node, e.From, e.Round, e.Src, e.Idx, e.Clock, e.Err)
}

// ---------------------------------------------------------------- network

type vfbConfig struct {
	Scheme      *crypto.Scheme
	N, Thr      int
	Period      time.Duration
	Catchup     time.Duration
	Backend     string // bolt-trimmed | bolt-untrimmed | memdb | mixed (node i uses one of the three by position)
	MemCap      int
	BeaconID    string
	GenesisIn   time.Duration // genesis = start + GenesisIn
	Corrupted   []int         // node positions without an honest handler (their shares belong to the adversary)
	ManualNet   bool          // partials are queued and delivered by the case's scheduler
	Seed        uint64
	Universe    int // total number of nodes created (>= N); nodes N.. are not in the first group (future joiners)
}

type vfbNode struct {
	pos      int // position in net.nodes (stable identity); == group index unless a reshare re-indexed it
	net      *vfbNet
	index    int        // index in the group its handler runs with (-1: not a member)
	grp      *key.Group // group its handler is (to be) created with; nil = net.group
	addr     string
	pair     *key.Pair
	share    *key.Share
	clk      *clock.FakeClock
	handler  *Handler
	tap      *vfbTapStore
	dir      string
	logger   *vfbLogger
	running  bool
	honest   bool
	recvOff  int32 // atomic: 1 = inbound traffic to this node fails (partition / down)
	sendOff  int32
	act      int64 // atomic: events this node took part in (emissions, puts, deliveries handled)
}

type vfbNet struct {
	cfg     vfbConfig
	run     *vfRun
	rng     *vfRng
	group   *key.Group
	pri     *share.PriPoly
	pubPoly *share.PubPoly
	pubKey  kyber.Point
	genesis int64
	nodes   []*vfbNode
	byAddr  map[string]*vfbNode
	tmp     string

	mu       sync.Mutex
	events   []vfbEvent
	seq      int64
	activity int64
	inflight int64

	// fault plan, consulted for every honest partial (guarded by mu)
	deadLinks map[[2]int]bool // directed links on which every partial is lost
	dropPct   int
	dupPct    int
	delayMax  time.Duration
	partition map[int]int // node -> side; messages only pass within a side (nil = no partition)
	syncOff   bool        // SyncChain requests fail
	queue     []*vfbQueued
	// taps
	onPut     func(n *vfbNode, b *common.Beacon, src string, seq int64)
	onPutRet  func(n *vfbNode, b *common.Beacon, src string, err error) // after the base store answered
	onDeliver func(to *vfbNode, from int, p *proto.PartialBeaconPacket, src string, seq int64)
	onEmit    func(from *vfbNode, to int, p *proto.PartialBeaconPacket, clk int64)
	onSyncSend func(server *vfbNode, b *proto.BeaconPacket)
	onHook     func(name string, n *vfbNode, args []any)
	onOpen     func(n *vfbNode) // a node's store has just been (re)opened, before any Put
	failPut    func(n *vfbNode, b *common.Beacon) error // fault injection at the base store (nil = none)
	id         int
	// adversary-served sync streams: addr -> function
	syncServers map[string]func(ctx context.Context, req *proto.SyncRequest, out chan<- *proto.BeaconPacket)
	stopped  int32
}

type vfbQueued struct {
	from, to int
	p        *proto.PartialBeaconPacket
}

var vfbNetCounter int64

// addresses are unique per network instance so that process-global hooks can be routed
func vfbAddrOf(netID, i int) string {
	return fmt.Sprintf("10.%d.%d.%d:%d", 1+(netID/250)%250, netID%250, 1+i, 4000+i)
}

// ---------------------------------------------------------------- hook routing (vfhook is process-global)

var (
	vfbHookOnce  sync.Once
	vfbHookMu    sync.RWMutex
	vfbHookNodes = map[string]*vfbNode{}
)

func vfbInstallHooks() {
	vfbHookOnce.Do(func() {
		vfhook.SetPoint(func(name string, args ...any) {
			if vfsHandoverHook(name, args...) { // engine B: parking by SyncChain id
				return
			}
			vfbRouteHook(name, args...) // engine A: routing by node address
		})
	})
}

func vfbRouteHook(name string, args ...any) {
	if len(args) == 0 {
		return
	}
	addr, ok := args[0].(string)
	if !ok {
		return
	}
	vfbHookMu.RLock()
	n := vfbHookNodes[addr]
	vfbHookMu.RUnlock()
	if n == nil || n.net == nil {
		return
	}
	n.net.mu.Lock()
	f := n.net.onHook
	n.net.mu.Unlock()
	if f != nil {
		f(name, n, args[1:])
	}
}

// vfbNewNet creates keys, shares, group and nodes (handlers are created by StartAll/StartNode).
func vfbNewNet(run *vfRun, cfg vfbConfig, start time.Time) (*vfbNet, error) {
	rng := vfNewRng(cfg.Seed)
	sch := cfg.Scheme
	vfbInstallHooks()
	nt := &vfbNet{id: int(atomic.AddInt64(&vfbNetCounter, 1)), cfg: cfg, run: run, rng: rng, byAddr: map[string]*vfbNode{}, syncServers: map[string]func(context.Context, *proto.SyncRequest, chan<- *proto.BeaconPacket){}}
	base := os.TempDir()
	if st, err := os.Stat("/dev/shm"); err == nil && st.IsDir() {
		base = "/dev/shm"
	}
	tmp, err := os.MkdirTemp(base, "vfb-")
	if err != nil {
		return nil, err
	}
	nt.tmp = tmp
	nt.pri = share.NewPriPoly(sch.KeyGroup, cfg.Thr, nil, random.New(rng))
	nt.pubPoly = nt.pri.Commit(sch.KeyGroup.Point().Base())
	_, commits := nt.pubPoly.Info()
	nt.pubKey = nt.pubPoly.Commit()
	shares := nt.pri.Shares(cfg.N)
	nodes := make([]*key.Node, cfg.N)
	corrupted := map[int]bool{}
	for _, c := range cfg.Corrupted {
		corrupted[c] = true
	}
	total := cfg.N
	if cfg.Universe > total {
		total = cfg.Universe
	}
	for i := 0; i < total; i++ {
		k := sch.KeyGroup.Scalar().Pick(random.New(rng))
		pair := &key.Pair{Key: k, Public: &key.Identity{Key: sch.KeyGroup.Point().Mul(k, nil), Addr: vfbAddrOf(nt.id, i), Scheme: sch}}
		if err := pair.SelfSign(); err != nil {
			return nil, err
		}
		nd := &vfbNode{pos: i, index: -1, net: nt, addr: pair.Public.Addr, pair: pair, honest: !corrupted[i],
			clk:    clock.NewFakeClockAt(start),
			dir:    fmt.Sprintf("%s/n%d", tmp, i),
			logger: vfbNewLogger(fmt.Sprintf("n%d", i))}
		if i < cfg.N {
			nodes[i] = &key.Node{Identity: pair.Public, Index: uint32(i)}
			nd.index = i
			nd.share = &key.Share{DistKeyShare: kdkg.DistKeyShare{Share: shares[i], Commits: commits}, Scheme: sch}
		}
		nt.nodes = append(nt.nodes, nd)
		nt.byAddr[nd.addr] = nd
		vfbHookMu.Lock()
		vfbHookNodes[nd.addr] = nd
		vfbHookMu.Unlock()
	}
	nt.genesis = start.Add(cfg.GenesisIn).Unix()
	nt.group = &key.Group{Threshold: cfg.Thr, Period: cfg.Period, Scheme: sch, ID: cfg.BeaconID, CatchupPeriod: cfg.Catchup,
		Nodes: nodes, GenesisTime: nt.genesis, PublicKey: &key.DistPublic{Coefficients: commits}}
	nt.group.GenesisSeed = nt.group.Hash()
	return nt, nil
}

func (nt *vfbNet) chained() bool { return nt.cfg.Scheme.Name == crypto.DefaultSchemeID }

func (nt *vfbNet) record(e vfbEvent) int64 {
	switch e.Kind {
	case "emit":
		if e.From >= 0 && e.From < len(nt.nodes) {
			atomic.AddInt64(&nt.nodes[e.From].act, 1)
		}
	case "put", "deliver-ret":
		if e.Node >= 0 && e.Node < len(nt.nodes) {
			atomic.AddInt64(&nt.nodes[e.Node].act, 1)
		}
	}
	nt.mu.Lock()
	nt.seq++
	e.Seq = nt.seq
	nt.events = append(nt.events, e)
	nt.mu.Unlock()
	atomic.AddInt64(&nt.activity, 1)
	return e.Seq
}

func (nt *vfbNet) eventsCopy() []vfbEvent {
	nt.mu.Lock()
	defer nt.mu.Unlock()
	return append([]vfbEvent(nil), nt.events...)
}

// backendOf: the storage back-end of one node (networks may mix them, as real deployments do).
func (nt *vfbNet) backendOf(n *vfbNode) string {
	if nt.cfg.Backend == "mixed" {
		return []string{"bolt-trimmed", "bolt-untrimmed", "memdb"}[n.pos%3]
	}
	return nt.cfg.Backend
}

func (nt *vfbNet) openStore(n *vfbNode) (chain.Store, error) {
	ctx := context.Background()
	if nt.chained() {
		ctx = chain.SetPreviousRequiredOnContext(ctx)
	}
	switch nt.backendOf(n) {
	case "memdb":
		c := nt.cfg.MemCap
		if c == 0 {
			c = 2000
		}
		return memdb.NewStore(c), nil
	case "bolt-untrimmed":
		ctx = boltdb.IsATest(ctx)
	}
	if err := os.MkdirAll(n.dir, 0o755); err != nil {
		return nil, err
	}
	return boltdb.NewBoltStore(ctx, n.logger, n.dir)
}

// StartNode creates a fresh Handler for the node on its (possibly pre-existing) store and starts it.
// mode: "start" (before genesis), "catchup" (restart into a running chain), "none" (created only).
func (nt *vfbNet) StartNode(n *vfbNode, mode string) error {
	base, err := nt.openStore(n)
	if err != nil {
		return err
	}
	n.tap = &vfbTapStore{Store: base, net: nt, node: n}
	if nt.onOpen != nil {
		nt.onOpen(n)
	}
	if nt.backendOf(n) == "memdb" && mode == "catchup" {
		// what core does for the in-memory back-end before creating the handler (storeCurrentFromPeerNetwork):
		// fetch the latest beacon from a peer, verify it, put it into the empty ring
		var best *common.Beacon
		for _, p := range nt.honestRunning() {
			if p == n || p.handler == nil {
				continue
			}
			if b, err := p.handler.chain.Last(context.Background()); err == nil && (best == nil || b.Round > best.Round) {
				best = &common.Beacon{Round: b.Round, Signature: append([]byte(nil), b.Signature...), PreviousSig: append([]byte(nil), b.PreviousSig...)}
			}
		}
		if best != nil && best.Round > 0 && nt.cfg.Scheme.VerifyBeacon(best, nt.group.PublicKey.Key()) == nil {
			if err := n.tap.Put(context.Background(), best); err != nil {
				return err
			}
		}
	}
	g := n.grp
	if g == nil {
		g = nt.group
	}
	if n.index < 0 || n.share == nil {
		return errors.New("vfb: node is not a group member")
	}
	conf := &Config{Public: g.Node(uint32(n.index)), Share: n.share, Group: g, Clock: n.clk}
	h, err := NewHandler(context.Background(), &vfbClient{net: nt, from: n}, n.tap, conf, n.logger, common.GetAppVersion())
	if err != nil {
		return err
	}
	n.handler = h
	n.running = true
	var serr error
	switch mode {
	case "start":
		serr = h.Start(context.Background())
	case "catchup":
		h.Catchup(context.Background())
	}
	// the handler's ticker reads the clock in a goroutine of its own: until that goroutine has armed its first
	// sleep (or its periodic ticker) the harness must not move the clock, or the first tick is aligned to a round
	// boundary the clock has already been moved past and never comes when the clock is moved only once
	armed := make(chan struct{})
	go func() { n.clk.BlockUntil(1); close(armed) }()
	select {
	case <-armed:
	case <-time.After(3 * time.Second):
	}
	return serr
}

func (nt *vfbNet) StartAll() error {
	for _, n := range nt.nodes {
		if !n.honest || n.index < 0 {
			continue
		}
		if err := nt.StartNode(n, "start"); err != nil {
			return err
		}
	}
	return nil
}

func (nt *vfbNet) StopNode(n *vfbNode) {
	if n.handler != nil && n.running {
		n.handler.Stop(context.Background())
	}
	n.running = false
}

func (nt *vfbNet) Close() {
	atomic.StoreInt32(&nt.stopped, 1)
	nt.mu.Lock()
	nt.onHook = nil
	nt.mu.Unlock()
	for _, n := range nt.nodes {
		nt.StopNode(n)
	}
	vfbHookMu.Lock()
	for _, n := range nt.nodes {
		delete(vfbHookNodes, n.addr)
	}
	vfbHookMu.Unlock()
	os.RemoveAll(nt.tmp)
}

func (nt *vfbNet) honestRunning() []*vfbNode {
	var out []*vfbNode
	for _, n := range nt.nodes {
		if n.honest && n.running {
			out = append(out, n)
		}
	}
	return out
}

// Advance moves the clock of every running honest node (and of stopped ones, time passes for them too).
func (nt *vfbNet) Advance(d time.Duration) {
	for _, n := range nt.nodes {
		n.clk.Advance(d)
	}
	atomic.AddInt64(&nt.activity, 1)
}

// Settle waits until the network is quiet: nothing in flight and no event for `idle`.
func (nt *vfbNet) Settle() {
	idle := 15 * time.Millisecond
	if vfRaceEnabled {
		idle = 40 * time.Millisecond
	}
	deadline := time.Now().Add(3 * time.Second)
	last := atomic.LoadInt64(&nt.activity)
	lastChange := time.Now()
	for time.Now().Before(deadline) {
		time.Sleep(2 * time.Millisecond)
		cur := atomic.LoadInt64(&nt.activity)
		if cur != last || atomic.LoadInt64(&nt.inflight) != 0 {
			last, lastChange = cur, time.Now()
			continue
		}
		if time.Since(lastChange) >= idle {
			return
		}
	}
}

// Step = advance + settle. When the advance takes a running node into a new round, that node is expected to
// react (tick -> partial / put); the step first waits (bounded) for that positive signal, so that a loaded
// machine does not make an idle-looking network pass for a quiet one. Pacing only, never a verdict.
func (nt *vfbNet) Step(d time.Duration) {
	type exp struct {
		n      *vfbNode
		before int64
	}
	var expect []exp
	for _, n := range nt.nodes {
		if n.honest && n.running && n.handler != nil {
			r0 := nt.clockRound(n)
			if common.CurrentRound(n.clk.Now().Add(d).Unix(), nt.cfg.Period, nt.genesis) > r0 || r0 == 0 {
				expect = append(expect, exp{n, atomic.LoadInt64(&n.act)})
			}
		}
	}
	nt.Advance(d)
	deadline := time.Now().Add(1500 * time.Millisecond)
	for _, e := range expect {
		for atomic.LoadInt64(&e.n.act) == e.before && time.Now().Before(deadline) {
			time.Sleep(time.Millisecond)
		}
	}
	nt.Settle()
}

func (nt *vfbNet) Head(n *vfbNode) uint64 {
	if n.tap == nil {
		return 0
	}
	return n.tap.head()
}

func (nt *vfbNet) clockRound(n *vfbNode) uint64 {
	return common.CurrentRound(n.clk.Now().Unix(), nt.cfg.Period, nt.genesis)
}

// ---------------------------------------------------------------- base-store tap

type vfbTapStore struct {
	chain.Store
	net  *vfbNet
	node *vfbNode
	mu   sync.Mutex
	hd   uint64
	puts int
}

func (s *vfbTapStore) head() uint64 {
	s.mu.Lock()
	defer s.mu.Unlock()
	return s.hd
}

func vfbCaller() string {
	pcs := make([]uintptr, 40)
	n := runtime.Callers(3, pcs)
	fr := runtime.CallersFrames(pcs[:n])
	for {
		f, more := fr.Next()
		switch {
		case strings.HasSuffix(f.Function, ".tryAppend"):
			return "agg"
		case strings.HasSuffix(f.Function, ".tryNode"):
			return "sync"
		case strings.HasSuffix(f.Function, ".NewHandler"):
			return "genesis"
		case strings.HasSuffix(f.Function, ".StartNode"):
			return "bootstrap"
		}
		if !more {
			break
		}
	}
	return "other"
}

func (s *vfbTapStore) Put(ctx context.Context, b *common.Beacon) error {
	if s.net.failPut != nil { // injected storage fault: the write never reaches the store, no oracle sees it
		if err := s.net.failPut(s.node, b); err != nil {
			s.net.record(vfbEvent{Kind: "put-failed", Node: s.node.pos, From: -1, Round: b.Round, Err: err.Error(), Idx: -1})
			return err
		}
	}
	src := vfbCaller()
	cp := &common.Beacon{Round: b.Round, Signature: append([]byte(nil), b.Signature...), PreviousSig: append([]byte(nil), b.PreviousSig...)}
	seq := s.net.record(vfbEvent{Kind: "put", Node: s.node.pos, From: -1, Round: b.Round, Prev: cp.PreviousSig, Sig: cp.Signature, Src: src, Idx: -1, Clock: s.node.clk.Now().Unix()})
	if s.net.onPut != nil {
		s.net.onPut(s.node, cp, src, seq)
	}
	err := s.Store.Put(ctx, b)
	es := ""
	if err != nil {
		es = err.Error()
	} else {
		s.mu.Lock()
		if b.Round > s.hd {
			s.hd = b.Round
		}
		s.puts++
		s.mu.Unlock()
	}
	s.net.record(vfbEvent{Kind: "put-ret", Node: s.node.pos, From: -1, Round: b.Round, Src: src, Err: es, Idx: -1})
	if s.net.onPutRet != nil {
		s.net.onPutRet(s.node, cp, src, err)
	}
	return err
}

func (s *vfbTapStore) Del(ctx context.Context, round uint64) error {
	s.net.record(vfbEvent{Kind: "del", Node: s.node.pos, From: -1, Round: round, Idx: -1})
	return s.Store.Del(ctx, round)
}

// ---------------------------------------------------------------- in-memory protocol client

type vfbClient struct {
	net  *vfbNet
	from *vfbNode
}

var _ net.ProtocolClient = (*vfbClient)(nil)

func vfbPeerCtx(ctx context.Context, addr string) context.Context {
	host, _, _ := gonet.SplitHostPort(addr)
	return peer.NewContext(ctx, &peer.Peer{Addr: &gonet.TCPAddr{IP: gonet.ParseIP(host), Port: 30000}})
}

func (c *vfbClient) GetIdentity(ctx context.Context, p net.Peer, in *proto.IdentityRequest, _ ...net.CallOption) (*proto.IdentityResponse, error) {
	return nil, errors.New("vfb: not served")
}
func (c *vfbClient) Status(context.Context, net.Peer, *proto.StatusRequest, ...grpc.CallOption) (*proto.StatusResponse, error) {
	return nil, errors.New("vfb: not served")
}
func (c *vfbClient) Check(ctx context.Context, p net.Peer) error { return nil }

func (nt *vfbNet) linkUp(from, to int) bool {
	f, t := nt.nodes[from], nt.nodes[to]
	if atomic.LoadInt32(&f.sendOff) == 1 || atomic.LoadInt32(&t.recvOff) == 1 {
		return false
	}
	nt.mu.Lock()
	defer nt.mu.Unlock()
	if nt.partition != nil && nt.partition[from] != nt.partition[to] {
		return false
	}
	return true
}

// PartialBeacon: an honest node emits a partial towards p.
func (c *vfbClient) PartialBeacon(ctx context.Context, p net.Peer, in *proto.PartialBeaconPacket, _ ...net.CallOption) error {
	nt := c.net
	to, ok := nt.byAddr[p.Address()]
	if !ok {
		return errors.New("vfb: unknown peer")
	}
	clk := c.from.clk.Now().Unix()
	idx, _ := nt.cfg.Scheme.ThresholdScheme.IndexOf(in.GetPartialSig())
	nt.record(vfbEvent{Kind: "emit", Node: to.pos, From: c.from.pos, Round: in.GetRound(), Prev: in.GetPreviousSignature(), Idx: idx, Clock: clk})
	if nt.onEmit != nil {
		nt.onEmit(c.from, to.pos, in, clk)
	}
	if atomic.LoadInt32(&nt.stopped) == 1 {
		return errors.New("vfb: net closed")
	}
	if !to.honest {
		return nil // corrupted members swallow what they are sent (the adversary sees it through onEmit)
	}
	if !nt.linkUp(c.from.pos, to.pos) {
		return errors.New("vfb: link down")
	}
	nt.mu.Lock()
	if nt.deadLinks != nil && nt.deadLinks[[2]int{c.from.pos, to.pos}] {
		nt.mu.Unlock()
		nt.run.Count("partials_lost_on_dead_links", 1)
		return errors.New("vfb: link down")
	}
	drop := nt.dropPct > 0 && nt.rng.Chance(nt.dropPct)
	dup := nt.dupPct > 0 && nt.rng.Chance(nt.dupPct)
	var delay time.Duration
	if nt.delayMax > 0 {
		delay = time.Duration(nt.rng.Intn(int(nt.delayMax/time.Microsecond)+1)) * time.Microsecond
	}
	manual := nt.cfg.ManualNet
	if manual && !drop {
		nt.queue = append(nt.queue, &vfbQueued{from: c.from.pos, to: to.pos, p: in})
	}
	nt.mu.Unlock()
	if drop {
		nt.run.Count("partials_dropped", 1)
		return errors.New("vfb: dropped")
	}
	if manual {
		return nil
	}
	atomic.AddInt64(&nt.inflight, 1)
	defer atomic.AddInt64(&nt.inflight, -1)
	if delay > 0 {
		time.Sleep(delay)
	}
	err := nt.Deliver(c.from.pos, to, in, "honest")
	if dup {
		nt.run.Count("partials_duplicated", 1)
		_ = nt.Deliver(c.from.pos, to, in, "honest")
	}
	return err
}

// Deliver hands a partial to the real ProcessPartialBeacon of `to`, as coming from member `from`.
func (nt *vfbNet) Deliver(from int, to *vfbNode, in *proto.PartialBeaconPacket, src string) error {
	if !to.running || to.handler == nil {
		return errors.New("vfb: node down")
	}
	idx, _ := nt.cfg.Scheme.ThresholdScheme.IndexOf(in.GetPartialSig())
	seq := nt.record(vfbEvent{Kind: "deliver", Node: to.pos, From: from, Round: in.GetRound(), Prev: in.GetPreviousSignature(), Sig: in.GetPartialSig(), Idx: idx, Src: src, Clock: to.clk.Now().Unix()})
	if nt.onDeliver != nil {
		nt.onDeliver(to, from, in, src, seq)
	}
	nt.run.Count("partials_delivered", 1)
	fromAddr := vfbAddrOf(nt.id, from)
	_, err := to.handler.ProcessPartialBeacon(vfbPeerCtx(context.Background(), fromAddr), in)
	es := ""
	if err != nil {
		es = err.Error()
	}
	nt.record(vfbEvent{Kind: "deliver-ret", Node: to.pos, From: from, Round: in.GetRound(), Idx: idx, Src: src, Err: es, Clock: to.clk.Now().Unix()})
	return err
}

// TakeQueue returns (and clears) the partials queued in manual mode.
func (nt *vfbNet) TakeQueue() []*vfbQueued {
	nt.mu.Lock()
	defer nt.mu.Unlock()
	q := nt.queue
	nt.queue = nil
	return q
}

// vfbStream adapts a channel to the SyncStream interface the real SyncChain serves on. Like a gRPC
// server stream, Send after the end of the call fails instead of panicking.
type vfbStream struct {
	ctx    context.Context
	out    chan<- *proto.BeaconPacket
	tap    func(*proto.BeaconPacket)
	gate   func(*proto.BeaconPacket) // optional: may block (C11/C12 schedules)
	mu     sync.Mutex
	closed bool
}

func (s *vfbStream) Context() context.Context { return s.ctx }
func (s *vfbStream) Send(b *proto.BeaconPacket) error {
	if s.gate != nil {
		s.gate(b)
	}
	// a real transport serialises inside Send; the packet may alias store memory that is only valid
	// during the server's read transaction (bolt mmap), so copy it here
	b = &proto.BeaconPacket{Round: b.GetRound(), Signature: append([]byte(nil), b.GetSignature()...),
		PreviousSignature: append([]byte(nil), b.GetPreviousSignature()...), Metadata: b.GetMetadata()}
	s.mu.Lock()
	defer s.mu.Unlock()
	if s.closed {
		return errors.New("vfb: stream closed")
	}
	if s.tap != nil {
		s.tap(b)
	}
	select {
	case s.out <- b:
		return nil
	case <-s.ctx.Done():
		return s.ctx.Err()
	}
}

// finish ends the stream: the client side sees its channel closed.
func (s *vfbStream) finish() {
	s.mu.Lock()
	defer s.mu.Unlock()
	if !s.closed {
		s.closed = true
		close(s.out)
	}
}

func (c *vfbClient) SyncChain(ctx context.Context, p net.Peer, in *proto.SyncRequest, _ ...net.CallOption) (chan *proto.BeaconPacket, error) {
	nt := c.net
	nt.run.Count("sync_requests", 1)
	nt.mu.Lock()
	off := nt.syncOff
	srv := nt.syncServers[p.Address()]
	nt.mu.Unlock()
	if off {
		return nil, errors.New("vfb: sync disabled")
	}
	out := make(chan *proto.BeaconPacket, 16)
	if srv != nil { // adversary / scripted peer
		go func() {
			defer close(out)
			srv(ctx, in, out)
		}()
		return out, nil
	}
	to, ok := nt.byAddr[p.Address()]
	if !ok || !to.honest || !to.running || to.handler == nil {
		return nil, errors.New("vfb: peer unreachable")
	}
	if !nt.linkUp(c.from.pos, to.pos) || !nt.linkUp(to.pos, c.from.pos) {
		return nil, errors.New("vfb: link down")
	}
	h := to.handler
	sctx := vfbPeerCtx(ctx, c.from.addr)
	go func() {
		var st *vfbStream
		defer func() { st.finish() }()
		st = &vfbStream{ctx: sctx, out: out, tap: func(b *proto.BeaconPacket) {
			nt.record(vfbEvent{Kind: "sync-send", Node: to.pos, From: c.from.pos, Round: b.GetRound(), Prev: b.GetPreviousSignature(), Sig: b.GetSignature(), Idx: -1})
			nt.run.Count("sync_beacons_served", 1)
			if nt.onSyncSend != nil {
				nt.onSyncSend(to, b)
			}
		}}
		_ = SyncChain(h.l, h.chain, in, st)
	}()
	return out, nil
}

// ---------------------------------------------------------------- helpers for oracles and adversaries

func (nt *vfbNet) digest(round uint64, prev []byte) []byte {
	return nt.cfg.Scheme.DigestBeacon(&common.Beacon{Round: round, PreviousSig: prev})
}

// verifyBeacon checks a beacon against the HARNESS-known public key.
func (nt *vfbNet) verifyBeacon(b *common.Beacon) error {
	return nt.cfg.Scheme.ThresholdScheme.VerifyRecovered(nt.pubKey, nt.digest(b.Round, b.PreviousSig), b.Signature)
}

// verifyPartial checks a partial against the HARNESS-known public polynomial.
func (nt *vfbNet) verifyPartial(round uint64, prev, partial []byte) bool {
	return nt.cfg.Scheme.ThresholdScheme.VerifyPartial(nt.pubPoly, nt.digest(round, prev), partial) == nil
}

// signPartial makes the partial of member `pos` for (round, prev) with the real share.
func (nt *vfbNet) signPartial(pos int, round uint64, prev []byte) []byte {
	sig, err := nt.cfg.Scheme.ThresholdScheme.Sign(nt.nodes[pos].share.PrivateShare(), nt.digest(round, prev))
	if err != nil {
		panic(err)
	}
	return sig
}

func (nt *vfbNet) packet(round uint64, prev, partial []byte) *proto.PartialBeaconPacket {
	md := proto.NewMetadata(common.GetAppVersion().ToProto())
	md.BeaconID = common.GetCanonicalBeaconID(nt.cfg.BeaconID)
	return &proto.PartialBeaconPacket{Round: round, PreviousSignature: prev, PartialSig: partial, Metadata: md}
}

// makeChain builds valid beacons 1..upTo by signing with the master secret (harness-owned).
func (nt *vfbNet) makeChain(upTo uint64) []*common.Beacon {
	out := []*common.Beacon{chain.GenesisBeacon(nt.group.GenesisSeed)}
	prev := nt.group.GenesisSeed
	shares := nt.pri.Shares(nt.cfg.N)
	for r := uint64(1); r <= upTo; r++ {
		p := prev
		if !nt.chained() {
			p = nil
		}
		msg := nt.digest(r, p)
		var parts [][]byte
		for i := 0; i < nt.cfg.Thr; i++ {
			s, _ := nt.cfg.Scheme.ThresholdScheme.Sign(shares[i], msg)
			parts = append(parts, s)
		}
		sig, err := nt.cfg.Scheme.ThresholdScheme.Recover(nt.pubPoly, msg, parts, nt.cfg.Thr, nt.cfg.N)
		if err != nil {
			panic(err)
		}
		out = append(out, &common.Beacon{Round: r, Signature: sig, PreviousSig: p})
		prev = sig
	}
	return out
}

// scanStore reads a whole store through its cursor.
func vfbScan(s chain.Store) ([]*common.Beacon, error) {
	var out []*common.Beacon
	err := s.Cursor(context.Background(), func(ctx context.Context, c chain.Cursor) error {
		for b, err := c.First(ctx); b != nil && err == nil; b, err = c.Next(ctx) {
			out = append(out, &common.Beacon{Round: b.Round, Signature: append([]byte(nil), b.Signature...), PreviousSig: append([]byte(nil), b.PreviousSig...)})
		}
		return nil
	})
	return out, err
}

// vfbScanStable scans a store that may still be written to (the in-memory ring of a running node: its cursor is an
// index into a slice that shifts when a Put pushes the oldest round out, so a scan that overlaps a Put can step over
// an element): scans are repeated until two in a row return the same rounds.
func vfbScanStable(s chain.Store) ([]*common.Beacon, error) {
	var last []*common.Beacon
	var lastErr error
	for i := 0; i < 8; i++ {
		a, err := vfbScan(s)
		if i > 0 && fmt.Sprint(vfbRoundsOf(a)) == fmt.Sprint(vfbRoundsOf(last)) {
			return a, err
		}
		last, lastErr = a, err
		time.Sleep(20 * time.Millisecond)
	}
	return last, lastErr
}

func vfbRoundsOf(bs []*common.Beacon) []uint64 {
	var r []uint64
	for _, b := range bs {
		r = append(r, b.Round)
	}
	return r
}

// scheduleHash summarises the ordered delivery/put sequence actually observed.
func (nt *vfbNet) scheduleHash() string {
	ev := nt.eventsCopy()
	var sb strings.Builder
	for _, e := range ev {
		if e.Kind == "deliver" || e.Kind == "put" {
			fmt.Fprintf(&sb, "%s:%d:%d:%d;", e.Kind[:1], e.Node, e.From, e.Round)
		}
	}
	return sb.String()
}

func vfbSortedKeys(m map[uint64][]byte) []uint64 {
	ks := make([]uint64, 0, len(m))
	for k := range m {
		ks = append(ks, k)
	}
	sort.Slice(ks, func(i, j int) bool { return ks[i] < ks[j] })
	return ks
}

var _ = bytes.Equal
