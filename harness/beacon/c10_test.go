package beacon

// C10 — chain sync stores only verified beacons, in chain order, and converges when one honest peer
// exists; a chain check reports exactly the faulty rounds and repair restores exactly those.
// Peers are scripted sync servers (honest, refusing, closing early, silent, stalling, lying in five
// ways); the node under test is (A) a real Handler catching up through its SyncManager.Run loop,
// (B) a SyncManager stacked exactly as core's StartFollowChain stacks it, (C) CheckPastBeacons /
// CorrectPastBeacons on a store the harness damaged.

import (
	"bytes"
	"context"
	"errors"
	"fmt"
	"os"
	"sort"
	"strings"
	"sync"
	"sync/atomic"
	"testing"
	"time"

	clock "github.com/jonboulle/clockwork"

	"github.com/drand/drand/v2/common"
	public "github.com/drand/drand/v2/common/chain"
	"github.com/drand/drand/v2/crypto"
	"github.com/drand/drand/v2/internal/chain"
	"github.com/drand/drand/v2/internal/net"
	proto "github.com/drand/drand/v2/protobuf/drand"
)

type c10Case struct {
	Index   int      `json:"case_index"`
	Mode    string   `json:"mode"` // participant | follow | repair
	Scheme  string   `json:"scheme"`
	Backend string   `json:"backend"`
	Peers   []string `json:"peers"` // behaviours
	Start   uint64   `json:"start_height"`
	Target  uint64   `json:"target"`
	Chain   uint64   `json:"chain_length"`
	Damage  []string `json:"damage,omitempty"` // repair: "del:5", "corrupt:7"
	FailPutAt int    `json:"fail_put_at,omitempty"`
	Seed    uint64   `json:"seed"`
}

var c10Behaviours = []string{"honest", "refuses", "closes-after-k", "silent", "stalls-after-k", "bad-signature", "wrong-round-label", "foreign-beacon-id", "valid-skipping", "valid-from-beyond", "honest", "honest-slow-start"}

func c10Gen(idx int) c10Case {
	seed := vfCaseSeed(vfSeed(), "C10", idx)
	rng := vfNewRng(seed)
	schemes := vfbSchemeList()
	if !vfThorough() {
		schemes = schemes[:2]
	}
	c := c10Case{Index: idx, Mode: []string{"participant", "follow", "repair", "follow"}[idx%4], Scheme: schemes[(idx/4)%len(schemes)].Name,
		Backend: []string{"bolt-trimmed", "bolt-untrimmed", "memdb"}[rng.Intn(3)], Seed: seed}
	c.Chain = uint64(rng.Range(8, vfPick(20, 40)))
	c.Start = []uint64{0, c.Chain / 2, c.Chain - 1}[rng.Intn(3)]
	c.Target = c.Chain
	if c.Mode == "follow" && rng.Chance(40) && c.Start+2 < c.Chain {
		c.Target = c.Start + 1 + uint64(rng.Intn(int(c.Chain-c.Start-1)))
	}
	np := rng.Range(2, 4)
	for i := 0; i < np; i++ {
		c.Peers = append(c.Peers, c10Behaviours[rng.Intn(len(c10Behaviours))])
	}
	liarsOnly := c.Mode == "follow" && rng.Chance(45) // no honest peer: the liars are certainly consulted; nothing bad may be stored
	if liarsOnly {
		liars := []string{"valid-skipping", "valid-from-beyond", "wrong-round-label", "bad-signature", "foreign-beacon-id", "closes-after-k"}
		for i := range c.Peers {
			c.Peers[i] = liars[rng.Intn(len(liars))]
		}
		c.Peers[0] = []string{"valid-skipping", "valid-from-beyond"}[rng.Intn(2)]
	} else if rng.Chance(85) { // most cases have an honest peer; the others check that nothing bad is stored
		c.Peers[rng.Intn(np)] = "honest"
	}
	c.FailPutAt = 0
	if c.Mode != "repair" && rng.Chance(40) {
		c.FailPutAt = rng.Range(1, 4) // the k-th write to the database fails once (transient storage fault)
	}
	if c.Mode == "repair" {
		if c.Backend == "memdb" {
			c.Backend = "bolt-trimmed"
		}
		if (idx/4)%4 == 3 {
			// every peer fails the first pass (its first stream ends before anything arrives) and is honest afterwards:
			// the repair's second pass over the peers must fetch the faulty round itself
			for i := range c.Peers {
				c.Peers[i] = "honest-after-closing-its-first-stream"
			}
		} else if rng.Chance(40) { // only lying peers answer the repair: whatever they send must not be written
			liars := []string{"bad-signature", "wrong-round-label", "foreign-beacon-id", "bad-signature", "refuses"}
			for i := range c.Peers {
				c.Peers[i] = liars[rng.Intn(len(liars))]
			}
			c.Peers[0] = "bad-signature"
		}
		c.Start = c.Chain
		nd := rng.Range(1, 4)
		seen := map[uint64]bool{}
		for i := 0; i < nd; i++ {
			// not the head (a missing head is "not synced yet", not damage) and not its predecessor (a trimmed
			// chained store cannot even be opened by a handler when the head's previous signature is gone)
			r := uint64(rng.Range(1, int(c.Chain)-2))
			if seen[r] {
				continue
			}
			seen[r] = true
			c.Damage = append(c.Damage, fmt.Sprintf("%s:%d", []string{"del", "corrupt"}[rng.Intn(2)], r))
		}
	}
	return c
}

func (c c10Case) hasHonest() bool {
	for _, p := range c.Peers {
		if strings.HasPrefix(p, "honest") {
			return true
		}
	}
	return false
}

// c10Server builds one scripted sync peer over the harness-made valid chain.
func c10Server(nt *vfbNet, beh string, valid []*common.Beacon, rng *vfRng, served *int64, firstPacket ...bool) func(ctx context.Context, req *proto.SyncRequest, out chan<- *proto.BeaconPacket) {
	id := common.GetCanonicalBeaconID(nt.cfg.BeaconID)
	k := rng.Range(1, 4)
	if len(firstPacket) > 0 && firstPacket[0] {
		k = 0 // a repair consumes one beacon per request: the lie has to be in the first packet
	}
	var streams int64
	return func(ctx context.Context, req *proto.SyncRequest, out chan<- *proto.BeaconPacket) {
		atomic.AddInt64(served, 1)
		nt.run.Count("peer_streams."+beh, 1)
		if beh == "honest-after-closing-its-first-stream" && atomic.AddInt64(&streams, 1) == 1 {
			return // the first stream of this peer ends before anything arrives; from the second one on it is honest
		}
		send := func(b *common.Beacon, bid string) bool {
			select {
			case out <- &proto.BeaconPacket{Round: b.Round, Signature: b.Signature, PreviousSignature: b.PreviousSig, Metadata: &proto.Metadata{BeaconID: bid}}:
				return true
			case <-ctx.Done():
				return false
			}
		}
		from := req.GetFromRound()
		if from == 0 {
			from = 1
		}
		switch beh {
		case "refuses", "silent":
			if beh == "silent" {
				<-ctx.Done()
			}
			return
		}
		n := 0
		for r := from; r < uint64(len(valid)); r++ {
			b := &common.Beacon{Round: valid[r].Round, Signature: valid[r].Signature, PreviousSig: valid[r].PreviousSig}
			bid := id
			if n == k {
				switch beh {
				case "closes-after-k":
					return
				case "stalls-after-k":
					<-ctx.Done()
					return
				case "bad-signature":
					b.Signature = flipBit(b.Signature, rng)
				case "wrong-round-label":
					b.Round++
				case "foreign-beacon-id":
					bid = "some-other-chain"
				case "valid-skipping":
					n++
					continue
				}
			}
			if beh == "valid-from-beyond" && n == 0 && r+2 < uint64(len(valid)) {
				r += 2
				b = &common.Beacon{Round: valid[r].Round, Signature: valid[r].Signature, PreviousSig: valid[r].PreviousSig}
			}
			if beh == "honest-slow-start" && n == 0 {
				time.Sleep(30 * time.Millisecond)
			}
			if !send(b, bid) {
				return
			}
			n++
		}
		// an honest peer keeps the stream open (live phase) until the client goes away
		if strings.HasPrefix(beh, "honest") {
			<-ctx.Done()
		}
	}
}

type c10Tap struct {
	chain.Store
	run    *vfRun
	nt     *vfbNet
	c      c10Case
	valid  []*common.Beacon
	mu     sync.Mutex
	head   uint64
	puts   int
	raw    bool // the insecure store used by repair: order is not demanded, validity is
	allow  map[uint64]bool
	failAt int  // the k-th Put of a round >= 1 fails once
	seen   int
}

func (t *c10Tap) Put(ctx context.Context, b *common.Beacon) error {
	info := map[string]any{"case_index": t.c.Index, "case": t.c}
	kind := map[bool]string{true: "chained", false: "unchained"}[t.nt.chained()]
	if b.Round > 0 {
		t.run.Count("sync_puts", 1)
		x := &common.Beacon{Round: b.Round, Signature: b.Signature, PreviousSig: b.PreviousSig}
		if !t.nt.chained() {
			x.PreviousSig = nil
		}
		if err := t.nt.verifyBeacon(x); err != nil {
			t.run.Violation(fmt.Sprintf("C10/unverified-beacon-stored/%s/%s", t.c.Mode, kind), fmt.Sprintf("round %d written by sync does not verify: %v", b.Round, err), info)
		} else if int(b.Round) < len(t.valid) && !bytes.Equal(t.valid[b.Round].Signature, b.Signature) {
			t.run.Violation(fmt.Sprintf("C10/foreign-beacon-stored/%s/%s", t.c.Mode, kind), fmt.Sprintf("round %d", b.Round), info)
		}
		t.mu.Lock()
		if t.raw {
			if !t.allow[b.Round] {
				// re-sync streams may carry more than the one round asked for; writing a round again with its
				// own valid bytes changes nothing (validity and identity are checked above)
				t.run.Count("repair_rewrites_of_sound_rounds", 1)
			}
		} else if b.Round != t.head+1 {
			t.run.Violation(fmt.Sprintf("C10/out-of-order-stored/%s/%s", t.c.Mode, kind),
				fmt.Sprintf("round %d stored while the head is %d", b.Round, t.head), info)
		}
		t.mu.Unlock()
	}
	if b.Round > 0 && t.failAt > 0 {
		t.mu.Lock()
		t.seen++
		hit := t.seen == t.failAt
		t.mu.Unlock()
		if hit {
			t.run.Count("transient_put_failures_injected", 1)
			return errors.New("vf: injected transient storage failure")
		}
	}
	err := t.Store.Put(ctx, b)
	if err == nil {
		t.mu.Lock()
		if b.Round > t.head {
			t.head = b.Round
		}
		t.puts++
		t.mu.Unlock()
	}
	return err
}

func c10Net(run *vfRun, c c10Case) (*vfbNet, []*common.Beacon, error) {
	sch, _ := crypto.SchemeFromName(c.Scheme)
	n := len(c.Peers) + 1
	thr := n/2 + 1
	var corrupted []int
	for i := 1; i < n; i++ {
		corrupted = append(corrupted, i)
	}
	cfg := vfbConfig{Scheme: sch, N: n, Thr: thr, Period: 2 * time.Second, Catchup: time.Second, Backend: c.Backend, BeaconID: "c10",
		GenesisIn: 2 * time.Second, Corrupted: corrupted, Seed: c.Seed}
	nt, err := vfbNewNet(run, cfg, time.Unix(1740000000+int64(c.Index)*1000, 0))
	if err != nil {
		return nil, nil, err
	}
	valid := nt.makeChain(c.Chain)
	return nt, valid, nil
}

// ---------------------------------------------------------------- (A) participant

func c10Participant(run *vfRun, c c10Case) {
	nt, valid, err := c10Net(run, c)
	if err != nil {
		run.Inconclusive(err.Error())
		return
	}
	defer nt.Close()
	info := map[string]any{"case_index": c.Index, "case": c}
	rng := vfNewRng(c.Seed ^ 0xa)
	var served int64
	for i, beh := range c.Peers {
		nt.syncServers[nt.nodes[i+1].addr] = c10Server(nt, beh, valid, rng, &served)
	}
	v := nt.nodes[0]
	// the node already holds rounds 0..Start
	st, err := nt.openStore(v)
	if err != nil {
		run.Inconclusive(err.Error())
		return
	}
	for r := uint64(0); r <= c.Start; r++ {
		if err := st.Put(context.Background(), valid[r]); err != nil {
			run.Inconclusive(err.Error())
			return
		}
	}
	if c.Backend != "memdb" {
		st.Close()
	}
	kind := map[bool]string{true: "chained", false: "unchained"}[nt.chained()]
	var head uint64 = c.Start
	var seenPuts int64
	nt.failPut = func(n *vfbNode, b *common.Beacon) error {
		if c.FailPutAt > 0 && b.Round > c.Start && atomic.AddInt64(&seenPuts, 1) == int64(c.FailPutAt) {
			run.Count("transient_put_failures_injected", 1)
			return errors.New("vf: injected transient storage failure")
		}
		return nil
	}
	nt.onPut = func(n *vfbNode, b *common.Beacon, src string, seq int64) {
		if b.Round == 0 || src == "bootstrap" {
			return
		}
		run.Count("sync_puts", 1)
		if err := nt.verifyBeacon(b); err != nil {
			run.Violation(fmt.Sprintf("C10/unverified-beacon-stored/participant/%s", kind), fmt.Sprintf("round %d (via %s): %v", b.Round, src, err), info)
		}
		if h := atomic.LoadUint64(&head); b.Round != h+1 {
			run.Violation(fmt.Sprintf("C10/out-of-order-stored/participant/%s", kind), fmt.Sprintf("round %d stored while the head is %d (via %s)", b.Round, h, src), info)
		}
	}
	// the head moves when the base store has accepted the write (a Put whose context was cancelled by the
	// sync manager fails and is legitimately retried)
	nt.onPutRet = func(n *vfbNode, b *common.Beacon, src string, err error) {
		if err == nil && b.Round > 0 && src != "bootstrap" && b.Round > atomic.LoadUint64(&head) {
			atomic.StoreUint64(&head, b.Round)
		}
	}
	// clocks: move to the time of round Chain, then start in catch-up mode
	for _, n := range nt.nodes {
		n.clk.Advance(time.Duration(2+int(c.Chain-1)*2) * time.Second)
	}
	if c.Backend == "memdb" {
		// memdb keeps its content only in the object: hand the pre-filled store to the node
		v.tap = &vfbTapStore{Store: st, net: nt, node: v}
		conf := &Config{Public: nt.group.Nodes[0], Share: v.share, Group: nt.group, Clock: v.clk}
		h, err := NewHandler(context.Background(), &vfbClient{net: nt, from: v}, v.tap, conf, v.logger, common.GetAppVersion())
		if err != nil {
			run.Inconclusive(err.Error())
			return
		}
		v.handler, v.running = h, true
		h.Catchup(context.Background())
	} else if err := nt.StartNode(v, "catchup"); err != nil {
		run.Inconclusive(err.Error())
		return
	}
	nt.Settle()
	B := 12*len(c.Peers) + 20
	reached := false
	for s := 0; s < B; s++ {
		if atomic.LoadUint64(&head) >= c.Chain {
			reached = true
			break
		}
		nt.Step(time.Second)
	}
	run.Count("peer_streams_opened", atomic.LoadInt64(&served))
	if c.hasHonest() && !reached {
		time.Sleep(500 * time.Millisecond)
		for s := 0; s < B && atomic.LoadUint64(&head) < c.Chain; s++ {
			nt.Step(time.Second)
			time.Sleep(30 * time.Millisecond)
		}
		if atomic.LoadUint64(&head) < c.Chain {
			run.Violation(fmt.Sprintf("C10/no-convergence-with-honest-peer/participant/%s", kind),
				fmt.Sprintf("node stuck at round %d of %d after %d logical seconds with peers %v", atomic.LoadUint64(&head), c.Chain, 2*B, c.Peers), info)
		}
	}
	key := ""
	if atomic.LoadInt64(&served) > 0 {
		key = fmt.Sprintf("p/%s/%s/%v/%d", c.Scheme, c.Backend, c.Peers, c.Start)
	}
	run.Eval(key)
}

// ---------------------------------------------------------------- (B) follow

type c10Client struct {
	vfbClient
}

func c10Follow(run *vfRun, c c10Case) {
	nt, valid, err := c10Net(run, c)
	if err != nil {
		run.Inconclusive(err.Error())
		return
	}
	defer nt.Close()
	info := map[string]any{"case_index": c.Index, "case": c}
	rng := vfNewRng(c.Seed ^ 0xb)
	var served int64
	var peers []net.Peer
	for i, beh := range c.Peers {
		nt.syncServers[nt.nodes[i+1].addr] = c10Server(nt, beh, valid, rng, &served)
		peers = append(peers, net.CreatePeer(nt.nodes[i+1].addr))
	}
	v := nt.nodes[0]
	base, err := nt.openStore(v)
	if err != nil {
		run.Inconclusive(err.Error())
		return
	}
	ctx, cancel := context.WithCancel(context.Background())
	defer cancel()
	tap := &c10Tap{Store: base, run: run, nt: nt, c: c, valid: valid, failAt: c.FailPutAt}
	// exactly what core.StartFollowChain does: genesis into the raw store, scheme store, callback store, no append store
	if err := tap.Store.Put(ctx, chain.GenesisBeacon(nt.group.GenesisSeed)); err != nil {
		run.Inconclusive(err.Error())
		return
	}
	for r := uint64(1); r <= c.Start; r++ {
		_ = tap.Store.Put(ctx, valid[r])
	}
	tap.head = c.Start
	ss, err := NewSchemeStore(ctx, tap, nt.cfg.Scheme)
	if err != nil {
		run.Inconclusive(err.Error())
		return
	}
	cbStore := NewCallbackStore(v.logger, ss)
	defer cbStore.Close()
	clk := clock.NewFakeClockAt(time.Unix(nt.genesis+int64(c.Chain)*2, 0))
	syncer, err := NewSyncManager(ctx, &SyncConfig{Log: v.logger, Store: cbStore, BoltdbStore: tap, Info: public.NewChainInfo(nt.group),
		Client: &vfbClient{net: nt, from: v}, Clock: clk, NodeAddr: v.addr})
	if err != nil {
		run.Inconclusive(err.Error())
		return
	}
	go syncer.Run()
	defer syncer.Stop()
	kind := map[bool]string{true: "chained", false: "unchained"}[nt.chained()]
	// follow retries Sync until the target is reached (core's loop); each attempt shuffles the peers
	attempts, ok := 0, false
	silentParked := false
	for attempts < 6*len(c.Peers)+6 && !ok {
		attempts++
		done := make(chan error, 1)
		sctx, scancel := context.WithCancel(ctx)
		go func() { done <- syncer.Sync(sctx, NewRequestInfo(sctx, c.Target, peers)) }()
		select {
		case err := <-done:
			tap.mu.Lock()
			h := tap.head
			tap.mu.Unlock()
			if err == nil && h >= c.Target {
				ok = true
			}
		case <-time.After(1500 * time.Millisecond):
			// not back yet: let (fake) time pass — a sync may give up on a silent peer after some periods
			for k := 0; k < 40; k++ {
				clk.Advance(nt.cfg.Period*2 + time.Second)
				select {
				case err := <-done:
					done <- err
					k = 99
				case <-time.After(100 * time.Millisecond):
				}
			}
			select {
			case err := <-done:
				tap.mu.Lock()
				h := tap.head
				tap.mu.Unlock()
				if err == nil && h >= c.Target {
					ok = true
				}
				scancel()
				continue
			default:
			}
			// parked: on what?
			dump := vfGoroutineDump()
			if strings.Contains(dump, "(*SyncManager).tryNode") {
				silentParked = true
				run.Count("follow_attempts_parked_on_a_peer", 1)
			}
			scancel()
			select {
			case <-done:
			case <-time.After(5 * time.Second):
				run.Inconclusive("Sync did not return after its context was cancelled")
				return
			}
		}
		scancel()
	}
	run.Count("follow_attempts", int64(attempts))
	tap.mu.Lock()
	h := tap.head
	tap.mu.Unlock()
	if c.hasHonest() && !ok {
		run.Violation(fmt.Sprintf("C10/no-convergence-with-honest-peer/follow/%s", kind),
			fmt.Sprintf("after %d Sync attempts the store is at round %d, target %d, peers %v", attempts, h, c.Target, c.Peers), info)
	}
	if silentParked {
		hasSilent := false
		for _, p := range c.Peers {
			if p == "silent" || p == "stalls-after-k" {
				hasSilent = true
			}
		}
		if hasSilent {
			run.Violation(fmt.Sprintf("C10/sync-parked-on-silent-peer/follow"),
				fmt.Sprintf("SyncManager.Sync (as follow and repair call it) did not return within 1.5 s while a peer that accepted the stream sends nothing; goroutine dump shows tryNode parked; no progress timer exists on this path (peers %v)", c.Peers), info)
		}
	}
	// persisted result: contiguous prefix, every beacon valid
	bs, _ := vfbScanStable(tap.Store)
	for i, b := range bs {
		if i > 0 && b.Round != bs[i-1].Round+1 {
			run.Violation(fmt.Sprintf("C10/followed-chain-has-gap/%s", kind), fmt.Sprintf("store holds rounds %v", vfbRoundsOf(bs)), info)
			break
		}
	}
	key := ""
	if atomic.LoadInt64(&served) > 0 {
		key = fmt.Sprintf("f/%s/%s/%v/%d/%d", c.Scheme, c.Backend, c.Peers, c.Start, c.Target)
	}
	run.Eval(key)
}

// ---------------------------------------------------------------- (C) check + repair

func c10Repair(run *vfRun, c c10Case) {
	nt, valid, err := c10Net(run, c)
	if err != nil {
		run.Inconclusive(err.Error())
		return
	}
	defer nt.Close()
	info := map[string]any{"case_index": c.Index, "case": c}
	rng := vfNewRng(c.Seed ^ 0xc)
	var served int64
	var peers []net.Peer
	for i, beh := range c.Peers {
		nt.syncServers[nt.nodes[i+1].addr] = c10Server(nt, beh, valid, rng, &served, true)
		peers = append(peers, net.CreatePeer(nt.nodes[i+1].addr))
	}
	v := nt.nodes[0]
	base, err := nt.openStore(v)
	if err != nil {
		run.Inconclusive(err.Error())
		return
	}
	ctx := context.Background()
	for r := uint64(0); r <= c.Chain; r++ {
		if err := base.Put(ctx, valid[r]); err != nil {
			run.Inconclusive(err.Error())
			return
		}
	}
	kind := map[bool]string{true: "chained", false: "unchained"}[nt.chained()]
	// damage
	want := map[uint64]bool{}
	for _, d := range c.Damage {
		var op string
		var r uint64
		p := strings.Split(d, ":")
		op = p[0]
		fmt.Sscanf(p[1], "%d", &r)
		switch op {
		case "del":
			_ = base.Del(ctx, r)
		case "corrupt":
			bad := &common.Beacon{Round: r, Signature: flipBit(valid[r].Signature, rng), PreviousSig: valid[r].PreviousSig}
			_ = base.Put(ctx, bad)
		}
		want[r] = true
		// on the trimmed chained store the successor's previous signature is reconstructed from this round:
		// it genuinely cannot be read back (deleted) or does not verify (corrupted)
		if nt.chained() && c.Backend == "bolt-trimmed" && r+1 <= c.Chain {
			want[r+1] = true
		}
	}
	tap := &c10Tap{Store: base, run: run, nt: nt, c: c, valid: valid, raw: true, allow: map[uint64]bool{}}
	ss, err := NewSchemeStore(ctx, tap, nt.cfg.Scheme)
	if err != nil {
		run.Inconclusive("scheme store on the damaged store: " + err.Error())
		return
	}
	cbStore := NewCallbackStore(v.logger, ss)
	defer cbStore.Close()
	clk := clock.NewFakeClockAt(time.Unix(nt.genesis+int64(c.Chain)*2, 0))
	syncer, err := NewSyncManager(ctx, &SyncConfig{Log: v.logger, Store: cbStore, BoltdbStore: tap, Info: public.NewChainInfo(nt.group),
		Client: &vfbClient{net: nt, from: v}, Clock: clk, NodeAddr: v.addr})
	if err != nil {
		run.Inconclusive(err.Error())
		return
	}
	go syncer.Run() // as newChainStore does: the Run loop drains the synced-beacon notifications
	defer syncer.Stop()
	// every second check is asked to go beyond what the node has: rounds it does not hold yet are not "faulty"
	upTo := c.Chain
	if (c.Index/4)%2 == 1 {
		upTo += uint64(1 + (c.Index/8)%5)
		run.Count("checks_asked_beyond_the_head", 1)
	}
	faulty, err := syncer.CheckPastBeacons(ctx, upTo, nil)
	if err != nil {
		run.Violation("C10/check-fails/"+kind, err.Error(), info)
		return
	}
	run.Count("checks", 1)
	got := map[uint64]bool{}
	for _, r := range faulty {
		got[r] = true
	}
	var missing, extra []uint64
	for r := range want {
		if !got[r] {
			missing = append(missing, r)
		}
	}
	for r := range got {
		if !want[r] {
			extra = append(extra, r)
		}
	}
	sort.Slice(missing, func(i, j int) bool { return missing[i] < missing[j] })
	sort.Slice(extra, func(i, j int) bool { return extra[i] < extra[j] })
	if len(missing) > 0 {
		run.Violation(fmt.Sprintf("C10/check-misses-faulty-round/%s/%s", c.Backend, kind), fmt.Sprintf("damage %v, reported %v, not reported %v", c.Damage, faulty, missing), info)
	}
	if len(extra) > 0 {
		run.Violation(fmt.Sprintf("C10/check-reports-sound-round/%s/%s", c.Backend, kind), fmt.Sprintf("damage %v, reported %v, wrongly reported %v", c.Damage, faulty, extra), info)
	}
	// repair (bounded: a silent peer parks ReSync, which is a finding of its own)
	for _, r := range faulty {
		tap.allow[r] = true
	}
	done := make(chan error, 1)
	rctx, rcancel := context.WithCancel(ctx)
	defer rcancel()
	go func() { done <- syncer.CorrectPastBeacons(rctx, faulty, peers, func(r, u uint64) {}) }()
	parked := false
	select {
	case <-done:
	case <-time.After(1500 * time.Millisecond):
		// let (fake) time pass: a re-sync may give up on a silent peer after some periods and move on
		back := false
		for k := 0; k < 150 && !back; k++ { // each silent peer met costs the sync `factor` periods of (fake) time
			clk.Advance(nt.cfg.Period*2 + time.Second)
			select {
			case <-done:
				back = true
			case <-time.After(100 * time.Millisecond):
			}
		}
		if back {
			break
		}
		if strings.Contains(vfGoroutineDump(), "(*SyncManager).tryNode") {
			parked = true
		}
		rcancel()
		select {
		case <-done:
		case <-time.After(5 * time.Second):
			run.Inconclusive("CorrectPastBeacons did not return after its context was cancelled")
			return
		}
	}
	if parked {
		for _, p := range c.Peers {
			if p == "silent" || p == "stalls-after-k" {
				run.Violation("C10/sync-parked-on-silent-peer/repair", fmt.Sprintf("CorrectPastBeacons did not return within 4 s, goroutine dump shows tryNode parked (peers %v)", c.Peers), info)
				break
			}
		}
	} else if c.hasHonest() {
		// exactly the faulty rounds restored, nothing else changed
		for r := uint64(1); r <= c.Chain; r++ {
			b, err := base.Get(ctx, r)
			if err != nil || !bytes.Equal(b.Signature, valid[r].Signature) {
				what := "still-faulty-after-repair"
				if !got[r] && !want[r] {
					what = "sound-round-changed-by-repair"
				}
				run.Violation(fmt.Sprintf("C10/%s/%s/%s", what, c.Backend, kind), fmt.Sprintf("round %d after repair: err=%v (damage %v, reported %v, peers %v)", r, err, c.Damage, faulty, c.Peers), info)
				break
			}
		}
		run.Count("repairs_verified", 1)
	}
	run.Eval(fmt.Sprintf("r/%s/%s/%v/%v", c.Scheme, c.Backend, c.Damage, c.Peers))
	_ = os.Remove
}

func TestVF_C10(t *testing.T) {
	vfsInstallHook()
	run := vfNewRun("C10", "syncnet")
	defer run.Finish()
	n := vfPick(120, 900)
	lo, hi := 0, n
	if ri, ok := vfReplayCase(); ok {
		lo, hi = ri, ri+1
	}
	var wg sync.WaitGroup
	sem := make(chan struct{}, 4) // goroutine dumps are per process: keep few cases in flight
	for idx := lo; idx < hi; idx++ {
		wg.Add(1)
		sem <- struct{}{}
		go func(idx int) {
			defer wg.Done()
			defer func() { <-sem }()
			c := c10Gen(idx)
			if idx < 3 {
				run.Sample(c)
			}
			switch c.Mode {
			case "participant":
				c10Participant(run, c)
			case "follow":
				c10Follow(run, c)
			default:
				c10Repair(run, c)
			}
		}(idx)
	}
	wg.Wait()
}

// C01 on the repair path: beacons written by ReSync (through the raw store, no other guard) must verify too.
func TestVF_C01_Repair(t *testing.T) {
	vfsInstallHook()
	run := vfNewRun("C01", "syncnet-repair")
	defer run.Finish()
	run.SigMap = func(s string) string {
		if strings.HasPrefix(s, "C10/unverified-beacon-stored/") || strings.HasPrefix(s, "C10/foreign-beacon-stored/") {
			return "C01/unverifiable-beacon-stored/" + strings.TrimPrefix(strings.TrimPrefix(s, "C10/unverified-beacon-stored/"), "C10/foreign-beacon-stored/")
		}
		if strings.HasPrefix(s, "C10/") {
			return "" // other C10 clauses are not this property's subject
		}
		return s
	}
	n := vfPick(40, 300)
	var wg sync.WaitGroup
	sem := make(chan struct{}, 4)
	for idx := 0; idx < n; idx++ {
		wg.Add(1)
		sem <- struct{}{}
		go func(idx int) {
			defer wg.Done()
			defer func() { <-sem }()
			c := c10Gen(idx*4 + 2) // the repair cases of the C10 list
			if c.Mode != "repair" {
				return
			}
			if idx == 0 {
				run.Sample(c)
			}
			c10Repair(run, c)
		}(idx)
	}
	wg.Wait()
}
