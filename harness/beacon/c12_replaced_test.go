package beacon

// C12 (replaced stream) — a client whose stream is parked in a Send it never reads, and which then reconnects from the
// same address (the new stream replaces the old callback), must not be able to stall the store: the next beacons are
// stored, the reconnected stream and an unrelated client are served.

import (
	"context"
	"fmt"
	"strings"
	"sync"
	"sync/atomic"
	"testing"
	"time"
)

func c12ReplacedRun(run *vfRun, idx int) {
	rng := vfNewRng(vfCaseSeed(vfSeed(), "C12r", idx))
	backend := []string{"bolt-trimmed", "memdb", "bolt-untrimmed"}[idx%3]
	chained := rng.Bool()
	prefill := uint64(rng.Range(5, 60))
	queued := []int{0, 1, 3, CallbackWorkerQueue / 2}[(idx/3)%4] // beacons waiting behind the parked Send when the client reconnects
	info := map[string]any{"case_index": idx, "backend": backend, "chained": chained, "prefill": prefill, "queued_behind_parked_send": queued}
	st, err := vfsNewStack(backend, chained, 2000, prefill)
	if err != nil {
		run.Inconclusive(err.Error())
		return
	}
	defer st.Close()
	// A: follows from the head; its first LIVE Send parks for ever
	a := vfsNewConsumer(prefill, 2)
	defer a.cancel()
	a.start(st)
	if !waitRegistered(st, a) {
		run.Inconclusive("first stream never registered")
		return
	}
	ch := appendN(st, 1+queued)
	if _, done := waitErr(ch, 5*time.Second); !done {
		run.Inconclusive("appends before the reconnect did not return")
		return
	}
	select {
	case <-a.atGate:
	case <-time.After(3 * time.Second):
		run.Inconclusive("first stream never parked in its live Send")
		return
	}
	// B: the same client reconnects (same remote address => same callback id)
	b := &vfsConsumer{notToken: regToken(st, a.id), addr: a.addr, id: a.id, from: st.head, gate: make(chan struct{}), atGate: make(chan struct{}), done: make(chan error, 1)}
	b.ctx, b.cancel = context.WithCancel(vfbPeerCtx(context.Background(), a.addr))
	defer b.cancel()
	b.start(st)
	// an unrelated client arrives as well
	c := vfsNewConsumer(st.head, 0)
	defer c.cancel()
	c.start(st)
	time.Sleep(20 * time.Millisecond)
	ch = appendN(st, 5)
	if _, done := waitErr(ch, 8*time.Second); !done {
		dump := vfGoroutineDump()
		_, frames := c12Blocked(st, dump)
		st.appenderMu.Lock()
		id := st.appender
		st.appenderMu.Unlock()
		state := ""
		for _, g := range strings.Split(dump, "\n\n") {
			if strings.HasPrefix(g, "goroutine "+id+" [") {
				state = strings.SplitN(g, "\n", 2)[0]
				if i := strings.Index(state, "["); i >= 0 {
					state = strings.Trim(state[i:], "[]:")
					if j := strings.Index(state, ","); j >= 0 {
						state = state[:j]
					}
				}
			}
		}
		if state == "running" || state == "runnable" || state == "" {
			run.Inconclusive("appends after the reconnect did not finish in 8 s but the Put is not parked (slow machine?)")
			return
		}
		run.Violation("C12/put-blocked/stalled-consumer-replaced-by-its-reconnect",
			fmt.Sprintf("a stream parked in a Send nobody reads was replaced by a reconnect from the same address (%d beacons queued behind the parked Send); the next Put has not returned for 8 s, parked in state %q: %s", queued, state, frames), info)
		a.cancel()
		run.Eval(fmt.Sprintf("%s/%v/%d/%d", backend, chained, prefill, queued))
		return
	}
	run.Count("reconnects_behind_a_parked_send", 1)
	// B and C are served
	for name, x := range map[string]*vfsConsumer{"reconnected": b, "unrelated": c} {
		x.awaitHead(st)
		got := x.rounds()
		if len(got) == 0 || got[len(got)-1] != st.head {
			last := uint64(0)
			if len(got) > 0 {
				last = got[len(got)-1]
			}
			select {
			case err := <-x.done:
				x.done <- err
				run.Note(fmt.Sprintf("%s stream ended: %v", name, err))
			default:
			}
			run.Violation("C12/client-not-served-behind-replaced-stalled-stream/"+name,
				fmt.Sprintf("the %s stream received up to round %d, the store head is %d (the replaced stream is still parked in its Send)", name, last, st.head), info)
		}
	}
	a.cancel()
	run.Eval(fmt.Sprintf("%s/%v/%d/%d", backend, chained, prefill, queued))
	if idx == 0 {
		run.Sample(info)
	}
}

// c12ChurnRun: consumers that come and go. Every stream that has ended — cancelled while idle between two beacons,
// cancelled while parked in a Send, or ended by a failing Send — must leave nothing registered behind: the callback
// table (one worker goroutine and one queue per entry) must shrink back to the streams that are still open.
func c12ChurnRun(run *vfRun, idx int) {
	rng := vfNewRng(vfCaseSeed(vfSeed(), "C12c", idx))
	backend := []string{"bolt-trimmed", "memdb", "bolt-untrimmed"}[idx%3]
	chained := rng.Bool()
	st, err := vfsNewStack(backend, chained, 2000, uint64(rng.Range(5, 40)))
	if err != nil {
		run.Inconclusive(err.Error())
		return
	}
	defer st.Close()
	cs, ok := st.cb.(*callbackStore)
	if !ok {
		run.Inconclusive("not a callbackStore")
		return
	}
	registered := func() int {
		cs.RLock()
		defer cs.RUnlock()
		return len(cs.callbacks)
	}
	keeper := vfsNewConsumer(st.head, 0) // one stream stays
	defer keeper.cancel()
	keeper.start(st)
	if !waitRegistered(st, keeper) {
		run.Inconclusive("keeper never registered")
		return
	}
	n := rng.Range(6, 14)
	how := map[string]int{}
	for i := 0; i < n; i++ {
		mode := []string{"idle", "parked-in-send", "idle"}[rng.Intn(3)]
		gateAt := 0
		if mode == "parked-in-send" {
			gateAt = 2 // first live Send
		}
		c := vfsNewConsumer(st.head, gateAt)
		c.start(st)
		if !waitRegistered(st, c) {
			c.cancel()
			run.Inconclusive("churning consumer never registered")
			return
		}
		if mode == "parked-in-send" {
			if _, done := waitErr(appendN(st, 1), 5*time.Second); !done {
				c.cancel()
				run.Inconclusive("append did not return")
				return
			}
			select {
			case <-c.atGate:
			case <-time.After(3 * time.Second):
			}
		}
		c.cancel() // the client goes away
		how[mode]++
		if rng.Chance(50) {
			_, _ = waitErr(appendN(st, 1), 5*time.Second)
		}
	}
	run.Count("consumers_that_came_and_left", int64(n))
	// positive signal: the table is back to the one stream that is still open (bounded wait, then a few more beacons
	// so that callbacks which only notice the cancellation when they are called get their chance)
	for i := 0; i < 300 && registered() > 1; i++ {
		time.Sleep(10 * time.Millisecond)
	}
	if registered() > 1 {
		_, _ = waitErr(appendN(st, 3), 5*time.Second)
		for i := 0; i < 200 && registered() > 1; i++ {
			time.Sleep(10 * time.Millisecond)
		}
	}
	if left := registered(); left > 1 {
		run.Violation("C12/callback-left-registered-after-its-consumer-disconnected",
			fmt.Sprintf("%d consumers came and left (%v), 1 stream is still open, but %d callbacks (each with a worker goroutine and a queue of %d) are still registered after 3 more beacons", n, how, left, CallbackWorkerQueue),
			map[string]any{"case_index": idx, "backend": backend, "chained": chained})
	}
	run.Eval(fmt.Sprintf("churn/%s/%v/%d/%v", backend, chained, n, how))
}

func TestVF_C12_Replaced(t *testing.T) {
	vfsInstallHook()
	run := vfNewRun("C12", "streams-stall-replaced")
	defer run.Finish()
	n := vfPick(24, 96)
	var wg sync.WaitGroup
	sem := make(chan struct{}, 8)
	lo, hi := 0, n
	if ri, ok := vfReplayCase(); ok {
		lo, hi = ri, ri+1
	}
	for idx := lo; idx < hi; idx++ {
		wg.Add(1)
		sem <- struct{}{}
		go func(idx int) {
			defer wg.Done()
			defer func() { <-sem }()
			c12ReplacedRun(run, idx)
			if idx%3 == 0 {
				c12ChurnRun(run, idx/3)
			}
		}(idx)
	}
	wg.Wait()
}

// ---------------------------------------------------------------- partial cache bookkeeping

// TestVF_C12_CacheBooks: the partial cache bounds a member's state by counting, per signer, the round caches that
// signer has contributed to (rcvd[idx]); the bound only holds if that list is kept true. In ordinary operation
// (honest members, no flood: nothing is ever evicted) every id in a signer's list must name a round cache that still
// exists — a list that keeps ids of flushed rounds grows with the chain until the signer hits the limit and its
// partials start being refused. Read in the aggregator's own goroutine through hook aggregator.cache.
func TestVF_C12_CacheBooks(t *testing.T) {
	vfsInstallHook()
	run := vfNewRun("C12", "beaconnet-cache-books")
	defer run.Finish()
	n := vfPick(30, 300)
	var wg sync.WaitGroup
	sem := make(chan struct{}, 8)
	lo, hi := 0, n
	if ri, ok := vfReplayCase(); ok {
		lo, hi = ri, ri+1
	}
	for idx := lo; idx < hi; idx++ {
		wg.Add(1)
		sem <- struct{}{}
		go func(idx int) {
			defer wg.Done()
			defer func() { <-sem }()
			sc := vfbGenScenario("C12b", idx, 2)
			sc.Corrupted = nil // honest members only: no flood, nothing is evicted
			sc.Adversary = false
			if sc.Rounds < 14 {
				sc.Rounds = 14
			}
			info := map[string]any{"case_index": idx, "scenario": sc}
			var firings, maxList int64
			reported := int32(0)
			vfbRunScenario(run, sc, vfbScenarioHooks{afterStart: func(nt *vfbNet, adv *vfbAdversary) {
				nt.mu.Lock()
				nt.onHook = func(name string, nd *vfbNode, args []any) {
					if name != "aggregator.cache" || len(args) == 0 {
						return
					}
					pc, ok := args[0].(*partialCache)
					if !ok {
						return
					}
					atomic.AddInt64(&firings, 1)
					for idx, ids := range pc.rcvd {
						if int64(len(ids)) > atomic.LoadInt64(&maxList) {
							atomic.StoreInt64(&maxList, int64(len(ids)))
						}
						for _, id := range ids {
							if _, exists := pc.rounds[id]; !exists && atomic.CompareAndSwapInt32(&reported, 0, 1) {
								run.Violation("C12/partial-cache-list-names-a-flushed-round",
									fmt.Sprintf("node %d: the list of round caches signer %d has contributed to (%d entries) names one that no longer exists; %d round caches are held", nd.pos, idx, len(ids), len(pc.rounds)), info)
							}
						}
					}
				}
				nt.mu.Unlock()
			}})
			run.Count("cache_inspections", atomic.LoadInt64(&firings))
			key := ""
			if firings > 20 {
				key = sc.key()
			}
			run.Eval(key)
			run.Seen("longest_signer_list", fmt.Sprint(atomic.LoadInt64(&maxList)))
			if idx == 0 {
				run.Sample(sc)
			}
		}(idx)
	}
	wg.Wait()
}
