package beacon

// C07 (handler level) — resharing keeps continuity: the harness re-shares the secret itself (new
// polynomial, same constant term => same public key) and makes exactly the calls core makes after a
// DKG: TransitionNewGroup on remainers, a fresh Handler + Catchup on joiners, StopAt on leavers.
// Monitors: C01/C02 store oracles across the transition (verification under the ORIGINAL key),
// bounded progress after the transition, and refusal of partials made with previous-group shares
// once a node has switched.

import (
	"context"
	"fmt"
	"os"
	"sort"
	"strings"
	"sync"
	"sync/atomic"
	"testing"
	"time"

	"github.com/drand/kyber/share"
	kdkg "github.com/drand/kyber/share/dkg"
	"github.com/drand/kyber/util/random"

	"github.com/drand/drand/v2/common"
	"github.com/drand/drand/v2/common/key"
	"github.com/drand/drand/v2/crypto"
	proto "github.com/drand/drand/v2/protobuf/drand"
)

type c07Case struct {
	Index     int    `json:"case_index"`
	Scheme    string `json:"scheme"`
	Backend   string `json:"backend"`
	N1        int    `json:"n1"`
	T1        int    `json:"t1"`
	Shape     string `json:"shape"` // same | add | remove | replace | thr-up | thr-down
	Members2  []int  `json:"members2"`
	T2        int    `json:"t2"`
	AtRound   int    `json:"reshare_issued_at_round"`
	Lead      int    `json:"transition_rounds_later"`
	PeriodS   int    `json:"period_s"`
	CatchupS  int    `json:"catchup_s"`
	Outage    string `json:"outage"` // none | one-remainer-down-across-transition | loss
	Epochs    int    `json:"epochs"`
	Seed      uint64 `json:"seed"`
}

func c07Gen(idx int) c07Case {
	seed := vfCaseSeed(vfSeed(), "C07", idx)
	rng := vfNewRng(seed)
	schemes := vfbSchemeList()
	if !vfThorough() {
		schemes = schemes[:2]
	}
	c := c07Case{Index: idx, Scheme: schemes[idx%len(schemes)].Name, Backend: []string{"bolt-trimmed", "memdb", "bolt-untrimmed"}[rng.Intn(3)],
		Shape: []string{"same", "add", "remove", "replace", "thr-up", "thr-down", "remove-all-needed"}[(idx/len(schemes))%7], PeriodS: rng.Range(2, 4), Seed: seed,
		AtRound: rng.Range(3, 6), Lead: rng.Range(1, 4), Outage: []string{"none", "none", "one-remainer-down-across-transition", "loss"}[rng.Intn(4)], Epochs: 1}
	c.CatchupS = []int{0, 1}[rng.Intn(2)]
	c.N1 = rng.Range(3, 5)
	c.T1 = c.N1/2 + 1
	switch c.Shape {
	case "same":
		c.Members2, c.T2 = seqInts(c.N1), c.T1
	case "add":
		c.Members2, c.T2 = seqInts(c.N1+rng.Range(1, 2)), 0
	case "remove":
		if c.N1 < 4 {
			c.N1, c.T1 = 4, 3
		}
		c.Members2 = seqInts(c.N1)[1:] // node 0 leaves
	case "remove-all-needed":
		// node 0 leaves, every remaining index moves down by one, and the new threshold is the size of the new group:
		// every member's partial is needed by every member
		if c.N1 < 4 {
			c.N1, c.T1 = 4, 3
		}
		c.Members2 = seqInts(c.N1)[1:]
		c.T2 = len(c.Members2)
		c.Outage = "none"
	case "replace":
		c.Members2 = append(seqInts(c.N1)[1:], c.N1) // node 0 leaves, node N1 joins
	case "thr-up":
		c.N1 = 5
		c.T1 = 3
		c.Members2, c.T2 = seqInts(5), 4
	case "thr-down":
		c.N1 = 5
		c.T1 = 4
		c.Members2, c.T2 = seqInts(5), 3
	}
	if c.T2 == 0 {
		c.T2 = len(c.Members2)/2 + 1
	}
	if vfThorough() && rng.Chance(30) {
		c.Epochs = 2
	}
	return c
}

// c07Reshare performs what a finished resharing does to the beacon layer.
type c07Epoch struct {
	group     *key.Group
	pri       *share.PriPoly
	shares    map[int]*key.Share // by node position
	tRound    uint64
	members   []int
}

func c07Reshare(nt *vfbNet, prev *c07Epoch, members []int, thr int, tRound uint64, rng *vfRng) *c07Epoch {
	sch := nt.cfg.Scheme
	pri := share.NewPriPoly(sch.KeyGroup, thr, prev.pri.Secret(), random.New(rng)) // same secret => same public key
	_, commits := pri.Commit(sch.KeyGroup.Point().Base()).Info()
	sort.Ints(members)
	nodes := make([]*key.Node, len(members))
	for i, pos := range members {
		nodes[i] = &key.Node{Identity: nt.nodes[pos].pair.Public, Index: uint32(i)}
	}
	g := &key.Group{Threshold: thr, Period: nt.cfg.Period, Scheme: sch, ID: nt.cfg.BeaconID, CatchupPeriod: nt.cfg.Catchup, Nodes: nodes,
		GenesisTime: nt.genesis, GenesisSeed: nt.group.GenesisSeed, PublicKey: &key.DistPublic{Coefficients: commits},
		TransitionTime: common.TimeOfRound(nt.cfg.Period, nt.genesis, tRound)}
	ep := &c07Epoch{group: g, pri: pri, shares: map[int]*key.Share{}, tRound: tRound, members: members}
	ps := pri.Shares(len(members))
	for i, pos := range members {
		ep.shares[pos] = &key.Share{DistKeyShare: kdkg.DistKeyShare{Share: ps[i], Commits: commits}, Scheme: sch}
	}
	return ep
}

// c07Halt carries a chain-halt observation out of one attempt at a case.
type c07Halt struct {
	hold   bool // do not report: hand the observation back to the caller
	detail string
}

// A halt is a bounded-progress verdict, and the bound is counted in steps of the fake clock: whether the nodes'
// goroutines got to run between two steps is up to the scheduler of the box. A case that halts is therefore run a
// second time, identically: halting again is a violation; a halt that does not come back is reported as
// inconclusive together with what the first attempt saw (never as held).
func c07Run(run *vfRun, c c07Case) {
	first := &c07Halt{hold: true}
	c07RunAttempt(run, c, "c07", first)
	if first.detail == "" {
		return
	}
	run.Count("halts_seen_on_first_attempt", 1)
	second := &c07Halt{}
	c07RunAttempt(run, c, "c07", second)
	if second.detail == "" {
		run.Inconclusive(fmt.Sprintf("case %d: the chain halted after the transition on one attempt and not on an identical second one (scheduling-dependent, not decided): %s", c.Index, first.detail))
	}
}

func c07RunMode(run *vfRun, c c07Case, mode string) { c07RunAttempt(run, c, mode, &c07Halt{}) }

// c07RunMode: mode "c07" arms the continuity / progress / previous-group oracles; mode "c04" runs the same
// transition workload with only the emission-timing oracle of C04 armed ("around resharing").
func c07RunAttempt(run *vfRun, c c07Case, mode string, halt *c07Halt) {
	sch, _ := crypto.SchemeFromName(c.Scheme)
	universe := c.N1 + 3
	cfg := vfbConfig{Scheme: sch, N: c.N1, Thr: c.T1, Period: time.Duration(c.PeriodS) * time.Second, Catchup: time.Duration(c.CatchupS) * time.Second,
		Backend: c.Backend, BeaconID: "c07", GenesisIn: time.Duration(c.PeriodS) * time.Second, Seed: c.Seed, Universe: universe}
	nt, err := vfbNewNet(run, cfg, time.Unix(1750000000+int64(c.Index)*1000, 0))
	if err != nil {
		run.Inconclusive(err.Error())
		return
	}
	defer nt.Close()
	info := map[string]any{"case_index": c.Index, "case": c}
	rng := vfNewRng(c.Seed ^ 0xc07)
	// C01 + C02 oracles, verifying under the original public key throughout
	sc := vfbScenario{Index: c.Index, Scheme: c.Scheme, Backend: c.Backend}
	orc := newChainOracle(nt, sc, true, true)
	orc.info = func() map[string]any { return info }
	var mu sync.Mutex
	switched := map[int]uint64{} // node -> head when we last looked (informational)
	nt.onOpen = func(n *vfbNode) {
		if nt.backendOf(n) == "memdb" {
			orc.resetNode(n.pos)
		}
	}
	var puts int64
	// "from the transition on only shares of the new group count": every beacon a node AGGREGATES for a round at or
	// after a transition must be backed by a threshold of distinct partials — handed to that node, or emitted by it —
	// that the harness itself verified under the public polynomial of the group governing that round
	type c07Gov struct {
		tRound uint64
		poly   *share.PubPoly
		thr    int
		idxOf  map[int]int // node position -> its index in THIS group (the harness moves n.index at the announcement)
	}
	var govMu sync.Mutex
	var gov []c07Gov
	backed := map[[2]uint64]map[int]bool{} // (node, round) -> signer indices valid under the governing polynomial
	seenPartials := map[[2]uint64][]string{} // (node, round) -> what was handed over / emitted, for the report
	putAt := map[[2]uint64]int64{}           // (node, round) -> the node's clock when that round reached its base store
	governing := func(r uint64) *c07Gov {
		var g *c07Gov
		for i := range gov {
			if gov[i].tRound <= r {
				g = &gov[i]
			}
		}
		return g
	}
	recordBacked := func(node int, p *proto.PartialBeaconPacket, how string) {
		govMu.Lock()
		g := governing(p.GetRound())
		govMu.Unlock()
		if g == nil {
			return
		}
		prev := p.GetPreviousSignature()
		if !nt.chained() {
			prev = nil
		}
		idx, err := sch.ThresholdScheme.IndexOf(p.GetPartialSig())
		if err != nil {
			return
		}
		k := [2]uint64{uint64(node), p.GetRound()}
		ok := sch.ThresholdScheme.VerifyPartial(g.poly, nt.digest(p.GetRound(), prev), p.GetPartialSig()) == nil
		govMu.Lock()
		if len(seenPartials[k]) < 24 {
			seenPartials[k] = append(seenPartials[k], fmt.Sprintf("%s:idx%d:valid-under-governing-group=%v", how, idx, ok))
		}
		govMu.Unlock()
		if !ok {
			return
		}
		govMu.Lock()
		if backed[k] == nil {
			backed[k] = map[int]bool{}
		}
		backed[k][idx] = true
		govMu.Unlock()
	}
	if mode == "c07" {
		nt.onPut = func(n *vfbNode, b *common.Beacon, src string, seq int64) {
			atomic.AddInt64(&puts, 1)
			orc.onPut(n, b, src, seq)
			nowN := n.clk.Now().Unix()
			govMu.Lock()
			if _, seen := putAt[[2]uint64{uint64(n.pos), b.Round}]; !seen {
				putAt[[2]uint64{uint64(n.pos), b.Round}] = nowN
			}
			prevAt, prevSeen := putAt[[2]uint64{uint64(n.pos), b.Round - 1}]
			govMu.Unlock()
			if src != "agg" {
				return
			}
			govMu.Lock()
			g := governing(b.Round)
			if g == nil {
				govMu.Unlock()
				return
			}
			// the node's own partial goes to its aggregator before anything is sent, so it cannot be observed in time:
			// it is granted, and a threshold minus one is asked of the OTHER members' partials handed to the node
			have := 1
			own, member := g.idxOf[n.pos]
			if !member {
				own = -1
			}
			for idx := range backed[[2]uint64{uint64(n.pos), b.Round}] {
				if idx != own {
					have++
				}
			}
			seen := append([]string(nil), seenPartials[[2]uint64{uint64(n.pos), b.Round}]...)
			govMu.Unlock()
			if g == nil {
				return
			}
			run.Count("aggregations_at_or_after_a_transition_counted", 1)
			if have < g.thr && b.Round == g.tRound && prevSeen && prevAt == nowN {
				// the vault is switched by a store callback that runs, in its own goroutine, after the round before the
				// transition has been stored; a node that is catching up signs and aggregates the transition round in the
				// very same clock step, and nothing orders the two
				run.Violation("C07/transition-round-aggregated-with-previous-shares/in-the-step-that-stored-the-round-before",
					fmt.Sprintf("node %d stored round %d and aggregated the transition round %d within one second of its clock (%d), before the switch callback had run: it held at most %d partial(s) valid under the new group's polynomial, threshold %d; partials seen: %v", n.pos, b.Round-1, b.Round, nowN, have, g.thr, seen), info)
				return
			}
			if have < g.thr {
				run.Violation(fmt.Sprintf("C07/beacon-after-transition-without-threshold-of-new-group-partials/%s", c.Shape),
					fmt.Sprintf("node %d aggregated round %d (transition round %d) while it held at most %d partial(s) valid under the new group's polynomial (its own granted), threshold %d; partials of that round seen at the node: %v", n.pos, b.Round, g.tRound, have, g.thr, seen), info)
			}
		}
		nt.onDeliver = func(to *vfbNode, from int, p *proto.PartialBeaconPacket, src string, seq int64) { recordBacked(to.pos, p, "handed-over") }
		nt.onSyncSend = orc.onSyncSend
		nt.onPutRet = orc.onPutRet
	} else {
		nt.onPut = func(n *vfbNode, b *common.Beacon, src string, seq int64) { atomic.AddInt64(&puts, 1) }
		nt.onEmit = func(from *vfbNode, to int, p *proto.PartialBeaconPacket, clk int64) {
			run.Count("partials_emitted_around_reshare", 1)
			if tr := c04TimeOfRound(nt.genesis, c.PeriodS, p.GetRound()); clk < tr {
				run.Violation("C04/partial-released-before-round-time/around-reshare-"+c.Shape,
					fmt.Sprintf("node %d sent its partial for round %d at own clock %d, %d s before that round's time (reshare shape %s)", from.pos, p.GetRound(), clk, tr-clk, c.Shape), info)
			}
		}
	}
	// the C01/C02 oracle reports under their own ids; re-label for this run
	// (a gap / fork / unverifiable beacon at or after the transition is a C07 violation)
	var injMu sync.Mutex
	injected := map[string]string{} // old-share partials sent to switched nodes -> description
	nt.mu.Lock()
	nt.onHook = func(name string, n *vfbNode, args []any) {
		if name != "aggregator.cache" || len(args) == 0 {
			return
		}
		pc, ok := args[0].(*partialCache)
		if !ok {
			return
		}
		injMu.Lock()
		defer injMu.Unlock()
		if len(injected) == 0 {
			return
		}
		for _, rc := range pc.rounds {
			for _, sg := range rc.sigs {
				if d, hit := injected[string(sg)]; hit && mode == "c07" {
					run.Violation(fmt.Sprintf("C07/previous-group-partial-cached-after-transition/%s", c.Shape),
						"a partial made with a share of the previous group was accepted into the aggregator's cache of a node that had switched: "+d, info)
					delete(injected, string(sg))
				}
			}
		}
	}
	nt.mu.Unlock()
	if os.Getenv("VF_DEBUG") != "" {
		var dn int64
		for _, n := range nt.nodes {
			n := n
			n.logger.sink = func(level, msg string, kv []interface{}) {
				if atomic.AddInt64(&dn, 1) < 60 {
					run.Note(fmt.Sprintf("DEBUG n%d %s %s %v", n.pos, level, msg, kv))
				}
			}
		}
	}
	// per-node tail of the handlers' own log lines, only ever printed next to a chain-halt report
	var ringMu sync.Mutex
	rings := map[int][]string{}
	if mode == "c07" && os.Getenv("VF_DEBUG") == "" {
		for _, n := range nt.nodes {
			n := n
			n.logger.sink = func(level, msg string, kv []interface{}) {
				if level == "debug" && !strings.Contains(fmt.Sprint(kv...), "beacon_loop") && !strings.Contains(msg, "broadcast") {
					return
				}
				line := fmt.Sprintf("%d %s %s %v", n.clk.Now().Unix(), level, msg, kv)
				if len(line) > 260 {
					line = line[:260]
				}
				ringMu.Lock()
				rings[n.pos] = append(rings[n.pos], line)
				if len(rings[n.pos]) > 80 {
					rings[n.pos] = rings[n.pos][40:]
				}
				ringMu.Unlock()
			}
		}
	}
	if err := nt.StartAll(); err != nil {
		run.Inconclusive(err.Error())
		return
	}
	nt.Settle()
	if c.Outage == "loss" {
		nt.dropPct = 15
	}
	cur := &c07Epoch{group: nt.group, pri: nt.pri, shares: map[int]*key.Share{}, members: seqInts(c.N1)}
	for _, n := range nt.nodes[:c.N1] {
		cur.shares[n.pos] = n.share
	}
	round := 0
	step := func() { nt.Step(cfg.Period); round++ }
	for round < c.AtRound {
		step()
	}
	oldShares := map[int]*key.Share{}
	var prevEpoch *c07Epoch
	members2, t2 := c.Members2, c.T2
	for ep := 0; ep < c.Epochs; ep++ {
		clockRound := nt.clockRound(nt.nodes[cur.members[0]])
		lead := c.Lead
		if lead == 1 {
			// "late registration": the transition is the very next round, so round tRound-1 is already stored
			// when core registers the switch. Only meaningful when every member is in that same state (core never
			// announces a transition this late; with some members still short of tRound-1 the group would split
			// between old and new shares for good) — otherwise fall back to the ordinary lead.
			for _, pos := range cur.members {
				if n := nt.nodes[pos]; !n.running || nt.Head(n) != clockRound {
					lead = 2
				}
			}
			if c.Outage != "none" {
				lead = 2
			}
			if lead == 1 {
				run.Count("late_registrations", 1)
			}
		}
		tRound := clockRound + uint64(lead)
		next := c07Reshare(nt, cur, append([]int(nil), members2...), t2, tRound, rng)
		// the switch is made by a store callback on the first beacon >= tRound-1 stored AFTER the registration: with a
		// late registration (round tRound-1 already stored everywhere) that is round tRound, which is therefore still
		// produced with the previous shares, and the new group governs from tRound+1 on
		eff := tRound
		if lead == 1 {
			eff = tRound + 1
		}
		idxOf := map[int]int{}
		for _, pos := range next.members {
			idxOf[pos] = int(next.group.Find(nt.nodes[pos].pair.Public).Index)
		}
		govMu.Lock()
		gov = append(gov, c07Gov{tRound: eff, poly: next.group.PublicKey.PubPoly(sch), thr: next.group.Threshold, idxOf: idxOf})
		govMu.Unlock()
		inNext := map[int]bool{}
		for _, p := range next.members {
			inNext[p] = true
		}
		inCur := map[int]bool{}
		for _, p := range cur.members {
			inCur[p] = true
		}
		var downNode *vfbNode
		remainers := 0
		for _, pos := range cur.members {
			if inNext[pos] {
				remainers++
			}
		}
		for _, pos := range cur.members {
			n := nt.nodes[pos]
			oldShares[pos] = cur.shares[pos]
			switch {
			case inNext[pos]: // remainer
				if n.running && n.handler != nil {
					n.handler.TransitionNewGroup(context.Background(), next.shares[pos], next.group)
					run.Count("remainers_transitioned", 1)
				}
				n.share, n.grp = next.shares[pos], next.group
				n.index = int(next.group.Find(n.pair.Public).Index)
				// the outage must leave a threshold of the NEW group and of the OLD one without counting on the leavers
				// (they stop one second before the transition: a previous group that needs a leaver's partial for its
				// last round has no margin at all, and the statement promises nothing for it)
				if c.Outage == "one-remainer-down-across-transition" && downNode == nil && len(next.members) > next.group.Threshold &&
					remainers-1 >= cur.group.Threshold {
					downNode = n
				}
			default: // leaver
				run.Count("leavers", 1)
				go func(n *vfbNode) { _ = n.handler.StopAt(context.Background(), next.group.TransitionTime-1) }(n)
			}
		}
		for _, pos := range next.members {
			if inCur[pos] {
				continue
			}
			n := nt.nodes[pos] // joiner: a new handler on the new group, in catch-up mode (as core.joinNetwork does)
			n.share, n.grp, n.index = next.shares[pos], next.group, int(next.group.Find(n.pair.Public).Index)
			if err := nt.StartNode(n, "catchup"); err != nil {
				run.Inconclusive("joiner start: " + err.Error())
				return
			}
			run.Count("joiners", 1)
		}
		if downNode != nil {
			nt.StopNode(downNode)
			run.Count("remainer_outages", 1)
		}
		// run across the transition. The vault is switched by a store callback that runs in its own goroutine once
		// round tRound-1 is stored; in real time a whole period lies between that and the tick of tRound, on the fake
		// clock only the few milliseconds until the harness's next step: wait (bounded) for the callback to have run on
		// every node that has stored tRound-1 before moving the clocks on, so that the compression of time does not
		// create an interleaving a real network cannot have. (A node that is catching up stores tRound-1 and signs
		// tRound in the same instant in real time too: that case is left alone and judged.)
		starved := false
		waitSwitch := func() bool {
			t0 := time.Now()
			defer func() {
				if time.Since(t0) > 8*time.Second {
					starved = true // 1000 sleeps of 5 ms took more than 8 s: the box is not keeping pace
				}
			}()
			for i := 0; i < 1000; i++ {
				waiting := false
				for _, pos := range next.members {
					n := nt.nodes[pos]
					if n.running && n.handler != nil && inCur[pos] && nt.Head(n) >= tRound-1 && nt.Head(n) < tRound &&
						n.handler.crypto.GetGroup().TransitionTime != next.group.TransitionTime {
						waiting = true
					}
				}
				if !waiting {
					return true
				}
				time.Sleep(5 * time.Millisecond)
			}
			return false
		}
		for nt.clockRound(nt.nodes[next.members[0]]) < tRound+2 {
			step()
			if !waitSwitch() && starved && mode == "c07" {
				// a store callback that has not run although its round was stored 5 s of sleeps ago, on a box where those
				// sleeps took far longer than they should: nothing can be concluded (on a box that keeps pace the wait
				// simply ends and the rules below judge a switch that does not come)
				run.Inconclusive(fmt.Sprintf("case %d: a node that stored round %d had not switched its vault yet and the box is not keeping pace", c.Index, tRound-1))
				return
			}
		}
		if downNode != nil {
			// it restarts with what core persisted for it: the new group and share
			if err := nt.StartNode(downNode, "catchup"); err != nil {
				run.Note("remainer restart failed: " + err.Error())
			}
		}
		for _, pos := range cur.members {
			if !inNext[pos] {
				n := nt.nodes[pos]
				if n.handler != nil && !n.handler.IsStopped() {
					run.Count("leavers_not_stopped_by_StopAt", 1)
					n.handler.Stop(context.Background()) // idempotent; releases the store for the final scan
				} else {
					run.Count("leavers_stopped_by_StopAt", 1)
				}
				n.running = false
			}
		}
		// bounded progress after the transition: every running new-group member reaches its clock round
		var live []*vfbNode
		for _, pos := range next.members {
			if n := nt.nodes[pos]; n.running {
				live = append(live, n)
			}
		}
		behind := func() []string {
			var who []string
			for _, n := range live {
				if h, cr := nt.Head(n), nt.clockRound(n); h < cr {
					who = append(who, fmt.Sprintf("n%d:head=%d,clock-round=%d", n.pos, h, cr))
				}
			}
			return who
		}
		B := 6*len(next.members) + 20
		ok := false
		for s := 0; s < B; s++ {
			if len(behind()) == 0 {
				ok = true
				break
			}
			nt.Step(time.Second)
		}
		if !ok && len(live) >= next.group.Threshold {
			time.Sleep(time.Second)
			for s := 0; s < B && len(behind()) > 0; s++ {
				nt.Step(time.Second)
				time.Sleep(30 * time.Millisecond)
			}
			if who := behind(); len(who) > 0 && mode == "c07" {
				diag := ""
				for _, n := range live {
					h := nt.Head(n)
					sw := n.handler != nil && n.handler.crypto.GetGroup().TransitionTime == next.group.TransitionTime
					govMu.Lock()
					sp := append([]string(nil), seenPartials[[2]uint64{uint64(n.pos), h + 1}]...)
					govMu.Unlock()
					ringMu.Lock()
					tail := append([]string(nil), rings[n.pos]...)
					ringMu.Unlock()
					if len(tail) > 30 {
						tail = tail[len(tail)-30:]
					}
					diag += fmt.Sprintf(" || n%d: lead=%d vault-switched=%v partials-handed-over-for-round-%d=%v log-tail=%q", n.pos, lead, sw, h+1, sp, tail)
				}
				detail := fmt.Sprintf("transition at round %d, %d of %d new-group members running (threshold %d); %d logical seconds later still behind: %v%s", tRound, len(live), len(next.members), next.group.Threshold, 2*B, who, diag)
				halt.detail = detail
				if halt.hold {
					return
				}
				run.Violation(fmt.Sprintf("C07/chain-halts-after-transition/%s/%s", c.Shape, c.Outage), detail, info)
				return
			}
		}
		// from the transition on only the new group counts: every running remainer's vault must have switched
		if mode == "c07" {
			for _, v := range live {
				if v.handler != nil && nt.Head(v) >= tRound && v.handler.crypto.GetGroup().TransitionTime != next.group.TransitionTime {
					run.Violation(fmt.Sprintf("C07/node-never-switched-to-new-group/%s", c.Shape),
						fmt.Sprintf("node %d stores round %d (transition round %d) but its vault still runs the previous group", v.pos, nt.Head(v), tRound), info)
				}
			}
		}
		// a few rounds under the new group, with old-share partials thrown at nodes that have switched
		for k := 0; k < 3; k++ {
			for _, v := range live {
				h := nt.Head(v)
				if h+1 < tRound {
					continue
				}
				// only nodes whose vault already runs the new group (white-box read; the switch is made by a
				// store callback shortly after round tRound-1 is stored)
				if v.handler == nil || v.handler.crypto.GetGroup().TransitionTime != next.group.TransitionTime {
					run.Count("nodes_not_switched_yet", 1)
					continue
				}
				run.Count("switched_nodes_probed", 1)
				mu.Lock()
				switched[v.pos] = h
				mu.Unlock()
				last, err := v.handler.chain.Last(context.Background())
				if err != nil {
					continue
				}
				for pos, osh := range oldShares {
					if pos == v.pos {
						continue
					}
					r := h + 1
					prev := last.Signature
					msg := nt.digest(r, prev)
					if !nt.chained() {
						msg = nt.digest(r, nil)
					}
					sig, _ := sch.ThresholdScheme.Sign(osh.PrivateShare(), msg)
					pkt := nt.packet(r, prev, sig)
					run.Count("old_share_partials_sent", 1)
					injMu.Lock()
					injected[string(sig)] = fmt.Sprintf("node %d (head %d, transition round %d): partial for round %d signed with node %d's share of the previous group", v.pos, h, tRound, r, pos)
					injMu.Unlock()
					_ = nt.Deliver(pos, v, pkt, "adversary")
				}
			}
			step()
		}
		prevEpoch, cur = cur, next
		_ = prevEpoch
		// next epoch (thorough): back to the first shape's inverse
		members2, t2 = seqInts(c.N1), c.T1
	}
	if mode == "c07" {
		orc.finalScan()
	}
	run.Count("puts_observed", atomic.LoadInt64(&puts))
	run.Eval(fmt.Sprintf("%s/%s/%d-%d/%s/%v-%d/%d+%d/%s/%d", c.Scheme, c.Backend, c.N1, c.T1, c.Shape, c.Members2, c.T2, c.AtRound, c.Lead, c.Outage, c.Epochs))
	run.Seen("shapes", c.Shape+"/"+c.Outage)
	_ = proto.Empty{}
}

func TestVF_C07_Handlers(t *testing.T) {
	vfsInstallHook()
	run := vfNewRun("C07", "beaconnet-transition")
	defer run.Finish()
	// gaps, forks and unverifiable beacons seen by the shared store oracles are continuity violations here
	run.SigMap = func(s string) string {
		if strings.HasPrefix(s, "C01/") || strings.HasPrefix(s, "C02/") {
			return "C07/continuity/" + s[4:]
		}
		return s
	}
	n := vfPick(36, 360)
	lo, hi := 0, n
	if ri, ok := vfReplayCase(); ok {
		lo, hi = ri, ri+1
	}
	var wg sync.WaitGroup
	sem := make(chan struct{}, 8)
	for idx := lo; idx < hi; idx++ {
		wg.Add(1)
		sem <- struct{}{}
		go func(idx int) {
			defer wg.Done()
			defer func() { <-sem }()
			c := c07Gen(idx)
			if idx < 3 {
				run.Sample(c)
			}
			c07Run(run, c)
		}(idx)
	}
	wg.Wait()
}
