package beacon

// C04 — unpredictability: no honest partial for round r leaves a node while that node's own clock is
// before the time of round r; partials for rounds more than one ahead of the receiver's clock are refused.

import (
	"os"
	"fmt"
	"sync"
	"sync/atomic"
	"testing"
	"time"

	"github.com/drand/drand/v2/common"
	"github.com/drand/drand/v2/crypto"
	proto "github.com/drand/drand/v2/protobuf/drand"
)

type c04Case struct {
	Index    int    `json:"case_index"`
	Scheme   string `json:"scheme"`
	N        int    `json:"n"`
	Thr      int    `json:"thr"`
	PeriodS  int    `json:"period_s"`
	CatchupS int    `json:"catchup_s"`
	SkewS    []int  `json:"skew_s"`  // per node clock offset in seconds
	Pattern  string `json:"pattern"` // regular | bursts | stalls | substeps | mixed | parked-tick | restart
	Rounds   int    `json:"rounds"`
	Corrupt  []int  `json:"corrupted"`
	Seed     uint64 `json:"seed"`
}

func c04Gen(idx int) c04Case {
	seed := vfCaseSeed(vfSeed(), "C04", idx)
	rng := vfNewRng(seed)
	schemes := vfbSchemeList()
	if !vfThorough() {
		schemes = schemes[:2]
	}
	nts := [][2]int{{3, 2}, {4, 3}, {5, 3}, {4, 2 + 1}, {7, 4}, {5, 4}}
	nt := nts[rng.Intn(len(nts))]
	c := c04Case{Index: idx, Scheme: schemes[idx%len(schemes)].Name, N: nt[0], Thr: nt[1], PeriodS: rng.Range(2, 5), Seed: seed,
		Pattern: []string{"regular", "bursts", "stalls", "substeps", "mixed", "parked-tick", "restart", "parked-tick", "blackout-slow-clock"}[(idx/len(schemes))%9],
		Rounds:  rng.Range(8, vfPick(16, 40))}
	c.CatchupS = []int{0, 1}[rng.Intn(2)]
	c.SkewS = make([]int, c.N)
	switch rng.Intn(4) {
	case 0: // no skew
	case 1: // small drifts below a period
		for i := range c.SkewS {
			c.SkewS[i] = rng.Range(-(c.PeriodS - 1), c.PeriodS-1)
		}
	case 2: // one node a full period behind, one a period ahead
		c.SkewS[rng.Intn(c.N)] = -c.PeriodS
		c.SkewS[rng.Intn(c.N)] = c.PeriodS
	case 3: // one node two periods behind the others
		c.SkewS[rng.Intn(c.N)] = -2 * c.PeriodS
	}
	if c.Pattern == "parked-tick" { // node 0 exactly one period behind everybody else, who can run without it
		for i := range c.SkewS {
			c.SkewS[i] = 0
		}
		c.SkewS[0] = -c.PeriodS
		if c.Thr > c.N-1 {
			c.Thr = c.N - 1
		}
	}
	if c.Pattern == "blackout-slow-clock" {
		// one node lives two periods behind the others; after an outage of the whole network everybody catches up
		// together at the catch-up rate, and the slow node's head overtakes its own clock while its catch-up timer runs
		for i := range c.SkewS {
			c.SkewS[i] = 0
		}
		c.SkewS[rng.Intn(c.N)] = -2 * c.PeriodS
		c.CatchupS = 1
		if c.Thr > c.N-1 {
			c.Thr = c.N - 1
		}
	}
	if idx >= c04BaseCases() {
		// directed: the handling of one tick of node 0 is held for almost two periods (a stalled store read, a
		// blocked run loop) while everybody's clock runs on; it is released a FRACTION of a second before the time
		// of head+1, the round the late tick would sign. All clocks agree; the others can run without node 0.
		c.Pattern = "late-tick-subsecond"
		if (idx-c04BaseCases())%2 == 1 {
			// directed: after an outage of the whole network everybody catches up, one round per catch-up period;
			// node 0's clock then STALLS with its catch-up timer pending while the others finish the catch-up and
			// tick into the next round, so that node 0's head passes its own clock round before its timer fires
			c.Pattern = "stalled-catchup"
			c.CatchupS = 1
			c.PeriodS = 3 + idx%3
		}
		for i := range c.SkewS {
			c.SkewS[i] = 0
		}
		if c.Thr > c.N-1 {
			c.Thr = c.N - 1
		}
	}
	if f := c.N - c.Thr; f > 0 && rng.Chance(60) && c.Pattern != "parked-tick" && c.Pattern != "blackout-slow-clock" && c.Pattern != "late-tick-subsecond" && c.Pattern != "stalled-catchup" {
		c.Corrupt = []int{c.N - 1}
		c.SkewS[c.N-1] = 0
	}
	return c
}

func c04BaseCases() int  { return vfPick(48, 480) }
func c04ExtraCases() int { return vfPick(8, 60) }

// harness-own arithmetic (whole seconds)
func c04TimeOfRound(genesis int64, periodS int, r uint64) int64 {
	if r == 0 {
		return genesis
	}
	return genesis + int64(r-1)*int64(periodS)
}
func c04ClockRound(now, genesis int64, periodS int) uint64 {
	if now < genesis {
		return 0
	}
	return uint64((now-genesis)/int64(periodS)) + 1
}

func c04Run(run *vfRun, c c04Case) {
	sch, _ := crypto.SchemeFromName(c.Scheme)
	cfg := vfbConfig{Scheme: sch, N: c.N, Thr: c.Thr, Period: time.Duration(c.PeriodS) * time.Second, Catchup: time.Duration(c.CatchupS) * time.Second,
		Backend: []string{"memdb", "bolt-trimmed"}[c.Index%2], BeaconID: "c04", GenesisIn: time.Duration(5*c.PeriodS) * time.Second, Corrupted: c.Corrupt, Seed: c.Seed}
	start := time.Unix(1720000000+int64(c.Index)*1000, 0)
	nt, err := vfbNewNet(run, cfg, start)
	if err != nil {
		run.Inconclusive(err.Error())
		return
	}
	defer nt.Close()
	// per-node skew: each node lives on its own clock; offsets are relative to the slowest node
	minSkew := 0
	for _, sk := range c.SkewS {
		if sk < minSkew {
			minSkew = sk
		}
	}
	for i, n := range nt.nodes {
		if d := c.SkewS[i] - minSkew; d > 0 {
			n.clk.Advance(time.Duration(d) * time.Second)
		}
	}
	info := map[string]any{"case_index": c.Index, "case": c}
	rng := vfNewRng(c.Seed ^ 0xc04)
	var early, emits, ahead int64
	nt.onEmit = func(from *vfbNode, to int, p *proto.PartialBeaconPacket, clk int64) {
		atomic.AddInt64(&emits, 1)
		tr := c04TimeOfRound(nt.genesis, c.PeriodS, p.GetRound())
		if clk < tr {
			atomic.AddInt64(&early, 1)
			run.Violation("C04/partial-released-before-round-time/"+c.Pattern,
				fmt.Sprintf("node %d sent its partial for round %d at own clock %d, %d s before that round's time %d (own clock round %d, stored head %d)",
					from.pos, p.GetRound(), clk, tr-clk, tr, c04ClockRound(clk, nt.genesis, c.PeriodS), nt.Head(from)), info)
		}
		if h := nt.Head(from); h > c04ClockRound(clk, nt.genesis, c.PeriodS) {
			atomic.AddInt64(&ahead, 1) // the chain is ahead of this node's clock while it speaks
		}
	}
	adv := vfbNewAdversary(nt)
	prevEmit := nt.onEmit
	nt.onEmit = func(from *vfbNode, to int, p *proto.PartialBeaconPacket, clk int64) {
		adv.observeEmit(p, from.pos)
		prevEmit(from, to, p, clk)
	}
	// a beacon a node AGGREGATES before the round's time on its own clock can only come from a threshold of other
	// members' partials (their clocks may be ahead): the node's own share must not be part of it, since it does not
	// release its own partial before that time
	var omu sync.Mutex
	others := map[[2]uint64]map[int]bool{} // (node, round) -> indices of other members whose valid partial was handed over
	nt.onDeliver = func(to *vfbNode, from int, p *proto.PartialBeaconPacket, src string, seq int64) {
		if src != "honest" || from == to.pos {
			return
		}
		prev := p.GetPreviousSignature()
		if !nt.chained() {
			prev = nil
		}
		if !nt.verifyPartial(p.GetRound(), prev, p.GetPartialSig()) {
			return
		}
		idx, err := sch.ThresholdScheme.IndexOf(p.GetPartialSig())
		if err != nil || idx == to.index {
			return
		}
		omu.Lock()
		k := [2]uint64{uint64(to.pos), p.GetRound()}
		if others[k] == nil {
			others[k] = map[int]bool{}
		}
		others[k][idx] = true
		omu.Unlock()
	}
	nt.onPut = func(n *vfbNode, b *common.Beacon, src string, seq int64) {
		if b.Round > 0 {
			adv.observePut(b)
		}
		if src != "agg" || b.Round == 0 {
			return
		}
		now := n.clk.Now().Unix()
		if tr := c04TimeOfRound(nt.genesis, c.PeriodS, b.Round); now < tr {
			omu.Lock()
			have := len(others[[2]uint64{uint64(n.pos), b.Round}])
			omu.Unlock()
			run.Count("beacons_aggregated_before_their_time_on_the_nodes_clock", 1)
			if have < c.Thr {
				run.Violation("C04/beacon-aggregated-before-its-time-with-the-nodes-own-share/"+c.Pattern,
					fmt.Sprintf("node %d aggregated round %d at own clock %d, %d s before that round's time, holding valid partials of only %d other member(s) (threshold %d): its own share was used", n.pos, b.Round, now, tr-now, have, c.Thr), info)
			}
		}
	}
	if c.Pattern == "parked-tick" && c.Index%4 >= 2 && c.N-1 > c.Thr-1 {
		// only threshold-1 of the others reach the slow node: together with its own share that is a threshold
		nt.mu.Lock()
		nt.deadLinks = map[[2]int]bool{}
		for from := c.Thr; from < c.N; from++ {
			nt.deadLinks[[2]int{from, 0}] = true
		}
		nt.mu.Unlock()
		run.Count("cases_where_only_threshold_minus_one_others_reach_the_slow_node", 1)
	}
	// parked tick: hold node 0's tick handling until the chain has moved past its clock round (bounded real wait)
	var parked int64
	if c.Pattern == "parked-tick" {
		nt.mu.Lock()
		nt.onHook = func(name string, n *vfbNode, args []any) {
			if name != "handler.tick" || n.pos != 0 || len(args) == 0 {
				return
			}
			round, _ := args[0].(uint64)
			if round < 2 {
				return
			}
			atomic.AddInt64(&nt.inflight, 1) // the harness does not move clocks while a tick is parked
			defer atomic.AddInt64(&nt.inflight, -1)
			deadline := time.Now().Add(400 * time.Millisecond)
			for time.Now().Before(deadline) {
				if nt.Head(n) > round {
					atomic.AddInt64(&parked, 1)
					return
				}
				time.Sleep(time.Millisecond)
			}
		}
		nt.mu.Unlock()
	}
	// late tick: node 0's handling of the tick of round lateRound is held until the harness releases it
	lateRound := uint64(3 + c.Index%4)
	lateParked, lateRelease := make(chan struct{}), make(chan struct{})
	var lateOnce sync.Once
	if c.Pattern == "late-tick-subsecond" {
		nt.mu.Lock()
		nt.onHook = func(name string, n *vfbNode, args []any) {
			if name != "handler.tick" || n.pos != 0 || len(args) == 0 {
				return
			}
			if round, _ := args[0].(uint64); round != lateRound {
				return
			}
			mine := false
			lateOnce.Do(func() { mine = true })
			if !mine {
				return
			}
			close(lateParked)
			select {
			case <-lateRelease:
			case <-time.After(20 * time.Second): // watchdog only
			}
		}
		nt.mu.Unlock()
	}
	if err := nt.StartAll(); err != nil {
		run.Inconclusive(err.Error())
		return
	}
	nt.Settle()
	period := cfg.Period
	stalled := map[int]time.Duration{}
	lateDone := false
	for r := 0; r < c.Rounds; r++ {
		pat := c.Pattern
		if pat == "late-tick-subsecond" && !lateDone && nt.clockRound(nt.nodes[0])+1 == lateRound {
			lateDone = true
			nt.Advance(period) // the tick of lateRound fires everywhere; node 0 parks in its handling
			select {
			case <-lateParked:
			case <-time.After(3 * time.Second):
				close(lateRelease)
				run.Count("late_ticks_that_never_parked", 1)
				nt.Settle()
				continue
			}
			nt.Settle()
			nt.Step(period) // round lateRound+1 is made by the others; node 0 aggregates it from their partials
			wait := time.Now().Add(2 * time.Second)
			for nt.Head(nt.nodes[0]) < lateRound+1 && time.Now().Before(wait) {
				time.Sleep(time.Millisecond)
			}
			frac := time.Duration(rng.Range(1, 9)) * 100 * time.Millisecond
			nt.Advance(period - frac) // every clock now stands `frac` before the time of lateRound+2
			nt.Settle()
			headAtRelease := nt.Head(nt.nodes[0])
			before := atomic.LoadInt64(&emits)
			close(lateRelease)
			time.Sleep(30 * time.Millisecond)
			nt.Settle()
			if headAtRelease == lateRound+1 {
				run.Count("late_ticks_released_a_fraction_of_a_second_before_the_time_of_head_plus_one", 1)
			} else {
				run.Count("late_ticks_released_with_another_head", 1)
			}
			run.Count("partials_emitted_on_late_tick_release", atomic.LoadInt64(&emits)-before)
			nt.Step(frac) // back on whole seconds: the tick of lateRound+2
			r += 2
			continue
		}
		if pat == "late-tick-subsecond" {
			pat = "regular"
		}
		if pat == "stalled-catchup" && !lateDone && r == 3 {
			lateDone = true
			nt.mu.Lock()
			nt.dropPct = 100
			nt.mu.Unlock()
			for k := 0; k < rng.Range(2, 4); k++ {
				nt.Step(period)
			}
			nt.mu.Lock()
			nt.dropPct = 0
			nt.mu.Unlock()
			n0 := nt.nodes[0]
			advanceOne := func(only0, except0 bool) {
				for _, n := range nt.nodes {
					if (only0 && n.pos != 0) || (except0 && n.pos == 0) {
						continue
					}
					n.clk.Advance(time.Second)
				}
				atomic.AddInt64(&nt.activity, 1)
				time.Sleep(3 * time.Millisecond)
				nt.Settle()
			}
			for k := 0; k < 12*c.PeriodS; k++ {
				prevHead, prevCR := nt.Head(n0), nt.clockRound(n0)
				advanceOne(false, false)
				h, cr := nt.Head(n0), nt.clockRound(n0)
				if h >= cr {
					run.Count("catchups_finished_without_a_pending_timer_in_the_last_round", 1)
					break
				}
				if !(h == cr-1 && h > prevHead && cr == prevCR) {
					continue
				}
				// node 0 has just aggregated round cr-1 inside round cr: its catch-up timer is pending. Its clock stalls.
				stalledFor := 0
				for i := 0; i < 2*c.PeriodS+2 && nt.Head(n0) < cr+1; i++ {
					advanceOne(false, true)
					stalledFor++
				}
				if nt.Head(n0) >= cr+1 {
					run.Count("catchup_timers_pending_while_the_head_passed_the_nodes_clock_round", 1)
				} else {
					run.Count("stalled_catchups_where_the_head_did_not_pass_the_clock_round", 1)
				}
				before := atomic.LoadInt64(&emits)
				advanceOne(true, false) // node 0's catch-up timer fires, its clock still (at most) one round on
				run.Count("partials_emitted_when_the_stalled_timer_fired", atomic.LoadInt64(&emits)-before)
				for i := 1; i < stalledFor; i++ {
					advanceOne(true, false)
				}
				break
			}
			continue
		}
		if pat == "stalled-catchup" {
			pat = "regular"
		}
		if pat == "mixed" {
			pat = []string{"regular", "bursts", "stalls", "substeps"}[rng.Intn(4)]
		}
		switch pat {
		case "bursts":
			k := 1
			if rng.Chance(35) {
				k = rng.Range(2, 4)
			}
			nt.Step(period * time.Duration(k))
		case "stalls": // one node's clock stops for a while, then jumps
			for _, n := range nt.nodes {
				if n.honest && rng.Chance(20) && stalled[n.pos] == 0 {
					stalled[n.pos] = 1
				}
			}
			for _, n := range nt.nodes {
				if stalled[n.pos] > 0 && rng.Chance(60) {
					stalled[n.pos] += period
					continue
				}
				d := period
				if stalled[n.pos] > 0 {
					d += stalled[n.pos] - 1
					stalled[n.pos] = 0
				}
				n.clk.Advance(d)
			}
			atomic.AddInt64(&nt.activity, 1)
			nt.Settle()
		case "substeps":
			left := period
			for left > 0 {
				d := time.Duration(rng.Range(1, c.PeriodS)) * time.Second
				if d > left {
					d = left
				}
				nt.Step(d)
				left -= d
			}
		case "blackout-slow-clock":
			if r == 3 {
				nt.mu.Lock()
				nt.dropPct = 100
				nt.mu.Unlock()
				for k := 0; k < rng.Range(3, 5); k++ {
					nt.Step(period)
				}
				nt.mu.Lock()
				nt.dropPct = 0
				nt.mu.Unlock()
				run.Count("network_wide_outages_with_one_slow_clock", 1)
				// the catch-up, second by second, the slow node's clock moving a moment after the others': its catch-up
				// timer then fires when the partials the others' timers released have already reached it
				slow := -1
				for i, sk := range c.SkewS {
					if sk < 0 {
						slow = i
					}
				}
				for k := 0; k < 8*c.PeriodS; k++ {
					// (in the first half of the catch-up the slow clock also RUNS slow: the others get two seconds for
					// each of its seconds, so two rounds can reach it while one catch-up timer is pending)
					reps := 1
					if k < 4*c.PeriodS {
						reps = 2
					}
					for rep := 0; rep < reps; rep++ {
						for _, n := range nt.nodes {
							if n.pos != slow {
								n.clk.Advance(time.Second)
							}
						}
						atomic.AddInt64(&nt.activity, 1)
						time.Sleep(3 * time.Millisecond)
						nt.Settle()
					}
					if slow >= 0 {
						nt.nodes[slow].clk.Advance(time.Second)
						atomic.AddInt64(&nt.activity, 1)
						time.Sleep(3 * time.Millisecond)
						nt.Settle()
						if os.Getenv("VF_DEBUG") != "" {
							sn := nt.nodes[slow]
							run.Note(fmt.Sprintf("DEBUG k=%d slow n%d head=%d clockround=%d others-head=%d others-clockround=%d", k, slow, nt.Head(sn), nt.clockRound(sn), nt.Head(nt.nodes[(slow+1)%c.N]), nt.clockRound(nt.nodes[(slow+1)%c.N])))
						}
					}
				}
			} else {
				nt.Step(period)
			}
		case "restart":
			nt.Step(period)
			hs := nt.honestRunning()
			if r > 2 && r < c.Rounds-3 && rng.Chance(30) && len(hs) > c.Thr {
				n := hs[rng.Intn(len(hs))]
				nt.StopNode(n)
				nt.Step(period * time.Duration(rng.Range(1, 3)))
				if err := nt.StartNode(n, "catchup"); err == nil {
					run.Count("restarts", 1)
				}
				nt.Settle()
			}
		default:
			nt.Step(period)
		}
		// hostile: validly signed partials for rounds beyond clock-round+1 must be refused
		if len(c.Corrupt) > 0 {
			for _, v := range nt.honestRunning() {
				now := v.clk.Now().Unix()
				cr := c04ClockRound(now, nt.genesis, c.PeriodS)
				fr := cr + uint64(rng.Range(2, 6))
				switch rng.Intn(5) {
				case 0: // round numbers with the top bit set, where signed arithmetic on rounds goes wrong
					fr = 1<<63 + cr + uint64(rng.Range(0, 6))
				case 1:
					fr = ^uint64(0) - uint64(rng.Intn(3))
				}
				var prev []byte
				if nt.chained() {
					prev = rng.Bytes(96)
				}
				pkt := nt.packet(fr, prev, nt.signPartial(c.Corrupt[0], fr, prev))
				err := nt.Deliver(c.Corrupt[0], v, pkt, "adversary")
				run.Count("future_partials_sent", 1)
				if err == nil {
					run.Violation("C04/future-partial-accepted", fmt.Sprintf("node %d (clock round %d) answered success to a valid partial for round %d", v.pos, cr, fr), info)
				}
				// and the admissible edge: clock-round+1 is accepted by design (not a violation either way)
			}
		}
	}
	run.Count("partials_emitted", atomic.LoadInt64(&emits))
	run.Count("emissions_with_chain_ahead_of_own_clock", atomic.LoadInt64(&ahead))
	run.Count("parked_ticks_released_after_head_moved", atomic.LoadInt64(&parked))
	key := ""
	if atomic.LoadInt64(&emits) >= int64(c.Rounds) {
		key = fmt.Sprintf("%s/%d-%d/p%d/c%d/%v/%s/%v", c.Scheme, c.N, c.Thr, c.PeriodS, c.CatchupS, c.SkewS, c.Pattern, c.Corrupt)
	}
	run.Eval(key)
	run.Seen("schedules", nt.scheduleHash())
	run.Seen("patterns", c.Pattern)
}

func TestVF_C04(t *testing.T) {
	run := vfNewRun("C04", "beaconnet-clocks")
	defer run.Finish()
	n := c04BaseCases() + c04ExtraCases()
	lo, hi := 0, n
	if ri, ok := vfReplayCase(); ok {
		lo, hi = ri, ri+1
	}
	var wg sync.WaitGroup
	sem := make(chan struct{}, 8)
	for idx := lo; idx < hi; idx++ {
		wg.Add(1)
		sem <- struct{}{}
		go func(idx int) {
			defer wg.Done()
			defer func() { <-sem }()
			c := c04Gen(idx)
			if idx < 3 {
				run.Sample(c)
			}
			c04Run(run, c)
		}(idx)
	}
	wg.Wait()
}

// C04 "around resharing": the handler-level transition workload of C07 with the emission-timing oracle armed.
func TestVF_C04_Reshare(t *testing.T) {
	vfsInstallHook()
	run := vfNewRun("C04", "beaconnet-transition-clocks")
	defer run.Finish()
	n := vfPick(12, 120)
	var wg sync.WaitGroup
	sem := make(chan struct{}, 6)
	for idx := 0; idx < n; idx++ {
		wg.Add(1)
		sem <- struct{}{}
		go func(idx int) {
			defer wg.Done()
			defer func() { <-sem }()
			c := c07Gen(idx)
			if idx == 0 {
				run.Sample(c)
			}
			c07RunMode(run, c, "c04")
		}(idx)
	}
	wg.Wait()
}
