package PKG

// vfcommon: shared runtime of the verification harnesses (overlaid into every
// package an engine lives in; the package clause is rewritten by ./vf).
//
// It provides: the seeded PRNG (splitmix64), the JSON-lines event sink the
// python driver reads ($VF_OUT), and the per-property run accounting
// (evaluations, distinct non-trivial cases, samples, counters, violations).

import (
	"crypto/sha256"
	"encoding/hex"
	"encoding/json"
	"fmt"
	"os"
	"runtime"
	"sort"
	"strconv"
	"sync"
	"time"
)

// ---------------------------------------------------------------- PRNG

type vfRng struct{ s uint64 }

func vfNewRng(seed uint64) *vfRng { return &vfRng{s: seed} }

func (r *vfRng) U64() uint64 {
	r.s += 0x9e3779b97f4a7c15
	z := r.s
	z = (z ^ (z >> 30)) * 0xbf58476d1ce4e5b9
	z = (z ^ (z >> 27)) * 0x94d049bb133111eb
	return z ^ (z >> 31)
}
func (r *vfRng) Intn(n int) int {
	if n <= 0 {
		return 0
	}
	return int(r.U64() % uint64(n))
}
func (r *vfRng) Bool() bool         { return r.U64()&1 == 1 }
func (r *vfRng) Chance(p int) bool  { return r.Intn(100) < p } // p in percent
func (r *vfRng) Range(lo, hi int) int { return lo + r.Intn(hi-lo+1) }
func (r *vfRng) Bytes(n int) []byte {
	b := make([]byte, n)
	for i := range b {
		b[i] = byte(r.U64())
	}
	return b
}
func (r *vfRng) Perm(n int) []int {
	p := make([]int, n)
	for i := range p {
		p[i] = i
	}
	for i := n - 1; i > 0; i-- {
		j := r.Intn(i + 1)
		p[i], p[j] = p[j], p[i]
	}
	return p
}

// Read implements io.Reader (deterministic randomness for key generation).
func (r *vfRng) Read(p []byte) (int, error) {
	for i := range p {
		p[i] = byte(r.U64())
	}
	return len(p), nil
}

func vfCaseSeed(seed uint64, prop string, idx int) uint64 {
	h := sha256.Sum256([]byte(fmt.Sprintf("%d/%s/%d", seed, prop, idx)))
	var v uint64
	for i := 0; i < 8; i++ {
		v = v<<8 | uint64(h[i])
	}
	return v
}

func vfSeed() uint64 {
	v, err := strconv.ParseUint(os.Getenv("VERIF_SEED"), 10, 64)
	if err != nil {
		return 1
	}
	return v
}

func vfTier() string {
	if os.Getenv("VERIF_TIER") == "thorough" {
		return "thorough"
	}
	return "quick"
}

func vfThorough() bool { return vfTier() == "thorough" }

// vfPick returns q in the quick tier and t in the thorough tier.
func vfPick(q, t int) int {
	if vfThorough() {
		return t
	}
	return q
}

// vfReplayCase returns (idx, true) when the driver asked to replay one case.
func vfReplayCase() (int, bool) {
	s := os.Getenv("VF_REPLAY_CASE")
	if s == "" {
		return 0, false
	}
	v, err := strconv.Atoi(s)
	return v, err == nil
}

// ---------------------------------------------------------------- sink

var (
	vfSinkMu sync.Mutex
	vfSinkF  *os.File
)

func vfEmit(rec map[string]any) {
	vfSinkMu.Lock()
	defer vfSinkMu.Unlock()
	if vfSinkF == nil {
		p := os.Getenv("VF_OUT")
		if p == "" {
			p = os.DevNull
		}
		f, err := os.OpenFile(p, os.O_APPEND|os.O_CREATE|os.O_WRONLY, 0o644)
		if err != nil {
			panic(err)
		}
		vfSinkF = f
	}
	b, err := json.Marshal(rec)
	if err != nil {
		b, _ = json.Marshal(map[string]any{"t": "error", "err": err.Error()})
	}
	vfSinkF.Write(append(b, '\n'))
}

// ---------------------------------------------------------------- run accounting

type vfViolation struct {
	Sig    string `json:"sig"`
	Detail string `json:"detail"`
	Case   any    `json:"case,omitempty"`
}

type vfRun struct {
	mu       sync.Mutex
	Prop     string
	Engine   string
	start    time.Time
	evals    int
	inconcl  int
	distinct map[string]struct{}
	samples  []any
	counters map[string]int64
	sets     map[string]map[string]struct{}
	viol     []vfViolation
	violSeen map[string]int
	notes    []string
	maxSamples int
	// SigMap (optional) rewrites violation signatures, e.g. to report a shared oracle's findings under the
	// property of the run that armed it
	SigMap func(string) string
}

func vfNewRun(prop, engine string) *vfRun {
	return &vfRun{Prop: prop, Engine: engine, start: time.Now(),
		distinct: map[string]struct{}{}, counters: map[string]int64{},
		sets: map[string]map[string]struct{}{}, violSeen: map[string]int{}, maxSamples: 4}
}

// Eval counts one evaluated case. key != "" marks it non-trivial (by the
// engine's stated rule); distinct keys are counted once.
func (r *vfRun) Eval(key string) {
	r.mu.Lock()
	defer r.mu.Unlock()
	r.evals++
	if key != "" {
		h := sha256.Sum256([]byte(key))
		r.distinct[hex.EncodeToString(h[:8])] = struct{}{}
	}
}

func (r *vfRun) Inconclusive(why string) {
	r.mu.Lock()
	defer r.mu.Unlock()
	r.inconcl++
	if len(r.notes) < 20 {
		r.notes = append(r.notes, "inconclusive: "+why)
	}
}

func (r *vfRun) Note(s string) {
	r.mu.Lock()
	defer r.mu.Unlock()
	if len(r.notes) < 40 {
		r.notes = append(r.notes, s)
	}
}

func (r *vfRun) Sample(s any) {
	r.mu.Lock()
	defer r.mu.Unlock()
	if len(r.samples) < r.maxSamples {
		r.samples = append(r.samples, s)
	}
}

func (r *vfRun) Count(name string, n int64) {
	r.mu.Lock()
	defer r.mu.Unlock()
	r.counters[name] += n
}

// Seen records a member of a named set (distinct schedules, states, ...);
// the summary reports the set sizes.
func (r *vfRun) Seen(set, member string) {
	r.mu.Lock()
	defer r.mu.Unlock()
	m := r.sets[set]
	if m == nil {
		m = map[string]struct{}{}
		r.sets[set] = m
	}
	if len(member) > 40 {
		h := sha256.Sum256([]byte(member))
		member = hex.EncodeToString(h[:10])
	}
	m[member] = struct{}{}
}

// Violation records a refuting observation. sig is the narrow signature that
// known_findings.json is matched against; detail is free text; c is whatever
// replays/explains the case. At most 3 full records are kept per signature.
func (r *vfRun) Violation(sig, detail string, c any) {
	if r.SigMap != nil {
		sig = r.SigMap(sig)
		if sig == "" { // mapped away: not this run's subject
			return
		}
	}
	r.mu.Lock()
	r.violSeen[sig]++
	n := r.violSeen[sig]
	r.mu.Unlock()
	if n <= 3 {
		vfEmit(map[string]any{"t": "violation", "prop": r.Prop, "engine": r.Engine, "sig": sig, "detail": detail, "case": c})
	}
}

func (r *vfRun) Violations() int {
	r.mu.Lock()
	defer r.mu.Unlock()
	n := 0
	for _, v := range r.violSeen {
		n += v
	}
	return n
}

func (r *vfRun) Finish() {
	r.mu.Lock()
	defer r.mu.Unlock()
	sets := map[string]int{}
	for k, v := range r.sets {
		sets[k] = len(v)
	}
	keys := make([]string, 0, len(r.distinct))
	for k := range r.distinct {
		keys = append(keys, k)
	}
	sort.Strings(keys)
	if len(keys) > 20000 {
		keys = keys[:20000]
	}
	vfEmit(map[string]any{"t": "summary", "prop": r.Prop, "engine": r.Engine,
		"evaluations": r.evals, "inconclusive": r.inconcl,
		"distinct_nontrivial": len(r.distinct), "distinct_keys": keys,
		"samples": r.samples, "counters": r.counters, "sets": sets,
		"violations_by_sig": r.violSeen, "notes": r.notes,
		"wall_s": time.Since(r.start).Seconds()})
}

// ---------------------------------------------------------------- misc

func vfGoroutineDump() string {
	buf := make([]byte, 1<<20)
	n := runtime.Stack(buf, true)
	return string(buf[:n])
}

func vfHex(b []byte) string {
	if len(b) > 8 {
		return hex.EncodeToString(b[:8]) + "…"
	}
	return hex.EncodeToString(b)
}
