//go:build race

package PKG

const vfRaceEnabled = true
