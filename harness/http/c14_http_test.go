package http

// C14 (HTTP clause) — clients that disconnect while parked for the next round must not be able to kill the
// process. The handler runs in a CHILD process (re-exec of this test binary) so that a crash in its watch
// goroutine — which no recover covers — is contained, attributable and reported instead of killing the run.

import (
	"bytes"
	"context"
	"fmt"
	"io"
	nethttp "net/http"
	"net/http/httptest"
	"os"
	"os/exec"
	"strings"
	"sync"
	"testing"
	"time"

	"github.com/drand/drand/v2/crypto"
)

func TestVF_C14_HTTPChild(t *testing.T) {
	if os.Getenv("VF_C14_HTTP_CHILD") != "1" {
		return
	}
	var seed uint64
	fmt.Sscanf(os.Getenv("VF_C14_HTTP_SEED"), "%d", &seed)
	rng := vfNewRng(seed)
	sch, _ := crypto.SchemeFromName(crypto.ListSchemes()[int(seed%uint64(len(crypto.ListSchemes())))])
	iters := 250
	ch := c01MakeChain(rng, sch, iters+20, time.Now().Unix()-int64(iters)-4000)
	cl := &c01Client{ch: ch}
	ctx, cancel := context.WithCancel(context.Background())
	defer cancel()
	h, err := New(ctx, "vf")
	if err != nil {
		fmt.Println("CHILD-ERROR", err)
		return
	}
	bh := h.RegisterNewBeaconHandler(cl, fmt.Sprintf("%x", ch.info.Hash()))
	h.RegisterDefaultBeaconHandler(bh)
	srv := httptest.NewServer(h.GetHTTPHandler())
	defer srv.Close()
	get := func(path string, d time.Duration) {
		c, cn := context.WithTimeout(ctx, d)
		defer cn()
		req, _ := nethttp.NewRequestWithContext(c, nethttp.MethodGet, srv.URL+path, nethttp.NoBody)
		if resp, err := nethttp.DefaultClient.Do(req); err == nil {
			_, _ = io.Copy(io.Discard, resp.Body)
			resp.Body.Close()
		}
	}
	cur := uint64(5)
	cl.setHead(cur)
	get(fmt.Sprintf("/public/%d", cur), 3*time.Second)
	for i := 0; i < 200 && cl.watchCount() == 0; i++ {
		time.Sleep(5 * time.Millisecond)
	}
	cur++
	cl.setHead(cur)
	cl.emit(cur)
	time.Sleep(20 * time.Millisecond)
	requests, cancelled := 0, 0
	for it := 0; it < iters; it++ {
		target := cur + 1
		var wg sync.WaitGroup
		for k := 0; k < 24; k++ {
			// most clients give up at a random moment around the arrival of the round they wait for
			d := time.Duration(8+rng.Intn(14)) * time.Millisecond
			if k%6 == 0 {
				d = 2 * time.Second
			} else {
				cancelled++
			}
			requests++
			wg.Add(1)
			go func(d time.Duration) { defer wg.Done(); get(fmt.Sprintf("/public/%d", target), d) }(d)
		}
		time.Sleep(time.Duration(10+rng.Intn(6)) * time.Millisecond)
		cur = target
		cl.setHead(cur)
		cl.emit(cur)
		wg.Wait()
	}
	fmt.Printf("CHILD-DONE iterations=%d requests=%d cancelled=%d\n", iters, requests, cancelled)
}

func TestVF_C14_HTTPWaiters(t *testing.T) {
	run := vfNewRun("C14", "httphandler-child")
	defer run.Finish()
	n := vfPick(3, 12)
	for i := 0; i < n; i++ {
		seed := vfCaseSeed(vfSeed(), "C14http", i)
		cmd := exec.Command(os.Args[0], "-test.run=^TestVF_C14_HTTPChild$", "-test.count=1")
		cmd.Env = append(os.Environ(), "VF_C14_HTTP_CHILD=1", fmt.Sprintf("VF_C14_HTTP_SEED=%d", seed), "VF_OUT="+os.DevNull)
		var out bytes.Buffer
		cmd.Stdout, cmd.Stderr = &out, &out
		done := make(chan error, 1)
		if err := cmd.Start(); err != nil {
			run.Inconclusive(err.Error())
			continue
		}
		go func() { done <- cmd.Wait() }()
		var err error
		select {
		case err = <-done:
		case <-time.After(3 * time.Minute):
			_ = cmd.Process.Kill()
			run.Inconclusive("child did not finish in 3 minutes")
			continue
		}
		o := out.String()
		info := map[string]any{"case_index": i, "child_seed": seed}
		switch {
		case strings.Contains(o, "CHILD-DONE"):
			var it, rq, cn int
			if k := strings.Index(o, "CHILD-DONE"); k >= 0 {
				fmt.Sscanf(o[k:], "CHILD-DONE iterations=%d requests=%d cancelled=%d", &it, &rq, &cn)
			}
			run.Count("child_rounds", int64(it))
			run.Count("parked_requests", int64(rq))
			run.Count("parked_requests_that_disconnected", int64(cn))
			run.Eval(fmt.Sprintf("seed-%d", seed))
		case strings.Contains(o, "panic:") || strings.Contains(o, "fatal error:") || err != nil:
			what := "exit"
			for _, l := range strings.Split(o, "\n") {
				if strings.HasPrefix(l, "panic:") || strings.HasPrefix(l, "fatal error:") {
					what = l
					break
				}
			}
			frames := ""
			for _, l := range strings.Split(o, "\n") {
				if strings.Contains(l, "handler/http.(") {
					frames += strings.TrimSpace(l) + " <- "
					if len(frames) > 300 {
						break
					}
				}
			}
			info["output_tail"] = o[max(0, len(o)-1500):]
			run.Violation("C14/process-died/http/parked-request-disconnects-around-round-arrival",
				fmt.Sprintf("the process serving HTTP died (%s) while clients parked for latest+1 disconnected around the arrival of that round; frames: %s", what, frames), info)
			run.Eval(fmt.Sprintf("seed-%d", seed))
		default:
			run.Inconclusive("child ended without a verdict")
		}
		if i == 0 {
			run.Sample(map[string]any{"child_seed": seed, "rounds": 250, "parked_per_round": 24, "timeouts_ms": "8-21 (4 of 24 wait 2 s)"})
		}
	}
}
