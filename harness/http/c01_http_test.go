package http

// C01 (HTTP clause) — a successful answer to a request for round r contains the beacon of round r and
// nothing else, verifiable under the chain key, randomness = SHA-256(signature).
// The real DrandHandler is driven by a scripted client whose watch stream skips, repeats, closes and
// re-opens rounds (what core's streamProxy does when its 1-slot buffer is full) while requests for
// latest+1 are parked as waiters.

import (
	"bytes"
	"context"
	"crypto/sha256"
	"encoding/hex"
	"encoding/json"
	"errors"
	"fmt"
	"io"
	nethttp "net/http"
	"net/http/httptest"
	"sync"
	"testing"
	"time"

	"github.com/drand/kyber"
	"github.com/drand/kyber/share"
	"github.com/drand/kyber/util/random"

	"github.com/drand/drand/v2/common"
	chain2 "github.com/drand/drand/v2/common/chain"
	client2 "github.com/drand/drand/v2/common/client"
	"github.com/drand/drand/v2/crypto"
	"github.com/drand/drand/v2/protobuf/drand"
)

type c01Chain struct {
	sch     *crypto.Scheme
	pub     kyber.Point
	info    *chain2.Info
	beacons []*drand.PublicRandResponse // index = round
}

func c01MakeChain(rng *vfRng, sch *crypto.Scheme, n int, genesis int64) *c01Chain {
	pri := share.NewPriPoly(sch.KeyGroup, 1, nil, random.New(rng))
	pubPoly := pri.Commit(sch.KeyGroup.Point().Base())
	c := &c01Chain{sch: sch, pub: pubPoly.Commit()}
	seed := rng.Bytes(32)
	c.info = &chain2.Info{PublicKey: c.pub, ID: "default", Period: time.Second, Scheme: sch.Name, GenesisTime: genesis, GenesisSeed: seed}
	c.beacons = []*drand.PublicRandResponse{{Round: 0, Signature: seed}}
	prev := seed
	sh := pri.Shares(1)[0]
	for r := uint64(1); r <= uint64(n); r++ {
		p := prev
		if sch.Name != crypto.DefaultSchemeID {
			p = nil
		}
		msg := sch.DigestBeacon(&common.Beacon{Round: r, PreviousSig: p})
		part, _ := sch.ThresholdScheme.Sign(sh, msg)
		sig, err := sch.ThresholdScheme.Recover(pubPoly, msg, [][]byte{part}, 1, 1)
		if err != nil {
			panic(err)
		}
		rd := sha256.Sum256(sig)
		c.beacons = append(c.beacons, &drand.PublicRandResponse{Round: r, Signature: sig, PreviousSignature: p, Randomness: rd[:]})
		prev = sig
	}
	return c
}

type c01Client struct {
	ch      *c01Chain
	mu      sync.Mutex
	head    uint64
	watches []chan client2.Result
	opened  int
}

func (c *c01Client) Get(ctx context.Context, round uint64) (client2.Result, error) {
	c.mu.Lock()
	defer c.mu.Unlock()
	if round == 0 {
		round = c.head
	}
	if round > c.head || round == 0 {
		return nil, errors.New("round not available yet")
	}
	b := c.ch.beacons[round]
	return &drand.PublicRandResponse{Round: b.Round, Signature: b.Signature, PreviousSignature: b.PreviousSignature, Randomness: b.Randomness}, nil
}

func (c *c01Client) Watch(ctx context.Context) <-chan client2.Result {
	c.mu.Lock()
	defer c.mu.Unlock()
	ch := make(chan client2.Result, 1)
	c.watches = append(c.watches, ch)
	c.opened++
	return ch
}
func (c *c01Client) Info(ctx context.Context) (*chain2.Info, error) { return c.ch.info, nil }
func (c *c01Client) RoundAt(t time.Time) uint64 {
	return common.CurrentRound(t.Unix(), c.ch.info.Period, c.ch.info.GenesisTime)
}
func (c *c01Client) Close() error { return nil }

// emit pushes a round on the newest watch stream (what the proxy does: drop when the slot is full).
func (c *c01Client) emit(round uint64) bool {
	c.mu.Lock()
	defer c.mu.Unlock()
	if len(c.watches) == 0 {
		return false
	}
	b := c.ch.beacons[round]
	select {
	case c.watches[len(c.watches)-1] <- &drand.PublicRandResponse{Round: b.Round, Signature: b.Signature, PreviousSignature: b.PreviousSignature, Randomness: b.Randomness}:
		return true
	default:
		return false
	}
}
func (c *c01Client) closeWatch() {
	c.mu.Lock()
	defer c.mu.Unlock()
	if n := len(c.watches); n > 0 {
		close(c.watches[n-1])
		c.watches = c.watches[:n-1]
	}
}
func (c *c01Client) setHead(h uint64) { c.mu.Lock(); c.head = h; c.mu.Unlock() }
func (c *c01Client) watchCount() int  { c.mu.Lock(); defer c.mu.Unlock(); return c.opened }

type c01Resp struct {
	Round      uint64 `json:"round"`
	Randomness string `json:"randomness"`
	Signature  string `json:"signature"`
	Previous   string `json:"previous_signature"`
}

func c01CheckResponse(run *vfRun, ch *c01Chain, path string, want uint64, status int, body []byte, ctxInfo map[string]any, what string) {
	run.Count("http_responses", 1)
	run.Count(fmt.Sprintf("http_status_%d", status), 1)
	if status != nethttp.StatusOK {
		return
	}
	run.Count("http_200_checked", 1)
	if len(bytes.TrimSpace(body)) == 0 {
		run.Violation("C01/http-200-without-a-beacon/"+what, fmt.Sprintf("GET %s answered 200 with an empty body", path), ctxInfo)
		return
	}
	var r c01Resp
	if err := json.Unmarshal(body, &r); err != nil {
		run.Violation("C01/http-200-body-not-one-beacon/"+what, fmt.Sprintf("GET %s: %v: %q", path, err, body), ctxInfo)
		return
	}
	if want != 0 && r.Round != want {
		run.Violation("C01/http-200-wrong-round/"+what, fmt.Sprintf("GET %s answered with round %d", path, r.Round), ctxInfo)
		return
	}
	sig, _ := hex.DecodeString(r.Signature)
	prev, _ := hex.DecodeString(r.Previous)
	b := &common.Beacon{Round: r.Round, Signature: sig, PreviousSig: prev}
	if ch.sch.Name != crypto.DefaultSchemeID {
		b.PreviousSig = nil
	}
	if err := ch.sch.VerifyBeacon(b, ch.pub); err != nil {
		run.Violation("C01/http-200-unverifiable-beacon/"+what, fmt.Sprintf("GET %s: round %d does not verify: %v", path, r.Round, err), ctxInfo)
		return
	}
	rd := sha256.Sum256(sig)
	if r.Randomness != hex.EncodeToString(rd[:]) {
		run.Violation("C01/http-randomness-not-sha256-of-signature/"+what, fmt.Sprintf("GET %s round %d", path, r.Round), ctxInfo)
	}
}

type c01Script struct {
	Index  int      `json:"case_index"`
	Scheme string   `json:"scheme"`
	Ops    []string `json:"ops"` // next | skip1 | skip2 | repeat | close | dropped
	Hash   bool     `json:"by_chain_hash"`
}

func c01GenScript(idx int) c01Script {
	rng := vfNewRng(vfCaseSeed(vfSeed(), "C01http", idx))
	schemes := crypto.ListSchemes()
	s := c01Script{Index: idx, Scheme: schemes[idx%len(schemes)], Hash: rng.Bool()}
	n := rng.Range(5, 12)
	for i := 0; i < n; i++ {
		s.Ops = append(s.Ops, []string{"next", "next", "next", "skip1", "skip2", "repeat", "close", "dropped"}[rng.Intn(8)])
	}
	return s
}

func c01RunScript(run *vfRun, sc c01Script) {
	rng := vfNewRng(vfCaseSeed(vfSeed(), "C01http-run", sc.Index))
	sch, _ := crypto.SchemeFromName(sc.Scheme)
	ch := c01MakeChain(rng, sch, 60, time.Now().Unix()-4000)
	cl := &c01Client{ch: ch}
	ctx, cancel := context.WithCancel(context.Background())
	defer cancel()
	h, err := New(ctx, "vf")
	if err != nil {
		run.Inconclusive(err.Error())
		return
	}
	hash := hex.EncodeToString(ch.info.Hash())
	bh := h.RegisterNewBeaconHandler(cl, hash)
	h.RegisterDefaultBeaconHandler(bh)
	srv := httptest.NewServer(h.GetHTTPHandler())
	defer srv.Close()
	prefix := srv.URL
	if sc.Hash {
		prefix += "/" + hash
	}
	get := func(path string, timeout time.Duration) (int, []byte, error) {
		c, cn := context.WithTimeout(ctx, timeout)
		defer cn()
		req, _ := nethttp.NewRequestWithContext(c, nethttp.MethodGet, prefix+path, nethttp.NoBody)
		resp, err := nethttp.DefaultClient.Do(req)
		if err != nil {
			return 0, nil, err
		}
		defer resp.Body.Close()
		b, _ := io.ReadAll(resp.Body)
		return resp.StatusCode, b, nil
	}
	// warm-up: first request starts the watcher; first emission synchronises latestRound
	cur := uint64(5)
	cl.setHead(cur)
	st, body, err := get(fmt.Sprintf("/public/%d", cur), 3*time.Second)
	if err != nil {
		run.Inconclusive("warm-up request failed: " + err.Error())
		return
	}
	info := map[string]any{"case_index": sc.Index, "script": sc}
	c01CheckResponse(run, ch, "/public/5", cur, st, body, info, "direct")
	for i := 0; i < 200 && cl.watchCount() == 0; i++ {
		time.Sleep(5 * time.Millisecond)
	}
	cur++
	cl.setHead(cur)
	cl.emit(cur)
	time.Sleep(20 * time.Millisecond)
	waiterSeen := false
	for _, op := range sc.Ops {
		if int(cur)+4 >= len(ch.beacons) {
			break
		}
		target := cur + 1
		// parked requests for latest+1, plus a request for an old round and for latest
		var wg sync.WaitGroup
		type res struct {
			path   string
			want   uint64
			status int
			body   []byte
			err    error
		}
		results := make(chan res, 8)
		ask := func(path string, want uint64, d time.Duration) {
			wg.Add(1)
			go func() {
				defer wg.Done()
				s, b, e := get(path, d)
				results <- res{path, want, s, b, e}
			}()
		}
		for k := 0; k < 3; k++ {
			ask(fmt.Sprintf("/public/%d", target), target, 2500*time.Millisecond)
		}
		ask(fmt.Sprintf("/public/%d", uint64(1+rng.Intn(int(cur)))), 0, 2500*time.Millisecond)
		ask("/public/latest", 0, 2500*time.Millisecond)
		time.Sleep(15 * time.Millisecond) // let them park
		switch op {
		case "next":
			cur = target
			cl.setHead(cur)
			cl.emit(cur)
		case "skip1", "skip2": // the stream jumps over the round the waiters want (proxy dropped it)
			cur = target + 1
			if op == "skip2" {
				cur = target + 2
			}
			cl.setHead(cur)
			cl.emit(cur)
		case "repeat":
			cl.emit(cur)
			cur = target
			cl.setHead(cur)
			time.Sleep(5 * time.Millisecond)
			cl.emit(cur)
		case "close":
			cur = target
			cl.setHead(cur)
			cl.closeWatch()
		case "dropped": // produced, but the watch stream never shows it; the next one arrives
			cur = target + 1
			cl.setHead(cur)
			time.Sleep(30 * time.Millisecond)
			cl.emit(cur)
		}
		wg.Wait()
		close(results)
		for r := range results {
			if r.err != nil {
				run.Count("http_request_errors", 1)
				continue
			}
			what := "direct"
			if r.want == target {
				what = "waiter/" + op
				if op == "skip1" || op == "skip2" || op == "dropped" {
					what = "waiter/watch-stream-skipped-the-round"
				}
				waiterSeen = true
			}
			want := r.want
			if r.path != "/public/latest" && want == 0 {
				fmt.Sscanf(r.path, "/public/%d", &want)
			}
			c01CheckResponse(run, ch, r.path, want, r.status, r.body, info, what)
		}
		if op == "close" { // the handler re-opens its watch after a back-off; re-synchronise
			for i := 0; i < 200 && cl.watchCount() < 2; i++ {
				time.Sleep(5 * time.Millisecond)
			}
			time.Sleep(320 * time.Millisecond)
			cur++
			cl.setHead(cur)
			cl.emit(cur)
			time.Sleep(20 * time.Millisecond)
		}
	}
	key := ""
	if waiterSeen {
		key = fmt.Sprintf("%s/%v/%v", sc.Scheme, sc.Hash, sc.Ops)
	}
	run.Eval(key)
}

func TestVF_C01_HTTP(t *testing.T) {
	run := vfNewRun("C01", "httphandler")
	defer run.Finish()
	n := vfPick(40, 600)
	lo, hi := 0, n
	if ri, ok := vfReplayCase(); ok {
		lo, hi = ri, ri+1
	}
	var wg sync.WaitGroup
	sem := make(chan struct{}, 12)
	for idx := lo; idx < hi; idx++ {
		wg.Add(1)
		sem <- struct{}{}
		go func(idx int) {
			defer wg.Done()
			defer func() { <-sem }()
			sc := c01GenScript(idx)
			if idx < 2 {
				run.Sample(sc)
			}
			c01RunScript(run, sc)
		}(idx)
	}
	wg.Wait()
}
