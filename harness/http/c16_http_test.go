package http

// C16 (HTTP clause) — what the HTTP layer tells clients about the schedule (the expected round of /health, the
// Last-Modified / Expires of /public/latest) agrees with the schedule arithmetic: expected = the round current at
// the moment of the request, Last-Modified = that round's scheduled time, Expires = the next round's.

import (
	"context"
	"encoding/json"
	"fmt"
	"io"
	nethttp "net/http"
	"net/http/httptest"
	"sync"
	"testing"
	"time"

	client2 "github.com/drand/drand/v2/common/client"
	"github.com/drand/drand/v2/crypto"
	"github.com/drand/drand/v2/protobuf/drand"
)

func c16Ref(t, genesis int64, period time.Duration) uint64 {
	if t < genesis {
		return 0
	}
	return uint64((t-genesis)/int64(period/time.Second)) + 1
}

// c16Lenient is an upstream that answers whatever round it is asked for (as a misbehaving or merely generous relay
// would): the handler must refuse rounds that are not due — or not schedulable at all — before asking anybody.
type c16Lenient struct {
	*c01Client
	mu          sync.Mutex
	askedFuture []uint64
}

func (c *c16Lenient) Get(ctx context.Context, round uint64) (client2.Result, error) {
	c.c01Client.mu.Lock()
	head := c.c01Client.head
	c.c01Client.mu.Unlock()
	if round > head {
		c.mu.Lock()
		c.askedFuture = append(c.askedFuture, round)
		c.mu.Unlock()
		b := c.ch.beacons[1]
		return &drand.PublicRandResponse{Round: round, Signature: b.Signature, PreviousSignature: b.PreviousSignature, Randomness: b.Randomness}, nil
	}
	return c.c01Client.Get(ctx, round)
}

func TestVF_C16_HTTP(t *testing.T) {
	run := vfNewRun("C16", "httphandler-schedule")
	defer run.Finish()
	n := vfPick(40, 400)
	schemes := crypto.ListSchemes()
	for idx := 0; idx < n; idx++ {
		rng := vfNewRng(vfCaseSeed(vfSeed(), "C16h", idx))
		sch, _ := crypto.SchemeFromName(schemes[idx%len(schemes)])
		period := time.Duration([]int{1, 2, 3, 7, 30, 60, 3600}[rng.Intn(7)]) * time.Second
		ps := int64(period / time.Second)
		rounds := rng.Range(3, 40)
		// genesis such that round `rounds` is the current one, at a random offset inside the round
		now := time.Now().Unix()
		genesis := now - int64(rounds-1)*ps - int64(rng.Intn(int(ps)))
		ch := c01MakeChain(rng, sch, rounds+2, genesis)
		ch.info.Period = period
		cl := &c16Lenient{c01Client: &c01Client{ch: ch}}
		ctx, cancel := context.WithCancel(context.Background())
		h, err := New(ctx, "vf")
		if err != nil {
			cancel()
			run.Inconclusive(err.Error())
			continue
		}
		hash := fmt.Sprintf("%x", ch.info.Hash())
		bh := h.RegisterNewBeaconHandler(cl, hash)
		h.RegisterDefaultBeaconHandler(bh)
		srv := httptest.NewServer(h.GetHTTPHandler())
		info := map[string]any{"case_index": idx, "period_s": ps, "genesis": genesis, "scheme": sch.Name}
		get := func(path string) (int, nethttp.Header, []byte, int64, int64) {
			t0 := time.Now().Unix()
			resp, err := nethttp.Get(srv.URL + path)
			if err != nil {
				return 0, nil, nil, t0, t0
			}
			defer resp.Body.Close()
			b, _ := io.ReadAll(resp.Body)
			return resp.StatusCode, resp.Header, b, t0, time.Now().Unix()
		}
		cur := c16Ref(time.Now().Unix(), genesis, period)
		if cur > uint64(rounds+2) {
			cur = uint64(rounds + 2)
		}
		cl.setHead(cur)
		// make the handler see the head (latestRound is fed by the watch stream; a request for the head starts it)
		st, hd, _, t0, t1 := get("/" + hash + "/public/latest")
		if st == nethttp.StatusOK {
			run.Count("latest_answers_checked", 1)
			lm, e1 := nethttp.ParseTime(hd.Get("Last-Modified"))
			ex, e2 := nethttp.ParseTime(hd.Get("Expires"))
			wantLM := genesis + int64(cur-1)*ps
			if e1 != nil || lm.Unix() != wantLM {
				run.Violation("C16/http-latest/last-modified-not-the-rounds-time",
					fmt.Sprintf("round %d period %ds genesis %d: Last-Modified %q (%d), the round's time is %d", cur, ps, genesis, hd.Get("Last-Modified"), lm.Unix(), wantLM), info)
			}
			// Expires: the next round's time when that is still ahead, otherwise a moment after "now"
			if e2 != nil {
				run.Violation("C16/http-latest/expires-unparseable", hd.Get("Expires"), info)
			} else if wantLM+ps > t1 && ex.Unix() != wantLM+ps {
				run.Violation("C16/http-latest/expires-not-the-next-rounds-time",
					fmt.Sprintf("round %d period %ds genesis %d: Expires %d, next round's time %d (request between %d and %d)", cur, ps, genesis, ex.Unix(), wantLM+ps, t0, t1), info)
			} else if ex.Unix() < t0 {
				run.Violation("C16/http-latest/expires-in-the-past", fmt.Sprintf("Expires %d, request at %d", ex.Unix(), t0), info)
			}
		} else {
			run.Note(fmt.Sprintf("latest answered %d", st))
		}
		st, _, body, t0, t1 := get("/" + hash + "/health")
		var hr map[string]uint64
		if json.Unmarshal(body, &hr) == nil && (st == nethttp.StatusOK || st == nethttp.StatusServiceUnavailable) {
			run.Count("health_answers_checked", 1)
			lo, hi := c16Ref(t0, genesis, period), c16Ref(t1, genesis, period)
			if exp, ok := hr["expected"]; ok && exp != 0 && (exp < lo || exp > hi) {
				run.Violation("C16/http-health/expected-round-not-current",
					fmt.Sprintf("period %ds genesis %d: /health says expected=%d, the round current during the request (%d..%d) is %d..%d", ps, genesis, exp, t0, t1, lo, hi), info)
			}
		}
		// rounds that are not due for centuries, or cannot be scheduled at all: never a 200, never forwarded upstream
		for _, r := range []uint64{cur + 3, cur + 1000, 1 << 33, 9223372038, 1 << 40, 1<<50 + uint64(rng.Intn(1000)), 1 << 60, 1 << 62, 1<<63 - 1, 1 << 63, ^uint64(0) >> 3, ^uint64(0) - 1, ^uint64(0)} {
			st, _, _, _, _ := get(fmt.Sprintf("/%s/public/%d", hash, r))
			run.Count("far_future_rounds_requested", 1)
			if st == nethttp.StatusOK {
				run.Violation("C16/http-public/round-beyond-the-schedule-answered-200",
					fmt.Sprintf("period %ds genesis %d, current round %d: GET /public/%d answered 200", ps, genesis, cur, r), info)
				break
			}
		}
		cl.mu.Lock()
		asked := append([]uint64(nil), cl.askedFuture...)
		cl.mu.Unlock()
		if len(asked) > 0 {
			run.Violation("C16/http-public/round-beyond-the-schedule-forwarded-upstream",
				fmt.Sprintf("period %ds genesis %d, current round %d: the handler asked its upstream for round(s) %v, none of which is due", ps, genesis, cur, asked), info)
		}
		srv.Close()
		cancel()
		run.Eval(fmt.Sprintf("%d/%d/%s", ps, now-genesis, sch.Name))
		if idx == 0 {
			run.Sample(map[string]any{"period_s": ps, "rounds_since_genesis": rounds, "scheme": sch.Name})
		}
	}
}
