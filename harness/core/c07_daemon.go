package core

// C07 (daemon level, engine D "daemonnet"): resharing keeps the chain's identity and continuity.
//
// Three end-to-end scenario kinds on real daemons (real DKG over loopback gRPC, file key stores, bolt):
//   same      reshare with the same members (threshold raised by one when admissible)
//   addremove one member leaves, one joins
//   failed    an aborted / timed-out / failed-in-execution reshare, then a successful one
// Monitors: ChainInfo (gRPC) of every member before / after completion / after the transition compared field by
// field; every Put on every node's base store (vfhook wrap core.dbstore) verified under the ORIGINAL public key,
// per-node gap-freedom, cross-node agreement; bounded progress after the transition and after the failed reshare;
// partials of a member that left, answered with success by a node that has switched (client interceptor).

import (
	"bytes"
	"crypto/sha256"
	"sort"
	"strings"
	"encoding/hex"
	"encoding/json"
	"errors"
	"fmt"
	"os"
	"path/filepath"
	"sync"
	"syscall"
	"testing"
	"time"

	"github.com/drand/kyber"

	"github.com/drand/drand/v2/common"
	dlog "github.com/drand/drand/v2/common/log"
	"github.com/drand/drand/v2/crypto"
	"github.com/drand/drand/v2/internal/chain"
	"github.com/drand/drand/v2/internal/dkg"
	"github.com/drand/drand/v2/internal/vfhook"
	pdkg "github.com/drand/drand/v2/protobuf/dkg"
	"github.com/drand/drand/v2/protobuf/drand"
)

type c07Params struct {
	CaseIndex int    `json:"case_index"`
	Kind      string `json:"scenario"`
	Variant   string `json:"variant,omitempty"`
	Scheme    string `json:"scheme"`
	N         int    `json:"n"`
	Engine    string `json:"engine,omitempty"` // "" = bolt, "memdb"
	Seed      uint64 `json:"case_seed"`
}

func c07Cases() []c07Params {
	var out []c07Params
	schemes := c13SchemeList()
	variants := []string{"abort", "timeout", "dropdkg"}
	add := func(kind, variant, scheme string) {
		i := len(out)
		cs := vfCaseSeed(vfSeed(), "C07", i)
		rng := vfNewRng(cs)
		p := c07Params{CaseIndex: i, Kind: kind, Variant: variant, Scheme: scheme, Seed: cs, N: 4}
		if p.Scheme == "" {
			p.Scheme = schemes[rng.Intn(len(schemes))]
		}
		if kind == "failed" && p.Variant == "" {
			p.Variant = variants[rng.Intn(3)]
		}
		if kind == "same" && rng.Bool() {
			p.N = 3
		}
		out = append(out, p)
	}
	if !vfThorough() {
		add("same", "", "")
		add("addremove", "", "")
		add("failed", "", "")
		add("refused-period", "", "")
		add("refused-late", "", "")
		add("evicted", "", "")
		add("rejoin", "", "")
		return out
	}
	for rep := 0; rep < 2; rep++ {
		for _, s := range schemes {
			add("same", "", s)
			add("addremove", "", s)
			for _, v := range variants {
				add("failed", v, s)
			}
			if rep == 0 {
				add("refused-period", "", s)
				add("refused-late", "", s)
			}
			add("evicted", "", s)
			add("rejoin", "", s)
			if rep == 1 {
				out[len(out)-1].Engine = "memdb" // there the re-join can leave the node with two handlers instead of a dead-lock
			}
		}
	}
	return out
}

func TestVF_C07(t *testing.T) {
	run := vfNewRun("C07", "daemonnet-parent")
	defer run.Finish()
	cases := c07Cases()
	if idx, ok := vfReplayCase(); ok {
		var sel []c07Params
		for _, c := range cases {
			if c.CaseIndex == idx {
				sel = append(sel, c)
			}
		}
		cases = sel
	}
	dir := t.TempDir()
	sem := make(chan struct{}, 8)
	var wg sync.WaitGroup
	for _, c := range cases {
		wg.Add(1)
		sem <- struct{}{}
		go func(c c07Params) {
			defer wg.Done()
			defer func() { <-sem }()
			pj, _ := json.Marshal(c)
			logf := filepath.Join(dir, fmt.Sprintf("case-%d.log", c.CaseIndex))
			rc, tail := c13RunChild(t, "^TestVFChild_C07Scenario$", []string{"VF_C07_SCENARIO=" + string(pj), "VF_C07_DIR=" + filepath.Join(dir, fmt.Sprintf("case-%d", c.CaseIndex))}, logf, 25*time.Minute)
			run.Count("scenario_children", 1)
			if rc != 0 {
				t.Errorf("C07 scenario child for case %d exited with %d:\n%s", c.CaseIndex, rc, tail)
			}
		}(c)
	}
	wg.Wait()
}

// ---------------------------------------------------------------- monitor

type c07Mon struct {
	run *vfRun
	p   c07Params
	nt  *c13Net
	sch *crypto.Scheme
	pub kyber.Point // the ORIGINAL distributed public key

	mu       sync.Mutex
	seed     []byte
	last     map[int]uint64 // node -> last stored round
	has      map[int]bool
	sigs     map[uint64][]byte
	firstPut map[uint64]time.Time        // fake-clock time of the first Put of a round anywhere
	putAt    map[int]map[uint64]time.Time // node -> round -> real time its Put returned
	tr       uint64                      // transition round of the reshare being observed (0 = none yet)
	leavers  map[int]bool
	newGroup map[int]bool // members of the group after the reshare (set together with tr)
	puts     int64
}

func (m *c07Mon) ci(extra map[string]any) map[string]any {
	c := map[string]any{"case_index": m.p.CaseIndex, "params": m.p}
	for k, v := range extra {
		c[k] = v
	}
	return c
}

func (m *c07Mon) phase(round uint64) string {
	switch {
	case m.tr == 0 || round+1 < m.tr:
		return "before-transition"
	case round <= m.tr+1:
		return "at-transition"
	default:
		return "after-transition"
	}
}

func (m *c07Mon) onPut(n *c13Node, after bool, b *common.Beacon, err error) {
	if !after || err != nil || n == nil {
		return
	}
	now := n.clock.Now()
	m.mu.Lock()
	defer m.mu.Unlock()
	m.puts++
	if m.putAt[n.idx] == nil {
		m.putAt[n.idx] = map[uint64]time.Time{}
	}
	m.putAt[n.idx][b.Round] = time.Now()
	ph := m.phase(b.Round)
	info := map[string]any{"node": n.idx, "round": b.Round, "transition_round": m.tr}
	if b.Round == 0 {
		if m.seed == nil {
			m.seed = append([]byte(nil), b.Signature...)
		} else if !bytes.Equal(m.seed, b.Signature) {
			m.run.Violation("C07/genesis-beacon-differs", fmt.Sprintf("node %d stores a genesis beacon %s, others %s", n.idx, vfHex(b.Signature), vfHex(m.seed)), m.ci(info))
		}
		// a daemon re-created on its folder puts the (identical) genesis beacon again: its head stays where it was
		if !m.has[n.idx] {
			m.has[n.idx], m.last[n.idx] = true, 0
		}
		return
	}
	if verr := m.sch.VerifyBeacon(b, m.pub); verr != nil {
		m.run.Violation("C07/beacon-not-under-original-key/"+ph, fmt.Sprintf("node %d stored round %d which does not verify under the public key of the first epoch: %v", n.idx, b.Round, verr), m.ci(info))
	}
	if s, ok := m.sigs[b.Round]; ok {
		if !bytes.Equal(s, b.Signature) {
			m.run.Violation("C07/fork/"+ph, fmt.Sprintf("round %d: node %d stored %s, another node stored %s", b.Round, n.idx, vfHex(b.Signature), vfHex(s)), m.ci(info))
		}
	} else {
		m.sigs[b.Round] = append([]byte(nil), b.Signature...)
		m.firstPut[b.Round] = now
		key := ""
		if m.tr != 0 && b.Round+3 >= m.tr && b.Round <= m.tr+3 {
			key = fmt.Sprintf("%s/%s/round-tr%+d", m.p.Kind, m.p.Variant, int64(b.Round)-int64(m.tr))
		}
		m.run.Eval(key)
		m.run.Count("rounds_observed", 1)
	}
	if m.has[n.idx] && b.Round != m.last[n.idx]+1 {
		sig := "C07/gap/" + ph
		if ph == "at-transition" {
			sig = "C07/gap-at-transition"
		}
		m.run.Violation(sig, fmt.Sprintf("node %d stored round %d after round %d", n.idx, b.Round, m.last[n.idx]), m.ci(info))
	} else if !m.has[n.idx] && b.Round != 0 && m.nt.engine == chain.BoltDB {
		m.run.Violation("C07/gap/"+ph, fmt.Sprintf("node %d's chain starts at round %d", n.idx, b.Round), m.ci(info))
	}
	m.has[n.idx], m.last[n.idx] = true, b.Round
}

// onCall watches the partials a LEAVER keeps sending after the switch.
func (m *c07Mon) onCall(from *c13Node, method, target string, req any, start time.Time, err error) {
	if method != drand.Protocol_PartialBeacon_FullMethodName {
		return
	}
	pk, ok := req.(*drand.PartialBeaconPacket)
	if !ok {
		return
	}
	m.mu.Lock()
	defer m.mu.Unlock()
	if m.tr != 0 && m.newGroup[from.idx] && !m.leavers[from.idx] && pk.Round >= m.tr+2 {
		m.memberPartial(from, target, pk, start, err)
		return
	}
	if m.tr == 0 || !m.leavers[from.idx] || pk.Round < m.tr {
		return
	}
	if err != nil {
		m.run.Count("leaver_partials_refused_after_transition", 1)
		return
	}
	m.run.Count("leaver_partials_answered_ok_after_transition", 1)
	// receiver
	var recv *c13Node
	m.nt.mu.Lock()
	for _, n := range m.nt.nodes {
		if n.addr == target {
			recv = n
		}
	}
	m.nt.mu.Unlock()
	if recv == nil || m.leavers[recv.idx] {
		return
	}
	// success is only an acceptance if the "already stored" shortcut cannot have been taken, and only a defect if
	// the receiver had stored the last pre-transition round (=> switched) half a period or more before the call
	// (a round counts as possibly stored as soon as its Put has STARTED at the receiver: the tap's own
	// book-keeping lags the commit by the time it takes to verify the beacon)
	if m.last[recv.idx] >= pk.Round || recv.putStarted.Load() >= pk.Round+1 {
		m.run.Count("leaver_partials_ok_explained_by_already_stored", 1)
		return
	}
	sw, ok := m.putAt[recv.idx][m.tr-1]
	if !ok || start.Sub(sw) < m.nt.period/2 {
		return
	}
	if m.nt.starvedBetween(sw, time.Now()) {
		// the evidence "switched half a period ago" assumes the receiver's callback goroutine got to run
		m.run.Inconclusive(fmt.Sprintf("case %d: a leaver's partial for round %d was answered ok by node %d, but this process was starved of CPU around that time", m.p.CaseIndex, pk.Round, recv.idx))
		return
	}
	m.run.Violation("C07/old-share-partial-accepted/leaver", fmt.Sprintf(
		"node %d (left the group) sent a partial for round %d >= transition round %d made with its old share; node %d, which had stored round %d %.1fs earlier and has not stored round %d, answered success",
		from.idx, pk.Round, m.tr, recv.idx, m.tr-1, start.Sub(sw).Seconds(), pk.Round),
		m.ci(map[string]any{"from": from.idx, "to": recv.idx, "round": pk.Round, "transition_round": m.tr}))
}

// memberPartial: a partial that a member of the NEW group made for a round well after the transition, sent to
// another member of the new group that has itself stored the transition round (so it runs the new group). Such a
// partial comes from a share that counts: being refused for who the sender is (unknown index, verification against
// the wrong public share) contradicts the property. Refusals for the round number (clock skew) and transport
// errors are not of that kind. Called with m.mu held.
func (m *c07Mon) memberPartial(from *c13Node, target string, pk *drand.PartialBeaconPacket, start time.Time, err error) {
	var recv *c13Node
	m.nt.mu.Lock()
	for _, n := range m.nt.nodes {
		if n.addr == target {
			recv = n
		}
	}
	m.nt.mu.Unlock()
	if recv == nil || !m.newGroup[recv.idx] || m.leavers[recv.idx] || recv.stopped.Load() {
		return
	}
	if _, ok := m.putAt[recv.idx][m.tr]; !ok {
		return
	}
	m.run.Count("new_group_partials_after_transition", 1)
	if err == nil {
		return
	}
	msg := err.Error()
	for _, benign := range []string{"invalid round", "context deadline", "context canceled", "Unavailable", "connection", "transport"} {
		if strings.Contains(msg, benign) {
			return
		}
	}
	if m.nt.starvedBetween(start, time.Now()) {
		return
	}
	m.run.Count("new_group_partials_refused", 1)
	m.run.Violation("C07/new-group-partial-refused/after-transition", fmt.Sprintf(
		"node %d, a member of the new group, sent its partial for round %d (transition round %d) to node %d, also a member and past the transition; it was refused: %s",
		from.idx, pk.Round, m.tr, recv.idx, c13Short(msg, 300)), m.ci(map[string]any{"from": from.idx, "to": recv.idx, "round": pk.Round, "transition_round": m.tr}))
}

type c07Identity struct {
	node int
	pkt  *drand.ChainInfoPacket
}

func (m *c07Mon) identities(ns []*c13Node) ([]c07Identity, error) {
	var out []c07Identity
	for _, n := range ns {
		var pkt *drand.ChainInfoPacket
		var err error
		for i := 0; i < 20; i++ {
			pkt, err = m.nt.chainInfo(n)
			if err == nil {
				break
			}
			time.Sleep(100 * time.Millisecond)
		}
		if err != nil {
			return nil, fmt.Errorf("ChainInfo of node %d: %w", n.idx, err)
		}
		out = append(out, c07Identity{n.idx, pkt})
	}
	return out, nil
}

// compareIdentity: every field of every answer in `after` must equal the reference answer byte for byte.
func (m *c07Mon) compareIdentity(ref *drand.ChainInfoPacket, after []c07Identity, when string) {
	m.compareIdentitySig("C07/identity-changed/", ref, after, when)
}

func (m *c07Mon) compareIdentitySig(sigPrefix string, ref *drand.ChainInfoPacket, after []c07Identity, when string) {
	for _, a := range after {
		m.run.Eval(fmt.Sprintf("%s/%s/identity/%s", m.p.Kind, m.p.Variant, when))
		m.run.Count("identity_comparisons", 1)
		p := a.pkt
		chk := func(field string, same bool, was, is string) {
			if !same {
				m.run.Violation(sigPrefix+field, fmt.Sprintf("%s: node %d serves %s=%s, before the reshare it was %s", when, a.node, field, is, was),
					m.ci(map[string]any{"node": a.node, "when": when}))
			}
		}
		chk("public-key", bytes.Equal(ref.PublicKey, p.PublicKey), hex.EncodeToString(ref.PublicKey), hex.EncodeToString(p.PublicKey))
		chk("chain-hash", bytes.Equal(ref.Hash, p.Hash), hex.EncodeToString(ref.Hash), hex.EncodeToString(p.Hash))
		chk("genesis-time", ref.GenesisTime == p.GenesisTime, fmt.Sprint(ref.GenesisTime), fmt.Sprint(p.GenesisTime))
		chk("genesis-seed", bytes.Equal(ref.GroupHash, p.GroupHash), hex.EncodeToString(ref.GroupHash), hex.EncodeToString(p.GroupHash))
		chk("period", ref.Period == p.Period, fmt.Sprint(ref.Period), fmt.Sprint(p.Period))
		chk("scheme", ref.SchemeID == p.SchemeID, ref.SchemeID, p.SchemeID)
		rid, pid := "", ""
		if ref.Metadata != nil {
			rid = ref.Metadata.BeaconID
		}
		if p.Metadata != nil {
			pid = p.Metadata.BeaconID
		}
		chk("beacon-id", rid == pid, rid, pid)
	}
}

// ---------------------------------------------------------------- scenario (child process)

func TestVFChild_C07Scenario(t *testing.T) {
	pj := os.Getenv("VF_C07_SCENARIO")
	if pj == "" {
		t.Skip("child entry point")
	}
	syscall.Umask(0o022)
	var p c07Params
	if err := json.Unmarshal([]byte(pj), &p); err != nil {
		t.Fatal(err)
	}
	run := vfNewRun("C07", "daemonnet")
	defer run.Finish()
	dir := os.Getenv("VF_C07_DIR")
	if err := os.MkdirAll(dir, 0o750); err != nil {
		t.Fatal(err)
	}
	run.Sample(p)
	done := make(chan struct{})
	go func() {
		defer close(done)
		c07Main(t, run, p, dir)
	}()
	select {
	case <-done:
	case <-time.After(22 * time.Minute):
		run.Inconclusive("scenario watchdog (22 min) fired; goroutines:\n" + c13Short(vfGoroutineDump(), 6000))
	}
}

// progress waits until all of ns stored `target`; a stall is Inconclusive (with a goroutine dump) unless the chain
// has still not moved after a long real-time grace, which is reported under sig.
func c07Progress(run *vfRun, m *c07Mon, ns []*c13Node, target uint64, maxPeriods int, sig, what string) bool {
	if _, ok := m.nt.waitHeads(ns, target, maxPeriods); ok {
		return true
	}
	dump := c13Short(vfGoroutineDump(), 8000)
	before := uint64(0)
	for _, n := range ns {
		if h, ok := m.nt.head(n); ok && h > before {
			before = h
		}
	}
	graceEnd := time.Now().Add(90 * time.Second)
	for time.Now().Before(graceEnd) {
		if _, ok := m.nt.waitHeads(ns, target, 1); ok {
			run.Inconclusive(fmt.Sprintf("case %d: %s: round %d reached only in the grace period (stall of more than %d periods)\n%s", m.p.CaseIndex, what, target, maxPeriods, dump))
			return true
		}
	}
	after := uint64(0)
	for _, n := range ns {
		if h, ok := m.nt.head(n); ok && h > after {
			after = h
		}
	}
	if after > before {
		run.Inconclusive(fmt.Sprintf("case %d: %s: chain moves (%d -> %d) but did not reach round %d in %d periods + 90 s", m.p.CaseIndex, what, before, after, target, maxPeriods))
		return false
	}
	// a halt caused by members that ended the DKG with different transition times (each node derives it from its own
	// clock at completion: the known C06 defect, which needs completion skew, e.g. an overloaded machine) is named as such
	disagree := ""
	seen := map[int64][]int{}
	for _, n := range ns {
		if bp := n.curBP(); bp != nil {
			bp.state.RLock()
			if bp.group != nil {
				seen[bp.group.TransitionTime] = append(seen[bp.group.TransitionTime], n.idx)
			}
			bp.state.RUnlock()
		}
	}
	if len(seen) > 1 {
		disagree = fmt.Sprintf("members hold groups with different transition times %v; ", seen)
		sig = strings.Replace(sig, "C07/halted-after-transition/", "C07/halted-after-transition/transition-time-disagrees/", 1)
	}
	run.Violation(sig, fmt.Sprintf("%s: %sthe chain stays at round %d (clock round %d); %d periods and a further 90 s of real time passed without any new round\n%s",
		what, disagree, after, m.nt.clockRound(), maxPeriods, dump), m.ci(map[string]any{"head": after, "target": target}))
	return false
}

func c07Main(t *testing.T, run *vfRun, p c07Params, dir string) {
	sch, err := crypto.GetSchemeByID(p.Scheme)
	if err != nil {
		t.Fatal(err)
	}
	logFile, _ := os.Create(filepath.Join(dir, "daemons.log"))
	defer logFile.Close()
	lg := dlog.New(logFile, dlog.InfoLevel, true)
	engine := chain.BoltDB
	if p.Engine == "memdb" {
		engine = chain.MemDB
	}
	nt := c13NewNet(t, lg, filepath.Join(dir, "nodes"), sch, time.Second, 0, engine)
	defer nt.close()
	m := &c07Mon{run: run, p: p, nt: nt, sch: sch, last: map[int]uint64{}, has: map[int]bool{}, sigs: map[uint64][]byte{},
		firstPut: map[uint64]time.Time{}, putAt: map[int]map[uint64]time.Time{}, leavers: map[int]bool{}, newGroup: map[int]bool{}}
	fail := func(stage string, err error) {
		run.Inconclusive(fmt.Sprintf("case %d (%s/%s): %s: %v", p.CaseIndex, p.Kind, p.Variant, stage, err))
	}
	ns, err := nt.addNodes(p.N)
	if err != nil {
		fail("create daemons", err)
		return
	}
	thr := p.N/2 + 1
	// taps are armed once the original key is known; the Puts before that (genesis beacons) are re-played
	var early []struct {
		n *c13Node
		b common.Beacon
	}
	var emu sync.Mutex
	armed := false
	nt.onPut = func(n *c13Node, after bool, b *common.Beacon, err error) {
		emu.Lock()
		if !armed {
			if after && err == nil && n != nil {
				early = append(early, struct {
					n *c13Node
					b common.Beacon
				}{n, *b})
			}
			emu.Unlock()
			return
		}
		emu.Unlock()
		m.onPut(n, after, b, err)
	}
	nt.onCall = m.onCall
	nt.startPacer()
	g1, err := nt.runInitialDKG(ns, thr, 6*time.Second)
	if err != nil {
		fail("initial DKG", err)
		return
	}
	m.pub = g1.PublicKey.Key()
	emu.Lock()
	armed = true
	for _, e := range early {
		b := e.b
		m.onPut(e.n, true, &b, nil)
	}
	emu.Unlock()
	if time.Now().Unix() >= g1.GenesisTime {
		fail("initial DKG", errors.New("finished after genesis"))
		return
	}
	if _, ok := nt.waitHeads(ns, 4, 40); !ok {
		fail("rounds after genesis", errors.New("network did not reach round 4 in 40 periods"))
		return
	}
	ref, err := m.identities(ns)
	if err != nil {
		fail("ChainInfo before", err)
		return
	}
	m.compareIdentity(ref[0].pkt, ref[1:], "epoch1-across-nodes")
	refPkt := ref[0].pkt

	members := append([]*c13Node(nil), ns...)
	newThr := thr

	if strings.HasPrefix(p.Kind, "refused-") {
		c07Refused(run, m, p, dir, ns, thr, refPkt, fail)
		return
	}
	if p.Kind == "rejoin" {
		c07Rejoin(run, m, p, ns, refPkt, fail)
		return
	}

	// ---- the failed / aborted / timed-out attempt
	if p.Kind == "failed" {
		rs := c13Reshare{leader: ns[0], remaining: members, thr: thr}
		switch p.Variant {
		case "abort":
			rs.abortAfterAccept = true
		case "timeout":
			rs.neverExecute = true
			rs.timeout = 4 * time.Second
		case "dropdkg":
			rs.dropDKGTraffic = true
		}
		headBefore := uint64(0)
		for _, n := range members {
			if h, ok := nt.head(n); ok && h > headBefore {
				headBefore = h
			}
		}
		_, err := nt.runReshare(rs)
		if !errors.Is(err, errC13ReshareDidNotComplete) {
			fail("scripted failing reshare", fmt.Errorf("unexpected outcome: %v", err))
			return
		}
		run.Count("failed_reshares", 1)
		if p.Variant == "timeout" {
			// a timed-out proposal is left in its proposal state by the code; the operator's way out is an abort
			eerr := nt.cmd(ns[0], &pdkg.DKGCommand{Command: &pdkg.DKGCommand_Execute{Execute: &pdkg.ExecutionOptions{}}})
			if eerr == nil {
				fail("timed-out proposal", errors.New("execute was accepted after the proposal's timeout"))
				return
			}
			if aerr := nt.cmd(ns[0], &pdkg.DKGCommand{Command: &pdkg.DKGCommand_Abort{Abort: &pdkg.AbortOptions{}}}); aerr != nil {
				run.Note("abort after timeout refused: " + aerr.Error())
			}
		}
		// the old group keeps producing
		h0 := uint64(0)
		for _, n := range members {
			if h, ok := nt.head(n); ok && h > h0 {
				h0 = h
			}
		}
		run.Eval(fmt.Sprintf("failed/%s/old-group-progress", p.Variant))
		if !c07Progress(run, m, members, h0+4, 30, "C07/old-group-halted-after-failed-reshare/"+p.Variant,
			"after the "+p.Variant+" reshare (old group, all members up)") {
			return
		}
		idf, err := m.identities(members)
		if err != nil {
			fail("ChainInfo after failed reshare", err)
			return
		}
		m.compareIdentity(refPkt, idf, "after-failed-reshare")
		// the group files must still be the old ones: status says epoch 1 complete
		for _, n := range members {
			st, err := nt.dkgStatus(n)
			if err == nil && st.Complete != nil && st.Complete.Epoch != 1 {
				run.Violation("C07/failed-reshare-advanced-epoch/"+p.Variant, fmt.Sprintf("node %d reports completed epoch %d after a reshare that did not complete", n.idx, st.Complete.Epoch),
					m.ci(map[string]any{"node": n.idx}))
			}
		}
		// the duplicate-packet filter ignores a byte-identical proposal: let one period pass
		time.Sleep(nt.period)
	}

	// ---- the successful reshare
	rs := c13Reshare{leader: ns[0], remaining: members, thr: thr}
	var leaver *c13Node
	var evicted *c13Node
	switch p.Kind {
	case "evicted":
		// one member of the proposed group misses the execution and is evicted by the DKG: the resulting group has a
		// hole in its DKG indices. The absent member is any but the one with the largest key (members listed after
		// the hole keep their DKG index); the leader is the member with the largest key. Threshold = size of the
		// resulting group, so a member listed after the hole is needed for every beacon.
		sorted := append([]*c13Node(nil), members...)
		sort.Slice(sorted, func(i, j int) bool { return string(sorted[i].part.Key) < string(sorted[j].part.Key) })
		evicted = sorted[vfNewRng(p.Seed).Intn(len(sorted)-1)]
		lead := sorted[len(sorted)-1]
		rem := []*c13Node{lead}
		for _, n := range members {
			if n != lead {
				rem = append(rem, n)
			}
		}
		rs.leader, rs.remaining, rs.absent = lead, rem, []*c13Node{evicted}
		rs.thr = len(members) - 1
		newThr = rs.thr
		rs.afterExecute = func() {
			// the execute packet is out, the kyber protocol starts after the kick-off grace: the member goes away now
			if ok, dump := nt.stopNode(evicted); !ok {
				run.Count("daemon_stop_hangs", 1)
				run.Note("the member that was to miss the execution did not stop:\n" + dump)
			}
		}
		pos := 0
		for i, n := range sorted {
			if n == evicted {
				pos = i
			}
		}
		run.Seen("evicted_position_in_key_order", fmt.Sprintf("%d-of-%d", pos, len(sorted)))
	case "same":
		if thr+1 <= len(members) {
			newThr = thr + 1
		}
		rs.thr = newThr
	case "addremove":
		joiners, err := nt.addNodes(1)
		if err != nil {
			fail("add joiner", err)
			return
		}
		rng := vfNewRng(p.Seed)
		leaver = members[1+rng.Intn(len(members)-1)]
		var rem []*c13Node
		for _, n := range members {
			if n != leaver {
				rem = append(rem, n)
			}
		}
		rs.remaining, rs.joining, rs.leaving = rem, joiners, []*c13Node{leaver}
		rs.thr = (len(rem)+1)/2 + 1
		newThr = rs.thr
	}
	g2, err := nt.runReshare(rs)
	if err != nil {
		fail("reshare", err)
		return
	}
	run.Count("successful_reshares", 1)
	newMembers := append(append([]*c13Node(nil), rs.remaining...), rs.joining...)
	if evicted != nil {
		newMembers = nil
		for _, n := range rs.remaining {
			if n != evicted {
				newMembers = append(newMembers, n)
			}
		}
		if g2.Find(evicted.priv.Public) != nil || len(g2.Nodes) != len(newMembers) {
			fail("reshare with an absent member", fmt.Errorf("the resulting group has %d nodes and contains the absent member: %v", len(g2.Nodes), g2.Find(evicted.priv.Public) != nil))
			return
		}
		var idx []uint32
		for _, nd := range g2.Nodes {
			idx = append(idx, nd.Index)
		}
		run.Note(fmt.Sprintf("case %d: group after the eviction lists indices %v, threshold %d", p.CaseIndex, idx, g2.Threshold))
	}
	tr := common.CurrentRound(g2.TransitionTime, g2.Period, g2.GenesisTime)
	m.mu.Lock()
	m.tr = tr
	if leaver != nil {
		m.leavers[leaver.idx] = true
	}
	for _, n := range newMembers {
		m.newGroup[n.idx] = true
	}
	m.mu.Unlock()
	if nt.clockRound() >= tr {
		fail("reshare", fmt.Errorf("completed at clock round %d, not before the transition round %d", nt.clockRound(), tr))
		return
	}
	if !g2.PublicKey.Key().Equal(m.pub) {
		run.Violation("C07/identity-changed/public-key", "the group produced by the reshare has a different distributed public key", m.ci(map[string]any{"when": "group-after-dkg"}))
	}
	idc, err := m.identities(newMembers)
	if err != nil {
		fail("ChainInfo after completion", err)
		return
	}
	m.compareIdentity(refPkt, idc, "after-completion-before-transition")

	// ---- across the transition
	run.Eval(fmt.Sprintf("%s/%s/progress-across-transition", p.Kind, p.Variant))
	haltSig := "C07/halted-after-transition/" + p.Kind
	if evicted != nil {
		haltSig = "C07/halted-after-transition/evicted-member"
	}
	if !c07Progress(run, m, newMembers, tr+5, int(tr-nt.clockRound())+40, haltSig,
		fmt.Sprintf("across the transition round %d (all %d members of the new group up, threshold %d)", tr, len(newMembers), newThr)) {
		return
	}
	ida, err := m.identities(newMembers)
	if err != nil {
		fail("ChainInfo after transition", err)
		return
	}
	m.compareIdentity(refPkt, ida, "after-transition")
	// every member of the new group holds the whole chain across the transition (the taps see a Put a moment
	// after the control port reports it: wait for them)
	for i := 0; i < 100; i++ {
		behind := false
		m.mu.Lock()
		for _, n := range newMembers {
			if !m.has[n.idx] || m.last[n.idx] < tr+5 {
				behind = true
			}
		}
		m.mu.Unlock()
		if !behind {
			break
		}
		time.Sleep(50 * time.Millisecond)
	}
	m.mu.Lock()
	for _, n := range newMembers {
		if !m.has[n.idx] || m.last[n.idx] < tr+5 {
			run.Violation("C07/member-missing-rounds-after-transition", fmt.Sprintf("node %d's Put history ends at round %d", n.idx, m.last[n.idx]), m.ci(map[string]any{"node": n.idx}))
		}
	}
	var worst time.Duration
	for r := tr - 1; r <= tr+5; r++ {
		if at, ok := m.firstPut[r]; ok {
			due := time.Unix(common.TimeOfRound(g2.Period, g2.GenesisTime, r), 0)
			if d := at.Sub(due); d > worst {
				worst = d
			}
		}
	}
	run.Count("max_lateness_ms_around_transition", worst.Milliseconds())
	if leaver != nil {
		run.Count("leaver_last_round_stored", int64(m.last[leaver.idx]))
		if m.last[leaver.idx] >= tr {
			run.Note(fmt.Sprintf("case %d: the member that left keeps its beacon process running and keeps storing rounds (last %d, transition %d)", p.CaseIndex, m.last[leaver.idx], tr))
		}
	}
	run.Count("puts_observed", m.puts)
	m.mu.Unlock()
	_ = dkg.Complete
}

// ---------------------------------------------------------------- reshare completed by the DKG layer, refused by core

func c07FileHashes(n *c13Node) map[string]string {
	out := map[string]string{}
	for _, rel := range []string{c13RelGroup, c13RelShare} {
		b, err := os.ReadFile(filepath.Join(n.folder, rel))
		if err != nil {
			out[rel] = "absent: " + err.Error()
			continue
		}
		h := sha256.Sum256(b)
		out[rel] = fmt.Sprintf("%d:%s", len(b), hex.EncodeToString(h[:12]))
	}
	return out
}

// c07Refused: a reshare that the DKG layer completes but whose output the beacon process must refuse
// (core's validateGroupTransition) has to leave the node exactly as it was.
//
//	refused-period  the leader's DKG database claims another beacon period (stopped, its finished record edited,
//	                daemon re-created): its honest proposal code then proposes that period, the remaining nodes' DKG
//	                layer does not compare periods, the DKG completes with a group of the other period and every
//	                member's core refuses it ("old and new group have different period").
//	refused-late    an ordinary same-set reshare; on one member the completion is processed late (its goroutine is
//	                parked at the dkgstore.savefinished.after hook, i.e. after the completion record and before the
//	                notification, until the transition time has passed): that member refuses ("transition time in the
//	                past"), the others switch.
func c07Refused(run *vfRun, m *c07Mon, p c07Params, dir string, ns []*c13Node, thr int, refPkt *drand.ChainInfoPacket, fail func(string, error)) {
	nt := m.nt
	rng := vfNewRng(p.Seed)
	leader := ns[0]
	x := ns[1+rng.Intn(len(ns)-1)] // the member that is looked at most closely / restarted
	refusers := ns
	sigID := "C07/identity-changed-after-refused-reshare/"

	if p.Kind == "refused-period" {
		if ok, dump := nt.stopNode(leader); !ok {
			run.Count("daemon_stop_hangs", 1)
			fail("stopping the leader", errors.New("DrandDaemon.Stop did not return:\n"+dump))
			return
		}
		edit := make(chan error, 1)
		go func() {
			st, err := dkg.NewDKGStore(leader.folder)
			if err != nil {
				edit <- err
				return
			}
			defer st.Close()
			fin, err := st.GetFinished(nt.beaconID)
			if err != nil || fin == nil {
				edit <- fmt.Errorf("finished record: %v", err)
				return
			}
			fin.BeaconPeriod = 2 * nt.period
			edit <- st.SaveFinished(nt.beaconID, fin)
		}()
		select {
		case err := <-edit:
			if err != nil {
				fail("editing the leader's dkg.db", err)
				return
			}
		case <-time.After(20 * time.Second):
			fail("editing the leader's dkg.db", errors.New("dkg.db still locked 20 s after Stop"))
			return
		}
		if err := nt.restartNode(leader); err != nil {
			fail("re-creating the leader's daemon", err)
			return
		}
		h := uint64(0)
		for _, n := range ns[1:] {
			if hh, ok := nt.head(n); ok && hh > h {
				h = hh
			}
		}
		if _, ok := nt.waitHeads(ns, h, 40); !ok {
			fail("leader catching up after its restart", errors.New("not at the head after 40 periods"))
			return
		}
	} else {
		refusers = []*c13Node{x}
		// park x between its completion record and its notification until the transition time has passed
		vfhook.SetPoint(func(name string, args ...any) {
			if name != "dkgstore.savefinished.after" || len(args) < 2 {
				return
			}
			st, ok := args[1].(*dkg.DBState)
			if !ok || st == nil || st.Epoch != 2 || st.FinalGroup == nil || st.KeyShare == nil || st.KeyShare.Share == nil {
				return
			}
			for _, nd := range st.FinalGroup.Nodes {
				if nd.Index == uint32(st.KeyShare.Share.I) && nd.Address() == x.addr {
					run.Count("completion_notifications_delayed", 1)
					for x.clock.Now().Unix() <= st.FinalGroup.TransitionTime+1 {
						time.Sleep(50 * time.Millisecond)
					}
				}
			}
		})
		defer vfhook.SetPoint(nil)
	}

	before := map[int]map[string]string{}
	for _, n := range ns {
		before[n.idx] = c07FileHashes(n)
	}
	h0 := uint64(0)
	for _, n := range ns {
		if hh, ok := nt.head(n); ok && hh > h0 {
			h0 = hh
		}
	}
	var tr uint64
	refusedEarly := false
	switch p.Kind {
	case "refused-period":
		_, err := nt.runReshare(c13Reshare{leader: leader, remaining: ns, thr: thr, coreRefuses: true})
		switch {
		case errors.Is(err, errC13CoreRefusedOutput):
		case err != nil && strings.Contains(err.Error(), "beacon period cannot change"):
			// the DKG layer of the remaining members already refuses such a proposal: nothing must have changed either
			refusedEarly = true
			run.Count("proposals_with_another_period_refused_by_dkg_layer", 1)
		default:
			fail("reshare with another period", fmt.Errorf("unexpected outcome: %v", err))
			return
		}
	case "refused-late":
		g2, err := nt.runReshare(c13Reshare{leader: leader, remaining: ns, thr: thr})
		if err != nil {
			fail("reshare", err)
			return
		}
		tr = common.CurrentRound(g2.TransitionTime, g2.Period, g2.GenesisTime)
		m.mu.Lock()
		m.tr = tr
		m.leavers[x.idx] = true // x keeps its previous-epoch share: its partials must not count after the switch
		for _, n := range ns {
			if n != x {
				m.newGroup[n.idx] = true
			}
		}
		m.mu.Unlock()
		// wait until x's delayed notification has been processed
		for x.clock.Now().Unix() <= g2.TransitionTime+3 {
			time.Sleep(100 * time.Millisecond)
		}
	}
	if !refusedEarly {
		run.Count("reshares_completed_in_dkg_layer_refused_by_core", 1)
	}
	// the DKG databases say "epoch 2 complete" on every member
	for _, n := range refusers {
		if st, err := nt.dkgStatus(n); err == nil && st.Complete != nil {
			run.Seen("dkg_layer_epoch_after_refusal", fmt.Sprint(st.Complete.Epoch))
		}
	}

	filesCheck := func(when string) {
		for _, n := range refusers {
			after := c07FileHashes(n)
			run.Eval(fmt.Sprintf("%s/files/%s", p.Kind, when))
			var diff []string
			for rel, hb := range before[n.idx] {
				if after[rel] != hb {
					diff = append(diff, fmt.Sprintf("%s: %s -> %s", filepath.Base(rel), hb, after[rel]))
				}
			}
			if len(diff) > 0 {
				run.Violation("C07/files-overwritten-by-refused-reshare", fmt.Sprintf("%s: node %d refused the reshare output, yet its key-store files changed: %s", when, n.idx, strings.Join(diff, "; ")),
					m.ci(map[string]any{"node": n.idx, "when": when}))
			}
		}
	}
	filesCheck("right-after-refusal")
	ids, err := m.identities(refusers)
	if err != nil {
		fail("ChainInfo after the refusal", err)
		return
	}
	m.compareIdentitySig(sigID, refPkt, ids, "right-after-refusal")

	// the chain goes on: produced by the old group (refused-period) / by the members that switched (refused-late)
	producers := ns
	target := h0 + 6
	bound := 40
	if p.Kind == "refused-late" {
		producers = nil
		for _, n := range ns {
			if n != x {
				producers = append(producers, n)
			}
		}
		target = tr + 5
		bound = int(tr-nt.clockRound()) + 40
	}
	run.Eval(p.Kind + "/progress-after-refusal")
	if !c07Progress(run, m, producers, target, bound, "C07/old-group-halted-after-refused-reshare/"+strings.TrimPrefix(p.Kind, "refused-"),
		"after a reshare output was refused by core ("+p.Kind+")") {
		return
	}
	filesCheck("after-further-rounds")
	ids, err = m.identities(ns)
	if err != nil {
		fail("ChainInfo after further rounds", err)
		return
	}
	m.compareIdentitySig(sigID, refPkt, ids, "after-further-rounds")

	// observation (no verdict): what the DKG layer makes of it. Its databases recorded the refused epoch as
	// completed, and proposals take the beacon period from that record: can the group still reshare?
	if p.Kind == "refused-period" && !refusedEarly {
		honest := ns[1]
		_, err := nt.runReshare(c13Reshare{leader: honest, remaining: append([]*c13Node{honest}, append(append([]*c13Node(nil), ns[:1]...), ns[2:]...)...), thr: thr, coreRefuses: true})
		outcome := "dkg-layer-completed-again"
		if !errors.Is(err, errC13CoreRefusedOutput) {
			outcome = "did-not-complete: " + c13Short(fmt.Sprint(err), 200)
		}
		ids2, ierr := m.identities(ns)
		if ierr == nil {
			m.compareIdentitySig(sigID, refPkt, ids2, "after-a-second-reshare-proposed-by-an-honest-member")
			if len(ids2) > 0 && ids2[0].pkt.Period == refPkt.Period {
				outcome += "/core-still-on-the-old-group"
			}
		}
		filesCheck("after-a-second-reshare-proposed-by-an-honest-member")
		run.Seen("second_reshare_after_refusal", outcome)
		run.Note(fmt.Sprintf("case %d: after the refused reshare every member's dkg.db records epoch 2 (period %s) as completed while core runs the epoch-1 group; a further reshare proposed by an honest member: %s",
			p.CaseIndex, 2*nt.period, outcome))
	}

	// a daemon restarted on x's folder serves the old chain info
	if ok, dump := nt.stopNode(x); !ok {
		run.Count("daemon_stop_hangs", 1)
		run.Note("restart part skipped: DrandDaemon.Stop of the member did not return:\n" + dump)
		return
	}
	folder := filepath.Join(dir, "restart-x")
	if _, _, err := c13CopyTree(x.folder, folder); err != nil {
		fail("copying the member's folder", err)
		return
	}
	spec, _ := json.Marshal(c13RestartSpec{Folder: folder, Addr: x.addr, Ctrl: x.ctrlPort, Engine: "bolt", BeaconID: nt.beaconID})
	logf := filepath.Join(dir, "restart-x.log")
	var child c13ChildResult
	for attempt := 0; attempt < 4; attempt++ {
		child = c13StartRestartChild(string(spec), logf)
		if child.state == "daemon-error" && strings.Contains(child.msg, "address already in use") {
			child.stop()
			time.Sleep(700 * time.Millisecond)
			continue
		}
		break
	}
	defer child.stop()
	run.Count("restarts", 1)
	run.Eval(p.Kind + "/restart")
	switch child.state {
	case "loaded":
	case "watchdog":
		run.Inconclusive("restarted member did not report within the watchdog")
		return
	default:
		run.Violation("C07/restart-fails-after-refused-reshare", fmt.Sprintf("a daemon started on node %d's folder after the refused reshare does not come up: %s: %s\n%s", x.idx, child.state, child.msg, c13Tail(logf, 1500)),
			m.ci(map[string]any{"node": x.idx}))
		return
	}
	var pkt *drand.ChainInfoPacket
	for i := 0; i < 50; i++ {
		if pkt, err = nt.chainInfo(x); err == nil {
			break
		}
		time.Sleep(100 * time.Millisecond)
	}
	if err != nil {
		run.Violation("C07/restart-fails-after-refused-reshare", fmt.Sprintf("the daemon restarted on node %d's folder does not answer ChainInfo: %v", x.idx, err), m.ci(map[string]any{"node": x.idx}))
		return
	}
	m.compareIdentitySig(sigID, refPkt, []c07Identity{{x.idx, pkt}}, "daemon-restarted-from-disk")
	// and it holds the files it had before the reshare
	after := c07FileHashes(&c13Node{folder: folder})
	for rel, hb := range before[x.idx] {
		if after[rel] != hb {
			run.Violation("C07/files-overwritten-by-refused-reshare", fmt.Sprintf("daemon-restarted-from-disk: %s of node %d: %s -> %s", filepath.Base(rel), x.idx, hb, after[rel]),
				m.ci(map[string]any{"node": x.idx, "when": "daemon-restarted-from-disk"}))
		}
	}
}

// ---------------------------------------------------------------- a member leaves and is invited back

type c07ProbeResult struct {
	unanswered []string
}

// c07Probe asks node x for ChainInfo and PublicRand on its private port and Status on its control port, each with its
// own bound, up to three times. A positive answer to all three is the signal looked for.
func c07Probe(nt *c13Net, x *c13Node) c07ProbeResult {
	probes := []struct {
		name string
		f    func() error
	}{
		{"ChainInfo", func() error { _, err := nt.chainInfo(x); return err }},
		{"PublicRand", func() error { _, err := nt.publicRand(x, 0); return err }},
		{"Status(control)", func() error { _, err := x.ctrl.Status(nt.beaconID); return err }},
	}
	var res c07ProbeResult
	for _, pr := range probes {
		ok := false
		for attempt := 0; attempt < 3 && !ok; attempt++ {
			done := make(chan error, 1)
			go func() { done <- pr.f() }()
			select {
			case err := <-done:
				ok = err == nil
				if !ok {
					time.Sleep(500 * time.Millisecond)
				}
			case <-time.After(8 * time.Second):
			}
		}
		if !ok {
			res.unanswered = append(res.unanswered, pr.name)
		}
	}
	return res
}

// c07Rejoin: member x is removed by a first reshare (a new node joins), the chain runs across that transition, a
// second reshare invites x back as a joiner (it joins with the current group file) and the chain runs across the
// second transition with x contributing.
func c07Rejoin(run *vfRun, m *c07Mon, p c07Params, ns []*c13Node, refPkt *drand.ChainInfoPacket, fail func(string, error)) {
	nt := m.nt
	rng := vfNewRng(p.Seed)
	leader := ns[0]
	x := ns[1+rng.Intn(len(ns)-1)]
	info := func(extra map[string]any) map[string]any {
		e := map[string]any{"rejoining_node": x.idx}
		for k, v := range extra {
			e[k] = v
		}
		return m.ci(e)
	}
	// how many handlers tick for x's address: one tick per handler per round
	var tmu sync.Mutex
	ticks := map[uint64]int{}
	vfhook.SetPoint(func(name string, args ...any) {
		if name != "handler.tick" || len(args) < 2 {
			return
		}
		a, _ := args[0].(string)
		r, ok := args[1].(uint64)
		if a != x.addr || !ok {
			return
		}
		tmu.Lock()
		ticks[r]++
		tmu.Unlock()
	})
	defer vfhook.SetPoint(nil)

	// ---- first reshare: x leaves, a new node joins
	joiners, err := nt.addNodes(1)
	if err != nil {
		fail("add joiner", err)
		return
	}
	var rem []*c13Node
	for _, n := range ns {
		if n != x {
			rem = append(rem, n)
		}
	}
	g2, err := nt.runReshare(c13Reshare{leader: leader, remaining: rem, joining: joiners, leaving: []*c13Node{x}, thr: (len(rem)+1)/2 + 1})
	if err != nil {
		fail("first reshare (x leaves)", err)
		return
	}
	run.Count("successful_reshares", 1)
	members2 := append(append([]*c13Node(nil), rem...), joiners...)
	tr1 := common.CurrentRound(g2.TransitionTime, g2.Period, g2.GenesisTime)
	m.mu.Lock()
	m.tr = tr1
	m.leavers[x.idx] = true
	for _, n := range members2 {
		m.newGroup[n.idx] = true
	}
	m.mu.Unlock()
	run.Eval("rejoin/progress-across-first-transition")
	if !c07Progress(run, m, members2, tr1+3, int(tr1-nt.clockRound())+40, "C07/halted-after-transition/rejoin-first-reshare",
		fmt.Sprintf("across the first transition round %d (x has left, %d members up)", tr1, len(members2))) {
		return
	}
	ids, err := m.identities(members2)
	if err != nil {
		fail("ChainInfo after the first transition", err)
		return
	}
	m.compareIdentity(refPkt, ids, "after-first-transition")

	// ---- second reshare: x is invited back as a joiner
	m.mu.Lock()
	m.tr = 0 // the partial monitors are re-armed for the second transition below
	m.leavers = map[int]bool{}
	m.mu.Unlock()
	g3, err := nt.runReshare(c13Reshare{leader: leader, remaining: members2, joining: []*c13Node{x}, thr: (len(members2)+1)/2 + 1})
	if err != nil {
		fail("second reshare (x invited back)", err)
		return
	}
	run.Count("successful_reshares", 1)
	run.Count("rejoin_reshares_completed", 1)
	all := append(append([]*c13Node(nil), members2...), x)
	tr2 := common.CurrentRound(g3.TransitionTime, g3.Period, g3.GenesisTime)
	if g3.Find(x.priv.Public) == nil {
		fail("second reshare", errors.New("the resulting group does not contain x"))
		return
	}
	m.mu.Lock()
	m.tr = tr2
	for _, n := range all {
		m.newGroup[n.idx] = true
	}
	m.mu.Unlock()

	// x itself must keep answering: a beacon process wedged on its state lock answers nothing
	wedged := func(when string) bool {
		run.Eval("rejoin/x-answers/" + when)
		res := c07Probe(nt, x)
		if len(res.unanswered) == 0 {
			run.Count("rejoined_member_probe_rounds_ok", 1)
			return false
		}
		dump := vfGoroutineDump()
		park := c13FilterDump(dump, "BeaconProcess).joinNetwork", "BeaconProcess).newBeacon", "BeaconProcess).StartBeacon")
		if park == "" {
			run.Inconclusive(fmt.Sprintf("case %d: %s: node %d did not answer %v, but no goroutine is parked in its join path (starved: %v)", p.CaseIndex, when, x.idx, res.unanswered,
				nt.starvedBetween(time.Now().Add(-30*time.Second), time.Now())))
			return true
		}
		waiters := c13FilterDump(dump, "sync.(*RWMutex)")
		run.Violation("C07/rejoined-member-wedged", fmt.Sprintf(
			"%s: node %d, invited back by the second reshare (completed on every member), does not answer %v (3 attempts of 8 s each). Its beacon process is parked while taking over the reshare output:\n%s\n--- goroutines waiting on a RWMutex:\n%s",
			when, x.idx, res.unanswered, park, c13Short(waiters, 3000)), info(map[string]any{"when": when, "unanswered": res.unanswered}))
		return true
	}
	if wedged("after-second-completion") {
		// the others' chain is still looked at: with x dead the new group has to live on its threshold
		c07Progress(run, m, members2, tr2+3, int(tr2-nt.clockRound())+40, "C07/halted-after-transition/rejoin",
			fmt.Sprintf("across the second transition round %d (x wedged, %d other members up, threshold %d)", tr2, len(members2), g3.Threshold))
		return
	}
	ids, err = m.identities(all)
	if err != nil {
		fail("ChainInfo after the second completion", err)
		return
	}
	m.compareIdentity(refPkt, ids, "after-second-completion")

	// ---- across the second transition
	run.Eval("rejoin/progress-across-second-transition")
	if !c07Progress(run, m, members2, tr2+4, int(tr2-nt.clockRound())+40, "C07/halted-after-transition/rejoin",
		fmt.Sprintf("across the second transition round %d (%d members of the new group up, threshold %d)", tr2, len(all), g3.Threshold)) {
		return
	}
	// x follows the chain
	run.Eval("rejoin/x-follows")
	if _, ok := nt.waitHeads([]*c13Node{x}, tr2+3, 30); !ok {
		time.Sleep(30 * time.Second)
		xh, _ := nt.head(x)
		oh, _ := nt.head(leader)
		if xh < tr2+3 && oh > xh+5 {
			if nt.starvedBetween(time.Now().Add(-60*time.Second), time.Now()) {
				run.Inconclusive(fmt.Sprintf("case %d: node %d lags (%d vs %d) but the box was not keeping pace", p.CaseIndex, x.idx, xh, oh))
			} else {
				run.Violation("C07/rejoined-member-lags", fmt.Sprintf("node %d, invited back, is at round %d while the others are at %d (second transition round %d), 30 periods + 30 s after they passed it\n%s",
					x.idx, xh, oh, tr2, c13FilterDump(vfGoroutineDump(), "SyncManager).", "chainStore).")), info(map[string]any{"x_head": xh, "others_head": oh}))
			}
			return
		}
	}
	if wedged("after-second-transition") {
		return
	}
	ids, err = m.identities(all)
	if err != nil {
		fail("ChainInfo after the second transition", err)
		return
	}
	m.compareIdentity(refPkt, ids, "after-second-transition")

	// x contributes: its partials for rounds past the transition were taken by the others (the refused ones are
	// reported by the member-partial monitor), and it runs ONE handler
	tmu.Lock()
	double := 0
	for r, c := range ticks {
		if r >= tr2 && c >= 2 {
			double++
		}
	}
	tmu.Unlock()
	taps := 0
	nt.mu.Lock()
	tl := append([]*c13StoreTap(nil), nt.taps...)
	nt.mu.Unlock()
	for _, tp := range tl {
		tp.omu.Lock()
		if tp.owner == x {
			taps++
		}
		tp.omu.Unlock()
	}
	run.Eval("rejoin/one-handler")
	run.Count("rejoined_member_chain_stores_created", int64(taps))
	if double >= 3 || taps >= 2 {
		run.Violation("C07/rejoined-member-has-two-handlers", fmt.Sprintf("node %d: %d rounds since the second transition in which two beacon handlers ticked for its address, %d chain stores created over its life time", x.idx, double, taps),
			info(map[string]any{"double_tick_rounds": double, "stores": taps}))
	}
	m.mu.Lock()
	run.Count("puts_observed", m.puts)
	m.mu.Unlock()
}
