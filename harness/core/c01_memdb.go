package core

// C01, in-memory back-end start-up: a node on the in-memory chain store does not sync the chain when it (re)starts;
// it asks its peers for the beacon of the current round and, when nobody has it, for their latest one, and starts
// its chain from that. Whatever the peers answer — errors, honest beacons, replays under another round number, bit
// flips, beacons of another key — every beacon the node keeps must verify under the group key for exactly its round.

import (
	"context"
	"errors"
	"fmt"
	"testing"
	"time"

	"github.com/drand/drand/v2/common"
	dlog "github.com/drand/drand/v2/common/log"
	"github.com/drand/drand/v2/crypto"
	"github.com/drand/drand/v2/internal/chain"
	"github.com/drand/drand/v2/internal/chain/memdb"
	dnet "github.com/drand/drand/v2/internal/net"
	"github.com/drand/drand/v2/protobuf/drand"
	"go.uber.org/zap/zapcore"
	"io"
)

type c01MemPeers struct {
	dnet.PublicClient
	answer func(addr string, round uint64) (*drand.PublicRandResponse, error)
}

func (c *c01MemPeers) PublicRand(_ context.Context, p dnet.Peer, in *drand.PublicRandRequest) (*drand.PublicRandResponse, error) {
	return c.answer(p.Address(), in.GetRound())
}

func (c *vfnChain) fullSig(round uint64, prev []byte) []byte {
	msg := c.Scheme.DigestBeacon(&common.Beacon{Round: round, PreviousSig: prev})
	var parts [][]byte
	for i := 0; i < c.T; i++ {
		p, err := c.Scheme.ThresholdScheme.Sign(c.Shares[i].PrivateShare(), msg)
		if err != nil {
			return nil
		}
		parts = append(parts, p)
	}
	sig, err := c.Scheme.ThresholdScheme.Recover(c.Group.PublicKey.PubPoly(c.Scheme), msg, parts, c.T, c.N)
	if err != nil {
		return nil
	}
	return sig
}

func TestVF_C01_MemdbBootstrap(t *testing.T) {
	run := vfNewRun("C01", "memdb-bootstrap")
	defer run.Finish()
	n := vfPick(60, 600)
	schemes := crypto.ListSchemes()
	kinds := []string{"error", "honest", "replay-of-another-round", "bit-flip", "other-key", "wrong-previous", "honest-older"}
	for idx := 0; idx < n; idx++ {
		rng := vfNewRng(vfCaseSeed(vfSeed(), "C01m", idx))
		schemeName := schemes[idx%len(schemes)]
		period := 30 * time.Second
		genesis := time.Now().Unix() - int64(rng.Range(20, 80))*30
		addrs := []string{"127.0.0.1:1001", "127.0.0.1:1002", "127.0.0.1:1003"}
		c, err := vfnMakeChain(rng, "default", schemeName, addrs, 2, period, 0, genesis)
		other, err2 := vfnMakeChain(rng, "default", schemeName, addrs, 2, period, 0, genesis)
		if err != nil || err2 != nil {
			run.Inconclusive("chain")
			continue
		}
		chained := c.Scheme.Name == crypto.DefaultSchemeID
		current := common.CurrentRound(time.Now().Unix(), period, genesis)
		forCurrent, forLatest := kinds[rng.Intn(len(kinds))], kinds[rng.Intn(len(kinds))]
		if idx%3 == 0 {
			forCurrent = "error" // the fall-back to "latest" is taken
		}
		mk := func(kind string, asked uint64) (*drand.PublicRandResponse, error) {
			r := asked
			if r == 0 {
				r = current - uint64(rng.Range(0, 3))
			}
			var prev []byte
			if chained {
				prev = []byte("previous-signature-of-the-harness")
			}
			switch kind {
			case "error":
				return nil, errors.New("can't retrieve beacon: no beacon stored")
			case "honest":
				return &drand.PublicRandResponse{Round: r, PreviousSignature: prev, Signature: c.fullSig(r, prev)}, nil
			case "honest-older":
				r = r - 3
				return &drand.PublicRandResponse{Round: r, PreviousSignature: prev, Signature: c.fullSig(r, prev)}, nil
			case "replay-of-another-round":
				return &drand.PublicRandResponse{Round: r, PreviousSignature: prev, Signature: c.fullSig(r-5, prev)}, nil
			case "bit-flip":
				s := c.fullSig(r, prev)
				if len(s) > 3 {
					s[len(s)/2] ^= 4
				}
				return &drand.PublicRandResponse{Round: r, PreviousSignature: prev, Signature: s}, nil
			case "other-key":
				return &drand.PublicRandResponse{Round: r, PreviousSignature: prev, Signature: other.fullSig(r, prev)}, nil
			default: // wrong-previous (only meaningful on the chained scheme)
				return &drand.PublicRandResponse{Round: r, PreviousSignature: []byte("another-previous-signature"), Signature: c.fullSig(r, prev)}, nil
			}
		}
		peers := &c01MemPeers{answer: func(_ string, round uint64) (*drand.PublicRandResponse, error) {
			if round != 0 {
				return mk(forCurrent, round)
			}
			return mk(forLatest, 0)
		}}
		lg := dlog.New(zapcore.AddSync(io.Discard), dlog.FatalLevel, true)
		bp := &BeaconProcess{
			opts:            NewConfig(lg, WithDBStorageEngine(chain.MemDB), WithMemDBSize(100), WithConfigFolder(t.TempDir())),
			priv:            c.Pairs[0],
			beaconID:        "default",
			group:           c.Group,
			share:           c.Shares[0],
			index:           0,
			version:         common.GetAppVersion(),
			log:             lg,
			privGateway:     &dnet.PrivateGateway{PublicClient: peers},
			exitCh:          make(chan bool, 1),
			closeDKGChannel: func() {},
		}
		store := memdb.NewStore(100)
		ctx, cancel := context.WithTimeout(context.Background(), 20*time.Second)
		err = bp.storeCurrentFromPeerNetwork(ctx, store)
		cancel()
		kept := 0
		_ = store.Cursor(context.Background(), func(ctx context.Context, cur chain.Cursor) error {
			for b, e := cur.First(ctx); e == nil && b != nil; b, e = cur.Next(ctx) {
				if b.Round == 0 {
					continue
				}
				kept++
				if !c.vfnVerifies(b.Round, b.PreviousSig, b.Signature) {
					run.Violation("C01/unverifiable-beacon-stored/memdb-bootstrap/"+map[bool]string{true: "fallback-latest", false: "current-round"}[forCurrent == "error"],
						fmt.Sprintf("a node starting on the in-memory back-end kept round %d from its peers although it does not verify under the group key (peers answered the current round with %q and the latest-beacon request with %q; start-up returned %v)", b.Round, forCurrent, forLatest, err),
						map[string]any{"case_index": idx, "scheme": schemeName, "answer_for_current_round": forCurrent, "answer_for_latest": forLatest})
				}
			}
			return nil
		})
		run.Count("bootstraps", 1)
		run.Count("beacons_kept_from_peers", int64(kept))
		run.Eval(fmt.Sprintf("%s/%s/%s", schemeName, forCurrent, forLatest))
		if idx == 0 {
			run.Sample(map[string]any{"scheme": schemeName, "answer_for_current_round": forCurrent, "answer_for_latest": forLatest})
		}
	}
}
