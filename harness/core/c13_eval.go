package core

import (
	"bufio"
	"context"
	"encoding/json"
	"fmt"
	"io"
	"os"
	"os/exec"
	"path/filepath"
	"sort"
	"strings"
	"syscall"
	"testing"
	"time"

	"github.com/drand/kyber"

	"github.com/drand/drand/v2/common/key"
	dlog "github.com/drand/drand/v2/common/log"
	"github.com/drand/drand/v2/crypto"
	"github.com/drand/drand/v2/internal/chain"
	"github.com/drand/drand/v2/internal/dkg"
	"github.com/drand/drand/v2/internal/net"
	"github.com/drand/drand/v2/internal/test"
	pdkg "github.com/drand/drand/v2/protobuf/dkg"
)

type c13Evaluated struct {
	img      *c13Image
	label    string
	info     map[string]any
	findings []c13Finding
	fresh    []c13Finding // findings not already present in the previous image (same crash window)
	covers   []string // hook names whose firing left exactly these bytes (this image + following trivial ones)
}

func (sc *c13Scenario) scratch(img *c13Image) (string, error) {
	d := filepath.Join(sc.dir, "scratch", fmt.Sprintf("%04d%s", img.Seq, strings.ReplaceAll(img.Synth, ":", "_")))
	os.RemoveAll(d)
	_, _, err := c13CopyTree(img.Dir, d)
	return d, err
}

func (sc *c13Scenario) evaluate(sch *crypto.Scheme, pub kyber.Point, engine chain.StorageType) {
	run, rec := sc.run, sc.rec
	rec.cmu.Lock()
	for name, n := range rec.counts {
		run.Count("hook."+name, int64(n))
	}
	run.Count("images_skipped_unstable", int64(rec.skipped))
	rec.cmu.Unlock()
	images := rec.images
	run.Count("images_taken", int64(len(images)))
	if rec.hasServed.Load() {
		run.Count("victim_rounds_stored", int64(rec.served.Load()))
	}

	chk := &c13Checker{sch: sch, pub: pub, victim: sc.victim.priv.Public, beaconID: sc.nt.beaconID, engine: engine, lg: sc.lg,
		epochs: map[uint32]*c13EpochRec{}}

	// synthesize the torn variants of files observed to be rewritten in place
	var all []*c13Image
	for _, img := range images {
		all = append(all, img)
		if img.Dir == "" || img.InPlace == "" {
			continue
		}
		b, err := os.ReadFile(filepath.Join(img.Dir, img.InPlace))
		if err != nil || len(b) < 2 {
			continue
		}
		kind := c13FileKind(img.InPlace)
		for _, v := range []struct {
			name string
			n    int
		}{{"half", len(b) / 2}, {"len-1", len(b) - 1}} {
			d := filepath.Join(rec.root, fmt.Sprintf("%04d-torn-%s-%s", img.Seq, kind, v.name))
			if _, _, err := c13CopyTree(img.Dir, d); err != nil {
				continue
			}
			if err := os.WriteFile(filepath.Join(d, img.InPlace), b[:v.n], 0o600); err != nil {
				continue
			}
			all = append(all, &c13Image{Seq: img.Seq, Hook: img.Hook, Own: true, Dir: d, Changed: []string{img.InPlace},
				Served: img.Served, HasSrv: img.HasSrv, Synth: "torn:" + kind + ":" + v.name})
			run.Count("images_torn_synthesized", 1)
		}
	}

	// pass 1: which epochs does the sequence of images record as completed
	for _, img := range all {
		if img.Dir == "" || img.Synth != "" {
			continue
		}
		touched := img.Seq == 0
		for _, c := range img.Changed {
			if strings.TrimPrefix(c, "-") == c13RelDKG {
				touched = true
			}
		}
		if !touched {
			continue
		}
		if d, err := sc.scratch(img); err == nil {
			chk.learn(d)
			os.RemoveAll(d)
		}
	}

	// pass 2: the oracle
	var evs []*c13Evaluated
	var prevEpoch uint32
	prevLabel := ""
	var lastEv *c13Evaluated
	prevWhats := map[string]bool{}
	nontrivial := 0
	for _, img := range all {
		if img.Dir == "" {
			run.Count("images_trivial", 1)
			if lastEv != nil {
				lastEv.covers = append(lastEv.covers, img.Hook)
			}
			continue
		}
		nontrivial++
		d, err := sc.scratch(img)
		if err != nil {
			run.Inconclusive("scratch copy failed: " + err.Error())
			continue
		}
		findings, info, label := chk.check(img, d, func(epoch uint32, cur string) string { return sc.label(img, prevEpoch, epoch, cur, prevLabel) })
		// what a crash leaves behind must not stand in the way of the NEXT save of the same file (the next epoch's
		// share, a re-generated key): every temporary file found in the image is saved over once more, on the copy
		_ = filepath.WalkDir(d, func(p string, de os.DirEntry, err error) error {
			if err != nil || de.IsDir() || !strings.HasSuffix(p, ".tmp") {
				return nil
			}
			target := strings.TrimSuffix(p, ".tmp")
			secure := strings.Contains(filepath.Base(target), "private")
			run.Count("crash_leftovers_saved_over", 1)
			if serr := key.Save(target, sc.victim.priv.Public, secure); serr != nil {
				rel, _ := filepath.Rel(d, target)
				findings = append(findings, c13Finding{Sig: "C13/later-save-blocked-by-crash-leftover/" + label,
					Detail: fmt.Sprintf("the image holds %s.tmp from the interrupted save; saving %s again (as the next epoch would) fails: %v", rel, rel, serr)})
			}
			return nil
		})
		os.RemoveAll(d)
		if img.Synth == "" {
			prevEpoch = img.Epoch
			prevLabel = label
		}
		ev := &c13Evaluated{img: img, label: label, info: info, findings: findings, covers: []string{img.Hook}}
		evs = append(evs, ev)
		if img.Synth == "" {
			lastEv = ev
		}
		run.Eval(label + "|" + strings.Join(img.Changed, ","))
		run.Seen("labels", label)
		run.Count("images_checked", 1)
		// a state that persists over several images is one crash window: it is reported where it first appears
		whats := map[string]bool{}
		var fresh []c13Finding
		for _, f := range findings {
			what := strings.TrimSuffix(f.Sig, "/"+label)
			whats[what] = true
			if img.Synth == "" && prevWhats[what] {
				run.Count("findings_continuing_previous_window", 1)
				continue
			}
			fresh = append(fresh, f)
		}
		if img.Synth == "" {
			prevWhats = whats
		}
		ev.fresh = fresh
		sc.report(ev)
	}
	run.Count("images_nontrivial", int64(nontrivial))
	if len(evs) > 2 {
		run.Sample(map[string]any{"case_index": sc.p.CaseIndex, "image": evs[len(evs)/2].img.Seq, "label": evs[len(evs)/2].label, "info": evs[len(evs)/2].info})
	}

	sc.dirEventStates(all)

	// restarts
	if sc.p.Restarts < 0 {
		return
	}
	sel := sc.selectRestarts(evs)
	for _, ev := range sel {
		sc.restart(ev)
	}
	sc.restartJoinerImage()
}

// dkgStatusOf: a daemon restarted on an image without a group is a node in (or before) a DKG: its DKG control
// service must answer.
func (sc *c13Scenario) dkgStatusOf(ctrlPort, label string, ci map[string]any) {
	c, err := net.NewDKGControlClient(sc.lg, ctrlPort)
	if err != nil {
		return
	}
	var st *pdkg.DKGStatusResponse
	for i := 0; i < 20; i++ {
		ctx, cancel := context.WithTimeout(context.Background(), 3*time.Second)
		st, err = c.DKGStatus(ctx, &pdkg.DKGStatusRequest{BeaconID: sc.nt.beaconID})
		cancel()
		if err == nil {
			break
		}
		time.Sleep(100 * time.Millisecond)
	}
	if err != nil {
		sc.run.Violation("C13/restart-dkg-status-unavailable/"+label, fmt.Sprintf("the restarted daemon loaded but its DKG control service does not answer: %v", err), ci)
		return
	}
	sc.run.Seen("restarted_dkg_states", dkg.Status(st.Current.State).String())
}

// restartJoinerImage: the node that was invited to the first reshare, had joined and was waiting for the execution
// when it "crashed" (image = its folder at that moment, no completed epoch, no group): it must come up again.
func (sc *c13Scenario) restartJoinerImage() {
	if sc.joinerImage == "" || sc.p.Restarts < 0 {
		return
	}
	run := sc.run
	label := "joiner-waiting-for-reshare"
	ci := sc.caseInfo(nil, label)
	ci["label"] = label
	ci["image"] = "joiner-waiting"
	folder := filepath.Join(sc.dir, "restart", "joiner-waiting")
	os.RemoveAll(folder)
	if _, _, err := c13CopyTree(sc.joinerImage, folder); err != nil {
		run.Inconclusive("joiner image copy failed: " + err.Error())
		return
	}
	// the joiner itself is still running on its own address: the restarted copy listens elsewhere
	spec := c13RestartSpec{Folder: folder, Addr: test.FreeBind("127.0.0.1"), Ctrl: test.FreePort(), Engine: sc.p.Engine, BeaconID: sc.nt.beaconID}
	sj, _ := json.Marshal(spec)
	logf := filepath.Join(sc.dir, "restart", "joiner-waiting.log")
	out := c13StartRestartChild(string(sj), logf)
	defer out.stop()
	run.Count("restarts", 1)
	run.Eval(label + "|dkg.db")
	run.Seen("restarted_labels", label)
	switch out.state {
	case "loaded":
		run.Count("restarts_loaded_without_group", 1)
		sc.dkgStatusOf(spec.Ctrl, label, ci)
	case "watchdog":
		run.Inconclusive("restart of the joiner image: child did not report within the watchdog")
	default:
		run.Violation("C13/restart-fails/"+label, fmt.Sprintf("a daemon started on the folder of a node that had joined a proposed reshare and was waiting for its execution does not come up: %s: %s\n--- child log tail:\n%s",
			out.state, out.msg, c13Tail(logf, 1500)), ci)
	}
}

// dirEventStates replays the directory-entry events of the victim's groups/ folder (inotify, kernel order). Entry
// creation, unlink and rename are atomic, so after each event the set of existing files is a state a crash could
// have left — also between two operations that have no hook between them. A state in which exactly one of
// {group file, share file} exists and which no image already exhibited is reported here.
func (sc *c13Scenario) dirEventStates(all []*c13Image) {
	rec, run := sc.rec, sc.run
	rec.cmu.Lock()
	evs := append([]c13DirEvent(nil), rec.wevents...)
	rec.cmu.Unlock()
	run.Count("dir_entry_events", int64(len(evs)))
	type pat struct{ g, s bool }
	seen := map[pat]bool{}
	for _, img := range all {
		if img.Hashes == nil {
			continue
		}
		_, g := img.Hashes[c13RelGroup]
		_, s := img.Hashes[c13RelShare]
		seen[pat{g, s}] = true
	}
	present := map[string]bool{}
	reported := map[pat]bool{}
	for i, e := range evs {
		switch e.Op {
		case "create", "moved_to":
			present[e.Name] = true
		case "delete", "moved_from":
			present[e.Name] = false
		}
		p := pat{present["drand_group.toml"], present["dist_key.private"]}
		run.Eval(fmt.Sprintf("dir-state/group=%v/share=%v/after-%s-%s", p.g, p.s, e.Op, c13FileKind(e.Name)))
		if p.g == p.s || seen[p] || reported[p] {
			continue
		}
		reported[p] = true
		sig, what := "C13/share-without-group/dir-event-order", "the share file existed without a group file"
		if p.g {
			sig, what = "C13/group-without-share/dir-event-order", "the group file existed without a share file"
		}
		from := i - 3
		if from < 0 {
			from = 0
		}
		ci := sc.caseInfo(nil, "dir-event-order")
		ci["events"] = evs[from : i+1]
		run.Violation(sig, fmt.Sprintf("between two directory operations %s (event %d: %s %s); no hook fires there, the state follows from the kernel's event order", what, i, e.Op, e.Name), ci)
	}
}

// report turns the findings of one image into violation records. Images that are a torn state of one key file
// (observed empty right after create/truncate, or a synthesized prefix) are reported under one signature per
// (file kind, prefix) whatever the decoder makes of them.
func (sc *c13Scenario) report(ev *c13Evaluated) {
	if len(ev.fresh) == 0 {
		return
	}
	img := ev.img
	ci := sc.caseInfo(img, ev.label)
	ci["info"] = ev.info
	tornKind, tornVar := "", ""
	if img.Synth != "" {
		p := strings.Split(img.Synth, ":")
		tornKind, tornVar = p[1], p[2]
	} else if strings.HasPrefix(ev.label, "key.save.created:") {
		tornKind, tornVar = strings.SplitN(strings.TrimPrefix(ev.label, "key.save.created:"), "@", 2)[0], "len-0"
	}
	for _, f := range ev.fresh {
		if tornKind != "" {
			// a torn state of one key file: one signature per (file, prefix); findings about anything else in a
			// synthesized image are those of its base image and are reported there
			if strings.HasPrefix(f.Sig, "C13/file-undecodable/"+tornKind+"/") {
				sc.run.Violation("C13/torn-file/"+tornKind+"/"+tornVar, f.Detail+" (crash window "+ev.label+")", ci)
			} else if img.Synth == "" {
				sc.run.Violation(f.Sig, f.Detail, ci)
			}
			continue
		}
		sc.run.Violation(f.Sig, f.Detail, ci)
	}
}

var c13RestartPriority = []string{
	"key.save.after:group@reshare", "key.save.created:share@reshare", "dkgstore.savefinished.after@reshare",
	"dkgstore.savefinished.after@dkg1", "key.save.created:group@reshare", "store.put.after", "key.reset.mid",
	"key.reset.after", "dkgstore.save.after", "torn:share:half", "key.save.after:group@dkg1", "torn:group:half",
	"key.save.after:share@reshare", "torn:share:len-1", "torn:group:len-1", "final",
}

// selectRestarts: all non-trivial images in the thorough tier; otherwise the last image of each label in priority
// order, then whatever is needed to cover every hook name that fired, up to the case's budget.
func (sc *c13Scenario) selectRestarts(evs []*c13Evaluated) []*c13Evaluated {
	lastOf := map[string]*c13Evaluated{}
	var eligible []*c13Evaluated
	for _, ev := range evs {
		// images of the forced-leave segment inherit its end state (no group, no share): only the windows of
		// the leave itself are restarted from there
		if sc.forcedSeq > 0 && ev.img.Seq >= sc.forcedSeq && !strings.HasPrefix(ev.label, "key.reset") {
			continue
		}
		lastOf[ev.label] = ev
		eligible = append(eligible, ev)
	}
	if sc.p.Restarts == 0 {
		return eligible
	}
	var sel []*c13Evaluated
	picked := map[*c13Evaluated]bool{}
	covered := map[string]bool{}
	pick := func(ev *c13Evaluated) {
		if ev == nil || picked[ev] || len(sel) >= sc.p.Restarts {
			return
		}
		picked[ev] = true
		sel = append(sel, ev)
		for _, h := range ev.covers {
			covered[h] = true
		}
	}
	for _, l := range c13RestartPriority {
		pick(lastOf[l])
	}
	var labels []string
	for l := range lastOf {
		labels = append(labels, l)
	}
	sort.Strings(labels)
	for _, l := range labels {
		pick(lastOf[l])
	}
	hooks := map[string]bool{}
	for _, ev := range evs {
		for _, h := range ev.covers {
			hooks[h] = true
		}
	}
	miss := 0
	for h := range hooks {
		if !covered[h] {
			miss++
		}
	}
	if miss > 0 {
		sc.run.Note(fmt.Sprintf("case %d: restart budget %d leaves %d hook names without a restarted image", sc.p.CaseIndex, sc.p.Restarts, miss))
	}
	return sel
}

// ---------------------------------------------------------------- restart in a child process

type c13RestartSpec struct {
	Folder   string `json:"folder"`
	Addr     string `json:"addr"`
	Ctrl     string `json:"ctrl"`
	Engine   string `json:"engine"`
	BeaconID string `json:"beacon_id"`
}

func (sc *c13Scenario) networkHead() uint64 {
	var h uint64
	for _, n := range sc.others {
		if x, ok := sc.nt.head(n); ok && x > h {
			h = x
		}
	}
	return h
}

func (sc *c13Scenario) restart(ev *c13Evaluated) {
	run := sc.run
	img := ev.img
	name := fmt.Sprintf("%04d%s", img.Seq, strings.ReplaceAll(img.Synth, ":", "_"))
	folder := filepath.Join(sc.dir, "restart", name)
	os.RemoveAll(folder)
	if _, _, err := c13CopyTree(img.Dir, folder); err != nil {
		run.Inconclusive("restart copy failed: " + err.Error())
		return
	}
	ci := sc.caseInfo(img, ev.label)
	ci["info"] = ev.info
	ci["covers_hooks"] = ev.covers
	spec := c13RestartSpec{Folder: folder, Addr: sc.victim.addr, Ctrl: sc.victim.ctrlPort, Engine: sc.p.Engine, BeaconID: sc.nt.beaconID}
	sj, _ := json.Marshal(spec)
	logf := filepath.Join(sc.dir, "restart", name+".log")
	var out c13ChildResult
	for attempt := 0; attempt < 12; attempt++ {
		out = c13StartRestartChild(string(sj), logf)
		if out.state == "daemon-error" && strings.Contains(out.msg, "address already in use") {
			out.stop()
			time.Sleep(time.Second)
			continue
		}
		break
	}
	defer out.stop()
	if out.state == "daemon-error" && strings.Contains(out.msg, "address already in use") {
		// the previous occupant of the victim's ports (the stopped daemon or the previous restart) has not let go yet
		run.Inconclusive(fmt.Sprintf("restart of image %s (%s): the victim's ports were still in use after 12 s", name, ev.label))
		return
	}
	run.Count("restarts", 1)
	run.Seen("restarted_labels", ev.label)
	switch out.state {
	case "loaded":
	case "watchdog":
		run.Inconclusive(fmt.Sprintf("restart of image %s (%s): child did not report within the watchdog", name, ev.label))
		return
	default:
		// load error, daemon construction error, or the process died (panic / log.Fatal) before reporting
		run.Violation("C13/restart-fails/"+ev.label, fmt.Sprintf("a daemon started on the image does not come up: %s: %s\n--- child log tail:\n%s",
			out.state, out.msg, c13Tail(logf, 1500)), ci)
		return
	}
	expectSync, _ := ev.info["expect_sync"].(bool)
	if !expectSync {
		run.Count("restarts_loaded_without_group", 1)
		sc.dkgStatusOf(sc.victim.ctrlPort, ev.label, ci)
		return
	}
	// bounded progress: the restarted node must reach the head the network had when it came up
	ctrl, err := net.NewControlClient(sc.lg, sc.victim.ctrlPort)
	if err != nil {
		run.Inconclusive("control client: " + err.Error())
		return
	}
	defer ctrl.Close()
	target := sc.networkHead()
	const maxPeriods = 25
	start := sc.others[0].clock.Now()
	reached := func() (uint64, bool) {
		st, err := ctrl.Status(sc.nt.beaconID)
		if err != nil || st.ChainStore == nil || st.ChainStore.IsEmpty {
			return 0, false
		}
		return st.ChainStore.LastStored, st.ChainStore.LastStored >= target
	}
	var got uint64
	for {
		var ok bool
		if got, ok = reached(); ok {
			run.Count("restarts_synced", 1)
			return
		}
		if out.exited() {
			run.Violation("C13/restart-dies/"+ev.label, fmt.Sprintf("the restarted daemon exited while syncing (head %d, target %d)\n%s", got, target, c13Tail(logf, 1500)), ci)
			return
		}
		if int(sc.others[0].clock.Now().Sub(start)/sc.nt.period) >= maxPeriods {
			break
		}
		time.Sleep(50 * time.Millisecond)
	}
	// grace: re-check after a long real-time wait before calling it a violation
	graceEnd := time.Now().Add(40 * time.Second)
	for time.Now().Before(graceEnd) {
		if _, ok := reached(); ok {
			run.Inconclusive(fmt.Sprintf("restart of image %s (%s) reached the head only in the grace period", name, ev.label))
			return
		}
		time.Sleep(200 * time.Millisecond)
	}
	dump := out.quitDump(logf)
	run.Violation("C13/restart-no-sync/"+ev.label, fmt.Sprintf("restarted node stays at round %d, network head was %d at its start (waited %d periods + 40 s)\n%s", got, target, maxPeriods, dump), ci)
}

type c13ChildResult struct {
	state string // loaded | load-error | daemon-error | died | watchdog
	msg   string
	cmd   *exec.Cmd
	stdin io.WriteCloser
	done  chan struct{}
}

func (r *c13ChildResult) exited() bool {
	if r.done == nil {
		return true
	}
	select {
	case <-r.done:
		return true
	default:
		return false
	}
}

func (r *c13ChildResult) stop() {
	if r.cmd == nil || r.cmd.Process == nil {
		return
	}
	if r.stdin != nil {
		r.stdin.Close()
	}
	select {
	case <-r.done:
	case <-time.After(12 * time.Second):
		_ = r.cmd.Process.Kill()
		<-r.done
	}
	r.cmd = nil
}

func (r *c13ChildResult) quitDump(logf string) string {
	if r.cmd == nil || r.cmd.Process == nil || r.exited() {
		return ""
	}
	_ = r.cmd.Process.Signal(syscall.SIGQUIT)
	select {
	case <-r.done:
	case <-time.After(5 * time.Second):
	}
	return c13Tail(logf, 5000)
}

func c13StartRestartChild(specJSON, logf string) c13ChildResult {
	cmd := exec.Command(os.Args[0], "-test.run", "^TestVFChild_C13Restart$", "-test.timeout", "0")
	cmd.Env = append(os.Environ(), "VF_C13_RESTART="+specJSON, "VF_OUT="+os.DevNull)
	lf, err := os.OpenFile(logf, os.O_CREATE|os.O_WRONLY|os.O_APPEND, 0o644)
	if err != nil {
		return c13ChildResult{state: "died", msg: err.Error()}
	}
	cmd.Stderr = lf
	stdout, _ := cmd.StdoutPipe()
	stdin, _ := cmd.StdinPipe()
	if err := cmd.Start(); err != nil {
		lf.Close()
		return c13ChildResult{state: "died", msg: err.Error()}
	}
	res := c13ChildResult{cmd: cmd, stdin: stdin, done: make(chan struct{})}
	lines := make(chan string, 64)
	go func() {
		sc := bufio.NewScanner(stdout)
		sc.Buffer(make([]byte, 1<<20), 1<<20)
		for sc.Scan() {
			l := sc.Text()
			fmt.Fprintln(lf, "stdout: "+l)
			if strings.HasPrefix(l, "VFCHILD ") {
				lines <- strings.TrimPrefix(l, "VFCHILD ")
			}
		}
		close(lines)
		_ = cmd.Wait()
		lf.Close()
		close(res.done)
	}()
	select {
	case l, ok := <-lines:
		if !ok {
			<-res.done
			res.state = "died"
			res.msg = fmt.Sprintf("process ended before reporting (%v)", cmd.ProcessState)
			return res
		}
		p := strings.SplitN(l, " ", 2)
		res.state = p[0]
		if len(p) > 1 {
			res.msg = p[1]
		}
		go func() {
			for range lines {
			}
		}()
	case <-time.After(90 * time.Second):
		res.state = "watchdog"
	}
	return res
}

// TestVFChild_C13Restart is the restarted daemon: the start path of `drand start` (NewDrandDaemon +
// LoadBeaconsFromDisk) on the image folder, with the real clock (the network's fake clocks track real time).
func TestVFChild_C13Restart(t *testing.T) {
	sj := os.Getenv("VF_C13_RESTART")
	if sj == "" {
		t.Skip("child entry point")
	}
	syscall.Umask(0o022)
	var spec c13RestartSpec
	if err := json.Unmarshal([]byte(sj), &spec); err != nil {
		t.Fatal(err)
	}
	say := func(s string) { os.Stdout.WriteString("VFCHILD " + strings.ReplaceAll(s, "\n", " ") + "\n") }
	lg := dlog.New(os.Stderr, dlog.InfoLevel, true)
	engine := chain.BoltDB
	if spec.Engine == "memdb" {
		engine = chain.MemDB
	}
	conf := NewConfig(lg,
		WithConfigFolder(spec.Folder),
		WithDBStorageEngine(engine),
		WithDkgKickoffGracePeriod(time.Second),
		WithDkgPhaseTimeout(3*time.Second),
		WithPrivateListenAddress(spec.Addr),
		WithControlPort(spec.Ctrl),
		WithMemDBSize(2000),
	)
	ctx := context.Background()
	dd, err := NewDrandDaemon(ctx, conf)
	if err != nil {
		say("daemon-error " + err.Error())
		return
	}
	if err := dd.LoadBeaconsFromDisk(ctx, "", false, ""); err != nil {
		say("load-error " + err.Error())
		dd.Stop(ctx)
		return
	}
	say("loaded")
	_, _ = io.Copy(io.Discard, os.Stdin) // parent closes stdin to end the child
	dd.Stop(ctx)
}

var _ = key.GroupFolderName
var _ testing.TB
