package core

// C01 (daemon level) — every beacon served on the public endpoints is the round that was asked for and
// is publicly verifiable.
//
// One real DrandDaemon (loopback gRPC + HTTP, real clock, bolt) runs two 2-of-3 chains (chained scheme
// on beacon id "default", unchained G1 scheme on "vfun") whose genesis lies far in the past, so the
// node is permanently catching up and every round is produced when the harness — holding shares 1 and
// 2 — sends the two partials over the real PartialBeacon endpoint.  The harness produces rounds in
// BURSTS of 2-4 consecutive rounds back to back (as during catch-up) while concurrent clients ask, over
// gRPC PublicRand, PublicRandStream (first item) and HTTP /public/{r} and /{hash}/public/{r}, for rounds
// head+1 (the waiter path), head, head-1, 1, head+2, 2^63 and 0.  The harness computes every round's
// signature itself (it holds a threshold of shares) and verifies with kyber independently of the node.

import (
	"context"
	"crypto/sha256"
	"encoding/hex"
	"encoding/json"
	"fmt"
	"io"
	"net/http"
	"os"
	"sync"
	"sync/atomic"
	"testing"
	"time"

	"google.golang.org/grpc"

	"github.com/drand/drand/v2/common"
	dlog "github.com/drand/drand/v2/common/log"
	"github.com/drand/drand/v2/crypto"
	"github.com/drand/drand/v2/internal/test"
	"github.com/drand/drand/v2/protobuf/drand"
)

type c01Chain struct {
	name string
	*vfnChain
	mu       sync.Mutex
	sigs     map[uint64][]byte // harness-computed signature of every produced round
	parts    map[uint64][][]byte
	burstSeq atomic.Int64
	inBurst  atomic.Bool
	burstLen atomic.Int64
	bp       *BeaconProcess
}

func (c *c01Chain) sig(r uint64) []byte {
	c.mu.Lock()
	defer c.mu.Unlock()
	return c.sigs[r]
}

// produce sends the two harness-held partials of round r (built on the harness's own signature of r-1)
func (c *c01Chain) produce(ctx context.Context, prot drand.ProtocolClient, r uint64) error {
	prev := c.sig(r - 1)
	if prev == nil {
		return fmt.Errorf("no signature of round %d", r-1)
	}
	msg := c.Scheme.DigestBeacon(&common.Beacon{Round: r, PreviousSig: prev})
	var parts [][]byte
	for _, i := range []int{1, 2} {
		p, err := c.Scheme.ThresholdScheme.Sign(c.Shares[i].PrivateShare(), msg)
		if err != nil {
			return err
		}
		parts = append(parts, p)
	}
	full, err := c.Scheme.ThresholdScheme.Recover(c.Shares[0].PubPoly(), msg, parts, c.T, c.N)
	if err != nil {
		return err
	}
	c.mu.Lock()
	c.sigs[r] = full
	c.parts[r] = parts
	delete(c.parts, r-16)
	c.mu.Unlock()
	return c.send(ctx, prot, r)
}

// send (or re-send, as a real member does on its next tick) the harness-held partials of round r
func (c *c01Chain) send(ctx context.Context, prot drand.ProtocolClient, r uint64) error {
	c.mu.Lock()
	parts, prev := c.parts[r], c.sigs[r-1]
	c.mu.Unlock()
	md := &drand.Metadata{NodeVersion: c14Version(), BeaconID: c.ID}
	for _, p := range parts {
		if _, err := prot.PartialBeacon(ctx, &drand.PartialBeaconPacket{Round: r, PreviousSignature: prev, PartialSig: p, Metadata: md}); err != nil {
			return err
		}
	}
	return nil
}

type c01Ans struct {
	ok    bool
	err   string
	round uint64
	sig   []byte
	prev  []byte
	rnd   []byte
	empty bool // a success without a beacon in it
}

type c01Env struct {
	run    *vfRun
	ports  vfnPorts
	chains []*c01Chain
	seq    atomic.Int64
}

func (e *c01Env) grpcRand(ctx context.Context, pub drand.PublicClient, c *c01Chain, r uint64) c01Ans {
	resp, err := pub.PublicRand(ctx, &drand.PublicRandRequest{Round: r, Metadata: &drand.Metadata{BeaconID: c.ID}})
	if err != nil {
		return c01Ans{err: vfnErrStr(err)}
	}
	return c01Ans{ok: true, round: resp.Round, sig: resp.Signature, prev: resp.PreviousSignature, rnd: resp.Randomness, empty: len(resp.Signature) == 0}
}

func (e *c01Env) grpcStream(ctx context.Context, pub drand.PublicClient, c *c01Chain, r uint64) c01Ans {
	cctx, cancel := context.WithCancel(ctx)
	defer cancel()
	st, err := pub.PublicRandStream(cctx, &drand.PublicRandRequest{Round: r, Metadata: &drand.Metadata{BeaconID: c.ID}})
	if err != nil {
		return c01Ans{err: vfnErrStr(err)}
	}
	resp, err := st.Recv()
	if err != nil {
		return c01Ans{err: vfnErrStr(err)}
	}
	return c01Ans{ok: true, round: resp.Round, sig: resp.Signature, prev: resp.PreviousSignature, rnd: resp.Randomness, empty: len(resp.Signature) == 0}
}

func (e *c01Env) httpRand(ctx context.Context, hc *http.Client, c *c01Chain, withHash bool, r uint64) c01Ans {
	p := fmt.Sprintf("/public/%d", r)
	if r == 0 {
		p = "/public/latest"
	}
	if withHash {
		p = "/" + c.HashHex + p
	}
	req, _ := http.NewRequestWithContext(ctx, "GET", "http://"+e.ports.Pub+p, nil)
	resp, err := hc.Do(req)
	if err != nil {
		return c01Ans{err: vfnErrStr(err)}
	}
	body, _ := io.ReadAll(io.LimitReader(resp.Body, 1<<20))
	resp.Body.Close()
	if resp.StatusCode != 200 {
		return c01Ans{err: fmt.Sprintf("%d %s", resp.StatusCode, vfnTrunc(string(body), 80))}
	}
	var m struct {
		Round uint64 `json:"round"`
		Rnd   string `json:"randomness"`
		Sig   string `json:"signature"`
		Prev  string `json:"previous_signature"`
	}
	if len(body) == 0 || json.Unmarshal(body, &m) != nil || m.Sig == "" {
		return c01Ans{ok: true, empty: true, err: "200 with body " + vfnTrunc(string(body), 80)}
	}
	a := c01Ans{ok: true, round: m.Round}
	a.sig, _ = hex.DecodeString(m.Sig)
	a.prev, _ = hex.DecodeString(m.Prev)
	a.rnd, _ = hex.DecodeString(m.Rnd)
	return a
}

// judge one answer to a request for round r on an endpoint
func (e *c01Env) judge(c *c01Chain, endpoint, class string, r uint64, a c01Ans, across bool, needRnd bool) {
	n := e.seq.Add(1)
	e.run.Count("requests."+endpoint+"."+class, 1)
	if class == "head+1" && across {
		e.run.Count("waiter_requests_in_flight_across_a_burst", 1)
	}
	if !a.ok {
		e.run.Eval("")
		e.run.Count("refused."+endpoint, 1)
		return
	}
	e.run.Count("answered."+endpoint, 1)
	key := ""
	if class == "head+1" && across {
		key = fmt.Sprintf("%s/%s/burst-of-%d/%d", endpoint, c.name, c.burstLen.Load(), r%8)
		e.run.Count("waiter_answered_during_a_burst."+endpoint, 1)
	}
	e.run.Eval(key)
	ci := map[string]any{"case_index": n, "endpoint": endpoint, "class": class, "chain": c.name, "scheme": c.Scheme.Name, "asked": r, "got": a.round,
		"burst": c.burstSeq.Load(), "burst_len": c.burstLen.Load(), "across_burst": across}
	path := class
	if class == "head+1" {
		path = "waiter"
	}
	if a.empty {
		e.run.Violation(fmt.Sprintf("C01/unverifiable-beacon-served/%s", endpoint),
			fmt.Sprintf("request for round %d of %s answered successfully without a beacon: %s", r, c.name, a.err), ci)
		return
	}
	if r != 0 && a.round != r {
		e.run.Violation(fmt.Sprintf("C01/wrong-round-answered/%s/%s", endpoint, path),
			fmt.Sprintf("request for round %d of chain %s (%s) answered with round %d (sig %s)", r, c.name, c.Scheme.Name, a.round, vfHex(a.sig)), ci)
	}
	if !c.vfnVerifies(a.round, a.prev, a.sig) {
		e.run.Violation(fmt.Sprintf("C01/unverifiable-beacon-served/%s", endpoint),
			fmt.Sprintf("round %d served for a request for %d on %s does not verify under the chain key (sig %s prev %s)", a.round, r, c.name, vfHex(a.sig), vfHex(a.prev)), ci)
	} else {
		e.run.Count("verified", 1)
		if want := c.sig(a.round); want != nil && string(want) != string(a.sig) {
			e.run.Violation(fmt.Sprintf("C01/unverifiable-beacon-served/%s", endpoint),
				fmt.Sprintf("round %d verifies but differs from the unique signature the harness computed", a.round), ci)
		}
	}
	if len(a.rnd) > 0 || needRnd {
		h := sha256.Sum256(a.sig)
		if string(h[:]) != string(a.rnd) {
			e.run.Violation(fmt.Sprintf("C01/randomness-mismatch/%s", endpoint),
				fmt.Sprintf("round %d: randomness %s is not SHA-256(signature)=%s", a.round, vfHex(a.rnd), vfHex(h[:])), ci)
		} else {
			e.run.Count("randomness_checked", 1)
		}
	}
}

func c01Body(t *testing.T, run *vfRun, dir string) {
	seed := vfSeed()
	rng := vfNewRng(vfCaseSeed(seed, "C01-public", 0))
	ports := vfnFreePorts()
	lvl := dlog.InfoLevel
	if k := os.Getenv("VF_KEEP_DIR"); k != "" {
		dir, lvl = k, dlog.DebugLevel
		_ = os.MkdirAll(dir, 0o755)
	}
	lg, sink, err := vfnFileLogger(dir+"/daemon.log", lvl)
	if err != nil {
		t.Fatal(err)
	}
	defer sink.f.Close()
	now := time.Now().Unix()
	dead1, dead2 := test.FreeBind("127.0.0.1"), test.FreeBind("127.0.0.1")
	e := &c01Env{run: run, ports: ports}
	for _, s := range []struct{ name, id, scheme string }{{"chained", common.DefaultBeaconID, crypto.DefaultSchemeID}, {"unchained", "vfun", crypto.SigsOnG1ID}} {
		ch, err := vfnMakeChain(rng, s.id, s.scheme, []string{ports.Priv, dead1, dead2}, 2, time.Second, 0, now-200000)
		if err != nil {
			t.Fatal(err)
		}
		if err := vfnWriteMember(dir, ch, 0, true); err != nil {
			t.Fatal(err)
		}
		e.chains = append(e.chains, &c01Chain{name: s.name, vfnChain: ch, sigs: map[uint64][]byte{0: ch.Group.GenesisSeed}, parts: map[uint64][][]byte{}})
	}
	ctx, cancelAll := context.WithCancel(context.Background())
	defer cancelAll()
	dd, err := vfnNewDaemon(ctx, dir, ports, lg)
	if err != nil {
		run.Inconclusive("daemon did not start: " + err.Error())
		return
	}
	defer func() {
		sctx, cancel := context.WithTimeout(context.Background(), 10*time.Second)
		defer cancel()
		dd.Stop(sctx)
	}()
	for _, c := range e.chains {
		bp, err := dd.LoadBeaconFromDisk(ctx, c.ID)
		if err != nil {
			t.Fatalf("loading %s: %v", c.name, err)
		}
		c.bp = bp
	}
	bursts := vfPick(250, 2500)
	clients := vfPick(12, 16)
	var producers, wg sync.WaitGroup
	var done atomic.Bool
	for _, c := range e.chains {
		c := c
		prng := vfNewRng(vfCaseSeed(seed, "C01-producer-"+c.name, 0))
		producers.Add(1)
		go func() {
			defer producers.Done()
			conn, err := vfnDial(ports.Priv)
			if err != nil {
				return
			}
			defer conn.Close()
			prot := drand.NewProtocolClient(conn)
			next := uint64(1)
			step := func() bool {
				pctx, cancel := context.WithTimeout(ctx, 10*time.Second)
				defer cancel()
				if err := c.produce(pctx, prot, next); err != nil {
					run.Note(fmt.Sprintf("producer %s round %d: %v", c.name, next, err))
					return false
				}
				next++
				return true
			}
			// wait until the stored head reaches what was produced (a round is only produced on top of a stored one)
			// The node's aggregator can discard an aggregated round when two stores follow each other closely
			// (its notion of the last beacon steps back for a moment); real members re-send their partial on the
			// next tick, so does the harness.
			settle := func() bool {
				dl := time.Now().Add(30 * time.Second)
				lastH, lastT := vfnHead(c.bp), time.Now()
				for {
					h := vfnHead(c.bp)
					if h >= next-1 {
						return true
					}
					if time.Now().After(dl) {
						return false
					}
					if h != lastH {
						lastH, lastT = h, time.Now()
					} else if time.Since(lastT) > 150*time.Millisecond {
						pctx, cancel := context.WithTimeout(ctx, 10*time.Second)
						for r := h + 1; r < next; r++ {
							_ = c.send(pctx, prot, r)
						}
						cancel()
						run.Count("partials_resent_after_discarded_aggregation", 1)
						lastT = time.Now()
					}
					time.Sleep(2 * time.Millisecond)
				}
			}
			for i := 0; i < 4; i++ {
				if !step() || !settle() {
					run.Inconclusive(fmt.Sprintf("chain %s did not start producing (head %d)", c.name, vfnHead(c.bp)))
					return
				}
			}
			for b := 0; b < bursts; b++ {
				k := 2 + prng.Intn(3)
				time.Sleep(time.Duration(20+prng.Intn(160)) * time.Millisecond) // waiters park on head+1 meanwhile
				c.burstLen.Store(int64(k))
				c.burstSeq.Add(1)
				c.inBurst.Store(true)
				for i := 0; i < k; i++ {
					if !step() {
						c.inBurst.Store(false)
						return
					}
				}
				ok := settle()
				c.inBurst.Store(false)
				if !ok {
					run.Inconclusive(fmt.Sprintf("chain %s stalled at head %d (produced up to %d)", c.name, vfnHead(c.bp), next-1))
					return
				}
				run.Count("bursts", 1)
				run.Count("rounds_produced", int64(k))
				run.Seen("burst_lengths", fmt.Sprint(k))
			}
		}()
	}
	classes := []string{"head+1", "head+1", "head+1", "head", "head-1", "round-1", "head+2", "round-2^63", "latest"}
	endpoints := []string{"grpc-publicrand", "grpc-publicrand", "grpc-publicrandstream", "http-public", "http-hash-public"}
	for w := 0; w < clients; w++ {
		crng := vfNewRng(vfCaseSeed(seed, "C01-client", w))
		wg.Add(1)
		go func() {
			defer wg.Done()
			conn, err := vfnDial(ports.Priv)
			if err != nil {
				return
			}
			defer conn.Close()
			pub := drand.NewPublicClient(conn)
			hc := &http.Client{Timeout: 10 * time.Second}
			for !done.Load() {
				c := e.chains[crng.Intn(len(e.chains))]
				class := classes[crng.Intn(len(classes))]
				ep := endpoints[crng.Intn(len(endpoints))]
				head := vfnHead(c.bp)
				if head < 3 {
					time.Sleep(5 * time.Millisecond)
					continue
				}
				var r uint64
				switch class {
				case "head+1":
					r = head + 1
				case "head":
					r = head
				case "head-1":
					r = head - 1
				case "round-1":
					r = 1
				case "head+2":
					r = head + 2
				case "round-2^63":
					r = 1 << 63
				case "latest":
					r = 0
				}
				if ep == "http-public" && c.ID != common.DefaultBeaconID {
					ep = "http-hash-public" // the path without a hash is the default chain's
				}
				if ep == "grpc-publicrandstream" && r == 0 {
					r = head // a stream from 0 only delivers future rounds
					class = "head"
				}
				b0, in0 := c.burstSeq.Load(), c.inBurst.Load()
				rctx, cancel := context.WithTimeout(ctx, 6*time.Second)
				var a c01Ans
				switch ep {
				case "grpc-publicrand":
					a = e.grpcRand(rctx, pub, c, r)
				case "grpc-publicrandstream":
					a = e.grpcStream(rctx, pub, c, r)
				case "http-public":
					a = e.httpRand(rctx, hc, c, false, r)
				case "http-hash-public":
					a = e.httpRand(rctx, hc, c, true, r)
				}
				cancel()
				across := in0 || c.inBurst.Load() || c.burstSeq.Load() != b0
				e.judge(c, ep, class, r, a, across, ep != "grpc-publicrand")
			}
		}()
	}
	// waiter clients: requests for head+1 issued at random instants between two stores (a request issued right
	// after a store only ever sees the quiet part of the interval; the interesting instant is the next store)
	waiters := vfPick(48, 64)
	var shared []*grpc.ClientConn
	for i := 0; i < 4; i++ {
		if cn, err := vfnDial(ports.Priv); err == nil {
			shared = append(shared, cn)
			defer cn.Close()
		}
	}
	hcW := &http.Client{Timeout: 10 * time.Second, Transport: &http.Transport{MaxIdleConnsPerHost: 64}}
	for w := 0; w < waiters && len(shared) > 0; w++ {
		wrng := vfNewRng(vfCaseSeed(seed, "C01-waiter", w))
		pub := drand.NewPublicClient(shared[w%len(shared)])
		wg.Add(1)
		go func() {
			defer wg.Done()
			for !done.Load() {
				time.Sleep(time.Duration(wrng.Intn(12000)) * time.Microsecond)
				c := e.chains[wrng.Intn(len(e.chains))]
				head := vfnHead(c.bp)
				if head < 3 {
					continue
				}
				r := head + 1
				b0, in0 := c.burstSeq.Load(), c.inBurst.Load()
				rctx, cancel := context.WithTimeout(ctx, 6*time.Second)
				var a c01Ans
				ep := "grpc-publicrand"
				switch wrng.Intn(5) {
				case 0:
					ep = "http-hash-public"
					a = e.httpRand(rctx, hcW, c, true, r)
				default:
					a = e.grpcRand(rctx, pub, c, r)
				}
				cancel()
				across := in0 || c.inBurst.Load() || c.burstSeq.Load() != b0
				e.judge(c, ep, "head+1", r, a, across, ep != "grpc-publicrand")
			}
		}()
	}
	producers.Wait()
	done.Store(true)
	wg.Wait()
	for _, c := range e.chains {
		run.Sample(map[string]any{"chain": c.name, "scheme": c.Scheme.Name, "head": vfnHead(c.bp), "bursts": c.burstSeq.Load()})
	}
}

func TestVF_C01Public(t *testing.T) {
	run := vfNewRun("C01", "daemonnet-public")
	dir := t.TempDir()
	completed := false
	defer func() {
		run.Finish()
		vfnRaceExit(completed, func() { _ = os.RemoveAll(dir) })
	}()
	c01Body(t, run, dir)
	completed = true
}
