package core

// C15, file part seen from outside the process: a child that generates a key pair, saves key / group /
// share through key.NewFileStore and creates dkg.db through dkg.NewDKGStore + MigrateFromGroupfile runs
// under `strace -f`.  The parent replays the openat / chmod / fchmod / write sequence: at the moment
// bytes of a secret are written to a file, that file's mode must have no group/other bit (umask 022).

import (
	"bufio"
	"fmt"
	"os"
	"os/exec"
	"path/filepath"
	"regexp"
	"strconv"
	"strings"
	"syscall"
	"testing"
	"time"

	"github.com/drand/drand/v2/common"
	"github.com/drand/drand/v2/crypto"
	"github.com/drand/drand/v2/internal/dkg"
)

const c15StraceID = "vfstrace"

func c15StraceChain(seed uint64) (*vfnChain, error) {
	return vfnMakeChain(vfNewRng(vfCaseSeed(seed, "C15-strace", 0)), c15StraceID, crypto.DefaultSchemeID, []string{"127.0.0.1:4444"}, 1, time.Second, 0, 1700000000)
}

// TestVFChild_C15Keys is the traced process. It does nothing unless VF_C15_STRACE_DIR is set.
func TestVFChild_C15Keys(t *testing.T) {
	dir := os.Getenv("VF_C15_STRACE_DIR")
	if dir == "" {
		return
	}
	syscall.Umask(0o022)
	c, err := c15StraceChain(vfSeed())
	if err != nil {
		t.Fatal(err)
	}
	if err := vfnWriteMember(dir, c, 0, true); err != nil {
		t.Fatal(err)
	}
	st, err := dkg.NewDKGStore(dir)
	if err != nil {
		t.Fatal(err)
	}
	if err := st.MigrateFromGroupfile(c.ID, c.Group, c.Shares[0]); err != nil {
		t.Fatal(err)
	}
	_ = st.Close()
	// a second save of the share over the existing file (what a reshare does)
	if err := vfnWriteMember(dir, c, 0, true); err != nil {
		t.Fatal(err)
	}
}

var (
	c15StLine    = regexp.MustCompile(`^(\d+)\s+(.*)$`)
	c15StResumed = regexp.MustCompile(`^<\.\.\. (\w+) resumed>(.*)$`)
	c15StCall    = regexp.MustCompile(`^(\w+)\((.*)\)\s+= (-?\d+)`)
	c15StQuoted  = regexp.MustCompile(`"((?:[^"\\]|\\.)*)"`)
)

func c15StraceRun(t *testing.T, run *vfRun) {
	strace, err := exec.LookPath("strace")
	if err != nil {
		run.Note("strace not installed: syscall-level file check skipped")
		return
	}
	dir, err := os.MkdirTemp("", "vfc15st-")
	if err != nil {
		t.Fatal(err)
	}
	defer os.RemoveAll(dir)
	logp := filepath.Join(dir, "strace.log")
	work := filepath.Join(dir, "node")
	_ = os.MkdirAll(work, 0o755)
	cmd := exec.Command(strace, "-f", "-o", logp, "-s", "4000000", "-x",
		"-e", "trace=open,openat,creat,chmod,fchmod,fchmodat,write,pwrite64,writev,close,rename,renameat,renameat2",
		os.Args[0], "-test.run=^TestVFChild_C15Keys$")
	var env []string
	for _, kv := range os.Environ() {
		if !strings.HasPrefix(kv, "VF_OUT=") && !strings.HasPrefix(kv, "GORACE=") {
			env = append(env, kv)
		}
	}
	cmd.Env = append(env, "VF_C15_STRACE_DIR="+work)
	out, err := cmd.CombinedOutput()
	if err != nil {
		run.Note("strace child failed (" + err.Error() + "): syscall-level file check skipped: " + vfnTrunc(string(out), 200))
		return
	}
	c, err := c15StraceChain(vfSeed())
	if err != nil {
		t.Fatal(err)
	}
	sc := &c15Scanner{byRaw: map[string]bool{}, snapSeen: map[string]bool{}, hookN: map[string]int{}}
	sc.addScalar("strace-node/long-term-key", "key", c.Pairs[0].Key)
	sc.addScalar("strace-node/share/epoch1", "share", c.Shares[0].PrivateShare().V)

	f, err := os.Open(logp)
	if err != nil {
		t.Fatal(err)
	}
	defer f.Close()
	rd := bufio.NewReaderSize(f, 1<<20)
	pending := map[string]string{}
	fdPath := map[int]string{}
	mode := map[string]uint32{}
	known := map[string]bool{}
	secretWrites, okWrites := 0, 0
	unescape := func(s string) string {
		var b strings.Builder
		for i := 0; i < len(s); i++ {
			if s[i] == '\\' && i+3 < len(s) && s[i+1] == 'x' {
				if v, err := strconv.ParseUint(s[i+2:i+4], 16, 8); err == nil {
					b.WriteByte(byte(v))
					i += 3
					continue
				}
			}
			if s[i] == '\\' && i+1 < len(s) {
				switch s[i+1] {
				case 'n':
					b.WriteByte('\n')
				case 't':
					b.WriteByte('\t')
				case 'r':
					b.WriteByte('\r')
				case '"':
					b.WriteByte('"')
				case '\\':
					b.WriteByte('\\')
				default:
					b.WriteByte(s[i+1])
				}
				i++
				continue
			}
			b.WriteByte(s[i])
		}
		return b.String()
	}
	inWork := func(p string) bool { return strings.HasPrefix(p, work) }
	for {
		line, err := rd.ReadString('\n')
		if line == "" && err != nil {
			break
		}
		line = strings.TrimRight(line, "\n")
		m := c15StLine.FindStringSubmatch(line)
		if m == nil {
			continue
		}
		pid, rest := m[1], m[2]
		if strings.HasSuffix(rest, "<unfinished ...>") {
			pending[pid] = strings.TrimSuffix(rest, "<unfinished ...>")
			continue
		}
		if r := c15StResumed.FindStringSubmatch(rest); r != nil {
			rest = pending[pid] + r[2]
			delete(pending, pid)
		}
		cm := c15StCall.FindStringSubmatch(rest)
		if cm == nil {
			continue
		}
		name, args := cm[1], cm[2]
		ret, _ := strconv.Atoi(cm[3])
		run.Count("strace.syscalls", 1)
		switch name {
		case "open", "openat", "creat":
			q := c15StQuoted.FindStringSubmatch(args)
			if q == nil || ret < 0 {
				continue
			}
			p := unescape(q[1])
			fdPath[ret] = p
			if !inWork(p) {
				continue
			}
			if (strings.Contains(args, "O_CREAT") || name == "creat") && !known[p] {
				// creation mode is the last argument
				parts := strings.Split(args, ",")
				if v, err := strconv.ParseUint(strings.TrimSpace(parts[len(parts)-1]), 8, 32); err == nil {
					mode[p] = uint32(v) &^ 0o022
				}
			}
			known[p] = true
		case "chmod", "fchmodat":
			q := c15StQuoted.FindStringSubmatch(args)
			parts := strings.Split(args, ",")
			idx := 1
			if name == "fchmodat" {
				idx = 2
			}
			if q != nil && ret == 0 && len(parts) > idx {
				if v, err := strconv.ParseUint(strings.TrimSpace(parts[idx]), 8, 32); err == nil {
					mode[unescape(q[1])] = uint32(v)
				}
			}
		case "fchmod":
			parts := strings.Split(args, ",")
			if fd, err := strconv.Atoi(strings.TrimSpace(parts[0])); err == nil && ret == 0 && len(parts) > 1 {
				if v, err := strconv.ParseUint(strings.TrimSpace(parts[1]), 8, 32); err == nil {
					mode[fdPath[fd]] = uint32(v)
				}
			}
		case "close":
			if fd, err := strconv.Atoi(strings.TrimSpace(args)); err == nil {
				delete(fdPath, fd)
			}
		case "rename", "renameat", "renameat2":
			qs := c15StQuoted.FindAllStringSubmatch(args, -1)
			if len(qs) >= 2 && ret == 0 {
				o, n := unescape(qs[0][1]), unescape(qs[1][1])
				mode[n], known[n] = mode[o], true
			}
		case "write", "pwrite64", "writev":
			parts := strings.SplitN(args, ",", 2)
			fd, err := strconv.Atoi(strings.TrimSpace(parts[0]))
			if err != nil || len(parts) < 2 {
				continue
			}
			p := fdPath[fd]
			if !inWork(p) {
				continue
			}
			run.Count("strace.writes_to_node_files", 1)
			var payload strings.Builder
			for _, q := range c15StQuoted.FindAllStringSubmatch(parts[1], -1) {
				payload.WriteString(unescape(q[1]))
			}
			hits := sc.find([]byte(payload.String()))
			if len(hits) == 0 {
				continue
			}
			secretWrites++
			md := mode[p]
			base := filepath.Base(p)
			run.Eval(fmt.Sprintf("strace/%s/%s/%o", base, name, md))
			if md&0o077 == 0 {
				okWrites++
				continue
			}
			which := "group-or-other-bits"
			switch {
			case md&0o004 != 0 && md&0o040 != 0:
				which = "group+world-readable"
			case md&0o004 != 0:
				which = "world-readable"
			case md&0o040 != 0:
				which = "group-readable"
			}
			run.Violation(fmt.Sprintf("C15/file-mode/%s/%s", base, which),
				fmt.Sprintf("strace: %s(%s) writes %s (%s) while the file's mode is %04o (umask 022)", name, strings.TrimPrefix(p, work), hits[0].sec.name, hits[0].enc, md),
				map[string]any{"case_index": -1, "file": strings.TrimPrefix(p, work), "mode": fmt.Sprintf("%04o", md), "event": "strace:" + name, "secret": hits[0].sec.name})
		}
		if err != nil {
			break
		}
	}
	run.Count("strace.secret_writes", int64(secretWrites))
	run.Count("strace.secret_writes_to_owner_only_files", int64(okWrites))
	// canary of this channel: the writes of the key file and of the share file must have been seen
	if okWrites < 2 {
		t.Errorf("C15 harness: strace replay saw only %d owner-only secret writes (key file + share file expected): parser blind", okWrites)
	}
	_ = common.DefaultBeaconID
}
