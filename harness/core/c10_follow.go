package core

// C10, daemon level (engine D, run "daemonnet-follow"): chain sync through the real daemon's control API.
//
// One child process per case runs a 3-member producing network (c13Net: real DKG, loopback gRPC, file key stores,
// bolt) and then
//   (1) FOLLOW: fresh non-member daemons follow the chain with Control.StartFollowChain (chain hash, peer list,
//       upTo = head-k or 0 = keep following). The peer list mixes a dead address and honest members; a stream
//       interceptor on the follower's outgoing Protocol.SyncChain calls cuts the first stream after k beacons, lets
//       it go silent after k beacons, or refuses every stream of the first attempt. Oracle: every Put on the
//       follower's base store (vfhook wrap core.dbstore) verifies under the chain key the harness took from the
//       members, carries the bytes the network holds, is written at head+1; the follower reaches the requested round
//       within a generous number of periods; the closed store re-read offline is the network's chain.
//   (2) CHECK / REPAIR: a member is stopped, its drand.db damaged (one round deleted, one signature bit-flipped),
//       the daemon re-created on its folder; Control.StartCheckChain is run as dry run, as a repair limited by upTo,
//       and as a full repair. The reported number of faulty rounds (all the control API reports) and the list
//       ValidateChain returns are compared with the damage (+ successors on the chained scheme, which genuinely
//       cannot be read back); the repair must write exactly the reported rounds and afterwards every round must be
//       what the other nodes hold.

import (
	"bytes"
	"context"
	"encoding/json"
	"errors"
	"fmt"
	"io"
	"os"
	"path/filepath"
	"sort"
	"strings"
	"sync"
	"syscall"
	"testing"
	"time"

	"github.com/drand/kyber"

	"github.com/drand/drand/v2/common"
	public "github.com/drand/drand/v2/common/chain"
	dlog "github.com/drand/drand/v2/common/log"
	"github.com/drand/drand/v2/crypto"
	"github.com/drand/drand/v2/internal/chain"
	"github.com/drand/drand/v2/internal/chain/boltdb"
	chainerrors "github.com/drand/drand/v2/internal/chain/errors"
	"github.com/drand/drand/v2/internal/net"
	"github.com/drand/drand/v2/internal/test"
	"github.com/drand/drand/v2/protobuf/drand"
)

type c10Params struct {
	CaseIndex int    `json:"case_index"`
	Scheme    string `json:"scheme"`
	Seed      uint64 `json:"case_seed"`
}

func c10DaemonCases() []c10Params {
	schemes := c13SchemeList()
	var out []c10Params
	n := vfPick(2, 5)
	for i := 0; i < n; i++ {
		cs := vfCaseSeed(vfSeed(), "C10-daemon", i)
		p := c10Params{CaseIndex: i, Seed: cs}
		switch {
		case vfThorough():
			p.Scheme = schemes[i]
		case i == 0:
			p.Scheme = schemes[0] // chained: a damaged round also makes its successor unreadable
		default:
			p.Scheme = schemes[1+vfNewRng(cs).Intn(4)]
		}
		out = append(out, p)
	}
	return out
}

func TestVF_C10_Daemon(t *testing.T) {
	run := vfNewRun("C10", "daemonnet-follow-parent")
	defer run.Finish()
	cases := c10DaemonCases()
	if idx, ok := vfReplayCase(); ok {
		var sel []c10Params
		for _, c := range cases {
			if c.CaseIndex == idx {
				sel = append(sel, c)
			}
		}
		cases = sel
	}
	dir := t.TempDir()
	var wg sync.WaitGroup
	sem := make(chan struct{}, 5)
	for _, c := range cases {
		wg.Add(1)
		go func(c c10Params) {
			defer wg.Done()
			sem <- struct{}{}
			defer func() { <-sem }()
			pj, _ := json.Marshal(c)
			logf := filepath.Join(dir, fmt.Sprintf("case-%d.log", c.CaseIndex))
			rc, tail := c13RunChild(t, "^TestVFChild_C10Daemon$", []string{"VF_C10_SCENARIO=" + string(pj), "VF_C10_DIR=" + filepath.Join(dir, fmt.Sprintf("case-%d", c.CaseIndex))}, logf, 22*time.Minute)
			run.Count("scenario_children", 1)
			if rc != 0 {
				t.Errorf("C10 daemon child for case %d exited with %d:\n%s", c.CaseIndex, rc, tail)
			}
		}(c)
	}
	wg.Wait()
}

// ---------------------------------------------------------------- monitor

type c10Follow struct {
	Name     string   `json:"scenario"`
	Plan     string   `json:"fault"` // none | close-after-k | stall-after-k | refuse-first-attempt
	K        int      `json:"k"`
	UpToBack int      `json:"upto_back"` // 0: upTo = 0 (keep following)
	Peers    []string `json:"peers"`
	Follower int      `json:"follower"`

	node *c13Node
	live map[string]bool

	mu        sync.Mutex
	faultUsed bool
	faultAt   uint64 // follower's head when the fault was armed
	refused   map[string]bool
	allowed   bool
	opensAtOK int // streams opened when the injected refusals ended
	retried   int // streams to live peers opened after the refusals ended
	opens     int
	last      uint64
	has       bool
	puts      int
	headStart uint64
}

type c10Mon struct {
	run *vfRun
	p   c10Params
	nt  *c13Net
	sch *crypto.Scheme

	mu        sync.Mutex
	pub       kyber.Point
	ref       map[uint64][]byte // what the network holds (first Put of a member)
	members   map[int]bool
	followers map[int]*c10Follow

	// check / repair
	victim    *c13Node
	phase     string
	phaseHead uint64
	oldPuts   map[string][]uint64 // phase -> rounds <= phaseHead written while the phase ran
}

func (m *c10Mon) ci(extra map[string]any) map[string]any {
	c := map[string]any{"case_index": m.p.CaseIndex, "params": m.p}
	for k, v := range extra {
		c[k] = v
	}
	return c
}

func (m *c10Mon) onPut(n *c13Node, after bool, b *common.Beacon, err error) {
	if !after || err != nil || n == nil {
		return
	}
	m.mu.Lock()
	defer m.mu.Unlock()
	if m.members[n.idx] {
		if _, ok := m.ref[b.Round]; !ok && (m.victim == nil || n != m.victim) {
			m.ref[b.Round] = append([]byte(nil), b.Signature...)
		}
		if m.victim != nil && n == m.victim && m.phase != "" && b.Round <= m.phaseHead && b.Round > 0 {
			m.oldPuts[m.phase] = append(m.oldPuts[m.phase], b.Round)
		}
		return
	}
	fs := m.followers[n.idx]
	if fs == nil {
		return
	}
	fs.mu.Lock()
	defer fs.mu.Unlock()
	fs.puts++
	info := map[string]any{"scenario": fs.Name, "follower": n.idx, "round": b.Round, "follow": fs}
	if b.Round == 0 {
		if want, ok := m.ref[0]; ok && !bytes.Equal(want, b.Signature) {
			m.run.Violation("C10/follower-wrong-genesis/daemon", fmt.Sprintf("follower stores genesis %s, the network holds %s", vfHex(b.Signature), vfHex(want)), m.ci(info))
		}
		if !fs.has {
			fs.has, fs.last = true, 0
		}
		return
	}
	phase := "before-fault"
	switch {
	case b.Round > fs.headStart:
		phase = "live"
	case fs.Plan == "none":
		phase = "no-fault"
	case fs.faultUsed || fs.allowed:
		phase = "after-fault"
	}
	m.run.Eval(fmt.Sprintf("follow/%s/put/%s", fs.Name, phase))
	m.run.Count("follower_puts", 1)
	if m.pub != nil {
		if verr := m.sch.VerifyBeacon(b, m.pub); verr != nil {
			m.run.Violation("C10/unverified-beacon-stored/follow/daemon", fmt.Sprintf("follower stored round %d which does not verify under the chain key: %v", b.Round, verr), m.ci(info))
		}
	}
	if want, ok := m.ref[b.Round]; ok && !bytes.Equal(want, b.Signature) {
		m.run.Violation("C10/follower-stored-foreign-bytes/daemon", fmt.Sprintf("follower stored %s for round %d, the network holds %s", vfHex(b.Signature), b.Round, vfHex(want)), m.ci(info))
	}
	if !fs.has || b.Round != fs.last+1 {
		m.run.Violation("C10/out-of-order-stored/follow/daemon", fmt.Sprintf("follower stored round %d when its head was %d (has=%v)", b.Round, fs.last, fs.has), m.ci(info))
	}
	fs.has, fs.last = true, b.Round
}

// onStream scripts the follower's outgoing SyncChain streams.
func (m *c10Mon) onStream(from *c13Node, method, target string) *c13StreamFault {
	if method != drand.Protocol_SyncChain_FullMethodName {
		return nil
	}
	m.mu.Lock()
	fs := m.followers[from.idx]
	m.mu.Unlock()
	if fs == nil {
		return nil
	}
	fs.mu.Lock()
	defer fs.mu.Unlock()
	fs.opens++
	m.run.Count("follower_syncchain_streams_opened", 1)
	if !fs.live[target] {
		return nil // the dead address fails on its own
	}
	switch fs.Plan {
	case "close-after-k":
		if !fs.faultUsed {
			fs.faultUsed, fs.faultAt = true, fs.last
			m.run.Count("streams_cut_after_k", 1)
			return &c13StreamFault{CloseAfter: fs.K, StallAfter: -1}
		}
	case "stall-after-k":
		if !fs.faultUsed {
			fs.faultUsed, fs.faultAt = true, fs.last
			m.run.Count("streams_stalled_after_k", 1)
			return &c13StreamFault{CloseAfter: -1, StallAfter: fs.K}
		}
	case "refuse-first-attempt":
		if fs.allowed {
			fs.retried++
		}
		if !fs.allowed {
			fs.refused[target] = true
			m.run.Count("streams_refused", 1)
			if len(fs.refused) >= len(fs.live) {
				fs.allowed = true // every live peer refused once: the first attempt has failed as a whole
				fs.opensAtOK = fs.opens
			}
			return &c13StreamFault{FailOpen: true}
		}
	}
	return nil
}

func (m *c10Mon) networkHead(members []*c13Node) uint64 {
	var h uint64
	for _, n := range members {
		if x, ok := m.nt.head(n); ok && x > h {
			h = x
		}
	}
	return h
}

// ---------------------------------------------------------------- child

func TestVFChild_C10Daemon(t *testing.T) {
	pj := os.Getenv("VF_C10_SCENARIO")
	if pj == "" {
		t.Skip("child entry point")
	}
	syscall.Umask(0o022)
	var p c10Params
	if err := json.Unmarshal([]byte(pj), &p); err != nil {
		t.Fatal(err)
	}
	run := vfNewRun("C10", "daemonnet-follow")
	defer run.Finish()
	dir := os.Getenv("VF_C10_DIR")
	if err := os.MkdirAll(dir, 0o750); err != nil {
		t.Fatal(err)
	}
	run.Sample(p)
	done := make(chan struct{})
	go func() {
		defer close(done)
		c10Main(t, run, p, dir)
	}()
	select {
	case <-done:
	case <-time.After(20 * time.Minute):
		run.Inconclusive("scenario watchdog (20 min) fired; goroutines:\n" + c13Short(vfGoroutineDump(), 6000))
	}
}

func c10Main(t *testing.T, run *vfRun, p c10Params, dir string) {
	sch, err := crypto.GetSchemeByID(p.Scheme)
	if err != nil {
		t.Fatal(err)
	}
	logFile, _ := os.Create(filepath.Join(dir, "daemons.log"))
	defer logFile.Close()
	lg := dlog.New(logFile, dlog.InfoLevel, true)
	nt := c13NewNet(t, lg, filepath.Join(dir, "nodes"), sch, time.Second, 0, chain.BoltDB)
	nt.onStopHang = func(n *c13Node, dump string) {
		run.Note(fmt.Sprintf("case %d: DrandDaemon.Stop of node %d did not return within 20 s:\n%s", p.CaseIndex, n.idx, dump))
		run.Count("daemon_stop_hangs", 1)
	}
	defer nt.close()
	m := &c10Mon{run: run, p: p, nt: nt, sch: sch, ref: map[uint64][]byte{}, members: map[int]bool{}, followers: map[int]*c10Follow{}, oldPuts: map[string][]uint64{}}
	fail := func(stage string, err error) {
		run.Inconclusive(fmt.Sprintf("case %d (%s): %s: %v\n%s", p.CaseIndex, p.Scheme, stage, err, c13LogErrors(filepath.Join(dir, "daemons.log"), 4)))
	}
	nt.onPut = m.onPut
	nt.onStream = m.onStream
	members, err := nt.addNodes(3)
	if err != nil {
		fail("create daemons", err)
		return
	}
	for _, n := range members {
		m.members[n.idx] = true
	}
	nt.startPacer()
	g1, err := nt.runInitialDKG(members, 2, 6*time.Second)
	if err != nil {
		fail("initial DKG", err)
		return
	}
	if time.Now().Unix() >= g1.GenesisTime {
		fail("initial DKG", errors.New("finished after genesis"))
		return
	}
	m.mu.Lock()
	m.pub = g1.PublicKey.Key()
	m.mu.Unlock()
	hashHex := public.NewChainInfo(g1).HashString()
	if _, ok := nt.waitHeads(members, 8, 40); !ok {
		fail("rounds after genesis", errors.New("network did not reach round 8 in 40 periods"))
		return
	}
	// the reference chain must itself verify (it is what the members stored)
	m.mu.Lock()
	for r, sig := range m.ref {
		if r == 0 {
			continue
		}
		b := &common.Beacon{Round: r, Signature: sig, PreviousSig: m.ref[r-1]}
		if verr := sch.VerifyBeacon(b, m.pub); verr != nil {
			m.mu.Unlock()
			fail("reference chain", fmt.Errorf("round %d held by the members does not verify: %v", r, verr))
			return
		}
	}
	m.mu.Unlock()

	rng := vfNewRng(p.Seed)
	dead := test.FreeBind("127.0.0.1") // nobody listens there
	mk := func(name, plan string, upToBack int, peers ...string) *c10Follow {
		fs := &c10Follow{Name: name, Plan: plan, K: 1 + rng.Intn(3), UpToBack: upToBack, refused: map[string]bool{}, live: map[string]bool{}}
		// order of the list is part of the case (the sync manager shuffles it anyway)
		for _, i := range rng.Perm(len(peers)) {
			fs.Peers = append(fs.Peers, peers[i])
			if peers[i] != dead {
				fs.live[peers[i]] = true
			}
		}
		return fs
	}
	a, b, c := members[0].addr, members[1].addr, members[2].addr
	scen := []*c10Follow{
		mk("upto/dead+honest", "none", 3, dead, a),
		mk("upto/dead+honest+cut-after-k", "close-after-k", 2+rng.Intn(3), dead, a, b),
		mk("keep-following/dead+honest+cut-after-k", "close-after-k", 0, dead, b, c),
		mk("upto/first-attempt-all-refused", "refuse-first-attempt", 2, dead, a, c),
		mk("upto/dead+honest+silent-after-k", "stall-after-k", 2, dead, a, b),
	}
	if rng.Bool() {
		scen[3].UpToBack = 0
		scen[3].Name = "keep-following/first-attempt-all-refused"
	}
	var wg sync.WaitGroup
	for _, fs := range scen {
		nodes, err := nt.addNodes(1)
		if err != nil {
			fail("create follower", err)
			return
		}
		fs.node, fs.Follower = nodes[0], nodes[0].idx
		m.mu.Lock()
		m.followers[fs.node.idx] = fs
		m.mu.Unlock()
		wg.Add(1)
		go func(fs *c10Follow) {
			defer wg.Done()
			c10RunFollow(run, m, members, fs, hashHex, dir)
		}(fs)
	}
	wg.Wait()

	c10CheckRepair(run, m, members, rng, hashHex, fail)
}

// ---------------------------------------------------------------- (1) follow

type c10RPC struct {
	mu       sync.Mutex
	last     *drand.SyncProgress
	msgs     int
	zero     []uint64 // targets of the messages with Current == 0
	ended    bool
	endErr   error
	endedCh  chan struct{}
	maxRound uint64
}

func c10Drain(progress chan *drand.SyncProgress, errCh chan error) *c10RPC {
	r := &c10RPC{endedCh: make(chan struct{})}
	go func() {
		defer close(r.endedCh)
		for progress != nil || errCh != nil {
			select {
			case p, ok := <-progress:
				if !ok {
					progress = nil
					continue
				}
				r.mu.Lock()
				r.msgs++
				r.last = p
				if p.Current == 0 {
					r.zero = append(r.zero, p.Target)
				}
				if p.Current > r.maxRound {
					r.maxRound = p.Current
				}
				r.mu.Unlock()
			case e, ok := <-errCh:
				if !ok {
					errCh = nil
					continue
				}
				r.mu.Lock()
				if !r.ended {
					r.ended, r.endErr = true, e
				}
				r.mu.Unlock()
			}
		}
		r.mu.Lock()
		r.ended = true
		r.mu.Unlock()
	}()
	return r
}

func (r *c10RPC) wait(d time.Duration) bool {
	select {
	case <-r.endedCh:
		return true
	case <-time.After(d):
		return false
	}
}

func c10RunFollow(run *vfRun, m *c10Mon, members []*c13Node, fs *c10Follow, hashHex, dir string) {
	nt := m.nt
	head := m.networkHead(members)
	fs.mu.Lock()
	fs.headStart = head
	fs.mu.Unlock()
	upTo := uint64(0)
	target := head
	if fs.UpToBack > 0 {
		upTo = head - uint64(fs.UpToBack)
		target = upTo
	}
	ci := func() map[string]any {
		fs.mu.Lock()
		defer fs.mu.Unlock()
		return m.ci(map[string]any{"scenario": fs.Name, "follower": fs.node.idx, "follow": fs, "up_to": upTo, "head_at_start": head,
			"follower_head": fs.last, "streams_opened": fs.opens})
	}
	ctx, cancel := context.WithCancel(context.Background())
	defer cancel()
	progress, errCh, err := fs.node.ctrl.StartFollowChain(ctx, hashHex, fs.Peers, upTo, nt.beaconID)
	if err != nil {
		run.Inconclusive(fmt.Sprintf("case %d %s: StartFollowChain: %v", m.p.CaseIndex, fs.Name, err))
		return
	}
	rpc := c10Drain(progress, errCh)
	run.Count("follow_requests", 1)
	reached := func() bool {
		fs.mu.Lock()
		defer fs.mu.Unlock()
		return fs.has && fs.last >= target
	}
	const maxPeriods = 25
	start := members[0].clock.Now()
	ok := false
	for {
		if reached() {
			ok = true
			break
		}
		if int(members[0].clock.Now().Sub(start)/nt.period) >= maxPeriods {
			break
		}
		time.Sleep(50 * time.Millisecond)
	}
	run.Eval(fmt.Sprintf("follow/%s/convergence", fs.Name))
	if !ok {
		// grace in real time, then the verdict is taken from the goroutine dump
		graceEnd := time.Now().Add(30 * time.Second)
		for time.Now().Before(graceEnd) && !reached() {
			time.Sleep(200 * time.Millisecond)
		}
		if reached() {
			run.Inconclusive(fmt.Sprintf("case %d %s: target %d reached only in the grace period", m.p.CaseIndex, fs.Name, target))
			ok = true
		} else {
			dump := vfGoroutineDump()
			nilSend := c13FilterDump(dump, "chan send (nil chan)")
			parked := c13FilterDump(dump, "SyncManager).tryNode")
			info := ci()
			fs.mu.Lock()
			noRetry := fs.Plan == "refuse-first-attempt" && fs.allowed && fs.retried == 0
			opens, liveOpens := fs.opens, fs.opensAtOK
			fs.mu.Unlock()
			switch {
			// the dump is process-wide (five followers live in this process): the verdict rests on this follower's
			// own streams — none was opened after the refusals ended — and the dump shows where its retry loop is
			case noRetry && strings.Contains(nilSend, "StartFollowChain"):
				run.Violation("C10/follow-never-retries-after-failed-attempt/daemon", fmt.Sprintf(
					"StartFollowChain (peers %v, upTo %d): every SyncChain stream of the first attempt was refused (%d streams), from then on the peers would answer; in the following %d periods + 30 s the follower opened no stream to a live peer (%d streams in total), it is at round %d (target %d, network head %d). The goroutine that runs syncer.Sync is parked sending its result on a nil channel (drand_beacon_control.go: `var errChan chan error`), so the retry branch `case <-errChan` can never fire:\n%s",
					fs.Peers, upTo, liveOpens, maxPeriods, opens, info["follower_head"], target, m.networkHead(members), nilSend), info)
			case fs.Plan == "stall-after-k" && strings.Contains(parked, "[select"):
				run.Violation("C10/sync-parked-on-silent-peer/follow", fmt.Sprintf(
					"StartFollowChain through the daemon (peers %v, upTo %d): the first peer went silent after %d beacons; an honest peer is in the list, yet after %d periods + 30 s the follower is at round %d (target %d) and has opened %d stream(s); tryNode is parked:\n%s",
					fs.Peers, upTo, fs.K, maxPeriods, info["follower_head"], target, opens, parked), info)
			default:
				run.Violation("C10/follow-does-not-converge/"+fs.Plan+"/daemon", fmt.Sprintf(
					"StartFollowChain (peers %v, upTo %d) with an honest peer in the list: follower at round %d after %d periods + 30 s (target %d)\n%s",
					fs.Peers, upTo, info["follower_head"], maxPeriods, target, c13FilterDump(dump, "StartFollowChain", "SyncManager).")), info)
			}
		}
	}
	if ok && upTo == 0 {
		// keep following: the follower must now receive the new rounds as they are produced
		liveTarget := m.networkHead(members) + 3
		start := members[0].clock.Now()
		for {
			fs.mu.Lock()
			l := fs.last
			fs.mu.Unlock()
			if l >= liveTarget {
				run.Count("keep_following_live_rounds_ok", 1)
				break
			}
			if int(members[0].clock.Now().Sub(start)/nt.period) >= 20 {
				time.Sleep(20 * time.Second)
				fs.mu.Lock()
				l = fs.last
				fs.mu.Unlock()
				if l < liveTarget {
					run.Violation("C10/keep-following-stops-at-head/daemon", fmt.Sprintf("StartFollowChain upTo=0: follower reached round %d and then stayed there while the network went on to %d\n%s",
						l, m.networkHead(members), c13FilterDump(vfGoroutineDump(), "StartFollowChain", "SyncManager).")), ci())
				}
				break
			}
			time.Sleep(50 * time.Millisecond)
		}
		run.Eval(fmt.Sprintf("follow/%s/live", fs.Name))
	}
	if ok && upTo != 0 {
		// the request is complete: the RPC must end by itself
		if !rpc.wait(15 * time.Second) {
			run.Violation("C10/follow-rpc-does-not-end/daemon", fmt.Sprintf("StartFollowChain upTo=%d: the follower stored round %d but the RPC has not ended 15 s later", upTo, upTo), ci())
		} else {
			rpc.mu.Lock()
			e := rpc.endErr
			rpc.mu.Unlock()
			if e != nil && !errors.Is(e, io.EOF) {
				run.Violation("C10/follow-rpc-ends-with-error/daemon", fmt.Sprintf("StartFollowChain upTo=%d reached its target but ended with: %v", upTo, e), ci())
			}
		}
		fs.mu.Lock()
		over := fs.last > upTo
		l := fs.last
		fs.mu.Unlock()
		if over {
			run.Violation("C10/follow-stores-beyond-upto/daemon", fmt.Sprintf("StartFollowChain upTo=%d stored up to round %d", upTo, l), ci())
		}
	}
	cancel()
	if !rpc.wait(15 * time.Second) {
		run.Note(fmt.Sprintf("case %d %s: the StartFollowChain RPC did not end within 15 s of its cancellation", m.p.CaseIndex, fs.Name))
		return
	}
	// offline: the follower's closed store is the network's chain
	time.Sleep(300 * time.Millisecond)
	c10ScanFollower(run, m, fs, ci)
}

func c10ScanFollower(run *vfRun, m *c10Mon, fs *c10Follow, ci func() map[string]any) {
	type res struct {
		n    int
		head uint64
		bad  string
	}
	out := make(chan res, 1)
	go func() {
		var r res
		defer func() {
			if p := recover(); p != nil {
				r.bad = fmt.Sprintf("panic: %v", p)
			}
			out <- r
		}()
		ctx := context.Background()
		if m.sch.Name == crypto.DefaultSchemeID {
			ctx = chain.SetPreviousRequiredOnContext(ctx)
		}
		st, err := boltdb.NewBoltStore(ctx, m.nt.log, filepath.Join(fs.node.folder, "multibeacon", m.nt.beaconID, "db"))
		if err != nil {
			r.bad = "open: " + err.Error()
			return
		}
		defer st.Close()
		next := uint64(0)
		_ = st.Cursor(ctx, func(ctx context.Context, cu chain.Cursor) error {
			b, err := cu.First(ctx)
			for ; err == nil && b != nil; b, err = cu.Next(ctx) {
				if b.Round != next {
					r.bad = fmt.Sprintf("gap: round %d where %d was expected", b.Round, next)
					return nil
				}
				m.mu.Lock()
				want, known := m.ref[b.Round]
				m.mu.Unlock()
				if known && !bytes.Equal(want, b.Signature) {
					r.bad = fmt.Sprintf("round %d differs from what the network holds", b.Round)
					return nil
				}
				if b.Round > 0 {
					if verr := m.sch.VerifyBeacon(b, m.pub); verr != nil {
						r.bad = fmt.Sprintf("round %d does not verify: %v", b.Round, verr)
						return nil
					}
				}
				next++
				r.n++
				r.head = b.Round
			}
			if err != nil && !errors.Is(err, chainerrors.ErrNoBeaconStored) {
				r.bad = "scan: " + err.Error()
			}
			return nil
		})
	}()
	select {
	case r := <-out:
		run.Eval(fmt.Sprintf("follow/%s/offline-scan", fs.Name))
		run.Count("follower_rounds_rescanned", int64(r.n))
		fs.mu.Lock()
		last := fs.last
		fs.mu.Unlock()
		switch {
		case r.bad != "":
			run.Violation("C10/follower-store-not-the-chain/daemon", "re-reading the follower's drand.db after the follow ended: "+r.bad, ci())
		case r.n > 0 && r.head != last:
			run.Violation("C10/follower-store-not-the-chain/daemon", fmt.Sprintf("the follower's drand.db ends at round %d, its last acknowledged Put was round %d", r.head, last), ci())
		}
	case <-time.After(20 * time.Second):
		run.Note(fmt.Sprintf("case %d %s: follower store still locked 20 s after the RPC ended (not re-read)", m.p.CaseIndex, fs.Name))
	}
}

// ---------------------------------------------------------------- (2) check / repair

func c10CheckRepair(run *vfRun, m *c10Mon, members []*c13Node, rng *vfRng, hashHex string, fail func(string, error)) {
	nt := m.nt
	victim := members[1+rng.Intn(2)]
	var others []*c13Node
	var otherAddrs []string
	for _, n := range members {
		if n != victim {
			others = append(others, n)
			otherAddrs = append(otherAddrs, n.addr)
		}
	}
	h := m.networkHead(members)
	if h < 14 {
		if _, ok := nt.waitHeads(members, 14, 30); !ok {
			fail("check/repair", errors.New("chain too short"))
			return
		}
		h = m.networkHead(members)
	}
	// damage: not the head, not head-1, not adjacent to each other (successors stay distinguishable)
	r := uint64(2 + rng.Intn(int(h/2)-2))
	q := r + 3 + uint64(rng.Intn(int(h-3-(r+3))+1))
	chained := m.sch.Name == crypto.DefaultSchemeID
	expected := map[uint64]string{r: "deleted", q: "corrupted"}
	if chained {
		expected[r+1] = "successor-of-deleted"
		expected[q+1] = "successor-of-corrupted"
	}
	m.mu.Lock()
	m.victim = victim
	m.mu.Unlock()
	if ok, dump := nt.stopNode(victim); !ok {
		run.Note("check/repair skipped: the member's DrandDaemon.Stop did not return:\n" + dump)
		run.Count("daemon_stop_hangs", 1)
		run.Inconclusive("check/repair: member did not stop")
		return
	}
	dmgErr := make(chan error, 1)
	go func() {
		ctx := context.Background()
		if chained {
			ctx = chain.SetPreviousRequiredOnContext(ctx)
		}
		st, err := boltdb.NewBoltStore(ctx, nt.log, filepath.Join(victim.folder, "multibeacon", nt.beaconID, "db"))
		if err != nil {
			dmgErr <- err
			return
		}
		defer st.Close()
		bq, err := st.Get(ctx, q)
		if err != nil {
			dmgErr <- fmt.Errorf("get %d: %w", q, err)
			return
		}
		bad := *bq
		bad.Signature = append([]byte(nil), bq.Signature...)
		bad.Signature[len(bad.Signature)/2] ^= 0x10
		if err := st.Put(ctx, &bad); err != nil {
			dmgErr <- fmt.Errorf("put corrupted %d: %w", q, err)
			return
		}
		dmgErr <- st.Del(ctx, r)
	}()
	select {
	case err := <-dmgErr:
		if err != nil {
			fail("damaging the stopped member's store", err)
			return
		}
	case <-time.After(20 * time.Second):
		fail("damaging the stopped member's store", errors.New("drand.db still locked 20 s after Stop"))
		return
	}
	dmg := map[string]any{"victim": victim.idx, "deleted": r, "corrupted": q, "chained": chained, "head_at_damage": h}
	run.Sample(map[string]any{"case_index": m.p.CaseIndex, "damage": dmg})
	if err := nt.restartNode(victim); err != nil {
		fail("re-creating the member's daemon", err)
		return
	}
	ctrl, err := net.NewControlClient(nt.log, victim.ctrlPort)
	if err != nil {
		fail("control client", err)
		return
	}
	defer ctrl.Close()
	victim.ctrl = ctrl
	if _, ok := nt.waitHeads([]*c13Node{victim}, m.networkHead(others), 40); !ok {
		fail("member catching up after its restart", errors.New("not at the head after 40 periods"))
		return
	}

	want := func(upTo uint64) []uint64 {
		var w []uint64
		for k := range expected {
			if k <= upTo {
				w = append(w, k)
			}
		}
		sort.Slice(w, func(i, j int) bool { return w[i] < w[j] })
		return w
	}
	// validate reads the list of faulty rounds exactly as StartCheckChain computes it (the RPC reports its length)
	validate := func(upTo uint64) ([]uint64, error) {
		bp := victim.curBP()
		bp.state.RLock()
		hd := bp.beacon
		bp.state.RUnlock()
		if hd == nil {
			return nil, errors.New("no beacon handler")
		}
		return hd.ValidateChain(context.Background(), upTo, nil)
	}
	// check runs one StartCheckChain request and returns the announced number of faulty rounds
	check := func(phase string, nodes []string, upTo uint64) (count uint64, ok bool) {
		m.mu.Lock()
		m.phase, m.phaseHead = phase, upTo
		m.mu.Unlock()
		defer func() {
			time.Sleep(300 * time.Millisecond)
			m.mu.Lock()
			m.phase = ""
			m.mu.Unlock()
		}()
		var rpc *c10RPC
		for attempt := 0; ; attempt++ {
			ctx, cancel := context.WithCancel(context.Background())
			defer cancel()
			progress, errCh, err := ctrl.StartCheckChain(ctx, hashHex, nodes, upTo, nt.beaconID)
			if err != nil {
				run.Inconclusive(fmt.Sprintf("case %d %s: StartCheckChain: %v", m.p.CaseIndex, phase, err))
				return 0, false
			}
			rpc = c10Drain(progress, errCh)
			if !rpc.wait(90 * time.Second) {
				run.Violation("C10/check-chain-rpc-does-not-end/"+phase, fmt.Sprintf("StartCheckChain(nodes=%v, upTo=%d) has not ended after 90 s\n%s", nodes, upTo,
					c13FilterDump(vfGoroutineDump(), "StartCheckChain", "SyncManager).")), m.ci(map[string]any{"damage": dmg, "phase": phase}))
				return 0, false
			}
			rpc.mu.Lock()
			e := rpc.endErr
			rpc.mu.Unlock()
			if e != nil && strings.Contains(e.Error(), "syncing is already in progress") && attempt < 8 {
				time.Sleep(500 * time.Millisecond)
				continue
			}
			break
		}
		run.Count("check_chain_requests", 1)
		rpc.mu.Lock()
		defer rpc.mu.Unlock()
		if rpc.endErr != nil && !errors.Is(rpc.endErr, io.EOF) {
			run.Violation("C10/check-chain-rpc-fails/"+phase, fmt.Sprintf("StartCheckChain(nodes=%v, upTo=%d) ended with: %v", nodes, upTo, rpc.endErr), m.ci(map[string]any{"damage": dmg, "phase": phase}))
			return 0, false
		}
		if len(rpc.zero) == 0 {
			run.Violation("C10/check-chain-reports-nothing/"+phase, fmt.Sprintf("StartCheckChain(nodes=%v, upTo=%d) ended without announcing the number of faulty rounds (%d progress messages)", nodes, upTo, rpc.msgs), m.ci(map[string]any{"damage": dmg, "phase": phase}))
			return 0, false
		}
		return rpc.zero[0], true
	}
	compare := func(phase string, upTo uint64, count uint64, list []uint64, exp []uint64) {
		kind := "unchained"
		if chained {
			kind = "chained"
		}
		info := m.ci(map[string]any{"damage": dmg, "phase": phase, "up_to": upTo, "reported_count": count, "reported": list, "expected": exp})
		run.Eval(fmt.Sprintf("check/%s/%s/count", kind, phase))
		if count != uint64(len(exp)) {
			run.Violation("C10/check-reports-wrong-count/"+phase+"/"+kind, fmt.Sprintf("StartCheckChain(upTo=%d) announced %d faulty rounds; the damage makes %v faulty", upTo, count, exp), info)
		}
		in := func(x uint64, l []uint64) bool {
			for _, y := range l {
				if x == y {
					return true
				}
			}
			return false
		}
		for _, e := range exp {
			run.Eval(fmt.Sprintf("check/%s/%s/%s", kind, phase, expected[e]))
			if !in(e, list) {
				run.Violation("C10/check-misses-faulty-round/"+expected[e]+"/"+kind, fmt.Sprintf("%s: round %d (%s) is not in the list of faulty rounds %v (upTo %d)", phase, e, expected[e], list, upTo), info)
			}
		}
		for _, l := range list {
			if !in(l, exp) {
				run.Violation("C10/check-reports-healthy-round/"+kind, fmt.Sprintf("%s: round %d is reported faulty but was not damaged (damage: %v, upTo %d)", phase, l, exp, upTo), info)
			}
		}
	}
	wrote := func(phase string) []uint64 {
		m.mu.Lock()
		defer m.mu.Unlock()
		seen := map[uint64]bool{}
		var w []uint64
		for _, x := range m.oldPuts[phase] {
			if !seen[x] {
				seen[x] = true
				w = append(w, x)
			}
		}
		sort.Slice(w, func(i, j int) bool { return w[i] < w[j] })
		return w
	}
	same := func(a, b []uint64) bool {
		if len(a) != len(b) {
			return false
		}
		for i := range a {
			if a[i] != b[i] {
				return false
			}
		}
		return true
	}
	// served compares what the member serves for rounds 1..upTo with what the others hold; `still` are rounds
	// that are legitimately still damaged
	served := func(phase string, upTo uint64, still []uint64) {
		stillSet := map[uint64]bool{}
		for _, s := range still {
			stillSet[s] = true
		}
		for rd := uint64(1); rd <= upTo; rd++ {
			resp, err := nt.publicRand(victim, rd)
			m.mu.Lock()
			wantSig := m.ref[rd]
			m.mu.Unlock()
			run.Count("rounds_compared_after_repair", 1)
			info := m.ci(map[string]any{"damage": dmg, "phase": phase, "round": rd})
			switch {
			case stillSet[rd]:
				// outside the repaired range: whatever it is, it must not be served as a valid other value
				if err == nil && !bytes.Equal(resp.Signature, wantSig) && expected[rd] != "corrupted" {
					run.Violation("C10/repair-left-round-different/"+phase, fmt.Sprintf("round %d is served with a signature that differs from the network's", rd), info)
				}
			case err != nil:
				run.Violation("C10/repair-left-round-unreadable/"+phase, fmt.Sprintf("round %d cannot be served after the repair: %v", rd, err), info)
			case !bytes.Equal(resp.Signature, wantSig):
				run.Violation("C10/repair-left-round-different/"+phase, fmt.Sprintf("round %d is served as %s, the other nodes hold %s", rd, vfHex(resp.Signature), vfHex(wantSig)), info)
			}
		}
	}

	h0 := m.networkHead(others) - 2 // the check covers the damage and stays behind the moving head
	// P1: dry run (the only node named is the member itself)
	if cnt, ok := check("dry-run", []string{victim.addr}, h0); ok {
		list, err := validate(h0)
		if err != nil {
			fail("ValidateChain", err)
			return
		}
		compare("dry-run", h0, cnt, list, want(h0))
		if w := wrote("dry-run"); len(w) > 0 {
			run.Violation("C10/dry-run-wrote-rounds", fmt.Sprintf("a dry run (only the node's own address given) rewrote rounds %v", w), m.ci(map[string]any{"damage": dmg}))
		}
	} else {
		return
	}
	// P2: repair limited by upTo: covers the deleted round (and its successor), not the corrupted one
	up2 := r + 2
	before2, _ := validate(up2)
	if cnt, ok := check("repair-upto", otherAddrs, up2); ok {
		exp := want(up2)
		compare("repair-upto", up2, cnt, before2, exp)
		w := wrote("repair-upto")
		run.Eval("repair/upto/wrote-exactly-the-faulty-rounds")
		if !same(w, exp) {
			run.Violation("C10/repair-wrote-other-rounds/repair-upto", fmt.Sprintf("repair with upTo=%d: faulty rounds %v, rounds rewritten %v", up2, exp, w), m.ci(map[string]any{"damage": dmg}))
		}
		after, err := validate(h0)
		if err == nil {
			var rest []uint64
			for _, e := range want(h0) {
				if e > up2 {
					rest = append(rest, e)
				}
			}
			run.Eval("repair/upto/remaining-faulty-set")
			if !same(after, rest) {
				run.Violation("C10/repair-upto-left-wrong-set", fmt.Sprintf("after a repair limited to upTo=%d the faulty rounds are %v, expected %v (the damage beyond upTo untouched, everything up to it healed)", up2, after, rest), m.ci(map[string]any{"damage": dmg}))
			}
			served("repair-upto", up2, nil)
		}
	} else {
		return
	}
	// P3: full repair (peers: explicit list, or none = the group's nodes)
	nodes := otherAddrs
	if rng.Bool() {
		nodes = nil
	}
	var rest []uint64
	for _, e := range want(h0) {
		if e > up2 {
			rest = append(rest, e)
		}
	}
	before3, _ := validate(h0)
	if cnt, ok := check("repair-full", nodes, h0); ok {
		compare("repair-full", h0, cnt, before3, rest)
		w := wrote("repair-full")
		run.Eval("repair/full/wrote-exactly-the-faulty-rounds")
		if !same(w, rest) {
			run.Violation("C10/repair-wrote-other-rounds/repair-full", fmt.Sprintf("full repair: faulty rounds %v, rounds rewritten %v", rest, w), m.ci(map[string]any{"damage": dmg}))
		}
		after, err := validate(h0)
		run.Eval("repair/full/nothing-left")
		if err == nil && len(after) != 0 {
			run.Violation("C10/repair-left-faulty-rounds", fmt.Sprintf("after the full repair ValidateChain still reports %v", after), m.ci(map[string]any{"damage": dmg}))
		}
		served("repair-full", h0, nil)
	} else {
		return
	}
	// P4: a final dry run finds nothing
	if cnt, ok := check("dry-run-after", []string{victim.addr}, h0); ok {
		run.Eval("check/after-repair/count")
		if cnt != 0 {
			run.Violation("C10/check-reports-wrong-count/dry-run-after", fmt.Sprintf("after the repair a dry run still announces %d faulty rounds", cnt), m.ci(map[string]any{"damage": dmg}))
		}
	}
}
