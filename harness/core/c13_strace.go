package core

// C13, real process death inside a bolt commit: a tiny writer (this test binary re-executed) appends beacons to a
// real chain store / saves finished DKG epochs to a real dkg.db and prints "ACK k" after each call returned; it
// runs under `strace -f -e inject=<pwrite64|fdatasync>:signal=SIGKILL:when=N`, i.e. it is SIGKILLed on entering
// its N-th pwrite64 / fdatasync. The re-opened database must contain every ACKed item, be gap-free, and hold a
// dkg finished/current pair that is one whole epoch.

import (
	"bufio"
	"bytes"
	"context"
	"crypto/sha256"
	"fmt"
	"os"
	"os/exec"
	"path/filepath"
	"strconv"
	"strings"
	"sync"
	"testing"
	"time"

	"github.com/BurntSushi/toml"

	"github.com/drand/drand/v2/common"
	dlog "github.com/drand/drand/v2/common/log"
	"github.com/drand/drand/v2/internal/chain"
	"github.com/drand/drand/v2/internal/chain/boltdb"
	chainerrors "github.com/drand/drand/v2/internal/chain/errors"
	"github.com/drand/drand/v2/internal/dkg"
	pdkg "github.com/drand/drand/v2/protobuf/dkg"
)

const c13WriterItems = 60

func c13WriterSig(round uint64) []byte {
	h := sha256.Sum256([]byte(fmt.Sprintf("vf-c13-writer-%d", round)))
	return append(append(h[:], h[:]...), h[:]...) // 96 bytes
}

func c13WriterState(epoch uint32, st dkg.Status) *dkg.DBState {
	parts := []*pdkg.Participant{}
	for i := 0; i < 4; i++ {
		parts = append(parts, &pdkg.Participant{Address: fmt.Sprintf("127.0.0.1:%d", 4000+i), Key: bytes.Repeat([]byte{byte(i + 1)}, 48), Signature: bytes.Repeat([]byte{byte(epoch)}, 96)})
	}
	return &dkg.DBState{BeaconID: "default", Epoch: epoch, State: st, Threshold: 3, Timeout: time.Unix(1900000000, 0).UTC(),
		SchemeID: "pedersen-bls-chained", GenesisTime: time.Unix(1700000000, 0).UTC(),
		GenesisSeed: bytes.Repeat([]byte{byte(epoch)}, 32+int(epoch%7)*300), BeaconPeriod: time.Second,
		Leader: parts[0], Joining: parts, Acceptors: parts[1:]}
}

// TestVFChild_C13Writer is the writer run under strace.
func TestVFChild_C13Writer(t *testing.T) {
	kind := os.Getenv("VF_C13_WRITER")
	if kind == "" {
		t.Skip("child entry point")
	}
	dir := os.Getenv("VF_C13_WRITER_DIR")
	ack := func(k int) { os.Stdout.WriteString("ACK " + strconv.Itoa(k) + "\n") }
	switch kind {
	case "beacon":
		ctx := chain.SetPreviousRequiredOnContext(context.Background())
		st, err := boltdb.NewBoltStore(ctx, dlog.New(os.Stderr, dlog.ErrorLevel, true), dir)
		if err != nil {
			t.Fatal(err)
		}
		var prev []byte
		for r := uint64(0); r < c13WriterItems; r++ {
			b := &common.Beacon{Round: r, Signature: c13WriterSig(r), PreviousSig: prev}
			if err := st.Put(ctx, b); err != nil {
				t.Fatal(err)
			}
			ack(int(r))
			prev = b.Signature
		}
		st.Close()
	case "dkg":
		st, err := dkg.NewDKGStore(dir)
		if err != nil {
			t.Fatal(err)
		}
		for e := uint32(1); e <= c13WriterItems; e++ {
			if err := st.SaveCurrent("default", c13WriterState(e, dkg.Executing)); err != nil {
				t.Fatal(err)
			}
			if err := st.SaveFinished("default", c13WriterState(e, dkg.Complete)); err != nil {
				t.Fatal(err)
			}
			ack(int(e))
		}
		st.Close()
	}
	os.Stdout.WriteString("DONE\n")
}

type c13KillCase struct {
	Kind    string `json:"writer"`
	Syscall string `json:"syscall"`
	N       int    `json:"when"`
}

func c13StraceSweep(t *testing.T, run *vfRun, dir string) {
	if _, err := exec.LookPath("strace"); err != nil {
		run.Note("strace not installed: SIGKILL-inside-bolt sweep skipped")
		return
	}
	_ = os.MkdirAll(dir, 0o750)
	var cases []c13KillCase
	for _, kind := range []string{"beacon", "dkg"} {
		for _, sc := range []string{"pwrite64", "fdatasync"} {
			for n := 1; n <= 60; n++ {
				cases = append(cases, c13KillCase{kind, sc, n})
			}
		}
	}
	sem := make(chan struct{}, 6)
	var wg sync.WaitGroup
	for i, kc := range cases {
		wg.Add(1)
		sem <- struct{}{}
		go func(i int, kc c13KillCase) {
			defer wg.Done()
			defer func() { <-sem }()
			c13KillOne(run, filepath.Join(dir, fmt.Sprintf("k%03d", i)), i, kc)
		}(i, kc)
	}
	wg.Wait()
}

func c13KillOne(run *vfRun, dir string, idx int, kc c13KillCase) {
	_ = os.MkdirAll(dir, 0o750)
	defer os.RemoveAll(dir)
	ctx, cancel := context.WithTimeout(context.Background(), 3*time.Minute)
	defer cancel()
	cmd := exec.CommandContext(ctx, "strace", "-f", "-o", os.DevNull, "-e", "trace="+kc.Syscall,
		"-e", fmt.Sprintf("inject=%s:signal=SIGKILL:when=%d", kc.Syscall, kc.N),
		os.Args[0], "-test.run", "^TestVFChild_C13Writer$", "-test.timeout", "0")
	cmd.Env = append(os.Environ(), "VF_C13_WRITER="+kc.Kind, "VF_C13_WRITER_DIR="+dir, "GOMAXPROCS=1", "VF_OUT="+os.DevNull)
	var out bytes.Buffer
	cmd.Stdout = &out
	err := cmd.Run()
	lastAck, done := -1, false
	sc := bufio.NewScanner(&out)
	for sc.Scan() {
		l := sc.Text()
		if strings.HasPrefix(l, "ACK ") {
			if v, e := strconv.Atoi(strings.TrimPrefix(l, "ACK ")); e == nil {
				lastAck = v
			}
		}
		if l == "DONE" {
			done = true
		}
	}
	ci := map[string]any{"case_index": -1, "kill_case": kc, "kill_index": idx, "last_ack": lastAck}
	run.Count("kill_runs", 1)
	if done || err == nil {
		// the writer finished before its N-th call of that kind: nothing was cut
		run.Eval("")
		run.Count("kill_runs_not_reached", 1)
	} else {
		run.Eval(fmt.Sprintf("kill/%s/%s/%d", kc.Kind, kc.Syscall, kc.N))
		run.Count("kill_runs_killed", 1)
		run.Seen("kill_last_ack_"+kc.Kind, strconv.Itoa(lastAck))
	}
	sigv := kc.Kind + "/" + kc.Syscall
	switch kc.Kind {
	case "beacon":
		if why := c13ReopenBeacons(dir, lastAck); why != nil {
			run.Violation("C13/kill-in-bolt/"+why.sigPart+"/"+sigv, why.detail, ci)
		}
	case "dkg":
		if why := c13ReopenDKG(dir, lastAck); why != nil {
			run.Violation("C13/kill-in-bolt/"+why.sigPart+"/"+sigv, why.detail, ci)
		}
	}
}

func c13ReopenBeacons(dir string, lastAck int) (cerr *c13ChainErr) {
	defer func() {
		if p := recover(); p != nil {
			cerr = &c13ChainErr{"chain-db-open-panics", fmt.Sprintf("re-opening the chain store panics: %v", p)}
		}
	}()
	if _, err := os.Stat(filepath.Join(dir, boltdb.BoltFileName)); err != nil {
		if lastAck >= 0 {
			return &c13ChainErr{"chain-db-missing", fmt.Sprintf("Put of round %d was acknowledged but there is no db file", lastAck)}
		}
		return nil
	}
	ctx := chain.SetPreviousRequiredOnContext(context.Background())
	st, err := boltdb.NewBoltStore(ctx, dlog.New(os.Stderr, dlog.ErrorLevel, true), dir)
	if err != nil {
		return &c13ChainErr{"chain-db-unopenable", err.Error()}
	}
	defer st.Close()
	next := uint64(0)
	var prev []byte
	err = st.Cursor(ctx, func(ctx context.Context, cu chain.Cursor) error {
		b, err := cu.First(ctx)
		for ; err == nil && b != nil; b, err = cu.Next(ctx) {
			if b.Round != next {
				cerr = &c13ChainErr{"chain-gap", fmt.Sprintf("round %d found where %d was expected", b.Round, next)}
				return nil
			}
			if !bytes.Equal(b.Signature, c13WriterSig(b.Round)) || (b.Round > 0 && !bytes.Equal(b.PreviousSig, prev)) {
				cerr = &c13ChainErr{"chain-wrong-bytes", fmt.Sprintf("round %d does not hold the bytes that were put", b.Round)}
				return nil
			}
			prev = b.Signature
			next++
		}
		if err != nil && err != chainerrors.ErrNoBeaconStored && err.Error() != chainerrors.ErrNoBeaconStored.Error() {
			cerr = &c13ChainErr{"chain-db-unreadable", err.Error()}
		}
		return nil
	})
	if cerr != nil {
		return cerr
	}
	if err != nil {
		return &c13ChainErr{"chain-db-unreadable", err.Error()}
	}
	if int(next)-1 < lastAck {
		return &c13ChainErr{"chain-lost-acked-put", fmt.Sprintf("Put of round %d was acknowledged, the re-opened store ends at %d", lastAck, int(next)-1)}
	}
	return nil
}

func c13ReopenDKG(dir string, lastAck int) (cerr *c13ChainErr) {
	defer func() {
		if p := recover(); p != nil {
			cerr = &c13ChainErr{"dkg-db-open-panics", fmt.Sprintf("re-opening dkg.db panics: %v", p)}
		}
	}()
	if _, err := os.Stat(filepath.Join(dir, dkg.BoltFileName)); err != nil {
		if lastAck >= 1 {
			return &c13ChainErr{"dkg-db-missing", "acknowledged SaveFinished but no dkg.db"}
		}
		return nil
	}
	st, err := dkg.NewDKGStore(dir)
	if err != nil {
		return &c13ChainErr{"dkg-db-unopenable", err.Error()}
	}
	defer st.Close()
	fin, err := st.GetFinished("default")
	if err != nil {
		return &c13ChainErr{"dkg-db-unreadable", "finished: " + err.Error()}
	}
	cur, err := st.GetCurrent("default")
	if err != nil {
		return &c13ChainErr{"dkg-db-unreadable", "current: " + err.Error()}
	}
	var fe uint32
	if fin != nil {
		fe = fin.Epoch
		want, _ := toml.Marshal(c13WriterState(fe, dkg.Complete).TOML())
		got, _ := toml.Marshal(fin.TOML())
		if !bytes.Equal(want, got) {
			return &c13ChainErr{"dkg-finished-wrong-bytes", fmt.Sprintf("finished record of epoch %d is not what was saved", fe)}
		}
	}
	if int(fe) < lastAck {
		return &c13ChainErr{"dkg-lost-acked-epoch", fmt.Sprintf("SaveFinished of epoch %d was acknowledged, dkg.db records %d", lastAck, fe)}
	}
	switch {
	case cur.Epoch == fe && fe > 0:
		a, _ := toml.Marshal(cur.TOML())
		b, _ := toml.Marshal(fin.TOML())
		if !bytes.Equal(a, b) {
			return &c13ChainErr{"dkg-finished-current-split", fmt.Sprintf("finished is Complete@%d but current is %s@%d", fe, cur.State, cur.Epoch)}
		}
	case cur.Epoch == fe+1 && cur.State == dkg.Executing:
	case cur.Epoch == 0 && fe == 0:
	default:
		return &c13ChainErr{"dkg-finished-current-split", fmt.Sprintf("finished epoch %d, current %s@%d", fe, cur.State, cur.Epoch)}
	}
	return nil
}

var _ testing.TB
