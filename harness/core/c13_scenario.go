package core

// C13 scenario driver: parent test TestVF_C13 spawns one child process per case (re-exec of this test binary:
// vfhook handlers are process-global, and a log.Fatal/panic of the system under test must stay contained);
// every child runs the scripted history on real daemons, images the victim at every persistence hook, checks the
// images offline and restarts a subset in grand-child processes. In parallel the parent runs the SIGKILL-inside-
// bolt sweep (c13_strace.go).

import (
	"errors"
	"context"
	"encoding/json"
	"fmt"
	"os"
	"os/exec"
	"path/filepath"
	"strings"
	"sync"
	"sync/atomic"
	"syscall"
	"testing"
	"time"

	"github.com/drand/drand/v2/common"
	"github.com/drand/drand/v2/common/key"
	dlog "github.com/drand/drand/v2/common/log"
	"github.com/drand/drand/v2/crypto"
	"github.com/drand/drand/v2/internal/chain"
	"github.com/drand/drand/v2/internal/dkg"
)

type c13Params struct {
	CaseIndex   int    `json:"case_index"`
	Scheme      string `json:"scheme"`
	Engine      string `json:"engine"`
	N           int    `json:"n"`
	Thr         int    `json:"thr"`
	Victim      int    `json:"victim"`
	Joiner      bool   `json:"joiner_in_reshare1"`
	ForcedLeave bool   `json:"forced_leave"`
	Restarts    int    `json:"restarts"` // 0 = all
	FailPutAt   int    `json:"fail_put_at"` // the k-th Put (round >= 1) on the victim's base store fails once (0 = never)
	Seed        uint64 `json:"case_seed"`
}

func c13Cases() []c13Params {
	var out []c13Params
	schemes := c13SchemeList()
	n := vfPick(2, 18)
	for i := 0; i < n; i++ {
		cs := vfCaseSeed(vfSeed(), "C13", i)
		rng := vfNewRng(cs)
		p := c13Params{CaseIndex: i, Seed: cs, Engine: "bolt"}
		switch {
		case !vfThorough() && i == 0:
			p.Scheme = schemes[0] // the chained scheme exercises the link check of the store
		case !vfThorough():
			p.Scheme = schemes[1+rng.Intn(4)]
		case i < 15:
			p.Scheme = schemes[i%5] // every scheme three times (victim / size / joiner vary with the case seed)
		default:
			p.Scheme = schemes[rng.Intn(5)]
			p.Engine = "memdb"
		}
		p.N = 3 + rng.Intn(2)
		p.Thr = p.N/2 + 1
		p.Victim = rng.Intn(p.N)
		p.Joiner = rng.Bool() || i == 0 // case 0 always has a joiner: its "waiting for the reshare" image is restarted
		p.ForcedLeave = true
		p.FailPutAt = 3 + rng.Intn(3)
		p.Restarts = vfPick(40, 0) // quick: in effect the last image of every crash-window label
		out = append(out, p)
	}
	return out
}

func TestVF_C13(t *testing.T) {
	run := vfNewRun("C13", "daemonnet-parent")
	defer run.Finish()
	cases := c13Cases()
	if idx, ok := vfReplayCase(); ok {
		var sel []c13Params
		for _, c := range cases {
			if c.CaseIndex == idx {
				sel = append(sel, c)
			}
		}
		cases = sel
	}
	dir := t.TempDir()
	var wg sync.WaitGroup
	sem := make(chan struct{}, 6)
	for _, c := range cases {
		wg.Add(1)
		go func(c c13Params) {
			defer wg.Done()
			sem <- struct{}{}
			defer func() { <-sem }()
			pj, _ := json.Marshal(c)
			logf := filepath.Join(dir, fmt.Sprintf("case-%d.log", c.CaseIndex))
			rc, tail := c13RunChild(t, "^TestVFChild_C13Scenario$", []string{"VF_C13_SCENARIO=" + string(pj), "VF_C13_DIR=" + filepath.Join(dir, fmt.Sprintf("case-%d", c.CaseIndex))}, logf, 22*time.Minute)
			run.Count("scenario_children", 1)
			if rc != 0 {
				t.Errorf("C13 scenario child for case %d exited with %d:\n%s", c.CaseIndex, rc, tail)
			}
		}(c)
	}
	// the kill-inside-bolt sweep carries case_index -1 in its records
	if idx, ok := vfReplayCase(); !ok || idx == -1 {
		wg.Add(1)
		go func() {
			defer wg.Done()
			c13StraceSweep(t, run, filepath.Join(dir, "strace"))
		}()
	}
	wg.Wait()
}

// c13RunChild re-executes the test binary for one child test function; stdout+stderr go to logf.
func c13RunChild(t *testing.T, runRe string, env []string, logf string, timeout time.Duration) (int, string) {
	ctx, cancel := context.WithTimeout(context.Background(), timeout)
	defer cancel()
	cmd := exec.CommandContext(ctx, os.Args[0], "-test.run", runRe, "-test.timeout", "0", "-test.v")
	cmd.Env = append(os.Environ(), env...)
	f, err := os.Create(logf)
	if err != nil {
		t.Fatal(err)
	}
	defer f.Close()
	cmd.Stdout, cmd.Stderr = f, f
	err = cmd.Run()
	rc := 0
	if err != nil {
		rc = -1
		if ee, ok := err.(*exec.ExitError); ok {
			rc = ee.ExitCode()
		}
	}
	tail := ""
	if rc != 0 {
		tail = c13Tail(logf, 6000)
	}
	return rc, tail
}

// c13LogErrors returns the last n ERROR lines of a daemon log that mention the dkg (context for inconclusive cases).
func c13LogErrors(p string, n int) string {
	b, err := os.ReadFile(p)
	if err != nil {
		return ""
	}
	var keep []string
	for _, l := range strings.Split(string(b), "\n") {
		if strings.Contains(l, `"level":"ERROR"`) && strings.Contains(strings.ToLower(l), "dkg") {
			keep = append(keep, c13Short(l, 400))
		}
	}
	if len(keep) > n {
		keep = keep[len(keep)-n:]
	}
	return strings.Join(keep, "\n")
}

func c13Tail(p string, n int) string {
	b, err := os.ReadFile(p)
	if err != nil {
		return ""
	}
	if len(b) > n {
		b = b[len(b)-n:]
	}
	return string(b)
}

// ---------------------------------------------------------------- the scenario (child process)

type c13Scenario struct {
	t      *testing.T
	p      c13Params
	run    *vfRun
	dir    string
	nt     *c13Net
	rec    *c13Rec
	victim *c13Node
	lg     dlog.Logger
	others []*c13Node
	// number of images taken when the forced-leave notification was injected (0 = no such segment)
	forcedSeq int
	// copy of the joiner's folder taken after it joined the proposed reshare and before the execution started
	joinerImage string
	joiner      *c13Node
}

func TestVFChild_C13Scenario(t *testing.T) {
	pj := os.Getenv("VF_C13_SCENARIO")
	if pj == "" {
		t.Skip("child entry point")
	}
	syscall.Umask(0o022)
	var p c13Params
	if err := json.Unmarshal([]byte(pj), &p); err != nil {
		t.Fatal(err)
	}
	run := vfNewRun("C13", "daemonnet")
	defer run.Finish()
	dir := os.Getenv("VF_C13_DIR")
	if err := os.MkdirAll(dir, 0o750); err != nil {
		t.Fatal(err)
	}
	sc := &c13Scenario{t: t, p: p, run: run, dir: dir}
	run.Sample(p)
	done := make(chan struct{})
	go func() {
		defer close(done)
		sc.main()
	}()
	select {
	case <-done:
	case <-time.After(20 * time.Minute):
		run.Inconclusive("scenario watchdog (20 min) fired; goroutines:\n" + c13Short(vfGoroutineDump(), 6000))
	}
}

func c13Short(s string, n int) string {
	if len(s) > n {
		return s[:n] + "…"
	}
	return s
}

func (sc *c13Scenario) caseInfo(img *c13Image, label string) map[string]any {
	m := map[string]any{"case_index": sc.p.CaseIndex, "params": sc.p}
	if img != nil {
		m["image"] = fmt.Sprintf("%04d", img.Seq)
		m["hook"] = img.Hook
		m["label"] = label
		m["changed"] = img.Changed
		m["served"] = img.Served
		m["synth"] = img.Synth
	}
	return m
}

func (sc *c13Scenario) main() {
	p, run := sc.p, sc.run
	sch, err := crypto.GetSchemeByID(p.Scheme)
	if err != nil {
		sc.t.Fatal(err)
	}
	logFile, _ := os.Create(filepath.Join(sc.dir, "daemons.log"))
	defer logFile.Close()
	sc.lg = dlog.New(logFile, dlog.InfoLevel, true)
	engine := chain.BoltDB
	if p.Engine == "memdb" {
		engine = chain.MemDB
	}
	nt := c13NewNet(sc.t, sc.lg, filepath.Join(sc.dir, "nodes"), sch, time.Second, 0, engine)
	sc.nt = nt
	nt.onStopHang = func(n *c13Node, dump string) {
		run.Note(fmt.Sprintf("case %d: DrandDaemon.Stop of node %d did not return within 20 s:\n%s", p.CaseIndex, n.idx, dump))
		run.Count("daemon_stop_hangs", 1)
	}
	defer nt.close()
	ns, err := nt.addNodes(p.N)
	if err != nil {
		run.Inconclusive("could not create daemons: " + err.Error())
		return
	}
	sc.victim = ns[p.Victim]
	rec := c13NewRec(nt, sc.victim, filepath.Join(sc.dir, "images"), run)
	sc.rec = rec
	_ = os.MkdirAll(rec.root, 0o750)
	// VF_C13_NOREC=1 (debugging knob): run the scripted history without any crash-point recording, to tell
	// behaviour of the system apart from perturbation by the recorder
	norec := os.Getenv("VF_C13_NOREC") != ""
	if !norec {
		rec.install()
	}
	defer rec.uninstall()
	injectedAt := &atomic.Uint64{}
	if p.FailPutAt > 0 && !norec {
		var fmu sync.Mutex
		cnt := 0
		nt.failPut = func(n *c13Node, b *common.Beacon) error {
			if n != sc.victim || b.Round == 0 {
				return nil
			}
			fmu.Lock()
			defer fmu.Unlock()
			cnt++
			if cnt == p.FailPutAt {
				injectedAt.Store(b.Round)
				run.Count("injected_put_failures", 1)
				run.Note(fmt.Sprintf("case %d: the Put of round %d on the victim's base store was made to fail once", p.CaseIndex, b.Round))
				return errors.New("vf: injected store failure")
			}
			return nil
		}
	}
	if err := rec.watchDir(filepath.Join(sc.victim.folder, "multibeacon", "default", "groups")); err != nil {
		run.Note("inotify watch failed: " + err.Error())
	}
	defer rec.stopWatch()
	nt.startPacer()

	// what the victim actually serves over gRPC (asynchronous observer; the Put tap gives the rest)
	stopPoll := make(chan struct{})
	var pollWG sync.WaitGroup
	pollWG.Add(1)
	go func() {
		defer pollWG.Done()
		for {
			select {
			case <-stopPoll:
				return
			case <-time.After(150 * time.Millisecond):
			}
			if sc.victim.stopped.Load() {
				return
			}
			if r, err := nt.publicRand(sc.victim, 0); err == nil && r != nil && r.Round > 0 {
				rec.noteServed(r.Round)
				run.Count("victim_grpc_rounds_served_polls", 1)
			}
		}
	}()

	fail := func(stage string, err error) {
		rec.cmu.Lock()
		run.Count("images_skipped_unstable", int64(rec.skipped))
		rec.cmu.Unlock()
		run.Count("scenario_failed_at:"+stage, 1)
		run.Inconclusive(fmt.Sprintf("case %d: %s: %v\n%s", p.CaseIndex, stage, err, c13LogErrors(filepath.Join(sc.dir, "daemons.log"), 6)))
	}
	// ---- epoch 1
	g1, err := nt.runInitialDKG(ns, p.Thr, 6*time.Second)
	if err != nil {
		fail("initial DKG", err)
		close(stopPoll)
		return
	}
	pub := g1.PublicKey.Key()
	if time.Now().Unix() >= g1.GenesisTime {
		fail("initial DKG", fmt.Errorf("finished after genesis"))
		close(stopPoll)
		return
	}
	// default peers for the restarts: everybody but the victim (narrowed down once the victim has left)
	for _, n := range ns {
		if n != sc.victim {
			sc.others = append(sc.others, n)
		}
	}
	// the rest of the script; wherever it has to stop, the crash windows recorded so far are still evaluated
	func() {
		if _, ok := nt.waitHeads(ns, 5, 40); !ok {
			// one Put on the victim's store was refused once: the rest of the network is healthy, so the victim has
			// to get that round again (aggregation retry or sync). Only if the others moved on and the victim is
			// still behind after a further grace is this the victim's doing.
			time.Sleep(30 * time.Second)
			vh, _ := nt.head(sc.victim)
			oh := uint64(0)
			for _, n := range sc.others {
				if h, ok := nt.head(n); ok && h > oh {
					oh = h
				}
			}
			if injectedAt.Load() > 0 && oh >= 5 && vh < 5 {
				run.Violation("C13/stuck-after-failed-put/victim-behind-network", fmt.Sprintf(
					"the Put of round %d on the victim's base store failed once (injected); 40 periods + 30 s later the victim is still at round %d while the others are at %d\n%s",
					injectedAt.Load(), vh, oh, c13FilterDump(vfGoroutineDump(), "chainStore).", "SyncManager).")), sc.caseInfo(nil, "after-failed-put"))
			} else {
				fail("rounds after genesis", fmt.Errorf("network did not reach round 5 in 40 periods (victim %d, others %d)", vh, oh))
			}
			return
		}
		// ---- epoch 2: the victim remains
		members := append([]*c13Node(nil), ns...)
		var joiners []*c13Node
		if p.Joiner {
			joiners, err = nt.addNodes(1)
			if err != nil {
				fail("add joiner", err)
				return
			}
		}
		rs1 := c13Reshare{leader: ns[0], remaining: members, joining: joiners, thr: (len(members)+len(joiners))/2 + 1}
		if len(joiners) > 0 && !norec {
			rs1.afterJoin = func() {
				// the joiner has stored "Joined" and waits for the execution: what a crash leaves on ITS disk now
				d := filepath.Join(sc.dir, "joiner-waiting")
				for attempt := 0; attempt < 5; attempt++ {
					os.RemoveAll(d)
					if _, stable, err := c13CopyTree(joiners[0].folder, d); err == nil && stable {
						sc.joinerImage, sc.joiner = d, joiners[0]
						return
					}
					time.Sleep(20 * time.Millisecond)
				}
			}
		}
		g2, err := nt.runReshare(rs1)
		if err != nil {
			fail("reshare 1", err)
			return
		}
		members = append(members, joiners...)
		tr2 := common.CurrentRound(g2.TransitionTime, g2.Period, g2.GenesisTime)
		if _, ok := nt.waitHeads(members, tr2+4, 60); !ok {
			fail("rounds after transition 1", fmt.Errorf("network did not reach round %d", tr2+4))
			return
		}
		// ---- epoch 3: the victim leaves
		var rem []*c13Node
		for _, n := range members {
			if n != sc.victim {
				rem = append(rem, n)
			}
		}
		sc.others = rem
		g3, err := nt.runReshare(c13Reshare{leader: rem[0], remaining: rem, leaving: []*c13Node{sc.victim}, thr: len(rem)/2 + 1})
		if err != nil {
			// a reshare with a declared leaver fails in a fair share of the runs (with or without the recorder: the
			// leaver's kyber instance quits early and some remaining nodes then evict each other). The crash windows
			// recorded so far are still evaluated; the rest of the script is skipped.
			fail("reshare 2", err)
			if h, ok := nt.head(rem[0]); ok {
				nt.waitHeads(rem, h+2, 30)
			}
		} else {
			tr3 := common.CurrentRound(g3.TransitionTime, g3.Period, g3.GenesisTime)
			if p.ForcedLeave && !norec {
				sc.forceLeave(g3)
			}
			if _, ok := nt.waitHeads(rem, tr3+3, 60); !ok {
				fail("rounds after transition 2", fmt.Errorf("network did not reach round %d", tr3+3))
				return
			}
			run.Count("rounds_reached", int64(tr3+3))
			run.Count("scenario_completed", 1)
		}
	}()
	if norec {
		close(stopPoll)
		pollWG.Wait()
		return
	}
	rec.image("final", true, "")
	close(stopPoll)
	pollWG.Wait()
	rec.uninstall()
	if ok, dump := nt.stopNode(sc.victim); !ok {
		run.Note(fmt.Sprintf("case %d: the victim's DrandDaemon.Stop did not return within 20 s; restarts skipped:\n%s", p.CaseIndex, dump))
		run.Count("daemon_stop_hangs", 1)
		sc.p.Restarts = -1
	}

	sc.evaluate(sch, pub, engine)
}

// forceLeave: in the present code a declared leaver never reaches BeaconProcess.leaveNetwork (its DKG execution
// ends with "leaving node can process responses only after creating shares"), so the leave path
// (StopAt + key store Reset, hook key.reset.mid) is only reachable for a node that took part in the DKG but is
// missing from the final group. The harness hands the victim's beacon process exactly that notification — the
// SharingOutput{Old: its last epoch, New: the epoch just completed by the others} that dkg.Process would
// send — and lets the real code run. Findings from this segment carry the labels key.reset.mid / final.
func (sc *c13Scenario) forceLeave(g3 *key.Group) {
	sc.rec.cmu.Lock()
	fin := append([]*dkg.DBState(nil), sc.rec.finished...)
	sc.rec.cmu.Unlock()
	var oldSt, newSt *dkg.DBState
	for _, st := range fin {
		if st.FinalGroup == nil || st.KeyShare == nil || st.KeyShare.Share == nil {
			continue
		}
		if st.Epoch == 2 {
			if nd := st.FinalGroup.Find(sc.victim.priv.Public); nd != nil && uint32(st.KeyShare.Share.I) == nd.Index {
				oldSt = st
			}
		}
		if st.Epoch == 3 && newSt == nil {
			newSt = st
		}
	}
	if oldSt == nil || newSt == nil {
		sc.run.Note("forced-leave segment skipped: could not find the epoch records")
		return
	}
	// the New state as the victim would hold it: same final group, no share of its own
	ns := *newSt
	sc.rec.mu.Lock()
	sc.forcedSeq = len(sc.rec.images)
	sc.rec.mu.Unlock()
	select {
	case sc.victim.daemon.completedDKGs.Chan() <- dkg.SharingOutput{BeaconID: sc.nt.beaconID, Old: oldSt, New: ns}:
		sc.run.Count("forced_leave_injected", 1)
	case <-time.After(5 * time.Second):
		sc.run.Note("forced-leave segment skipped: completedDKGs channel not accepting")
	}
}

// ---------------------------------------------------------------- evaluation of the images

// label names the crash window an image belongs to. It is derived from WHAT CHANGED on disk since the previous
// image (so it does not depend on which goroutine's hook happened to take the picture first); windows of the first
// DKG and of a resharing are kept apart because their consequences differ.
func (sc *c13Scenario) label(img *c13Image, prevEpoch, epoch uint32, curState, prevLabel string) string {
	if img.Synth != "" {
		return img.Synth
	}
	if img.Hook == "final" && len(img.Changed) == 0 {
		return "final"
	}
	// a temp file of an atomic key.Save appearing (or going) next to the real files does not open a new window
	onlyTmp := len(img.Changed) > 0 && prevLabel != ""
	for _, c := range img.Changed {
		if !strings.HasSuffix(c, ".tmp") {
			onlyTmp = false
		}
	}
	if onlyTmp {
		return prevLabel
	}
	phase := "@reshare"
	if epoch <= 1 {
		phase = "@dkg1"
	}
	has := func(rel string) (changed, deleted bool) {
		for _, c := range img.Changed {
			if c == rel {
				changed = true
			}
			if c == "-"+rel {
				deleted = true
			}
		}
		return
	}
	size := func(rel string) int64 {
		if fi, err := os.Stat(filepath.Join(img.Dir, rel)); err == nil {
			return fi.Size()
		}
		return -1
	}
	if ch, del := has(c13RelShare); ch || del {
		switch {
		case del:
			if _, gdel := has(c13RelGroup); gdel {
				return "key.reset.after"
			}
			return "key.reset.mid"
		case size(c13RelShare) == 0:
			return "key.save.created:share" + phase
		default:
			return "key.save.after:share" + phase
		}
	}
	if ch, del := has(c13RelGroup); ch || del {
		switch {
		case del:
			return "key.reset.after"
		case size(c13RelGroup) == 0:
			return "key.save.created:group" + phase
		default:
			return "key.save.after:group" + phase
		}
	}
	if ch, _ := has(c13RelDKG); ch {
		if epoch != prevEpoch {
			return "dkgstore.savefinished.after" + phase
		}
		// a DKG in progress: first DKG (nothing completed yet) or a resharing, and the state the record is in
		if epoch == 0 {
			return "dkgstore.save.after@dkg1/" + curState
		}
		return "dkgstore.save.after@reshare/" + curState
	}
	if ch, _ := has(c13RelChain); ch {
		return "store.put.after"
	}
	if img.Seq == 0 {
		return "initial"
	}
	if len(img.Changed) > 0 {
		return "other:" + filepath.Base(strings.TrimPrefix(img.Changed[0], "-"))
	}
	return img.Hook
}
