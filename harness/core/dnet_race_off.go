//go:build !race

package core

const vfnRaceEnabled = false
