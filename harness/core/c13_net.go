package core

// c13_net: shared scaffolding of the C13 / C07 daemon-level checks (engine D, "daemonnet").
//
// A c13Net is a set of full DrandDaemons in this process: loopback gRPC, control port, FILE key
// stores (key.NewFileStore), bolt (or memdb) chain store, real dkg.db, real kyber DKG driven through the
// DKG control port. Every node has its own clockwork.FakeClock; a pacer goroutine keeps the fake clocks
// equal to real time (the DKG code validates timeouts / computes the transition time with time.Now(), so
// scenarios that reshare must keep fake ~ real, exactly as the repository's own reshare tests do).
// No verdict depends on wall-clock time: progress bounds are counted in beacon periods of the fake clock
// and their expiry is Inconclusive unless re-confirmed after a long grace (see callers).

import (
	"bytes"
	"strings"
	"context"
	"errors"
	"fmt"
	"os"
	"path"
	"sync"
	"sync/atomic"
	"testing"
	"time"

	"github.com/BurntSushi/toml"
	clock "github.com/jonboulle/clockwork"
	"google.golang.org/grpc"
	"google.golang.org/protobuf/types/known/timestamppb"

	"github.com/drand/drand/v2/common"
	"github.com/drand/drand/v2/common/key"
	dlog "github.com/drand/drand/v2/common/log"
	"github.com/drand/drand/v2/crypto"
	"github.com/drand/drand/v2/internal/chain"
	"github.com/drand/drand/v2/internal/dkg"
	"github.com/drand/drand/v2/internal/net"
	"github.com/drand/drand/v2/internal/test"
	"github.com/drand/drand/v2/internal/vfhook"
	pdkg "github.com/drand/drand/v2/protobuf/dkg"
	"github.com/drand/drand/v2/protobuf/drand"
)

type c13Node struct {
	idx      int
	folder   string
	addr     string
	ctrlPort string
	priv     *key.Pair
	part     *pdkg.Participant
	daemon   *DrandDaemon
	bp       *BeaconProcess
	clock    *clock.FakeClock
	dkgc     pdkg.DKGControlClient
	ctrl     *net.ControlClient
	stopped  atomic.Bool
	// highest round for which a Put on this node's base store has STARTED (set before delegating), +1
	putStarted atomic.Uint64
	dmu        sync.Mutex // guards daemon/bp replacement by restartNode
}

func (n *c13Node) curBP() *BeaconProcess {
	n.dmu.Lock()
	defer n.dmu.Unlock()
	return n.bp
}

type c13Net struct {
	t        *testing.T
	log      dlog.Logger
	dir      string
	sch      *crypto.Scheme
	beaconID string
	period   time.Duration
	catchup  time.Duration
	engine   chain.StorageType

	mu    sync.Mutex
	nodes []*c13Node
	taps  []*c13StoreTap

	pacerStop chan struct{}
	pacerDone chan struct{}
	frozen    atomic.Bool

	// wire fault injector: when set, outgoing kyber-DKG traffic (BroadcastDKG) of every node fails
	dropDKG atomic.Bool

	// store tap (every node's base store): called before and after the delegated Put
	onPut func(n *c13Node, after bool, b *common.Beacon, err error)
	// store fault injector: a non-nil error is returned from the base store's Put instead of delegating
	failPut func(n *c13Node, b *common.Beacon) error
	// wire tap: every outgoing unary protocol/DKG call of every node, after it returned
	onCall func(from *c13Node, method, target string, req any, start time.Time, err error)

	epoch uint32
	group *key.Group
	pc    net.Client

	onStopHang func(n *c13Node, dump string)
	restarting atomic.Pointer[c13Node]

	// moments at which the 20 ms pacer found itself more than 150 ms late: this process was starved of CPU then,
	// and so were the daemons' own goroutines (used to keep timing-sensitive evidence out of verdicts)
	lagMu    sync.Mutex
	lagTimes []time.Time

	// stream fault injector: consulted for every outgoing client stream (SyncChain, ...) of every node
	onStream func(from *c13Node, method, target string) *c13StreamFault
}

// c13StreamFault scripts one outgoing stream: refuse it, cut it after k received messages, or let it go silent
// after k received messages (until its context ends).
type c13StreamFault struct {
	FailOpen   bool
	CloseAfter int // -1: never
	StallAfter int // -1: never
}

type c13FaultyStream struct {
	grpc.ClientStream
	f    *c13StreamFault
	recv int
}

func (fs *c13FaultyStream) RecvMsg(m any) error {
	if fs.f.CloseAfter >= 0 && fs.recv >= fs.f.CloseAfter {
		return errors.New("vf: injected stream failure")
	}
	if fs.f.StallAfter >= 0 && fs.recv >= fs.f.StallAfter {
		<-fs.Context().Done()
		return fs.Context().Err()
	}
	err := fs.ClientStream.RecvMsg(m)
	if err == nil {
		fs.recv++
	}
	return err
}

// c13StoreTap decorates the base chain.Store of a BeaconProcess (vfhook wrap "core.dbstore").
type c13StoreTap struct {
	chain.Store
	nt    *c13Net
	omu   sync.Mutex
	owner *c13Node
}

// node resolves which daemon this store belongs to (the wrap hook only gets the beacon id). A miss is not
// cached: a daemon re-created on the same folder (restartNode) registers its beacon process a moment later.
func (s *c13StoreTap) node() *c13Node {
	s.omu.Lock()
	defer s.omu.Unlock()
	if s.owner != nil {
		return s.owner
	}
	s.nt.mu.Lock()
	nodes := append([]*c13Node(nil), s.nt.nodes...)
	s.nt.mu.Unlock()
	for _, n := range nodes {
		if bp := n.curBP(); bp != nil {
			if tp, ok := bp.dbStore.(*c13StoreTap); ok && tp == s {
				s.owner = n
				return n
			}
		}
	}
	// a store created while a daemon is being re-created on its folder belongs to that node (restartNode runs
	// one node at a time and knows the new beacon process only after LoadBeaconsFromDisk returned)
	if n := s.nt.restarting.Load(); n != nil {
		s.owner = n
		return n
	}
	return nil
}

func (s *c13StoreTap) Put(ctx context.Context, b *common.Beacon) error {
	n := s.node()
	if n != nil {
		for {
			cur := n.putStarted.Load()
			if b.Round+1 <= cur || n.putStarted.CompareAndSwap(cur, b.Round+1) {
				break
			}
		}
	}
	f := s.nt.onPut
	if f != nil {
		f(n, false, b, nil)
	}
	var err error
	if fp := s.nt.failPut; fp != nil && n != nil {
		err = fp(n, b)
	}
	if err == nil {
		err = s.Store.Put(ctx, b)
	}
	if f != nil {
		f(n, true, b, err)
	}
	return err
}

func c13NewNet(t *testing.T, lg dlog.Logger, dir string, sch *crypto.Scheme, period, catchup time.Duration, engine chain.StorageType) *c13Net {
	nt := &c13Net{t: t, log: lg, dir: dir, sch: sch, beaconID: common.DefaultBeaconID, period: period, catchup: catchup, engine: engine}
	nt.pc = net.NewGrpcClient(lg)
	vfhook.SetWrap(func(kind, id string, v any) any {
		if kind != "core.dbstore" {
			return v
		}
		st, ok := v.(chain.Store)
		if !ok || st == nil {
			return v
		}
		tp := &c13StoreTap{Store: st, nt: nt}
		nt.mu.Lock()
		nt.taps = append(nt.taps, tp)
		nt.mu.Unlock()
		return chain.Store(tp)
	})
	return nt
}

func (nt *c13Net) close() {
	nt.stopPacer()
	nt.mu.Lock()
	nodes := append([]*c13Node(nil), nt.nodes...)
	nt.mu.Unlock()
	var wg sync.WaitGroup
	for _, n := range nodes {
		wg.Add(1)
		go func(n *c13Node) {
			defer wg.Done()
			if ok, dump := nt.stopNode(n); !ok && nt.onStopHang != nil {
				nt.onStopHang(n, dump)
			}
		}(n)
	}
	wg.Wait()
	vfhook.SetWrap(nil)
}

// stopNode stops a daemon; it gives up after 20 s (DrandDaemon.Stop has been seen to hang after a failed DKG) and
// then returns false together with the stacks of the goroutines inside Stop.
func (nt *c13Net) stopNode(n *c13Node) (bool, string) {
	if n.stopped.Swap(true) {
		return true, ""
	}
	done := make(chan struct{})
	go func() {
		defer close(done)
		ctx, cancel := context.WithTimeout(context.Background(), 8*time.Second)
		defer cancel()
		n.daemon.Stop(ctx)
		select {
		case <-n.daemon.WaitExit():
		case <-time.After(8 * time.Second):
		}
	}()
	select {
	case <-done:
		return true, ""
	case <-time.After(20 * time.Second):
		return false, c13FilterDump(vfGoroutineDump(), "DrandDaemon).Stop", "BeaconProcess).Stop", "dkg.(*Process).Close")
	}
}

// c13FilterDump keeps the goroutines of a dump whose stack mentions one of the substrings.
func c13FilterDump(dump string, subs ...string) string {
	var keep []string
	for _, g := range strings.Split(dump, "\n\n") {
		for _, s := range subs {
			if strings.Contains(g, s) {
				keep = append(keep, g)
				break
			}
		}
	}
	out := strings.Join(keep, "\n\n")
	if len(out) > 6000 {
		out = out[:6000] + "…"
	}
	return out
}

// nodeOpts is the daemon configuration of node n (also used when the daemon is re-created on its folder).
func (nt *c13Net) nodeOpts(n *c13Node) []ConfigOption {
	return []ConfigOption{
		WithConfigFolder(n.folder),
		WithDBStorageEngine(nt.engine),
		WithDkgKickoffGracePeriod(1 * time.Second),
		WithDkgPhaseTimeout(5 * time.Second),
		WithPrivateListenAddress(n.addr),
		WithControlPort(n.ctrlPort),
		WithNamedLogger(fmt.Sprintf("[node %d]", n.idx)),
		WithMemDBSize(2000),
		WithCallOption(grpc.WaitForReady(false)),
		func(c *Config) { c.clock = n.clock },
		func(c *Config) {
			c.grpcOpts = append(c.grpcOpts, grpc.WithChainUnaryInterceptor(
				func(ctx context.Context, method string, req, reply any, cc *grpc.ClientConn, invoker grpc.UnaryInvoker, co ...grpc.CallOption) error {
					start := time.Now()
					err := nt.faultInterceptor(ctx, method, req, reply, cc, invoker, co...)
					if f := nt.onCall; f != nil {
						f(n, method, cc.Target(), req, start, err)
					}
					return err
				}),
				grpc.WithChainStreamInterceptor(
					func(ctx context.Context, desc *grpc.StreamDesc, cc *grpc.ClientConn, method string, streamer grpc.Streamer, co ...grpc.CallOption) (grpc.ClientStream, error) {
						var fault *c13StreamFault
						if f := nt.onStream; f != nil {
							fault = f(n, method, cc.Target())
						}
						if fault != nil && fault.FailOpen {
							return nil, errors.New("vf: injected refusal of the stream")
						}
						st, err := streamer(ctx, desc, cc, method, co...)
						if err != nil || fault == nil {
							return st, err
						}
						return &c13FaultyStream{ClientStream: st, f: fault}, nil
					}))
		},
	}
}

// restartNode re-creates the daemon of a stopped node on its folder, address and ports, the way `drand start`
// does (NewDrandDaemon + LoadBeaconsFromDisk), with the node's fake clock.
func (nt *c13Net) restartNode(n *c13Node) error {
	var daemon *DrandDaemon
	var err error
	for attempt := 0; attempt < 10; attempt++ {
		daemon, err = NewDrandDaemon(context.Background(), NewConfig(nt.log, nt.nodeOpts(n)...))
		if err == nil {
			break
		}
		if !strings.Contains(err.Error(), "address already in use") {
			return fmt.Errorf("NewDrandDaemon: %w", err)
		}
		time.Sleep(500 * time.Millisecond)
	}
	if err != nil {
		return fmt.Errorf("NewDrandDaemon: %w", err)
	}
	n.dmu.Lock()
	n.daemon, n.bp = daemon, nil
	n.dmu.Unlock()
	nt.restarting.Store(n)
	err = daemon.LoadBeaconsFromDisk(context.Background(), "", false, "")
	nt.restarting.Store(nil)
	if err != nil {
		return fmt.Errorf("LoadBeaconsFromDisk: %w", err)
	}
	daemon.state.RLock()
	bp := daemon.beaconProcesses[nt.beaconID]
	daemon.state.RUnlock()
	n.dmu.Lock()
	n.bp = bp
	n.dmu.Unlock()
	if c, err := net.NewDKGControlClient(nt.log, n.ctrlPort); err == nil {
		n.dkgc = c
	}
	if c, err := net.NewControlClient(nt.log, n.ctrlPort); err == nil {
		n.ctrl = c
	}
	n.stopped.Store(false)
	return nil
}

// addNodes creates k more daemons with real file key stores under nt.dir/node-<i>.
func (nt *c13Net) addNodes(k int) ([]*c13Node, error) {
	var out []*c13Node
	for j := 0; j < k; j++ {
		nt.mu.Lock()
		idx := len(nt.nodes)
		nt.mu.Unlock()
		folder := path.Join(nt.dir, fmt.Sprintf("node-%d", idx))
		if err := os.MkdirAll(folder, 0o740); err != nil {
			return nil, err
		}
		ctx := context.Background()
		var (
			n      *c13Node
			priv   *key.Pair
			store  key.Store
			daemon *DrandDaemon
			err    error
		)
		// several scenario processes pick free ports at the same time: a clash is retried with fresh ones
		for attempt := 0; attempt < 4; attempt++ {
			addr := test.FreeBind("127.0.0.1")
			priv, err = key.NewKeyPair(addr, nt.sch)
			if err != nil {
				return nil, err
			}
			n = &c13Node{idx: idx, folder: folder, addr: addr, ctrlPort: test.FreePort(), priv: priv, clock: clock.NewFakeClockAt(time.Now())}
			conf := NewConfig(nt.log, nt.nodeOpts(n)...)
			store = key.NewFileStore(conf.ConfigFolderMB(), nt.beaconID)
			if err = store.SaveKeyPair(priv); err != nil {
				return nil, err
			}
			daemon, err = NewDrandDaemon(ctx, conf)
			if err == nil || !strings.Contains(err.Error(), "address already in use") {
				break
			}
		}
		if err != nil {
			return nil, fmt.Errorf("NewDrandDaemon: %w", err)
		}
		bp, err := daemon.InstantiateBeaconProcess(ctx, nt.beaconID, store)
		if err != nil {
			return nil, fmt.Errorf("InstantiateBeaconProcess: %w", err)
		}
		dkgc, err := net.NewDKGControlClient(nt.log, n.ctrlPort)
		if err != nil {
			return nil, err
		}
		ctrl, err := net.NewControlClient(nt.log, n.ctrlPort)
		if err != nil {
			return nil, err
		}
		pk, err := priv.Public.Key.MarshalBinary()
		if err != nil {
			return nil, err
		}
		n.daemon, n.bp, n.dkgc, n.ctrl = daemon, bp, dkgc, ctrl
		n.part = &pdkg.Participant{Address: priv.Public.Addr, Key: pk, Signature: priv.Public.Signature}
		nt.mu.Lock()
		nt.nodes = append(nt.nodes, n)
		nt.mu.Unlock()
		out = append(out, n)
	}
	return out, nil
}

func (nt *c13Net) faultInterceptor(ctx context.Context, method string, req, reply any, cc *grpc.ClientConn, invoker grpc.UnaryInvoker, opts ...grpc.CallOption) error {
	if nt.dropDKG.Load() && method == pdkg.DKGPublic_BroadcastDKG_FullMethodName {
		return errors.New("vf: injected loss of DKG traffic")
	}
	return invoker(ctx, method, req, reply, cc, opts...)
}

// ---------------------------------------------------------------- clocks

func (nt *c13Net) syncClocks() {
	if nt.frozen.Load() {
		return
	}
	now := time.Now()
	nt.mu.Lock()
	nodes := append([]*c13Node(nil), nt.nodes...)
	nt.mu.Unlock()
	for _, n := range nodes {
		if d := now.Sub(n.clock.Now()); d > 0 {
			n.clock.Advance(d)
		}
	}
}

func (nt *c13Net) startPacer() {
	nt.pacerStop = make(chan struct{})
	nt.pacerDone = make(chan struct{})
	go func() {
		defer close(nt.pacerDone)
		tk := time.NewTicker(20 * time.Millisecond)
		defer tk.Stop()
		last := time.Now()
		for {
			select {
			case <-nt.pacerStop:
				return
			case <-tk.C:
				now := time.Now()
				if now.Sub(last) > 150*time.Millisecond {
					nt.lagMu.Lock()
					nt.lagTimes = append(nt.lagTimes, now)
					nt.lagMu.Unlock()
				}
				last = now
				nt.syncClocks()
			}
		}
	}()
}

func (nt *c13Net) stopPacer() {
	if nt.pacerStop != nil {
		close(nt.pacerStop)
		<-nt.pacerDone
		nt.pacerStop = nil
	}
}

// starvedBetween reports whether the pacer was found late at some moment in [a-1s, b+1s].
func (nt *c13Net) starvedBetween(a, b time.Time) bool {
	nt.lagMu.Lock()
	defer nt.lagMu.Unlock()
	for _, t := range nt.lagTimes {
		if t.After(a.Add(-time.Second)) && t.Before(b.Add(time.Second)) {
			return true
		}
	}
	return false
}

// clockRound is the round of the (common) fake clock for the current group.
func (nt *c13Net) clockRound() uint64 {
	nt.mu.Lock()
	g := nt.group
	n0 := nt.nodes[0]
	nt.mu.Unlock()
	if g == nil {
		return 0
	}
	now := n0.clock.Now().Unix()
	if now < g.GenesisTime {
		return 0
	}
	return common.CurrentRound(now, g.Period, g.GenesisTime)
}

// ---------------------------------------------------------------- DKG driving

func (nt *c13Net) cmd(n *c13Node, c *pdkg.DKGCommand) error {
	ctx, cancel := context.WithTimeout(context.Background(), 30*time.Second)
	defer cancel()
	c.Metadata = &pdkg.CommandMetadata{BeaconID: nt.beaconID}
	_, err := n.dkgc.Command(ctx, c)
	return err
}

func (nt *c13Net) dkgStatus(n *c13Node) (*pdkg.DKGStatusResponse, error) {
	ctx, cancel := context.WithTimeout(context.Background(), 5*time.Second)
	defer cancel()
	return n.dkgc.DKGStatus(ctx, &pdkg.DKGStatusRequest{BeaconID: nt.beaconID})
}

func c13Parts(ns []*c13Node) []*pdkg.Participant {
	out := make([]*pdkg.Participant, 0, len(ns))
	for _, n := range ns {
		out = append(out, n.part)
	}
	return out
}

var errC13DKGTerminal = errors.New("dkg reached a terminal failure state")

// waitEpoch waits (real time, generous; only a pacing wait, never a verdict) until every node in ns reports a
// completed DKG of the given epoch. A terminal failure state on any of them is returned as an error.
func (nt *c13Net) waitEpoch(ns []*c13Node, epoch uint32, maxWait time.Duration) error {
	deadline := time.Now().Add(maxWait)
	for {
		done := 0
		for _, n := range ns {
			st, err := nt.dkgStatus(n)
			if err != nil {
				continue
			}
			switch dkg.Status(st.Current.State) {
			case dkg.TimedOut, dkg.Aborted, dkg.Failed:
				if st.Current.Epoch == epoch {
					return fmt.Errorf("%w: node %d state %s epoch %d", errC13DKGTerminal, n.idx, dkg.Status(st.Current.State), epoch)
				}
			}
			if st.Complete != nil && st.Complete.Epoch == epoch && dkg.Status(st.Complete.State) == dkg.Complete {
				done++
			}
		}
		if done == len(ns) {
			return nil
		}
		if time.Now().After(deadline) {
			return fmt.Errorf("dkg epoch %d not complete on all %d nodes after %s (%d done)", epoch, len(ns), maxWait, done)
		}
		time.Sleep(100 * time.Millisecond)
	}
}

// waitState waits until node n reports the given current DKG state for the epoch.
func (nt *c13Net) waitState(n *c13Node, epoch uint32, want dkg.Status, maxWait time.Duration) error {
	deadline := time.Now().Add(maxWait)
	for {
		st, err := nt.dkgStatus(n)
		if err == nil && st.Current.Epoch == epoch && dkg.Status(st.Current.State) == want {
			return nil
		}
		if time.Now().After(deadline) {
			cur := "?"
			if err == nil {
				cur = fmt.Sprintf("%s@%d", dkg.Status(st.Current.State), st.Current.Epoch)
			}
			return fmt.Errorf("node %d: dkg state %s@%d not reached after %s (is %s)", n.idx, want, epoch, maxWait, cur)
		}
		time.Sleep(100 * time.Millisecond)
	}
}

// runInitialDKG: nodes[0] leads. Genesis is placed genesisDelay in the future (whole seconds); the DKG must
// finish before it (otherwise the beacon cannot Start — reported by the caller as inconclusive).
func (nt *c13Net) runInitialDKG(ns []*c13Node, thr int, genesisDelay time.Duration) (*key.Group, error) {
	leader := ns[0]
	now := time.Now()
	genesis := time.Unix(now.Add(genesisDelay).Unix()+1, 0)
	err := nt.cmd(leader, &pdkg.DKGCommand{Command: &pdkg.DKGCommand_Initial{Initial: &pdkg.FirstProposalOptions{
		Timeout:              timestamppb.New(now.Add(2 * time.Minute)),
		Threshold:            uint32(thr),
		PeriodSeconds:        uint32(nt.period.Seconds()),
		Scheme:               nt.sch.Name,
		CatchupPeriodSeconds: uint32(nt.catchup.Seconds()),
		GenesisTime:          timestamppb.New(genesis),
		Joining:              c13Parts(ns),
	}}})
	if err != nil {
		return nil, fmt.Errorf("initial proposal: %w", err)
	}
	for _, f := range ns[1:] {
		if err := nt.cmd(f, &pdkg.DKGCommand{Command: &pdkg.DKGCommand_Join{Join: &pdkg.JoinOptions{}}}); err != nil {
			return nil, fmt.Errorf("join node %d: %w", f.idx, err)
		}
	}
	if err := nt.cmd(leader, &pdkg.DKGCommand{Command: &pdkg.DKGCommand_Execute{Execute: &pdkg.ExecutionOptions{}}}); err != nil {
		return nil, fmt.Errorf("execute: %w", err)
	}
	if err := nt.waitEpoch(ns, 1, 60*time.Second); err != nil {
		return nil, err
	}
	g, err := nt.waitGroup(leader, nil)
	if err != nil {
		return nil, err
	}
	nt.mu.Lock()
	nt.group, nt.epoch = g, 1
	nt.mu.Unlock()
	return g, nil
}

// waitGroup waits until the beacon process of n has replaced bp.group (storeDKGOutput runs asynchronously,
// after the completion record in dkg.db) and returns the new group.
func (nt *c13Net) waitGroup(n *c13Node, old *key.Group) (*key.Group, error) {
	deadline := time.Now().Add(20 * time.Second)
	for {
		n.bp.state.RLock()
		g := n.bp.group
		n.bp.state.RUnlock()
		if g != nil && g != old {
			return g, nil
		}
		if time.Now().After(deadline) {
			return nil, fmt.Errorf("node %d never adopted the new group", n.idx)
		}
		time.Sleep(50 * time.Millisecond)
	}
}

type c13Reshare struct {
	leader    *c13Node
	remaining []*c13Node // includes the leader (first)
	joining   []*c13Node
	leaving   []*c13Node
	thr       int
	timeout   time.Duration
	// failure modes
	abortAfterAccept bool // leader aborts after the acceptances: expected error, epoch not completed
	neverExecute     bool // proposal is left to time out
	dropDKGTraffic   bool // execution starts but all kyber traffic is lost: expected Failed/TimedOut
	// the DKG layer completes the epoch but the beacon processes are expected to refuse its output
	// (validateGroupTransition): do not wait for a new group in core
	coreRefuses bool
	// members of the proposal that are expected to miss the execution (their completion is not waited for)
	absent []*c13Node
	// script hooks: after the joiners issued Join (before Execute); right after the leader's Execute command
	afterJoin    func()
	afterExecute func()
}

func c13GroupTOML(g *key.Group) ([]byte, error) {
	var b bytes.Buffer
	err := toml.NewEncoder(&b).Encode(g.TOML())
	return b.Bytes(), err
}

var errC13ReshareDidNotComplete = errors.New("reshare did not complete (as scripted)")
var errC13CoreRefusedOutput = errors.New("reshare completed in the DKG layer; core was expected to refuse its output")

// runReshare drives one resharing epoch. On scripted failure modes it returns errC13ReshareDidNotComplete once
// the failure is visible in the leader's DKG status.
func (nt *c13Net) runReshare(rs c13Reshare) (*key.Group, error) {
	nt.mu.Lock()
	old := nt.group
	epoch := nt.epoch + 1
	nt.mu.Unlock()
	if rs.timeout == 0 {
		rs.timeout = time.Minute
	}
	leader := rs.leader
	err := nt.cmd(leader, &pdkg.DKGCommand{Command: &pdkg.DKGCommand_Resharing{Resharing: &pdkg.ProposalOptions{
		Threshold:            uint32(rs.thr),
		CatchupPeriodSeconds: uint32(nt.catchup.Seconds()),
		Timeout:              timestamppb.New(time.Now().Add(rs.timeout)),
		Joining:              c13Parts(rs.joining),
		Remaining:            c13Parts(rs.remaining),
		Leaving:              c13Parts(rs.leaving),
	}}})
	if err != nil {
		return nil, fmt.Errorf("reshare proposal: %w", err)
	}
	for _, r := range rs.remaining {
		if r == leader {
			continue
		}
		if err := nt.cmd(r, &pdkg.DKGCommand{Command: &pdkg.DKGCommand_Accept{Accept: &pdkg.AcceptOptions{}}}); err != nil {
			return nil, fmt.Errorf("accept node %d: %w", r.idx, err)
		}
	}
	if rs.abortAfterAccept {
		if err := nt.cmd(leader, &pdkg.DKGCommand{Command: &pdkg.DKGCommand_Abort{Abort: &pdkg.AbortOptions{}}}); err != nil {
			return nil, fmt.Errorf("abort: %w", err)
		}
		if err := nt.waitState(leader, epoch, dkg.Aborted, 20*time.Second); err != nil {
			return nil, err
		}
		return nil, errC13ReshareDidNotComplete
	}
	gb, err := c13GroupTOML(old)
	if err != nil {
		return nil, err
	}
	for _, j := range rs.joining {
		if err := nt.cmd(j, &pdkg.DKGCommand{Command: &pdkg.DKGCommand_Join{Join: &pdkg.JoinOptions{GroupFile: gb}}}); err != nil {
			return nil, fmt.Errorf("join node %d: %w", j.idx, err)
		}
	}
	if rs.afterJoin != nil {
		rs.afterJoin()
	}
	if rs.neverExecute {
		// wait until the proposal's own timeout has passed (real time: the DKG state machine uses time.Now())
		time.Sleep(rs.timeout + 1500*time.Millisecond)
		return nil, errC13ReshareDidNotComplete
	}
	if rs.dropDKGTraffic {
		nt.dropDKG.Store(true)
		defer nt.dropDKG.Store(false)
	}
	if err := nt.cmd(leader, &pdkg.DKGCommand{Command: &pdkg.DKGCommand_Execute{Execute: &pdkg.ExecutionOptions{}}}); err != nil {
		return nil, fmt.Errorf("execute: %w", err)
	}
	if rs.afterExecute != nil {
		rs.afterExecute()
	}
	var members []*c13Node
	for _, n := range append(append([]*c13Node(nil), rs.remaining...), rs.joining...) {
		gone := false
		for _, a := range rs.absent {
			if a == n {
				gone = true
			}
		}
		if !gone {
			members = append(members, n)
		}
	}
	err = nt.waitEpoch(members, epoch, 120*time.Second)
	if rs.dropDKGTraffic {
		if err == nil {
			return nil, errors.New("reshare completed although all DKG traffic was dropped")
		}
		if errors.Is(err, errC13DKGTerminal) {
			return nil, errC13ReshareDidNotComplete
		}
		return nil, err
	}
	if err != nil {
		return nil, err
	}
	if rs.coreRefuses {
		nt.mu.Lock()
		nt.epoch = epoch // the DKG databases are at this epoch now, whatever core made of it
		nt.mu.Unlock()
		time.Sleep(2 * time.Second) // onDKGCompleted runs right after the completion record
		return nil, errC13CoreRefusedOutput
	}
	g, err := nt.waitGroup(leader, old)
	if err != nil {
		return nil, err
	}
	nt.mu.Lock()
	nt.group, nt.epoch = g, epoch
	nt.mu.Unlock()
	return g, nil
}

// ---------------------------------------------------------------- observation helpers

// head returns the last stored round of node n through the control port (what an operator sees).
func (nt *c13Net) head(n *c13Node) (uint64, bool) {
	if n.stopped.Load() {
		return 0, false
	}
	st, err := n.ctrl.Status(nt.beaconID)
	if err != nil || st.ChainStore == nil || st.ChainStore.IsEmpty {
		return 0, false
	}
	return st.ChainStore.LastStored, true
}

// waitHeads waits until every node of ns has stored round >= target, for at most maxPeriods beacon periods of
// the fake clock. It returns the number of periods waited and whether the target was reached.
func (nt *c13Net) waitHeads(ns []*c13Node, target uint64, maxPeriods int) (int, bool) {
	start := ns[0].clock.Now()
	for {
		ok := true
		for _, n := range ns {
			h, has := nt.head(n)
			if !has || h < target {
				ok = false
				break
			}
		}
		waited := int(ns[0].clock.Now().Sub(start) / nt.period)
		if ok {
			return waited, true
		}
		if waited >= maxPeriods {
			return waited, false
		}
		time.Sleep(50 * time.Millisecond)
	}
}

// waitClockRound blocks until the fake clock has reached the given round.
func (nt *c13Net) waitClockRound(r uint64) {
	for nt.clockRound() < r {
		time.Sleep(25 * time.Millisecond)
	}
}

func (nt *c13Net) chainInfo(n *c13Node) (*drand.ChainInfoPacket, error) {
	ctx, cancel := context.WithTimeout(context.Background(), 5*time.Second)
	defer cancel()
	return nt.pc.ChainInfo(ctx, test.NewPeer(n.addr), &drand.ChainInfoRequest{Metadata: &drand.Metadata{BeaconID: nt.beaconID}})
}

func (nt *c13Net) publicRand(n *c13Node, round uint64) (*drand.PublicRandResponse, error) {
	ctx, cancel := context.WithTimeout(context.Background(), 3*time.Second)
	defer cancel()
	return nt.pc.PublicRand(ctx, test.NewPeer(n.addr), &drand.PublicRandRequest{Round: round, Metadata: &drand.Metadata{BeaconID: nt.beaconID}})
}

func c13SchemeList() []string {
	return []string{crypto.DefaultSchemeID, crypto.UnchainedSchemeID, crypto.SigsOnG1ID, crypto.ShortSigSchemeID, crypto.BN254UnchainedOnG1SchemeID}
}
