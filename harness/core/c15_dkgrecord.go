package core

// C15, "unreadable DKG record" family: the dkg.db of a member that went through a real DKG and a real resharing
// (it holds the key share in its finished and current records) is damaged so that the records are still there but
// can no longer be loaded — a scheme the binary does not know (version skew), a group whose threshold exceeds its
// nodes, trailing garbage. A daemon is started on a copy of that folder and asked about the beacon through the
// start path, the control API (DKGStatus, a command) and a peer's gossip packet; every error string, response
// and log line goes to the scanner: being unable to load a record is no reason to quote it.

import (
	"context"
	"fmt"
	"io/fs"
	"os"
	"path/filepath"
	"regexp"
	"time"

	bolt "go.etcd.io/bbolt"

	dlog "github.com/drand/drand/v2/common/log"
	"github.com/drand/drand/v2/internal/dkg"
	pdkg "github.com/drand/drand/v2/protobuf/dkg"
	"github.com/drand/drand/v2/protobuf/drand"
)

func c15CopyTree(src, dst string) error {
	return filepath.WalkDir(src, func(p string, d fs.DirEntry, err error) error {
		if err != nil {
			return err
		}
		rel, _ := filepath.Rel(src, p)
		to := filepath.Join(dst, rel)
		if d.IsDir() {
			return os.MkdirAll(to, 0o755)
		}
		if !d.Type().IsRegular() {
			return nil
		}
		b, err := os.ReadFile(p)
		if err != nil {
			return err
		}
		st, _ := d.Info()
		return os.WriteFile(to, b, st.Mode().Perm())
	})
}

func c15UnreadableDKGRecords(run *vfRun, sc *c15Scanner, beaconID string, caseIdx int, root string) {
	src := filepath.Join(root, "n1")
	if _, err := os.Stat(filepath.Join(src, dkg.BoltFileName)); err != nil {
		return
	}
	kinds := []struct {
		name string
		edit func([]byte) []byte
	}{
		{"unknown-scheme", func(v []byte) []byte {
			return regexp.MustCompile(`(?m)^(\s*SchemeID\s*=\s*")[^"]*(")`).ReplaceAll(v, []byte("${1}bls-vf-no-such-scheme${2}"))
		}},
		{"threshold-above-nodes", func(v []byte) []byte {
			return regexp.MustCompile(`(?m)^(\s*Threshold\s*=\s*)\d+`).ReplaceAll(v, []byte("${1}99"))
		}},
		{"garbage-appended", func(v []byte) []byte { return append(append([]byte{}, v...), []byte("\n= = not toml at all\n")...) }},
	}
	ctx := context.Background()
	for ki, k := range kinds {
		phase := "dkg-record:" + k.name
		sc.setPhase(phase)
		dir := filepath.Join(root, fmt.Sprintf("dkgbad-%d", ki))
		if err := c15CopyTree(src, dir); err != nil {
			run.Note("unreadable dkg record: copy failed: " + err.Error())
			continue
		}
		db, err := bolt.Open(filepath.Join(dir, dkg.BoltFileName), 0o600, &bolt.Options{Timeout: 3 * time.Second})
		if err != nil {
			run.Note("unreadable dkg record: open failed: " + err.Error())
			continue
		}
		edited, withShare := 0, 0
		_ = db.Update(func(tx *bolt.Tx) error {
			for _, bn := range []string{"dkg", "dkg_finished"} {
				b := tx.Bucket([]byte(bn))
				if b == nil {
					continue
				}
				type kv struct{ k, v []byte }
				var all []kv
				_ = b.ForEach(func(key, v []byte) error {
					all = append(all, kv{append([]byte{}, key...), append([]byte{}, v...)})
					return nil
				})
				for _, e := range all {
					nv := k.edit(e.v)
					if string(nv) != string(e.v) {
						edited++
					}
					if regexp.MustCompile(`(?m)^\s*Share\s*=`).Match(nv) {
						withShare++
					}
					_ = b.Put(e.k, nv)
				}
			}
			return nil
		})
		db.Close()
		if edited == 0 || withShare == 0 {
			run.Note(fmt.Sprintf("unreadable dkg record %s: nothing to damage (edited %d, records with a share %d)", k.name, edited, withShare))
			continue
		}
		run.Count("dkg_records_made_unreadable", int64(edited))
		ports := vfnFreePorts()
		lp := filepath.Join(root, fmt.Sprintf("dkgbad-%d.log", ki))
		lg, sink, err := vfnFileLogger(lp, dlog.DebugLevel)
		if err != nil {
			continue
		}
		outcome := "loaded"
		dd, err := vfnNewDaemon(ctx, dir, ports, lg)
		if err != nil {
			sc.add("load-err", "NewDrandDaemon", []byte(err.Error()))
			outcome = "daemon-refused"
		} else {
			if err := dd.LoadBeaconsFromDisk(ctx, "", false, ""); err != nil {
				sc.add("load-err", "LoadBeaconsFromDisk", []byte(fmt.Errorf("couldn't load existing beacons: %w", err).Error()))
				outcome = "load-refused"
			}
			rctx, cancel := context.WithTimeout(ctx, 30*time.Second)
			if cc, err := vfnDial("127.0.0.1:"+ports.Ctrl, sc.dialOpts("ctl>")...); err == nil {
				ctl := pdkg.NewDKGControlClient(cc)
				_, _ = ctl.DKGStatus(rctx, &pdkg.DKGStatusRequest{BeaconID: beaconID})
				_, _ = ctl.Command(rctx, &pdkg.DKGCommand{Metadata: &pdkg.CommandMetadata{BeaconID: beaconID}, Command: &pdkg.DKGCommand_Abort{Abort: &pdkg.AbortOptions{}}})
				_, _ = ctl.Command(rctx, &pdkg.DKGCommand{Metadata: &pdkg.CommandMetadata{BeaconID: beaconID}, Command: &pdkg.DKGCommand_Accept{Accept: &pdkg.AcceptOptions{}}})
				md := &drand.Metadata{NodeVersion: c14Version(), BeaconID: beaconID}
				_, _ = drand.NewControlClient(cc).Status(rctx, &drand.StatusRequest{Metadata: md})
				_, _ = drand.NewControlClient(cc).GroupFile(rctx, &drand.GroupRequest{Metadata: md})
				cc.Close()
			}
			if pc, err := vfnDial(ports.Priv, sc.dialOpts("peer>")...); err == nil {
				gm := &pdkg.GossipMetadata{BeaconID: beaconID, Address: "127.0.0.1:1", Signature: []byte{1, 2, 3}}
				pub := pdkg.NewDKGPublicClient(pc)
				_, _ = pub.Packet(rctx, &pdkg.GossipPacket{Metadata: gm, Packet: &pdkg.GossipPacket_Abort{Abort: &pdkg.AbortDKG{Reason: "vf"}}})
				_, _ = pub.Packet(rctx, &pdkg.GossipPacket{Metadata: gm, Packet: &pdkg.GossipPacket_Execute{Execute: &pdkg.StartExecution{}}})
				pc.Close()
			}
			cancel()
			sctx, scancel := context.WithTimeout(ctx, 8*time.Second)
			dd.Stop(sctx)
			scancel()
		}
		sink.f.Close()
		if b, err := os.ReadFile(lp); err == nil {
			sc.add("log", "daemon-on-unreadable-dkg-record-debug-log", b)
		}
		run.Count("daemons_started_on_an_unreadable_dkg_record", 1)
		run.Seen("dkg_record_outcomes", k.name+"/"+outcome)
	}
}
