package core

// C15 — private keys and shares never leave the node.
//
// Three real daemons (file key stores, bolt, loopback gRPC + HTTP + control, real clock, umask 022)
// run a first DKG, rounds, a reshare, the public/status/chain-info/HTTP requests, a restart of one
// node with sync, BackupDatabase and a subset of the hostile C14 corpus.  Everything that leaves a
// node is recorded — every protobuf message seen by client-side unary+stream interceptors installed
// through Config.grpcOpts (re-marshalled), gRPC error strings, HTTP headers+bodies, the backup file,
// the debug-level log sinks and stdout — and searched at the end for every node's secret scalars in
// the encodings listed in c15Encodings.  Files are photographed (mode + content) at every
// key.save.* / dkgstore.* hook firing and at the end; a file whose bytes contain a secret must be
// owner-only.  A canary secret is planted in every channel and must be found.

import (
	"bytes"
	"context"
	"crypto/sha256"
	"encoding/base64"
	"encoding/hex"
	"fmt"
	"io"
	"io/fs"
	"math/big"
	"net/http"
	"os"
	"path/filepath"
	"sort"
	"strings"
	"sync"
	"syscall"
	"testing"
	"time"

	"github.com/jonboulle/clockwork"
	"go.uber.org/zap/zapcore"
	"google.golang.org/grpc"
	"google.golang.org/protobuf/proto"
	"google.golang.org/protobuf/types/known/timestamppb"

	"github.com/drand/drand/v2/common"
	"github.com/drand/drand/v2/common/key"
	dlog "github.com/drand/drand/v2/common/log"
	"github.com/drand/drand/v2/crypto"
	"github.com/drand/drand/v2/internal/dkg"
	dnet "github.com/drand/drand/v2/internal/net"
	"github.com/drand/drand/v2/internal/vfhook"
	pdkg "github.com/drand/drand/v2/protobuf/dkg"
	"github.com/drand/drand/v2/protobuf/drand"
	"github.com/drand/kyber"
	"github.com/drand/kyber/util/random"
)

// ---------------------------------------------------------------- scanner

type c15Pat struct {
	enc string
	b   []byte
}

type c15Secret struct {
	name   string // e.g. "node1/share/epoch2"
	kind   string // key | share | canary | control
	canary bool
	pats   []c15Pat
	raw    []byte
}

type c15Item struct {
	channel string // grpc-out grpc-in grpc-err http backup log stdout stderr load-err
	what    string
	phase   string
	data    []byte
}

type c15Snap struct {
	event string
	path  string
	mode  fs.FileMode
	data  []byte
}

type c15Scanner struct {
	mu       sync.Mutex
	secrets  []*c15Secret
	byRaw    map[string]bool
	items    []c15Item
	snaps    []c15Snap
	snapSeen map[string]bool
	phase    string
	bytesIn  int64
	hookN    map[string]int
}

func c15B64Core(enc *base64.Encoding, raw []byte, k int) []byte {
	buf := append(make([]byte, k), raw...)
	s := enc.EncodeToString(buf)
	start := 0
	if k > 0 {
		start = 4
	}
	end := (len(buf) / 3) * 4
	if end <= start {
		return nil
	}
	return []byte(s[start:end])
}

// c15Encodings derives every searched encoding of a secret's canonical bytes.
func c15Encodings(raw []byte) []c15Pat {
	rev := make([]byte, len(raw))
	for i := range raw {
		rev[len(raw)-1-i] = raw[i]
	}
	var ps []c15Pat
	ps = append(ps, c15Pat{"raw-be", raw}, c15Pat{"raw-le", rev},
		c15Pat{"hex-lower", []byte(hex.EncodeToString(raw))}, c15Pat{"hex-upper", []byte(strings.ToUpper(hex.EncodeToString(raw)))},
		c15Pat{"hex-lower-le", []byte(hex.EncodeToString(rev))})
	for k := 0; k < 3; k++ {
		ps = append(ps, c15Pat{fmt.Sprintf("base64-std@%d", k), c15B64Core(base64.RawStdEncoding, raw, k)},
			c15Pat{fmt.Sprintf("base64-url@%d", k), c15B64Core(base64.RawURLEncoding, raw, k)})
	}
	ps = append(ps, c15Pat{"decimal", []byte(new(big.Int).SetBytes(raw).String())})
	var sp, cm []string
	for _, b := range raw {
		sp = append(sp, fmt.Sprint(b))
		cm = append(cm, fmt.Sprint(b))
	}
	ps = append(ps, c15Pat{"go-bytes", []byte(strings.Join(sp, " "))}, c15Pat{"json-array", []byte(strings.Join(cm, ","))})
	// either half of the hex form (an error that echoes a truncated or split value)
	if h := hex.EncodeToString(raw); len(h) >= 64 {
		ps = append(ps, c15Pat{"hex-lower-first-half", []byte(h[:len(h)/2])}, c15Pat{"hex-lower-second-half", []byte(h[len(h)/2:])})
	}
	// drop duplicates (base64 std == url when no +/ occurs) and anything too short to be meaningful
	seen := map[string]bool{}
	var out []c15Pat
	for _, p := range ps {
		if len(p.b) < 16 || seen[string(p.b)] {
			continue
		}
		seen[string(p.b)] = true
		out = append(out, p)
	}
	return out
}

func (s *c15Scanner) addRaw(name, kind string, raw []byte, canary bool) {
	s.mu.Lock()
	defer s.mu.Unlock()
	if s.byRaw[string(raw)] {
		return
	}
	s.byRaw[string(raw)] = true
	s.secrets = append(s.secrets, &c15Secret{name: name, kind: kind, canary: canary, raw: raw, pats: c15Encodings(raw)})
}

func (s *c15Scanner) addScalar(name, kind string, sc kyber.Scalar) {
	if sc == nil {
		return
	}
	raw, err := sc.MarshalBinary()
	if err != nil || len(raw) == 0 {
		return
	}
	s.addRaw(name, kind, raw, false)
}

func (s *c15Scanner) add(channel, what string, data []byte) {
	if len(data) == 0 {
		return
	}
	s.mu.Lock()
	defer s.mu.Unlock()
	s.items = append(s.items, c15Item{channel: channel, what: what, phase: s.phase, data: append([]byte{}, data...)})
	s.bytesIn += int64(len(data))
}

func (s *c15Scanner) addProto(channel, what string, m any) {
	pm, ok := m.(proto.Message)
	if !ok || pm == nil {
		return
	}
	b, err := proto.Marshal(pm)
	if err != nil {
		return
	}
	s.add(channel, what+":"+string(pm.ProtoReflect().Descriptor().Name()), b)
}

func (s *c15Scanner) setPhase(p string) {
	s.mu.Lock()
	s.phase = p
	s.mu.Unlock()
}

func (s *c15Scanner) snap(event, p string) {
	st, err := os.Stat(p)
	if err != nil || !st.Mode().IsRegular() {
		return
	}
	b, err := os.ReadFile(p)
	if err != nil {
		return
	}
	h := sha256.Sum256(b)
	k := fmt.Sprintf("%s|%o|%x", p, st.Mode().Perm(), h[:8])
	s.mu.Lock()
	defer s.mu.Unlock()
	if s.snapSeen[k] {
		return
	}
	s.snapSeen[k] = true
	s.snaps = append(s.snaps, c15Snap{event: event, path: p, mode: st.Mode().Perm(), data: b})
}

type c15Hit struct {
	sec *c15Secret
	enc string
}

func (s *c15Scanner) find(data []byte) []c15Hit {
	var hs []c15Hit
	for _, sec := range s.secrets {
		for _, p := range sec.pats {
			if bytes.Contains(data, p.b) {
				hs = append(hs, c15Hit{sec, p.enc})
				break
			}
		}
	}
	return hs
}

// client interceptors: every request / response / stream item of the connection
func (s *c15Scanner) unary(node string) grpc.UnaryClientInterceptor {
	return func(ctx context.Context, method string, req, reply any, cc *grpc.ClientConn, invoker grpc.UnaryInvoker, opts ...grpc.CallOption) error {
		s.addProto("grpc-out", node+method, req)
		err := invoker(ctx, method, req, reply, cc, opts...)
		if err != nil {
			s.add("grpc-err", node+method, []byte(err.Error()))
		} else {
			s.addProto("grpc-in", node+method, reply)
		}
		return err
	}
}

type c15Stream struct {
	grpc.ClientStream
	s    *c15Scanner
	what string
}

func (w *c15Stream) SendMsg(m any) error {
	w.s.addProto("grpc-out", w.what, m)
	return w.ClientStream.SendMsg(m)
}

func (w *c15Stream) RecvMsg(m any) error {
	err := w.ClientStream.RecvMsg(m)
	if err == nil {
		w.s.addProto("grpc-in", w.what, m)
	} else if err != io.EOF {
		w.s.add("grpc-err", w.what, []byte(err.Error()))
	}
	return err
}

func (s *c15Scanner) stream(node string) grpc.StreamClientInterceptor {
	return func(ctx context.Context, desc *grpc.StreamDesc, cc *grpc.ClientConn, method string, streamer grpc.Streamer, opts ...grpc.CallOption) (grpc.ClientStream, error) {
		st, err := streamer(ctx, desc, cc, method, opts...)
		if err != nil {
			s.add("grpc-err", node+method, []byte(err.Error()))
			return nil, err
		}
		return &c15Stream{ClientStream: st, s: s, what: node + method}, nil
	}
}

func (s *c15Scanner) dialOpts(node string) []grpc.DialOption {
	return []grpc.DialOption{grpc.WithChainUnaryInterceptor(s.unary(node)), grpc.WithChainStreamInterceptor(s.stream(node))}
}

// ---------------------------------------------------------------- network

type c15Node struct {
	i      int
	dir    string
	ports  vfnPorts
	pair   *key.Pair
	dd     *DrandDaemon
	logger dlog.Logger
	sink   *vfnLogSink
	runner *dkg.TestRunner
	dkgc   pdkg.DKGControlClient
}

type c15Net struct {
	t        *testing.T
	run      *vfRun
	sc       *c15Scanner
	dir      string
	beaconID string
	scheme   *crypto.Scheme
	nodes    []*c15Node
	period   time.Duration
	httpc    *http.Client
}

func (n *c15Net) bp(i int) *BeaconProcess {
	dd := n.nodes[i].dd
	if dd == nil {
		return nil
	}
	dd.state.RLock()
	defer dd.state.RUnlock()
	return dd.beaconProcesses[n.beaconID]
}

func (n *c15Net) startNode(nd *c15Node) error {
	ctx := context.Background()
	opt := func(c *Config) { c.grpcOpts = append(c.grpcOpts, n.sc.dialOpts(fmt.Sprintf("n%d>", nd.i))...) }
	dd, err := vfnNewDaemon(ctx, nd.dir, nd.ports, nd.logger, opt)
	if err != nil {
		return err
	}
	nd.dd = dd
	if err := dd.LoadBeaconsFromDisk(ctx, "", false, ""); err != nil {
		return err
	}
	c, err := dnet.NewDKGControlClient(nd.logger, nd.ports.Ctrl)
	if err != nil {
		return err
	}
	nd.dkgc = c
	nd.runner = &dkg.TestRunner{Client: c, BeaconID: n.beaconID, Clock: clockwork.NewRealClock()}
	return nil
}

func (n *c15Net) participant(i int) *pdkg.Participant {
	p := n.nodes[i].pair.Public
	k, _ := p.Key.MarshalBinary()
	return &pdkg.Participant{Address: p.Addr, Key: k, Signature: p.Signature}
}

func (n *c15Net) waitEpoch(epoch uint32, secs int) error {
	for _, nd := range n.nodes {
		if err := nd.runner.WaitForDKG(nd.logger, epoch, secs); err != nil {
			return fmt.Errorf("node %d: %w", nd.i, err)
		}
	}
	return nil
}

func (n *c15Net) heads() []uint64 {
	hs := make([]uint64, len(n.nodes))
	for i := range n.nodes {
		if bp := n.bp(i); bp != nil {
			hs[i] = vfnHead(bp)
		}
	}
	return hs
}

func (n *c15Net) waitHeads(min uint64, who []int, d time.Duration) bool {
	dl := time.Now().Add(d)
	for time.Now().Before(dl) {
		ok := true
		hs := n.heads()
		for _, i := range who {
			if hs[i] < min {
				ok = false
			}
		}
		if ok {
			return true
		}
		time.Sleep(200 * time.Millisecond)
	}
	return false
}

// collect every secret the nodes hold right now
func (n *c15Net) collectSecrets(tag string) {
	for _, nd := range n.nodes {
		n.sc.addScalar(fmt.Sprintf("node%d/long-term-key", nd.i), "key", nd.pair.Key)
		if bp := n.bp(nd.i); bp != nil {
			bp.state.RLock()
			sh := bp.share
			bp.state.RUnlock()
			if sh != nil && sh.PrivateShare() != nil {
				n.sc.addScalar(fmt.Sprintf("node%d/share/%s", nd.i, tag), "share", sh.PrivateShare().V)
			}
		}
	}
}

// the requests a client / operator / peer makes; all answers are recorded
func (n *c15Net) requests(tag string) {
	ctx, cancel := context.WithTimeout(context.Background(), 60*time.Second)
	defer cancel()
	md := &drand.Metadata{NodeVersion: c14Version(), BeaconID: n.beaconID}
	var hashHex string
	for _, nd := range n.nodes {
		conn, err := vfnDial(nd.ports.Priv, n.sc.dialOpts("harness>")...)
		if err != nil {
			continue
		}
		pub, prot := drand.NewPublicClient(conn), drand.NewProtocolClient(conn)
		_, _ = pub.PublicRand(ctx, &drand.PublicRandRequest{Metadata: md})
		_, _ = pub.PublicRand(ctx, &drand.PublicRandRequest{Round: 1, Metadata: md})
		if ci, err := pub.ChainInfo(ctx, &drand.ChainInfoRequest{Metadata: md}); err == nil {
			hashHex = hex.EncodeToString(ci.Hash)
		}
		_, _ = pub.ListBeaconIDs(ctx, &drand.ListBeaconIDsRequest{})
		_, _ = prot.GetIdentity(ctx, &drand.IdentityRequest{Metadata: md})
		var others []*drand.Address
		for _, o := range n.nodes {
			others = append(others, &drand.Address{Address: o.ports.Priv})
		}
		_, _ = prot.Status(ctx, &drand.StatusRequest{CheckConn: others, Metadata: md})
		_, _ = drand.NewMetricsClient(conn).Metrics(ctx, &drand.MetricsRequest{})
		sctx, scancel := context.WithTimeout(ctx, 5*time.Second)
		if st, err := prot.SyncChain(sctx, &drand.SyncRequest{FromRound: 1, Metadata: md}); err == nil {
			for k := 0; k < 3; k++ {
				if _, err := st.Recv(); err != nil {
					break
				}
			}
		}
		if st, err := pub.PublicRandStream(sctx, &drand.PublicRandRequest{Round: 1, Metadata: md}); err == nil {
			for k := 0; k < 2; k++ {
				if _, err := st.Recv(); err != nil {
					break
				}
			}
		}
		scancel()
		conn.Close()
		// operator side: control port
		if cc, err := vfnDial("127.0.0.1:"+nd.ports.Ctrl, n.sc.dialOpts("ctl>")...); err == nil {
			ctl := drand.NewControlClient(cc)
			_, _ = ctl.Status(ctx, &drand.StatusRequest{Metadata: md})
			_, _ = ctl.RemoteStatus(ctx, &drand.RemoteStatusRequest{Metadata: md})
			_, _ = ctl.GroupFile(ctx, &drand.GroupRequest{Metadata: md})
			_, _ = ctl.PublicKey(ctx, &drand.PublicKeyRequest{Metadata: md})
			_, _ = ctl.ChainInfo(ctx, &drand.ChainInfoRequest{Metadata: md})
			_, _ = ctl.ListSchemes(ctx, &drand.ListSchemesRequest{})
			_, _ = ctl.PingPong(ctx, &drand.Ping{Metadata: md})
			_, _ = pdkg.NewDKGControlClient(cc).DKGStatus(ctx, &pdkg.DKGStatusRequest{BeaconID: n.beaconID})
			cc.Close()
		}
		// HTTP
		paths := []string{"/info", "/public/latest", "/public/1", "/public/2", "/chains", "/health", "/public/999999999"}
		if hashHex != "" {
			paths = append(paths, "/"+hashHex+"/info", "/"+hashHex+"/public/latest", "/"+hashHex+"/public/1", "/"+hashHex+"/health")
		}
		for _, p := range paths {
			n.httpGet(nd, p)
		}
	}
	_ = tag
}

func (n *c15Net) httpGet(nd *c15Node, p string) {
	resp, err := n.httpc.Get("http://" + nd.ports.Pub + p)
	if err != nil {
		n.sc.add("grpc-err", "http-client-error", []byte(err.Error()))
		return
	}
	var buf bytes.Buffer
	fmt.Fprintf(&buf, "%s\n", resp.Status)
	_ = resp.Header.Write(&buf)
	b, _ := io.ReadAll(io.LimitReader(resp.Body, 4<<20))
	resp.Body.Close()
	buf.Write(b)
	what := p
	if len(what) > 40 {
		what = "/{hash}" + what[strings.Index(what[1:], "/")+1:]
	}
	n.sc.add("http", what, buf.Bytes())
}

// ---------------------------------------------------------------- the scenario

func c15Scenario(t *testing.T, run *vfRun, sc *c15Scanner, schemeName string, caseIdx int, root string) {
	sch, err := crypto.SchemeFromName(schemeName)
	if err != nil {
		t.Fatal(err)
	}
	n := &c15Net{t: t, run: run, sc: sc, dir: root, beaconID: "vfsecret", scheme: sch, period: time.Second,
		httpc: &http.Client{Timeout: 15 * time.Second}}
	ctx := context.Background()
	sc.setPhase("setup")
	for i := 0; i < 3; i++ {
		nd := &c15Node{i: i, dir: filepath.Join(root, fmt.Sprintf("n%d", i)), ports: vfnFreePorts()}
		if err := os.MkdirAll(nd.dir, 0o755); err != nil {
			t.Fatal(err)
		}
		nd.logger, nd.sink, err = vfnFileLogger(filepath.Join(root, fmt.Sprintf("n%d.log", i)), dlog.DebugLevel)
		if err != nil {
			t.Fatal(err)
		}
		nd.pair, err = key.NewKeyPair(nd.ports.Priv, sch)
		if err != nil {
			t.Fatal(err)
		}
		st := key.NewFileStore(filepath.Join(nd.dir, common.MultiBeaconFolder), n.beaconID)
		if err := st.SaveKeyPair(nd.pair); err != nil {
			t.Fatal(err)
		}
		n.nodes = append(n.nodes, nd)
		if err := n.startNode(nd); err != nil {
			run.Inconclusive(fmt.Sprintf("case %d: node %d did not start: %v", caseIdx, i, err))
			return
		}
	}
	defer func() {
		for _, nd := range n.nodes {
			if nd.dd != nil {
				sctx, cancel := context.WithTimeout(context.Background(), 8*time.Second)
				nd.dd.Stop(sctx)
				cancel()
			}
		}
	}()
	n.collectSecrets("pre-dkg")

	// ---- first DKG (leader = node 0)
	sc.setPhase("dkg")
	joiners := []*pdkg.Participant{n.participant(0), n.participant(1), n.participant(2)}
	genesis := time.Now().Add(12 * time.Second)
	_, err = n.nodes[0].dkgc.Command(ctx, &pdkg.DKGCommand{Metadata: &pdkg.CommandMetadata{BeaconID: n.beaconID},
		Command: &pdkg.DKGCommand_Initial{Initial: &pdkg.FirstProposalOptions{Timeout: timestamppb.New(time.Now().Add(3 * time.Minute)), Threshold: 2,
			PeriodSeconds: 1, Scheme: schemeName, CatchupPeriodSeconds: 0, GenesisTime: timestamppb.New(genesis), Joining: joiners}}})
	if err != nil {
		run.Inconclusive(fmt.Sprintf("case %d: proposal failed: %v", caseIdx, err))
		return
	}
	for _, nd := range n.nodes[1:] {
		if err := nd.runner.JoinDKG(); err != nil {
			run.Inconclusive(fmt.Sprintf("case %d: join failed: %v", caseIdx, err))
			return
		}
	}
	if err := n.nodes[0].runner.StartExecution(); err != nil {
		run.Inconclusive(fmt.Sprintf("case %d: execute failed: %v", caseIdx, err))
		return
	}
	if err := n.waitEpoch(1, 90); err != nil {
		run.Inconclusive(fmt.Sprintf("case %d: first DKG did not finish: %v", caseIdx, err))
		return
	}
	n.collectSecrets("epoch1")
	run.Count("dkgs", 1)
	sc.setPhase("rounds-epoch1")
	if !n.waitHeads(4, []int{0, 1, 2}, time.Until(genesis)+30*time.Second) {
		run.Inconclusive(fmt.Sprintf("case %d: chain did not reach round 4: %v", caseIdx, n.heads()))
		return
	}
	n.requests("epoch1")

	// ---- reshare with the same three nodes
	sc.setPhase("reshare")
	_, err = n.nodes[0].dkgc.Command(ctx, &pdkg.DKGCommand{Metadata: &pdkg.CommandMetadata{BeaconID: n.beaconID},
		Command: &pdkg.DKGCommand_Resharing{Resharing: &pdkg.ProposalOptions{Timeout: timestamppb.New(time.Now().Add(3 * time.Minute)), Threshold: 2,
			CatchupPeriodSeconds: 0, Remaining: joiners}}})
	if err != nil {
		run.Inconclusive(fmt.Sprintf("case %d: reshare proposal failed: %v", caseIdx, err))
		return
	}
	for _, nd := range n.nodes[1:] {
		if err := nd.runner.Accept(); err != nil {
			run.Inconclusive(fmt.Sprintf("case %d: accept failed: %v", caseIdx, err))
			return
		}
	}
	if err := n.nodes[0].runner.StartExecution(); err != nil {
		run.Inconclusive(fmt.Sprintf("case %d: reshare execute failed: %v", caseIdx, err))
		return
	}
	if err := n.waitEpoch(2, 90); err != nil {
		run.Inconclusive(fmt.Sprintf("case %d: reshare did not finish: %v", caseIdx, err))
		return
	}
	n.collectSecrets("epoch2")
	run.Count("reshares", 1)
	sc.setPhase("rounds-epoch2")
	// past the transition (10 rounds after completion) plus a few rounds signed with the new shares
	var trans int64
	if bp := n.bp(0); bp != nil {
		bp.state.RLock()
		trans = bp.group.TransitionTime
		gen := bp.group.GenesisTime
		bp.state.RUnlock()
		target := common.CurrentRound(trans, n.period, gen) + 3
		if !n.waitHeads(target, []int{0, 1, 2}, time.Until(time.Unix(trans, 0))+40*time.Second) {
			run.Inconclusive(fmt.Sprintf("case %d: chain did not pass the transition round %d: %v", caseIdx, target, n.heads()))
			return
		}
		run.Count("rounds_after_transition", 3)
	}
	n.requests("epoch2")

	// ---- restart node 2: it syncs the rounds it missed from its peers
	sc.setPhase("restart-sync")
	nd2 := n.nodes[2]
	sctx, cancel := context.WithTimeout(ctx, 10*time.Second)
	nd2.dd.Stop(sctx)
	cancel()
	select {
	case <-nd2.dd.WaitExit():
	case <-time.After(10 * time.Second):
	}
	nd2.dd = nil
	h0 := n.heads()[0]
	n.waitHeads(h0+4, []int{0, 1}, 30*time.Second)
	if err := n.startNode(nd2); err != nil {
		run.Inconclusive(fmt.Sprintf("case %d: node 2 did not restart: %v", caseIdx, err))
		return
	}
	if !n.waitHeads(h0+5, []int{2}, 40*time.Second) {
		run.Inconclusive(fmt.Sprintf("case %d: node 2 did not sync: %v", caseIdx, n.heads()))
		return
	}
	run.Count("restarts_with_sync", 1)
	n.collectSecrets("after-restart")
	n.requests("after-restart")

	// ---- BackupDatabase through the control API
	sc.setPhase("backup")
	md := &drand.Metadata{NodeVersion: c14Version(), BeaconID: n.beaconID}
	for _, nd := range n.nodes {
		out := filepath.Join(root, fmt.Sprintf("backup-n%d.db", nd.i))
		if cc, err := vfnDial("127.0.0.1:"+nd.ports.Ctrl, sc.dialOpts("ctl>")...); err == nil {
			bctx, bcancel := context.WithTimeout(ctx, 30*time.Second)
			_, err := drand.NewControlClient(cc).BackupDatabase(bctx, &drand.BackupDBRequest{OutputFile: out, Metadata: md})
			bcancel()
			cc.Close()
			if err == nil {
				if b, err := os.ReadFile(out); err == nil {
					sc.add("backup", "BackupDatabase", b)
					sc.snap("end:backup", out)
					run.Count("backups", 1)
				}
			}
		}
	}
	// positive control for the backup channel: the signature of round 1 is in there
	if bp := n.bp(0); bp != nil {
		bp.state.RLock()
		b := bp.beacon
		bp.state.RUnlock()
		if b != nil {
			if r1, err := b.Store().Get(ctx, 1); err == nil && r1 != nil {
				sc.addRaw("control/round-1-signature", "control", r1.Signature, true)
			}
		}
	}

	// ---- canaries through the live channels
	sc.setPhase("canary")
	canary := sch.KeyGroup.Scalar().Pick(random.New(vfNewRng(vfCaseSeed(vfSeed(), "C15-canary", caseIdx))))
	craw, _ := canary.MarshalBinary()
	sc.addRaw("canary/scalar", "canary", craw, true)
	chex := hex.EncodeToString(craw)
	if conn, err := vfnDial(n.nodes[0].ports.Priv, sc.dialOpts("harness>")...); err == nil {
		cctx, ccancel := context.WithTimeout(ctx, 20*time.Second)
		prot := drand.NewProtocolClient(conn)
		_, _ = prot.PartialBeacon(cctx, &drand.PartialBeaconPacket{Round: 1, PartialSig: craw, Metadata: md})                                  // grpc-out: raw
		_, _ = prot.Status(cctx, &drand.StatusRequest{CheckConn: []*drand.Address{{Address: chex + ":1"}}, Metadata: md})                     // grpc-in: echoed address
		_, _ = prot.GetIdentity(cctx, &drand.IdentityRequest{Metadata: &drand.Metadata{BeaconID: new(big.Int).SetBytes(craw).String()}})      // grpc-err: echoed id
		ccancel()
		conn.Close()
	}
	n.httpGet(n.nodes[0], "/"+chex+"/public/latest")                                                                                                        // http: echoed hash
	n.nodes[0].dd.log.Debugw("vf canary", "value", base64.StdEncoding.EncodeToString(craw))                                                                 // log
	fmt.Fprintf(os.Stdout, "vf canary %s\n", strings.ToUpper(chex))                                                                                         // stdout
	canaryFile := filepath.Join(n.nodes[0].dir, "vf-canary.txt")
	_ = os.WriteFile(canaryFile, []byte("x = \""+chex+"\"\n"), 0o644) // file channel: a group/world-readable file with a (canary) secret

	// ---- a subset of the hostile corpus against node 0 (classes known to wedge the DKG service excluded)
	sc.setPhase("hostile")
	c15Hostile(n, run, caseIdx)

	// ---- end: logs, stdout, every file
	sc.setPhase("end")
	time.Sleep(300 * time.Millisecond)
	n.collectSecrets("end")
	for _, nd := range n.nodes {
		_ = filepath.WalkDir(nd.dir, func(p string, d fs.DirEntry, err error) error {
			if err == nil && d.Type().IsRegular() {
				sc.snap("end", p)
			}
			return nil
		})
	}
}

func c15Hostile(n *c15Net, run *vfRun, caseIdx int) {
	rng := vfNewRng(vfCaseSeed(vfSeed(), "C15-hostile", caseIdx))
	bp := n.bp(0)
	if bp == nil {
		return
	}
	bp.state.RLock()
	g := bp.group
	bp.state.RUnlock()
	// describe the real chain to the C14 generators: members' public material and the real group
	real := &vfnChain{ID: n.beaconID, Scheme: n.scheme, N: 3, T: 2, Group: g}
	for i := range n.nodes {
		real.Pairs = append(real.Pairs, n.nodes[i].pair)
		if b := n.bp(i); b != nil {
			real.Shares = append(real.Shares, b.share)
		}
	}
	real.Hash = bp.getChainHash()
	real.HashHex = hex.EncodeToString(real.Hash)
	dummy := func(id string) *vfnChain {
		c, _ := vfnMakeChain(rng, id, crypto.DefaultSchemeID, []string{"127.0.0.1:1"}, 1, time.Second, 0, time.Now().Unix())
		return c
	}
	w := &c14World{R: real, F: dummy(c14IDFresh), S: dummy(c14IDHalt), ports: n.nodes[0].ports, unknownH: rng.Bytes(32)}
	conn, err := vfnDial(n.nodes[0].ports.Priv, n.sc.dialOpts("hostile>")...)
	if err != nil {
		return
	}
	defer conn.Close()
	tgt := &c14Target{ports: n.nodes[0].ports, conn: conn, httpc: n.httpc}
	list := w.corpus("running", rng, false)
	for i := range list {
		r := &list[i]
		if r.Class == "gossip-oneof-dkg" || r.K > 1 {
			continue
		}
		// name the real beacon where the corpus names "default"
		b := 8 * time.Second
		if r.Idle {
			b = time.Second
		}
		ctx, cancel := context.WithTimeout(context.Background(), b)
		desc, err := r.Do(ctx, tgt)
		cancel()
		if r.Endpoint == "HTTP" {
			n.sc.add("http", "hostile:"+r.Class, []byte(desc))
			if err != nil {
				n.sc.add("grpc-err", "hostile-http", []byte(err.Error()))
			}
		}
		run.Count("hostile_requests", 1)
	}
}

// ---------------------------------------------------------------- evaluation

func (s *c15Scanner) evaluate(run *vfRun, caseInfo map[string]any) (canaryChannels map[string]bool) {
	s.mu.Lock()
	defer s.mu.Unlock()
	canaryChannels = map[string]bool{}
	nsec, ncan := 0, 0
	for _, sec := range s.secrets {
		if sec.canary {
			ncan++
		} else {
			nsec++
		}
	}
	run.Count("secrets_tracked", int64(nsec))
	run.Count("canaries_tracked", int64(ncan))
	for _, it := range s.items {
		run.Count("items."+it.channel, 1)
		run.Count("bytes_scanned", int64(len(it.data)))
		run.Eval(fmt.Sprintf("%s/%s/%s", it.channel, it.what, it.phase))
		for _, h := range s.find(it.data) {
			if h.sec.canary {
				canaryChannels[it.channel] = true
				run.Count("canary_hits."+it.channel, 1)
				continue
			}
			ci := map[string]any{"channel": it.channel, "what": it.what, "phase": it.phase, "secret": h.sec.name, "encoding": h.enc}
			for k, v := range caseInfo {
				ci[k] = v
			}
			run.Violation(fmt.Sprintf("C15/leak/%s/%s/%s", it.channel, h.sec.kind, strings.SplitN(h.enc, "@", 2)[0]),
				fmt.Sprintf("%s found (%s) in %s %s during phase %s (%d bytes)", h.sec.name, h.enc, it.channel, it.what, it.phase, len(it.data)), ci)
		}
	}
	// files
	filesWithSecret := map[string]bool{}
	for _, sn := range s.snaps {
		run.Count("file_snapshots", 1)
		base := filepath.Base(sn.path)
		run.Eval(fmt.Sprintf("file/%s/%s/%o", base, strings.SplitN(sn.event, ":", 2)[0], sn.mode))
		hits := s.find(sn.data)
		for _, h := range hits {
			if h.sec.kind == "control" {
				continue
			}
			if h.sec.canary {
				if sn.mode&0o077 != 0 {
					canaryChannels["file-mode"] = true
				}
				continue
			}
			filesWithSecret[base] = true
			if sn.mode&0o077 == 0 {
				continue
			}
			which := "group-or-other-bits"
			switch {
			case sn.mode&0o004 != 0 && sn.mode&0o040 != 0:
				which = "group+world-readable"
			case sn.mode&0o004 != 0:
				which = "world-readable"
			case sn.mode&0o040 != 0:
				which = "group-readable"
			}
			ci := map[string]any{"file": sn.path, "mode": fmt.Sprintf("%04o", sn.mode), "event": sn.event, "secret": h.sec.name, "encoding": h.enc}
			for k, v := range caseInfo {
				ci[k] = v
			}
			run.Violation(fmt.Sprintf("C15/file-mode/%s/%s", base, which),
				fmt.Sprintf("%s holds %s (%s) with mode %04o at %s (umask 022)", sn.path, h.sec.name, h.enc, sn.mode, sn.event), ci)
			break
		}
	}
	var fl []string
	for f := range filesWithSecret {
		fl = append(fl, f)
	}
	sort.Strings(fl)
	run.Note("files holding a secret: " + strings.Join(fl, ", "))
	run.Count("files_holding_a_secret", int64(len(fl)))
	if len(fl) > 0 {
		canaryChannels["file-content"] = true
	}
	for k, v := range s.hookN {
		run.Count("hook."+k, int64(v))
	}
	return canaryChannels
}

func TestVF_C15(t *testing.T) {
	run := vfNewRun("C15", "daemonnet")
	defer run.Finish()
	old := syscall.Umask(0o022)
	defer syscall.Umask(old)
	seed := vfSeed()
	all := []string{crypto.DefaultSchemeID, crypto.UnchainedSchemeID, crypto.SigsOnG1ID, crypto.ShortSigSchemeID, crypto.BN254UnchainedOnG1SchemeID}
	var schemes []string
	if vfThorough() {
		schemes = all
	} else {
		schemes = []string{all[int(seed)%3], all[3+int(seed)%2]}
	}
	replay, doReplay := vfReplayCase()
	for ci, schemeName := range schemes {
		if doReplay && ci != replay {
			continue
		}
		root, err := os.MkdirTemp("", "vfc15-")
		if err != nil {
			t.Fatal(err)
		}
		sc := &c15Scanner{byRaw: map[string]bool{}, snapSeen: map[string]bool{}, hookN: map[string]int{}}
		// stdout of this process (key store messages, the DKG store's own logger, default loggers)
		stdoutPath := filepath.Join(root, "stdout.log")
		sf, err := os.Create(stdoutPath)
		if err != nil {
			t.Fatal(err)
		}
		realStdout := os.Stdout
		os.Stdout = sf
		_ = dlog.DefaultLogger()
		dlog.ConfigureDefaultLogger(zapcore.AddSync(sf), dlog.DebugLevel, true)
		// file hooks
		nodeDirs := func() []string {
			var ds []string
			for i := 0; i < 3; i++ {
				ds = append(ds, filepath.Join(root, fmt.Sprintf("n%d", i)))
			}
			return ds
		}
		vfhook.SetPoint(func(name string, args ...any) {
			switch {
			case strings.HasPrefix(name, "key.save."):
				if p, ok := args[0].(string); ok {
					sc.snap("hook:"+name, p)
				}
			case strings.HasPrefix(name, "dkgstore."):
				if len(args) > 1 {
					if st, ok := args[1].(*dkg.DBState); ok && st != nil && st.KeyShare != nil && st.KeyShare.PrivateShare() != nil {
						sc.addScalar(fmt.Sprintf("dkgstore/%s/epoch%d/share-index-%d", st.BeaconID, st.Epoch, st.KeyShare.PrivateShare().I), "share", st.KeyShare.PrivateShare().V)
					}
				}
				for _, d := range nodeDirs() {
					sc.snap("hook:"+name, filepath.Join(d, dkg.BoltFileName))
				}
			default:
				return
			}
			sc.mu.Lock()
			sc.hookN[name]++
			sc.mu.Unlock()
		})
		c15Scenario(t, run, sc, schemeName, ci, root)
		c15RefusedLoads(run, sc, schemeName, ci, root)
		c15UnreadableDKGRecords(run, sc, "vfsecret", ci, root)
		vfhook.SetPoint(nil)
		os.Stdout = realStdout
		dlog.ConfigureDefaultLogger(nil, dlog.InfoLevel, true)
		sf.Close()
		// the log sinks and stdout
		for i := 0; i < 3; i++ {
			if b, err := os.ReadFile(filepath.Join(root, fmt.Sprintf("n%d.log", i))); err == nil {
				sc.phase = "whole-run"
				sc.add("log", fmt.Sprintf("node%d-debug-log", i), b)
			}
		}
		if b, err := os.ReadFile(stdoutPath); err == nil {
			sc.add("stdout", "process-stdout", b)
		}
		chans := sc.evaluate(run, map[string]any{"case_index": ci, "scheme": schemeName})
		run.Sample(map[string]any{"case_index": ci, "scheme": schemeName, "items": len(sc.items), "snapshots": len(sc.snaps), "secrets": len(sc.secrets), "canary_channels": fmt.Sprint(chans)})
		if run.inconcl == 0 {
			for _, ch := range []string{"grpc-out", "grpc-in", "grpc-err", "http", "backup", "log", "stdout", "stderr", "load-err", "file-mode", "file-content"} {
				if !chans[ch] {
					t.Errorf("C15 harness: canary not found in channel %q — the scanner is blind there (case %d)", ch, ci)
				}
			}
		}
		_ = os.RemoveAll(root)
	}
	if !doReplay || replay == -1 {
		c15StraceRun(t, run)
	}
}
