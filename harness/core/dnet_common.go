package core

// engine D ("daemonnet") — shared pieces: harness-generated chain key material, node folders on
// disk in the layout the daemon loads at start, daemons on loopback gRPC/HTTP, raw gRPC clients.
//
// Everything is real: key.NewFileStore folders, dkg.db written by the daemon's own v1->v2
// migration path (LoadBeaconFromStore -> dkg.Migrate), the production start path
// LoadBeaconFromDisk, the real clock (the configuration default).  The harness owns all key
// material (share.NewPriPoly), so the oracles verify against keys known independently of the node.

import (
	"context"
	"encoding/hex"
	"fmt"
	"os"
	"path"
	"sync"
	"syscall"
	"time"

	"go.uber.org/zap/zapcore"
	"google.golang.org/grpc"
	"google.golang.org/grpc/credentials/insecure"

	"github.com/drand/drand/v2/common"
	chain2 "github.com/drand/drand/v2/common/chain"
	"github.com/drand/drand/v2/common/key"
	dlog "github.com/drand/drand/v2/common/log"
	"github.com/drand/drand/v2/crypto"
	"github.com/drand/drand/v2/internal/chain"
	"github.com/drand/drand/v2/internal/test"
	"github.com/drand/kyber"
	"github.com/drand/kyber/share"
	kdkg "github.com/drand/kyber/share/dkg"
	"github.com/drand/kyber/util/random"
)

// vfnChain is the complete key material of one beacon chain with N members and threshold T.
type vfnChain struct {
	ID      string
	Scheme  *crypto.Scheme
	N, T    int
	Pairs   []*key.Pair
	Shares  []*key.Share
	Group   *key.Group
	Info    *chain2.Info
	Hash    []byte
	HashHex string
	PubKey  kyber.Point
	PubBin  []byte
}

// vfnMakeChain generates the long-term keys, the distributed key and the group file of a chain
// (what a finished first-epoch DKG would have produced), deterministically from rng.
func vfnMakeChain(rng *vfRng, id, schemeName string, addrs []string, thr int, period, catchup time.Duration, genesis int64) (*vfnChain, error) {
	sch, err := crypto.SchemeFromName(schemeName)
	if err != nil {
		return nil, err
	}
	n := len(addrs)
	c := &vfnChain{ID: id, Scheme: sch, N: n, T: thr}
	rnd := random.New(rng)
	nodes := make([]*key.Node, n)
	for i, a := range addrs {
		k := sch.KeyGroup.Scalar().Pick(rnd)
		pub := &key.Identity{Key: sch.KeyGroup.Point().Mul(k, nil), Addr: a, Scheme: sch}
		p := &key.Pair{Key: k, Public: pub}
		if err := p.SelfSign(); err != nil {
			return nil, err
		}
		c.Pairs = append(c.Pairs, p)
		nodes[i] = &key.Node{Identity: pub, Index: uint32(i)}
	}
	pri := share.NewPriPoly(sch.KeyGroup, thr, sch.KeyGroup.Scalar().Pick(rnd), rnd)
	pub := pri.Commit(sch.KeyGroup.Point().Base())
	_, commits := pub.Info()
	for _, s := range pri.Shares(n) {
		c.Shares = append(c.Shares, &key.Share{DistKeyShare: kdkg.DistKeyShare{Share: s, Commits: commits}, Scheme: sch})
	}
	g := &key.Group{
		ID: id, Threshold: thr, Period: period, CatchupPeriod: catchup, Scheme: sch,
		GenesisTime: genesis, TransitionTime: genesis, Nodes: nodes,
		PublicKey: &key.DistPublic{Coefficients: commits},
	}
	g.GenesisSeed = g.Hash()
	c.Group = g
	c.Info = chain2.NewChainInfo(g)
	c.Hash = c.Info.Hash()
	c.HashHex = hex.EncodeToString(c.Hash)
	c.PubKey = g.PublicKey.Key()
	c.PubBin, _ = c.PubKey.MarshalBinary()
	return c, nil
}

// vfnWriteMember writes member idx of chain c into a node's configuration folder exactly as a
// v1 node would have it on disk (key pair, group file, share).  withGroup=false leaves a fresh
// beacon (key pair only, "expect to run DKG").
func vfnWriteMember(cfgFolder string, c *vfnChain, idx int, withGroup bool) error {
	st := key.NewFileStore(path.Join(cfgFolder, common.MultiBeaconFolder), c.ID)
	if err := st.SaveKeyPair(c.Pairs[idx]); err != nil {
		return err
	}
	if !withGroup {
		return nil
	}
	if err := st.SaveGroup(c.Group); err != nil {
		return err
	}
	return st.SaveShare(c.Shares[idx])
}

// vfnPartial builds the valid partial signature of member idx for (round, prevSig).
func (c *vfnChain) vfnPartial(idx int, round uint64, prevSig []byte) ([]byte, error) {
	msg := c.Scheme.DigestBeacon(&common.Beacon{Round: round, PreviousSig: prevSig})
	return c.Scheme.ThresholdScheme.Sign(c.Shares[idx].PrivateShare(), msg)
}

// vfnVerifies reports whether (round, prev, sig) is a valid beacon of chain c.
func (c *vfnChain) vfnVerifies(round uint64, prev, sig []byte) bool {
	if len(sig) == 0 {
		return false
	}
	defer func() { _ = recover() }()
	b := &common.Beacon{Round: round, Signature: sig}
	if c.Scheme.Name == crypto.DefaultSchemeID {
		b.PreviousSig = prev
	}
	return c.Scheme.VerifyBeacon(b, c.PubKey) == nil
}

// ---------------------------------------------------------------- daemon

type vfnLogSink struct {
	mu sync.Mutex
	f  *os.File
}

func (s *vfnLogSink) Write(p []byte) (int, error) {
	s.mu.Lock()
	defer s.mu.Unlock()
	return s.f.Write(p)
}
func (s *vfnLogSink) Sync() error { return nil }

// vfnFileLogger returns a JSON logger at the given level writing to file p.
func vfnFileLogger(p string, level int) (dlog.Logger, *vfnLogSink, error) {
	f, err := os.OpenFile(p, os.O_CREATE|os.O_APPEND|os.O_WRONLY, 0o600)
	if err != nil {
		return nil, nil, err
	}
	s := &vfnLogSink{f: f}
	return dlog.New(zapcore.AddSync(s), level, true), s, nil
}

type vfnPorts struct {
	Priv string `json:"priv"`
	Pub  string `json:"pub"`
	Ctrl string `json:"ctrl"`
}

func vfnFreePorts() vfnPorts {
	return vfnPorts{Priv: test.FreeBind("127.0.0.1"), Pub: test.FreeBind("127.0.0.1"), Ctrl: test.FreePort()}
}

// vfnNewDaemon creates a daemon on the given folder/ports with the bolt back-end (engine D needs it
// explicitly) and the real clock.
func vfnNewDaemon(ctx context.Context, cfgFolder string, p vfnPorts, l dlog.Logger, extra ...ConfigOption) (*DrandDaemon, error) {
	opts := []ConfigOption{
		WithConfigFolder(cfgFolder),
		WithDBStorageEngine(chain.BoltDB),
		WithPrivateListenAddress(p.Priv),
		WithPublicListenAddress(p.Pub),
		WithControlPort(p.Ctrl),
		WithDkgKickoffGracePeriod(1 * time.Second),
		WithDkgPhaseTimeout(5 * time.Second),
		WithMemDBSize(100),
	}
	opts = append(opts, extra...)
	return NewDrandDaemon(ctx, NewConfig(l, opts...))
}

// vfnHead returns the last stored round of a beacon process (0 when there is no handler).
func vfnHead(bp *BeaconProcess) uint64 {
	bp.state.RLock()
	b := bp.beacon
	bp.state.RUnlock()
	if b == nil {
		return 0
	}
	ctx, cancel := context.WithTimeout(context.Background(), 2*time.Second)
	defer cancel()
	last, err := b.Store().Last(ctx)
	if err != nil || last == nil {
		return 0
	}
	return last.Round
}

func vfnDial(addr string, opts ...grpc.DialOption) (*grpc.ClientConn, error) {
	o := append([]grpc.DialOption{grpc.WithTransportCredentials(insecure.NewCredentials()),
		grpc.WithDefaultCallOptions(grpc.MaxCallRecvMsgSize(16<<20), grpc.MaxCallSendMsgSize(16<<20))}, opts...)
	return grpc.NewClient(addr, o...)
}

func vfnErrStr(err error) string {
	if err == nil {
		return ""
	}
	s := err.Error()
	if len(s) > 300 {
		s = s[:300] + "…"
	}
	return s
}

func vfnTrunc(s string, n int) string {
	if len(s) > n {
		return s[:n] + fmt.Sprintf("…(+%d)", len(s)-n)
	}
	return s
}

// vfnRaceExit: under -race the testing package fails a test in which the detector reported anything
// (exit status 1), which the driver would read as a broken harness although the reports are collected
// from the GORACE log files and classified there (anchored -> violation, others -> listed).  A run that
// finished its own work without a harness error therefore leaves with status 0; cleanup runs first
// because deferred t.TempDir removal does not happen on os.Exit.
// completed must be true only when the test body ran to its end (t.Fatal leaves through Goexit and
// never sets it; t.Failed() cannot be asked because under -race it reports the detector's findings).
func vfnRaceExit(completed bool, cleanup ...func()) {
	if !vfnRaceEnabled || !completed {
		return
	}
	for _, f := range cleanup {
		f()
	}
	vfSinkMu.Lock()
	if vfSinkF != nil {
		_ = vfSinkF.Sync()
	}
	vfSinkMu.Unlock()
	// os.Exit(0) inside a test is turned into a panic by the testing package; leave directly
	syscall.Exit(0)
}
