package core

// C14 (loopback part) — no message from the network can crash or wedge a node.
//
// The daemon under test runs in a CHILD PROCESS (the re-executed test binary, TestVFChild_C14) started
// through the production path (NewDrandDaemon + LoadBeaconsFromDisk) on a folder the parent prepared:
//   R  id "default": 2-of-3 chain, the node is member 0, the harness holds shares 1 and 2 and plays the
//      honest peer (valid partials over the real PartialBeacon endpoint), so the chain produces;
//   F  id "vffresh": key pair only (no DKG yet);
//   S  id "vfhalt":  1-of-1 chain whose BeaconProcess has been stopped (bp.Stop, as Shutdown / daemon
//      stop do before removal) but is still routed.
// The parent sends generated hostile requests over real loopback gRPC / HTTP, logs each one BEFORE it is
// sent, and after each request probes the same endpoint and one other service.  The child also answers
// "dump" on its stdin by writing all goroutine stacks to a file, so a wedge verdict always carries the
// parked frame; SIGQUIT is the fall-back.

import (
	"bufio"
	"context"
	"encoding/hex"
	"encoding/json"
	"fmt"
	"io"
	"math"
	"net"
	"net/http"
	"os"
	"os/exec"
	"path/filepath"
	"regexp"
	"strings"
	"sync"
	"sync/atomic"
	"syscall"
	"testing"
	"time"

	"google.golang.org/grpc"
	healthgrpc "google.golang.org/grpc/health/grpc_health_v1"
	"google.golang.org/protobuf/proto"
	"google.golang.org/protobuf/types/known/timestamppb"

	"github.com/drand/drand/v2/common"
	dlog "github.com/drand/drand/v2/common/log"
	"github.com/drand/drand/v2/crypto"
	"github.com/drand/drand/v2/internal/test"
	pdkg "github.com/drand/drand/v2/protobuf/dkg"
	"github.com/drand/drand/v2/protobuf/drand"
)

const (
	c14IDFresh   = "vffresh"
	c14IDHalt    = "vfhalt"
	c14IDChained = "vfchained"
)

// the structural bound of one request / probe: 10 s, tripled when the binaries carry the race detector
var c14Bound = func() time.Duration {
	if vfnRaceEnabled {
		return 30 * time.Second
	}
	return 10 * time.Second
}()

// ---------------------------------------------------------------- child

type c14ChildCfg struct {
	Dir   string   `json:"dir"`
	Ports vfnPorts `json:"ports"`
}

// TestVFChild_C14 is the daemon process.  It does nothing unless VF_C14_CHILD names a config file.
func TestVFChild_C14(t *testing.T) {
	cfgPath := os.Getenv("VF_C14_CHILD")
	if cfgPath == "" {
		return
	}
	var cfg c14ChildCfg
	b, err := os.ReadFile(cfgPath)
	if err != nil || json.Unmarshal(b, &cfg) != nil {
		fmt.Fprintln(os.Stderr, "vfchild: bad config", err)
		os.Exit(3)
	}
	out := os.NewFile(3, "vfchild-out")
	say := func(s string) { fmt.Fprintln(out, s) }
	lg, _, err := vfnFileLogger(filepath.Join(cfg.Dir, "child-daemon.log"), dlog.DebugLevel)
	if err != nil {
		say("err logger " + err.Error())
		os.Exit(3)
	}
	ctx := context.Background()
	dd, err := vfnNewDaemon(ctx, cfg.Dir, cfg.Ports, lg)
	if err != nil {
		say("err daemon " + err.Error())
		os.Exit(3)
	}
	if err := dd.LoadBeaconsFromDisk(ctx, "", false, ""); err != nil {
		say("err load " + err.Error())
		os.Exit(3)
	}
	say("ready")
	sc := bufio.NewScanner(os.Stdin)
	for sc.Scan() {
		f := strings.Fields(sc.Text())
		if len(f) == 0 {
			continue
		}
		switch f[0] {
		case "stopbeacon":
			dd.state.RLock()
			bp := dd.beaconProcesses[f[1]]
			dd.state.RUnlock()
			if bp == nil {
				say("err nobeacon")
				continue
			}
			sctx, cancel := context.WithTimeout(ctx, 5*time.Second)
			bp.Stop(sctx)
			cancel()
			say("ok stopbeacon")
		case "dump":
			if err := os.WriteFile(f[1], []byte(vfGoroutineDump()), 0o600); err != nil {
				say("err dump " + err.Error())
			} else {
				say("ok dump")
			}
		case "quit":
			say("ok quit")
			return
		}
	}
}

type c14Child struct {
	cmd      *exec.Cmd
	stdin    io.WriteCloser
	out      *bufio.Reader
	outMu    sync.Mutex
	exited   chan struct{}
	exitErr  error
	stderr   string // path
	stdout   string
	gen      int
	lines    chan string
	dumpSeq  int
	dir      string
	quitSent atomic.Bool
}

func c14StartChild(dir string, cfgPath string, gen int) (*c14Child, error) {
	c := &c14Child{exited: make(chan struct{}), gen: gen, dir: dir, lines: make(chan string, 16)}
	c.stderr = filepath.Join(dir, fmt.Sprintf("child-%d.stderr", gen))
	c.stdout = filepath.Join(dir, fmt.Sprintf("child-%d.stdout", gen))
	ef, err := os.Create(c.stderr)
	if err != nil {
		return nil, err
	}
	of, err := os.Create(c.stdout)
	if err != nil {
		return nil, err
	}
	pr, pw, err := os.Pipe()
	if err != nil {
		return nil, err
	}
	cmd := exec.Command(os.Args[0], "-test.run=^TestVFChild_C14$", "-test.timeout=0")
	env := []string{}
	for _, kv := range os.Environ() {
		if strings.HasPrefix(kv, "VF_OUT=") || strings.HasPrefix(kv, "GOTRACEBACK=") {
			continue
		}
		env = append(env, kv)
	}
	cmd.Env = append(env, "VF_C14_CHILD="+cfgPath, "GOTRACEBACK=all")
	cmd.Stdout, cmd.Stderr = of, ef
	cmd.ExtraFiles = []*os.File{pw}
	c.stdin, err = cmd.StdinPipe()
	if err != nil {
		return nil, err
	}
	if err := cmd.Start(); err != nil {
		return nil, err
	}
	pw.Close()
	ef.Close()
	of.Close()
	c.cmd = cmd
	go func() {
		sc := bufio.NewScanner(pr)
		for sc.Scan() {
			c.lines <- sc.Text()
		}
		close(c.lines)
	}()
	go func() {
		c.exitErr = cmd.Wait()
		close(c.exited)
	}()
	line, ok := c.waitLine(90 * time.Second)
	if !ok || line != "ready" {
		c.kill()
		return nil, fmt.Errorf("child did not become ready: %q (stderr: %s)", line, c.stderrTail(20))
	}
	return c, nil
}

func (c *c14Child) waitLine(d time.Duration) (string, bool) {
	select {
	case l, ok := <-c.lines:
		return l, ok
	case <-time.After(d):
		return "", false
	case <-c.exited:
		select {
		case l, ok := <-c.lines:
			return l, ok
		default:
		}
		return "", false
	}
}

func (c *c14Child) command(s string, d time.Duration) (string, bool) {
	if _, err := io.WriteString(c.stdin, s+"\n"); err != nil {
		return "", false
	}
	return c.waitLine(d)
}

func (c *c14Child) dead() bool {
	select {
	case <-c.exited:
		return true
	default:
		return false
	}
}

func (c *c14Child) kill() {
	if !c.dead() {
		_ = c.cmd.Process.Kill()
		<-c.exited
	}
}

func (c *c14Child) stderrTail(n int) string {
	b, _ := os.ReadFile(c.stderr)
	// a crash report starts at "panic:" / "fatal error:" and is followed by every goroutine: show its head
	txt := string(b)
	for _, mark := range []string{"\npanic: ", "\nfatal error: ", "panic: ", "fatal error: "} {
		if i := strings.LastIndex(txt, mark); i >= 0 {
			lines := strings.Split(txt[i:], "\n")
			if len(lines) > n {
				lines = lines[:n]
			}
			return strings.TrimSpace(strings.Join(lines, "\n"))
		}
	}
	lines := strings.Split(txt, "\n")
	if len(lines) > n {
		lines = lines[len(lines)-n:]
	}
	return strings.Join(lines, "\n")
}

// dump returns all goroutine stacks of the child: through the stdin command, else through SIGQUIT
// (which ends the child; the stacks are then in its stderr file).
func (c *c14Child) dump() string {
	c.dumpSeq++
	p := filepath.Join(c.dir, fmt.Sprintf("dump-%d-%d.txt", c.gen, c.dumpSeq))
	if l, ok := c.command("dump "+p, 10*time.Second); ok && l == "ok dump" {
		b, _ := os.ReadFile(p)
		return string(b)
	}
	if !c.dead() {
		_ = c.cmd.Process.Signal(syscall.SIGQUIT)
		select {
		case <-c.exited:
		case <-time.After(15 * time.Second):
			c.kill()
		}
	}
	b, _ := os.ReadFile(c.stderr)
	return string(b)
}

// blocking primitives that do not observe the request context (a handler in `select` or in IO wait may
// still be making progress or about to notice the cancellation: not counted)
var c14WaitStates = regexp.MustCompile(`^goroutine \d+ \[(sync\.Mutex\.Lock|sync\.RWMutex\.R?Lock|semacquire|chan send|chan receive|sync\.Cond\.Wait|sync\.WaitGroup\.Wait)[,\]]`)

// c14Parked looks for goroutines that serve `handler` (a substring of the generated gRPC handler name or
// of the HTTP handler type) and are parked in a blocking primitive below a drand frame.
func c14Parked(dump, handler string) (frames []string, excerpt string) {
	seen := map[string]bool{}
	for _, blk := range strings.Split(dump, "\n\n") {
		blk = strings.TrimSpace(blk)
		if !strings.Contains(blk, handler) {
			continue
		}
		lines := strings.Split(blk, "\n")
		if len(lines) < 2 || !c14WaitStates.MatchString(lines[0]) {
			continue
		}
		for _, l := range lines[1:] {
			if strings.HasPrefix(l, "github.com/drand/drand/v2/") {
				f := l
				if i := strings.LastIndex(f, "("); i > 0 {
					f = f[:i]
				}
				f = strings.TrimPrefix(f, "github.com/drand/drand/v2/")
				if !seen[f] {
					seen[f] = true
					frames = append(frames, f+" ["+strings.TrimSuffix(strings.SplitN(lines[0], "[", 2)[1], "]:")+"]")
				}
				if excerpt == "" || strings.Contains(blk, "BroadcastDKG") {
					excerpt = vfnTrunc(blk, 2500)
				}
				break
			}
		}
	}
	return frames, excerpt
}

// ---------------------------------------------------------------- requests

type c14Target struct {
	ports vfnPorts
	conn  *grpc.ClientConn
	httpc *http.Client
	ctrl  *grpc.ClientConn
}

type c14Req struct {
	Endpoint string
	Class    string
	State    string
	K        int           // addresses named by a status request
	Msg      proto.Message // for the request log
	Path     string        // HTTP
	Handler  string        // substring identifying the server-side handler goroutine
	Idle     bool          // a stream that legitimately stays silent: cancelled by the harness after 1.5 s
	Do       func(ctx context.Context, t *c14Target) (string, error)
}

type c14World struct {
	R, F, S  *vfnChain
	C        *vfnChain // 2-of-3 chained chain that nobody drives (stalled at genesis): target of the chained partial flood
	ports    vfnPorts
	unknownH []byte
}

func (w *c14World) idOf(state string) string {
	switch state {
	case "fresh":
		return w.F.ID
	case "stopped":
		return w.S.ID
	}
	return w.R.ID
}

func c14Version() *drand.NodeVersion { return common.GetAppVersion().ToProto() }

type c14MD struct {
	class string
	md    *drand.Metadata
}

func (w *c14World) mds(state string, rng *vfRng, full bool) []c14MD {
	id := w.idOf(state)
	other := w.S.Hash
	if state == "stopped" {
		other = w.R.Hash
	}
	pre := "x"
	l := []c14MD{
		{"md-nil", nil},
		{"md-empty", &drand.Metadata{}},
		{"md-target", &drand.Metadata{NodeVersion: c14Version(), BeaconID: id}},
		{"md-unknown-id", &drand.Metadata{NodeVersion: c14Version(), BeaconID: "nobody"}},
		{"md-unknown-hash", &drand.Metadata{NodeVersion: c14Version(), ChainHash: w.unknownH}},
		{"md-target+unknown-hash", &drand.Metadata{NodeVersion: c14Version(), BeaconID: id, ChainHash: w.unknownH}},
		{"md-id-hash-mismatch", &drand.Metadata{NodeVersion: c14Version(), BeaconID: id, ChainHash: other}},
		{"md-version-incompatible", &drand.Metadata{NodeVersion: &drand.NodeVersion{Major: 99, Minor: 1}, BeaconID: id}},
		{"md-version-absent", &drand.Metadata{BeaconID: id}},
	}
	if full {
		l = append(l,
			c14MD{"md-hash-1B", &drand.Metadata{BeaconID: id, ChainHash: []byte{7}}},
			c14MD{"md-hash-31B", &drand.Metadata{BeaconID: id, ChainHash: w.R.Hash[:31]}},
			c14MD{"md-hash-33B", &drand.Metadata{BeaconID: id, ChainHash: append(append([]byte{}, w.R.Hash...), 1)}},
			c14MD{"md-hash-1MiB", &drand.Metadata{BeaconID: id, ChainHash: rng.Bytes(1 << 20)}},
			c14MD{"md-id-1MiB", &drand.Metadata{BeaconID: strings.Repeat("A", 1<<20)}},
			c14MD{"md-id-weird", &drand.Metadata{BeaconID: "../%s%n\x00\xff/" + id}},
			c14MD{"md-version-zero", &drand.Metadata{NodeVersion: &drand.NodeVersion{}, BeaconID: id}},
			c14MD{"md-version-prerelease", &drand.Metadata{NodeVersion: &drand.NodeVersion{Major: c14Version().Major, Minor: c14Version().Minor, Prerelease: &pre}, BeaconID: id}},
		)
	}
	return l
}

func c14Desc(m proto.Message) string {
	if m == nil {
		return "<nil>"
	}
	return vfnTrunc(fmt.Sprint(m), 160)
}

// first item of a stream, or its error; idle streams are cut by the context
func c14First[T any](recv func() (T, error)) (string, error) {
	v, err := recv()
	if err != nil {
		return "", err
	}
	return vfnTrunc(fmt.Sprint(v), 120), nil
}

func (w *c14World) curRound() uint64 {
	return common.CurrentRound(time.Now().Unix(), w.R.Group.Period, w.R.Group.GenesisTime)
}

func (w *c14World) participant(c *vfnChain, i int) *pdkg.Participant {
	k, _ := c.Pairs[i].Public.Key.MarshalBinary()
	return &pdkg.Participant{Address: c.Pairs[i].Public.Addr, Key: k, Signature: c.Pairs[i].Public.Signature}
}

// an honest-looking proposal for the beacon of the state (junk signature): epoch 1 for the fresh
// beacon, a reshare (epoch 2) for the others
func (w *c14World) proposal(state string) *pdkg.ProposalTerms {
	id := w.idOf(state)
	switch state {
	case "fresh":
		me := w.participant(w.F, 0)
		lead := w.participant(w.R, 1)
		return &pdkg.ProposalTerms{BeaconID: id, Epoch: 1, Leader: lead, Threshold: 2, Timeout: timestamppb.New(time.Now().Add(time.Hour)),
			BeaconPeriodSeconds: 3, SchemeID: w.F.Scheme.Name, GenesisTime: timestamppb.New(time.Now().Add(time.Minute)),
			Joining: []*pdkg.Participant{lead, me}}
	case "stopped":
		me := w.participant(w.S, 0)
		return &pdkg.ProposalTerms{BeaconID: id, Epoch: 2, Leader: me, Threshold: 1, Timeout: timestamppb.New(time.Now().Add(time.Hour)),
			BeaconPeriodSeconds: uint32(w.S.Group.Period.Seconds()), SchemeID: w.S.Scheme.Name, GenesisTime: timestamppb.New(time.Unix(w.S.Group.GenesisTime, 0)),
			GenesisSeed: w.S.Group.GenesisSeed, Remaining: []*pdkg.Participant{me}}
	}
	ps := []*pdkg.Participant{w.participant(w.R, 0), w.participant(w.R, 1), w.participant(w.R, 2)}
	return &pdkg.ProposalTerms{BeaconID: id, Epoch: 2, Leader: ps[1], Threshold: 2, Timeout: timestamppb.New(time.Now().Add(time.Hour)),
		BeaconPeriodSeconds: uint32(w.R.Group.Period.Seconds()), SchemeID: w.R.Scheme.Name, GenesisTime: timestamppb.New(time.Unix(w.R.Group.GenesisTime, 0)),
		GenesisSeed: w.R.Group.GenesisSeed, Remaining: ps}
}

var c14SigSeq atomic.Int64

func c14GossipSig(n int) []byte {
	b := []byte(fmt.Sprintf("%016d", c14SigSeq.Add(1)))
	if n < len(b) {
		return b[len(b)-n:]
	}
	return b
}

// corpus builds the hostile requests for one node state. full=false is the reduced list (C15 subset, sequences).
func (w *c14World) corpus(state string, rng *vfRng, full bool) []c14Req {
	var rs []c14Req
	id := w.idOf(state)
	add := func(ep, class, handler string, msg proto.Message, do func(ctx context.Context, t *c14Target) (string, error)) *c14Req {
		rs = append(rs, c14Req{Endpoint: ep, Class: class, State: state, Msg: msg, Handler: handler, Do: do})
		return &rs[len(rs)-1]
	}
	tmd := &drand.Metadata{NodeVersion: c14Version(), BeaconID: id}

	// ---- every metadata variant on every endpoint that carries routing metadata
	for _, m := range w.mds(state, rng, full) {
		md := m.md
		{
			q := &drand.PublicRandRequest{Round: 0, Metadata: md}
			add("Public.PublicRand", m.class, "_Public_PublicRand_Handler", q, func(ctx context.Context, t *c14Target) (string, error) {
				r, err := drand.NewPublicClient(t.conn).PublicRand(ctx, q)
				return c14Desc(r), err
			})
		}
		{
			q := &drand.PublicRandRequest{Round: 1, Metadata: md}
			add("Public.PublicRandStream", m.class, "_Public_PublicRandStream_Handler", q, func(ctx context.Context, t *c14Target) (string, error) {
				st, err := drand.NewPublicClient(t.conn).PublicRandStream(ctx, q)
				if err != nil {
					return "", err
				}
				return c14First(st.Recv)
			}).Idle = true
		}
		{
			q := &drand.ChainInfoRequest{Metadata: md}
			add("Public.ChainInfo", m.class, "_Public_ChainInfo_Handler", q, func(ctx context.Context, t *c14Target) (string, error) {
				r, err := drand.NewPublicClient(t.conn).ChainInfo(ctx, q)
				return c14Desc(r), err
			})
		}
		{
			q := &drand.IdentityRequest{Metadata: md}
			add("Protocol.GetIdentity", m.class, "_Protocol_GetIdentity_Handler", q, func(ctx context.Context, t *c14Target) (string, error) {
				r, err := drand.NewProtocolClient(t.conn).GetIdentity(ctx, q)
				return c14Desc(r), err
			})
		}
		{
			q := &drand.SyncRequest{FromRound: 1, Metadata: md}
			add("Protocol.SyncChain", m.class, "_Protocol_SyncChain_Handler", q, func(ctx context.Context, t *c14Target) (string, error) {
				st, err := drand.NewProtocolClient(t.conn).SyncChain(ctx, q)
				if err != nil {
					return "", err
				}
				return c14First(st.Recv)
			}).Idle = true
		}
		{
			q := &drand.PartialBeaconPacket{Round: w.curRound(), PartialSig: append([]byte{0, 1}, rng.Bytes(96)...), Metadata: md}
			add("Protocol.PartialBeacon", m.class, "_Protocol_PartialBeacon_Handler", q, func(ctx context.Context, t *c14Target) (string, error) {
				r, err := drand.NewProtocolClient(t.conn).PartialBeacon(ctx, q)
				return c14Desc(r), err
			})
		}
		{
			q := &drand.StatusRequest{Metadata: md}
			add("Protocol.Status", m.class, "_Protocol_Status_Handler", q, func(ctx context.Context, t *c14Target) (string, error) {
				r, err := drand.NewProtocolClient(t.conn).Status(ctx, q)
				return c14Desc(r), err
			})
		}
		{
			q := &pdkg.DKGPacket{Dkg: &pdkg.Packet{Metadata: md, Bundle: &pdkg.Packet_Deal{Deal: &pdkg.DealBundle{DealerIndex: 1, SessionId: []byte{1}, Signature: []byte{1}}}}}
			add("DKG.BroadcastDKG", m.class, "_DKGPublic_BroadcastDKG_Handler", q, func(ctx context.Context, t *c14Target) (string, error) {
				r, err := pdkg.NewDKGPublicClient(t.conn).BroadcastDKG(ctx, q)
				return c14Desc(r), err
			})
		}
	}

	// ---- partial beacons: signature lengths, indexes, rounds
	partial := func(class string, round uint64, prev, sig []byte) {
		q := &drand.PartialBeaconPacket{Round: round, PreviousSignature: prev, PartialSig: sig, Metadata: tmd}
		add("Protocol.PartialBeacon", class, "_Protocol_PartialBeacon_Handler", q, func(ctx context.Context, t *c14Target) (string, error) {
			r, err := drand.NewProtocolClient(t.conn).PartialBeacon(ctx, q)
			return c14Desc(r), err
		})
	}
	for _, n := range []int{0, 1, 2, 47, 48, 49, 50, 95, 96, 97, 98, 99} {
		sig := rng.Bytes(n)
		if n >= 2 {
			sig[0], sig[1] = 0, 1
		}
		partial(fmt.Sprintf("sig-len-%d", n), w.curRound(), nil, sig)
	}
	partial("sig-1MiB", w.curRound(), nil, rng.Bytes(1<<20))
	partial("sig-own-index", w.curRound(), nil, append([]byte{0, 0}, rng.Bytes(96)...))
	partial("sig-index-65535", w.curRound(), nil, append([]byte{0xff, 0xff}, rng.Bytes(96)...))
	partial("sig-index-3", w.curRound(), nil, append([]byte{0, 3}, rng.Bytes(96)...))
	partial("sig-zero-point", w.curRound(), nil, make([]byte, 98))
	partial("prev-sig-1MiB", w.curRound(), rng.Bytes(1<<20), append([]byte{0, 1}, rng.Bytes(96)...))
	for _, r := range []struct {
		c string
		r uint64
	}{{"round-0", 0}, {"round-1", 1}, {"round-next", w.curRound() + 1}, {"round-next+1", w.curRound() + 2}, {"round-2^63", 1 << 63}, {"round-2^64-1", math.MaxUint64}} {
		partial(r.c, r.r, nil, append([]byte{0, 1}, rng.Bytes(96)...))
	}
	if v, err := w.R.vfnPartial(1, 1, nil); err == nil {
		partial("valid-partial-old-round", 1, nil, v)
	}
	if v, err := w.R.vfnPartial(2, w.curRound()+1, nil); err == nil {
		partial("valid-partial-next-round", w.curRound()+1, nil, v)
	}

	// ---- rounds on PublicRand and the two streams
	for _, r := range []struct {
		c string
		r uint64
	}{{"round-1", 1}, {"round-next", w.curRound() + 1}, {"round-2^63", 1 << 63}, {"round-2^64-1", math.MaxUint64}} {
		q := &drand.PublicRandRequest{Round: r.r, Metadata: tmd}
		add("Public.PublicRand", r.c, "_Public_PublicRand_Handler", q, func(ctx context.Context, t *c14Target) (string, error) {
			x, err := drand.NewPublicClient(t.conn).PublicRand(ctx, q)
			return c14Desc(x), err
		})
	}
	for _, r := range []struct {
		c string
		r uint64
	}{{"from-0", 0}, {"from-2^63", 1 << 63}, {"from-2^64-1", math.MaxUint64}} {
		q := &drand.PublicRandRequest{Round: r.r, Metadata: tmd}
		add("Public.PublicRandStream", r.c, "_Public_PublicRandStream_Handler", q, func(ctx context.Context, t *c14Target) (string, error) {
			st, err := drand.NewPublicClient(t.conn).PublicRandStream(ctx, q)
			if err != nil {
				return "", err
			}
			return c14First(st.Recv)
		}).Idle = true
		q2 := &drand.SyncRequest{FromRound: r.r, Metadata: tmd}
		add("Protocol.SyncChain", r.c, "_Protocol_SyncChain_Handler", q2, func(ctx context.Context, t *c14Target) (string, error) {
			st, err := drand.NewProtocolClient(t.conn).SyncChain(ctx, q2)
			if err != nil {
				return "", err
			}
			return c14First(st.Recv)
		}).Idle = true
	}

	// ---- status naming k addresses
	status := func(class string, addrs []*drand.Address) {
		q := &drand.StatusRequest{CheckConn: addrs, Metadata: tmd}
		add("Protocol.Status", class, "_Protocol_Status_Handler", q, func(ctx context.Context, t *c14Target) (string, error) {
			r, err := drand.NewProtocolClient(t.conn).Status(ctx, q)
			return c14Desc(r), err
		}).K = len(addrs)
	}
	status("addr-refused-1", []*drand.Address{{Address: "127.0.0.1:1"}})
	status("addr-own", []*drand.Address{{Address: w.ports.Priv}})
	status("addr-nil-entries", []*drand.Address{nil, {Address: ""}, nil})
	status("addr-malformed-5", []*drand.Address{{Address: "256.256.256.256:99999"}, {Address: "[::1"}, {Address: "unix:///nonexistent/vf.sock"},
		{Address: "dns:///vf.invalid:443"}, {Address: "\x00:\xff"}})
	if full {
		var many []*drand.Address
		for i := 0; i < vfPick(8, 24); i++ {
			many = append(many, &drand.Address{Address: fmt.Sprintf("127.0.0.1:%d", 2+i)})
		}
		status(fmt.Sprintf("addr-refused-%d", len(many)), many)
	}

	// ---- plain requests without routing metadata
	add("Public.ListBeaconIDs", "plain", "_Public_ListBeaconIDs_Handler", &drand.ListBeaconIDsRequest{}, func(ctx context.Context, t *c14Target) (string, error) {
		r, err := drand.NewPublicClient(t.conn).ListBeaconIDs(ctx, &drand.ListBeaconIDsRequest{})
		return c14Desc(r), err
	})
	add("Metrics.Metrics", "plain", "_Metrics_Metrics_Handler", &drand.MetricsRequest{}, func(ctx context.Context, t *c14Target) (string, error) {
		r, err := drand.NewMetricsClient(t.conn).Metrics(ctx, &drand.MetricsRequest{})
		return fmt.Sprintf("%d bytes", len(r.GetMetrics())), err
	})
	add("Health.Check", "plain", "health.(*Server).Check", &healthgrpc.HealthCheckRequest{Service: "nobody"}, func(ctx context.Context, t *c14Target) (string, error) {
		r, err := healthgrpc.NewHealthClient(t.conn).Check(ctx, &healthgrpc.HealthCheckRequest{Service: "nobody"})
		return c14Desc(r), err
	})

	// ---- DKG gossip packets: metadata, signature lengths, every oneof variant
	gossip := func(class string, q *pdkg.GossipPacket) {
		add("DKG.Packet", class, "_DKGPublic_Packet_Handler", q, func(ctx context.Context, t *c14Target) (string, error) {
			r, err := pdkg.NewDKGPublicClient(t.conn).Packet(ctx, q)
			return c14Desc(r), err
		})
	}
	gmd := func() *pdkg.GossipMetadata {
		return &pdkg.GossipMetadata{BeaconID: id, Address: w.R.Pairs[1].Public.Addr, Signature: c14GossipSig(16)}
	}
	gossip("packet-md-nil", &pdkg.GossipPacket{Packet: &pdkg.GossipPacket_Proposal{Proposal: w.proposal(state)}})
	gossip("packet-md-empty", &pdkg.GossipPacket{Metadata: &pdkg.GossipMetadata{}, Packet: &pdkg.GossipPacket_Proposal{Proposal: w.proposal(state)}})
	gossip("packet-unknown-id", &pdkg.GossipPacket{Metadata: &pdkg.GossipMetadata{BeaconID: "nobody", Address: "a:1", Signature: c14GossipSig(16)},
		Packet: &pdkg.GossipPacket_Proposal{Proposal: w.proposal(state)}})
	for _, n := range []int{0, 1, 2, 3, 4} {
		m := gmd()
		m.Signature = c14GossipSig(n)
		gossip(fmt.Sprintf("gossip-sig-len-%d", n), &pdkg.GossipPacket{Metadata: m, Packet: &pdkg.GossipPacket_Abort{Abort: &pdkg.AbortDKG{Reason: "x"}}})
	}
	{
		m := gmd()
		m.Signature = rng.Bytes(1 << 20)
		gossip("gossip-sig-1MiB", &pdkg.GossipPacket{Metadata: m, Packet: &pdkg.GossipPacket_Proposal{Proposal: w.proposal(state)}})
	}
	gossip("oneof-none", &pdkg.GossipPacket{Metadata: gmd()})
	gossip("oneof-proposal-nil", &pdkg.GossipPacket{Metadata: gmd(), Packet: &pdkg.GossipPacket_Proposal{}})
	gossip("oneof-proposal-empty", &pdkg.GossipPacket{Metadata: gmd(), Packet: &pdkg.GossipPacket_Proposal{Proposal: &pdkg.ProposalTerms{}}})
	gossip("oneof-proposal-no-leader", &pdkg.GossipPacket{Metadata: gmd(), Packet: &pdkg.GossipPacket_Proposal{Proposal: &pdkg.ProposalTerms{BeaconID: id, Epoch: 1}}})
	gossip("oneof-proposal-honest-looking", &pdkg.GossipPacket{Metadata: gmd(), Packet: &pdkg.GossipPacket_Proposal{Proposal: w.proposal(state)}})
	{
		p := w.proposal(state)
		p.Joining = []*pdkg.Participant{nil, nil}
		p.Remaining = append(p.Remaining, nil)
		p.Leaving = []*pdkg.Participant{nil}
		gossip("oneof-proposal-nil-participants", &pdkg.GossipPacket{Metadata: gmd(), Packet: &pdkg.GossipPacket_Proposal{Proposal: p}})
	}
	{
		p := w.proposal(state)
		p.Joining = append(p.Joining, &pdkg.Participant{Address: "b:2", Key: rng.Bytes(1 << 20), Signature: rng.Bytes(1 << 20)})
		gossip("oneof-proposal-1MiB-key", &pdkg.GossipPacket{Metadata: gmd(), Packet: &pdkg.GossipPacket_Proposal{Proposal: p}})
	}
	{
		p := w.proposal(state)
		p.Timeout, p.GenesisTime = nil, nil
		gossip("oneof-proposal-nil-times", &pdkg.GossipPacket{Metadata: gmd(), Packet: &pdkg.GossipPacket_Proposal{Proposal: p}})
	}
	{
		p := w.proposal(state)
		p.Threshold, p.Epoch = math.MaxUint32, math.MaxUint32
		gossip("oneof-proposal-max-uint32", &pdkg.GossipPacket{Metadata: gmd(), Packet: &pdkg.GossipPacket_Proposal{Proposal: p}})
	}
	gossip("oneof-accept-nil", &pdkg.GossipPacket{Metadata: gmd(), Packet: &pdkg.GossipPacket_Accept{}})
	gossip("oneof-accept-nil-acceptor", &pdkg.GossipPacket{Metadata: gmd(), Packet: &pdkg.GossipPacket_Accept{Accept: &pdkg.AcceptProposal{}}})
	gossip("oneof-accept", &pdkg.GossipPacket{Metadata: gmd(), Packet: &pdkg.GossipPacket_Accept{Accept: &pdkg.AcceptProposal{Acceptor: w.participant(w.R, 1)}}})
	gossip("oneof-reject-nil", &pdkg.GossipPacket{Metadata: gmd(), Packet: &pdkg.GossipPacket_Reject{}})
	gossip("oneof-reject-nil-rejector", &pdkg.GossipPacket{Metadata: gmd(), Packet: &pdkg.GossipPacket_Reject{Reject: &pdkg.RejectProposal{Reason: "r"}}})
	gossip("oneof-reject", &pdkg.GossipPacket{Metadata: gmd(), Packet: &pdkg.GossipPacket_Reject{Reject: &pdkg.RejectProposal{Rejector: w.participant(w.R, 1), Secret: rng.Bytes(32)}}})
	gossip("oneof-execute-nil", &pdkg.GossipPacket{Metadata: gmd(), Packet: &pdkg.GossipPacket_Execute{}})
	gossip("oneof-execute-nil-time", &pdkg.GossipPacket{Metadata: gmd(), Packet: &pdkg.GossipPacket_Execute{Execute: &pdkg.StartExecution{}}})
	gossip("oneof-execute-far-future", &pdkg.GossipPacket{Metadata: gmd(), Packet: &pdkg.GossipPacket_Execute{Execute: &pdkg.StartExecution{Time: &timestamppb.Timestamp{Seconds: math.MaxInt64, Nanos: math.MaxInt32}}}})
	gossip("oneof-execute-now", &pdkg.GossipPacket{Metadata: gmd(), Packet: &pdkg.GossipPacket_Execute{Execute: &pdkg.StartExecution{Time: timestamppb.Now()}}})
	gossip("oneof-abort-nil", &pdkg.GossipPacket{Metadata: gmd(), Packet: &pdkg.GossipPacket_Abort{}})
	gossip("oneof-abort", &pdkg.GossipPacket{Metadata: gmd(), Packet: &pdkg.GossipPacket_Abort{Abort: &pdkg.AbortDKG{Reason: strings.Repeat("r", 1<<16)}}})
	gossip("oneof-dkg-nil", &pdkg.GossipPacket{Metadata: gmd(), Packet: &pdkg.GossipPacket_Dkg{}})
	gossip("oneof-dkg-inner-nil", &pdkg.GossipPacket{Metadata: gmd(), Packet: &pdkg.GossipPacket_Dkg{Dkg: &pdkg.DKGPacket{}}})
	gossip("oneof-dkg-inner-no-metadata", &pdkg.GossipPacket{Metadata: gmd(), Packet: &pdkg.GossipPacket_Dkg{Dkg: &pdkg.DKGPacket{Dkg: &pdkg.Packet{}}}})
	// a Dkg bundle inside a gossip packet (every bundle variant): class "gossip-oneof-dkg"
	for _, b := range []*pdkg.Packet{
		{Metadata: tmd},
		{Metadata: tmd, Bundle: &pdkg.Packet_Deal{Deal: &pdkg.DealBundle{DealerIndex: 1, Deals: []*pdkg.Deal{{ShareIndex: 0, EncryptedShare: rng.Bytes(64)}}, SessionId: rng.Bytes(32), Signature: rng.Bytes(96)}}},
		{Metadata: tmd, Bundle: &pdkg.Packet_Response{Response: &pdkg.ResponseBundle{ShareIndex: 1, Responses: []*pdkg.Response{{DealerIndex: 0, Status: true}}, SessionId: rng.Bytes(32), Signature: rng.Bytes(96)}}},
		{Metadata: tmd, Bundle: &pdkg.Packet_Justification{Justification: &pdkg.JustificationBundle{DealerIndex: 1, Justifications: []*pdkg.Justification{{ShareIndex: 0, Share: rng.Bytes(32)}}, SessionId: rng.Bytes(32), Signature: rng.Bytes(96)}}},
	} {
		gossip("gossip-oneof-dkg", &pdkg.GossipPacket{Metadata: gmd(), Packet: &pdkg.GossipPacket_Dkg{Dkg: &pdkg.DKGPacket{Dkg: b}}})
		if !full {
			break
		}
	}

	// ---- DKG protocol packets: every bundle variant, nil entries, sizes
	bcast := func(class string, q *pdkg.DKGPacket) {
		add("DKG.BroadcastDKG", class, "_DKGPublic_BroadcastDKG_Handler", q, func(ctx context.Context, t *c14Target) (string, error) {
			r, err := pdkg.NewDKGPublicClient(t.conn).BroadcastDKG(ctx, q)
			return c14Desc(r), err
		})
	}
	bcast("dkg-nil", &pdkg.DKGPacket{})
	bcast("bundle-none", &pdkg.DKGPacket{Dkg: &pdkg.Packet{Metadata: tmd}})
	bcast("bundle-deal-nil", &pdkg.DKGPacket{Dkg: &pdkg.Packet{Metadata: tmd, Bundle: &pdkg.Packet_Deal{}}})
	bcast("bundle-deal-nil-entries", &pdkg.DKGPacket{Dkg: &pdkg.Packet{Metadata: tmd, Bundle: &pdkg.Packet_Deal{Deal: &pdkg.DealBundle{Deals: []*pdkg.Deal{nil, nil}, Commits: [][]byte{nil, {}}}}}})
	bcast("bundle-deal-1MiB", &pdkg.DKGPacket{Dkg: &pdkg.Packet{Metadata: tmd, Bundle: &pdkg.Packet_Deal{Deal: &pdkg.DealBundle{DealerIndex: math.MaxUint32, Commits: [][]byte{rng.Bytes(1 << 20)}, SessionId: rng.Bytes(32), Signature: rng.Bytes(96)}}}})
	bcast("bundle-response-nil", &pdkg.DKGPacket{Dkg: &pdkg.Packet{Metadata: tmd, Bundle: &pdkg.Packet_Response{}}})
	bcast("bundle-response-nil-entries", &pdkg.DKGPacket{Dkg: &pdkg.Packet{Metadata: tmd, Bundle: &pdkg.Packet_Response{Response: &pdkg.ResponseBundle{Responses: []*pdkg.Response{nil}}}}})
	bcast("bundle-justification-nil", &pdkg.DKGPacket{Dkg: &pdkg.Packet{Metadata: tmd, Bundle: &pdkg.Packet_Justification{}}})
	bcast("bundle-justification-nil-entries", &pdkg.DKGPacket{Dkg: &pdkg.Packet{Metadata: tmd, Bundle: &pdkg.Packet_Justification{Justification: &pdkg.JustificationBundle{Justifications: []*pdkg.Justification{nil, {Share: rng.Bytes(1 << 16)}}}}}})

	// ---- HTTP (the hash in the path selects the chain; done once, with the running state)
	if state == "running" {
		long := strings.Repeat("a", 8<<10)
		paths := []struct{ c, p string }{
			{"nonhex-hash", "/zz" + w.R.HashHex[2:] + "/public/latest"}, {"odd-hex-hash", "/abc/info"}, {"unknown-hash", "/" + hex.EncodeToString(w.unknownH) + "/public/latest"},
			{"stopped-chain-hash", "/" + w.S.HashHex + "/public/latest"}, {"stopped-chain-info", "/" + w.S.HashHex + "/info"}, {"stopped-chain-health", "/" + w.S.HashHex + "/health"},
			{"round-overflow-2^64", "/public/18446744073709551616"}, {"round-overflow-huge", "/public/99999999999999999999999999999999"}, {"round-2^64-1", "/public/18446744073709551615"},
			{"round-2^63", "/public/9223372036854775808"}, {"round-negative", "/public/-1"}, {"round-nondecimal", "/public/0x10"}, {"round-0", "/public/0"},
			{"round-next", "/public/" + fmt.Sprint(w.curRound()+1)}, {"round-far", "/public/" + fmt.Sprint(w.curRound()+1000)},
			{"hash-round-2^64-1", "/" + w.R.HashHex + "/public/18446744073709551615"},
			{"unknown-subpath", "/" + w.R.HashHex + "/nothing"}, {"unknown-subpath-deep", "/a/b/c/d/e/f"}, {"double-slash", "//public/latest"}, {"dot-segments", "/../../etc/passwd"},
			{"percent-nul", "/%00/public/latest"}, {"percent-hash", "/%zz/info"}, {"long-hash-8KiB", "/" + long + "/info"}, {"long-round-8KiB", "/public/" + strings.Repeat("9", 8<<10)},
			{"long-path-512KiB", "/" + strings.Repeat("ab/", 170<<10)}, {"empty", "/"}, {"chains", "/chains"}, {"health", "/health"}, {"info", "/info"}, {"latest", "/public/latest"},
		}
		for _, pp := range paths {
			p := pp.p
			for _, method := range []string{"GET", "POST"} {
				method := method
				cl := pp.c
				if method != "GET" {
					if !full {
						continue
					}
					cl += "-post"
				}
				rs = append(rs, c14Req{Endpoint: "HTTP", Class: cl, State: state, Path: p, Handler: "handler/http.(*DrandHandler)", Do: func(ctx context.Context, t *c14Target) (string, error) {
					return c14RawHTTP(ctx, t.ports.Pub, method, p)
				}})
			}
		}
	}
	return rs
}

// c14RawHTTP writes the request line as given (no client-side URL validation) and reads the answer.
func c14RawHTTP(ctx context.Context, addr, method, p string) (string, error) {
	var d net.Dialer
	c, err := d.DialContext(ctx, "tcp", addr)
	if err != nil {
		return "", err
	}
	defer c.Close()
	if dl, ok := ctx.Deadline(); ok {
		_ = c.SetDeadline(dl)
	}
	body := ""
	if method != "GET" {
		body = "x"
	}
	if _, err := fmt.Fprintf(c, "%s %s HTTP/1.1\r\nHost: %s\r\nConnection: close\r\nContent-Length: %d\r\n\r\n%s", method, p, addr, len(body), body); err != nil {
		return "", err
	}
	b, err := io.ReadAll(io.LimitReader(c, 1<<16))
	if len(b) == 0 && err != nil {
		return "", err
	}
	line := string(b)
	if i := strings.Index(line, "\r\n"); i > 0 {
		line = line[:i]
	}
	return vfnTrunc(line, 100), nil
}

// ---------------------------------------------------------------- probes

type c14Probe struct {
	Name    string
	Handler string
	MustOK  bool // a valid request on the running chain: must succeed, not merely return
	Do      func(ctx context.Context, t *c14Target) error
}

func (w *c14World) probes() map[string]c14Probe {
	rmd := &drand.Metadata{NodeVersion: c14Version(), BeaconID: common.DefaultBeaconID}
	m := map[string]c14Probe{}
	put := func(p c14Probe) { m[p.Name] = p }
	put(c14Probe{"Public.PublicRand", "_Public_PublicRand_Handler", true, func(ctx context.Context, t *c14Target) error {
		_, err := drand.NewPublicClient(t.conn).PublicRand(ctx, &drand.PublicRandRequest{Metadata: rmd})
		return err
	}})
	put(c14Probe{"Public.ChainInfo", "_Public_ChainInfo_Handler", true, func(ctx context.Context, t *c14Target) error {
		_, err := drand.NewPublicClient(t.conn).ChainInfo(ctx, &drand.ChainInfoRequest{Metadata: rmd})
		return err
	}})
	put(c14Probe{"Public.PublicRandStream", "_Public_PublicRandStream_Handler", true, func(ctx context.Context, t *c14Target) error {
		cctx, cancel := context.WithCancel(ctx)
		defer cancel()
		st, err := drand.NewPublicClient(t.conn).PublicRandStream(cctx, &drand.PublicRandRequest{Round: 1, Metadata: rmd})
		if err != nil {
			return err
		}
		_, err = st.Recv()
		return err
	}})
	put(c14Probe{"Protocol.SyncChain", "_Protocol_SyncChain_Handler", true, func(ctx context.Context, t *c14Target) error {
		cctx, cancel := context.WithCancel(ctx)
		defer cancel()
		st, err := drand.NewProtocolClient(t.conn).SyncChain(cctx, &drand.SyncRequest{FromRound: 1, Metadata: rmd})
		if err != nil {
			return err
		}
		_, err = st.Recv()
		return err
	}})
	put(c14Probe{"Protocol.GetIdentity", "_Protocol_GetIdentity_Handler", true, func(ctx context.Context, t *c14Target) error {
		_, err := drand.NewProtocolClient(t.conn).GetIdentity(ctx, &drand.IdentityRequest{Metadata: rmd})
		return err
	}})
	put(c14Probe{"Protocol.PartialBeacon", "_Protocol_PartialBeacon_Handler", true, func(ctx context.Context, t *c14Target) error {
		// well-formed junk: a partial for a long-stored round is acknowledged
		_, err := drand.NewProtocolClient(t.conn).PartialBeacon(ctx, &drand.PartialBeaconPacket{Round: 1, PartialSig: make([]byte, 98), Metadata: rmd})
		return err
	}})
	put(c14Probe{"Protocol.Status", "_Protocol_Status_Handler", true, func(ctx context.Context, t *c14Target) error {
		_, err := drand.NewProtocolClient(t.conn).Status(ctx, &drand.StatusRequest{Metadata: rmd})
		return err
	}})
	put(c14Probe{"Public.ListBeaconIDs", "_Public_ListBeaconIDs_Handler", true, func(ctx context.Context, t *c14Target) error {
		_, err := drand.NewPublicClient(t.conn).ListBeaconIDs(ctx, &drand.ListBeaconIDsRequest{})
		return err
	}})
	put(c14Probe{"Metrics.Metrics", "_Metrics_Metrics_Handler", false, func(ctx context.Context, t *c14Target) error {
		_, err := drand.NewMetricsClient(t.conn).Metrics(ctx, &drand.MetricsRequest{})
		return err
	}})
	put(c14Probe{"Health.Check", "health.(*Server).Check", true, func(ctx context.Context, t *c14Target) error {
		_, err := healthgrpc.NewHealthClient(t.conn).Check(ctx, &healthgrpc.HealthCheckRequest{})
		return err
	}})
	put(c14Probe{"DKG.Packet", "_DKGPublic_Packet_Handler", false, func(ctx context.Context, t *c14Target) error {
		// honest-looking (well-formed reshare proposal, junk signature): any answer will do
		_, err := pdkg.NewDKGPublicClient(t.conn).Packet(ctx, &pdkg.GossipPacket{
			Metadata: &pdkg.GossipMetadata{BeaconID: common.DefaultBeaconID, Address: w.R.Pairs[1].Public.Addr, Signature: c14GossipSig(16)},
			Packet:   &pdkg.GossipPacket_Proposal{Proposal: w.proposal("running")}})
		return err
	}})
	put(c14Probe{"DKG.BroadcastDKG", "_DKGPublic_BroadcastDKG_Handler", false, func(ctx context.Context, t *c14Target) error {
		_, err := pdkg.NewDKGPublicClient(t.conn).BroadcastDKG(ctx, &pdkg.DKGPacket{Dkg: &pdkg.Packet{Metadata: rmd,
			Bundle: &pdkg.Packet_Response{Response: &pdkg.ResponseBundle{ShareIndex: 1, SessionId: []byte{1}, Signature: []byte{1}}}}})
		return err
	}})
	put(c14Probe{"HTTP", "handler/http.(*DrandHandler)", true, func(ctx context.Context, t *c14Target) error {
		req, _ := http.NewRequestWithContext(ctx, "GET", "http://"+t.ports.Pub+"/public/latest", nil)
		resp, err := t.httpc.Do(req)
		if err != nil {
			return err
		}
		_, _ = io.Copy(io.Discard, resp.Body)
		resp.Body.Close()
		if resp.StatusCode != 200 {
			return fmt.Errorf("status %d", resp.StatusCode)
		}
		return nil
	}})
	put(c14Probe{"Control.Status", "_Control_Status_Handler", true, func(ctx context.Context, t *c14Target) error {
		_, err := drand.NewControlClient(t.ctrl).Status(ctx, &drand.StatusRequest{Metadata: rmd})
		return err
	}})
	put(c14Probe{"Control.DKGStatus", "_DKGControl_DKGStatus_Handler", true, func(ctx context.Context, t *c14Target) error {
		_, err := pdkg.NewDKGControlClient(t.ctrl).DKGStatus(ctx, &pdkg.DKGStatusRequest{BeaconID: common.DefaultBeaconID})
		return err
	}})
	return m
}

var c14OtherProbes = []string{"Public.PublicRand", "Public.ChainInfo", "Protocol.PartialBeacon", "DKG.Packet", "Control.Status", "Control.DKGStatus", "HTTP", "Protocol.SyncChain"}

// ---------------------------------------------------------------- parent

type c14Env struct {
	t       *testing.T
	run     *vfRun
	w       *c14World
	dir     string
	cfgPath string
	child   *c14Child
	gen     int
	tgt     *c14Target
	probes  map[string]c14Probe
	reqLog  *os.File
	seq     int
	wedges  map[string]int
	panicSeen map[string]bool
	recent  []string
	peerMu   sync.Mutex
	peerPaused atomic.Bool
	peerConn *grpc.ClientConn
	peerStop chan struct{}
}

func (e *c14Env) connect() error {
	if e.tgt != nil {
		e.tgt.conn.Close()
		e.tgt.ctrl.Close()
	}
	conn, err := vfnDial(e.w.ports.Priv)
	if err != nil {
		return err
	}
	pc, err := vfnDial(e.w.ports.Priv)
	if err != nil {
		return err
	}
	e.peerMu.Lock()
	if e.peerConn != nil {
		e.peerConn.Close()
	}
	e.peerConn = pc
	e.peerMu.Unlock()
	ctrl, err := vfnDial("127.0.0.1:" + e.w.ports.Ctrl)
	if err != nil {
		return err
	}
	e.tgt = &c14Target{ports: e.w.ports, conn: conn, ctrl: ctrl,
		httpc: &http.Client{Transport: &http.Transport{DisableKeepAlives: true}, Timeout: c14Bound + 5*time.Second}}
	return nil
}

// start (or restart) the child and bring the three beacons into their states
func (e *c14Env) start() error {
	e.gen++
	c, err := c14StartChild(e.dir, e.cfgPath, e.gen)
	if err != nil {
		return err
	}
	e.child = c
	if err := e.connect(); err != nil {
		return err
	}
	// wait until R and S serve, then stop S's beacon
	deadline := time.Now().Add(60 * time.Second)
	for {
		ctx, cancel := context.WithTimeout(context.Background(), 3*time.Second)
		_, errR := drand.NewPublicClient(e.tgt.conn).PublicRand(ctx, &drand.PublicRandRequest{Round: 1, Metadata: &drand.Metadata{BeaconID: common.DefaultBeaconID}})
		_, errS := drand.NewPublicClient(e.tgt.conn).PublicRand(ctx, &drand.PublicRandRequest{Round: 1, Metadata: &drand.Metadata{BeaconID: c14IDHalt}})
		cancel()
		if errR == nil && errS == nil {
			break
		}
		if time.Now().After(deadline) {
			return fmt.Errorf("chains not serving after start: R: %v S: %v", errR, errS)
		}
		e.honestStep()
		time.Sleep(150 * time.Millisecond)
	}
	if l, ok := c.command("stopbeacon "+c14IDHalt, 20*time.Second); !ok || l != "ok stopbeacon" {
		return fmt.Errorf("stopbeacon: %q", l)
	}
	e.run.Count("child_starts", 1)
	return nil
}

// honestStep plays member 1 of chain R: a valid partial for the round after the node's head.
func (e *c14Env) honestStep() {
	e.peerMu.Lock()
	defer e.peerMu.Unlock()
	if e.peerConn == nil || e.peerPaused.Load() {
		return
	}
	ctx, cancel := context.WithTimeout(context.Background(), 3*time.Second)
	defer cancel()
	md := &drand.Metadata{NodeVersion: c14Version(), BeaconID: common.DefaultBeaconID}
	// the partial cache is keyed by (round, previous signature) also for unchained schemes: send what a
	// real member sends, i.e. the signature of the node's last beacon as previous_signature
	last, err := drand.NewPublicClient(e.peerConn).PublicRand(ctx, &drand.PublicRandRequest{Metadata: md})
	if err != nil {
		return
	}
	next := last.Round + 1
	if next > e.w.curRound() {
		return
	}
	sig, err := e.w.R.vfnPartial(1, next, last.Signature)
	if err != nil {
		return
	}
	_, _ = drand.NewProtocolClient(e.peerConn).PartialBeacon(ctx, &drand.PartialBeaconPacket{Round: next, PreviousSignature: last.Signature, PartialSig: sig, Metadata: md})
	e.run.Count("honest_partials", 1)
}

func (e *c14Env) head() uint64 {
	ctx, cancel := context.WithTimeout(context.Background(), 3*time.Second)
	defer cancel()
	st, err := drand.NewProtocolClient(e.tgt.conn).Status(ctx, &drand.StatusRequest{Metadata: &drand.Metadata{BeaconID: common.DefaultBeaconID}})
	if err != nil || st.ChainStore == nil {
		return 0
	}
	return st.ChainStore.LastStored
}

func (e *c14Env) logReq(r *c14Req) {
	e.seq++
	rec := map[string]any{"seq": e.seq, "endpoint": r.Endpoint, "class": r.Class, "state": r.State, "child_gen": e.gen}
	if r.Msg != nil {
		b, _ := proto.Marshal(r.Msg)
		rec["len"] = len(b)
		if len(b) > 512 {
			b = b[:512]
		}
		rec["proto_hex"] = hex.EncodeToString(b)
		rec["type"] = string(r.Msg.ProtoReflect().Descriptor().FullName())
	}
	if r.Path != "" {
		rec["path"] = vfnTrunc(r.Path, 300)
	}
	b, _ := json.Marshal(rec)
	e.reqLog.Write(append(b, '\n'))
	e.recent = append(e.recent, vfnTrunc(string(b), 400))
	if len(e.recent) > 5 {
		e.recent = e.recent[1:]
	}
}

func (e *c14Env) caseInfo(r *c14Req, idx int) map[string]any {
	return map[string]any{"case_index": idx, "endpoint": r.Endpoint, "class": r.Class, "state": r.State, "seq": e.seq,
		"request_log": e.reqLog.Name(), "last_requests": append([]string{}, e.recent...)}
}

// died reports a dead child as a violation of the request that preceded it and restarts.
func (e *c14Env) died(r *c14Req, idx int) bool {
	if !e.child.dead() {
		return false
	}
	tail := e.child.stderrTail(60)
	e.run.Violation(fmt.Sprintf("C14/process-died/%s/%s", r.Endpoint, r.Class),
		fmt.Sprintf("child exited (%v) after %s/%s in state %s; stderr tail:\n%s", e.child.exitErr, r.Endpoint, r.Class, r.State, vfnTrunc(tail, 3000)), e.caseInfo(r, idx))
	if err := e.start(); err != nil {
		e.t.Fatalf("restart after death: %v", err)
	}
	return true
}

// wedged: a call did not return within its bound. Take the child's stacks and decide.
func (e *c14Env) wedged(r *c14Req, idx int, what, handler string) {
	dump := e.child.dump()
	frames, excerpt := c14Parked(dump, handler)
	sig := fmt.Sprintf("C14/wedged/%s/%s", r.Endpoint, r.Class)
	if len(frames) == 0 {
		e.run.Inconclusive(fmt.Sprintf("%s after %s/%s (%s) did not return within its bound, but no parked drand frame under %s in the goroutine dump", what, r.Endpoint, r.Class, r.State, handler))
	} else {
		e.wedges[r.Endpoint+"/"+r.Class]++
		e.run.Violation(sig, fmt.Sprintf("%s did not return within its bound after %s/%s in state %s; parked: %s\n%s", what, r.Endpoint, r.Class, r.State,
			strings.Join(frames, " | "), excerpt), e.caseInfo(r, idx))
	}
	e.run.Count("restarts_after_wedge", 1)
	e.child.kill()
	if err := e.start(); err != nil {
		e.t.Fatalf("restart after wedge: %v", err)
	}
}

// headOf asks the node for the last stored round of a beacon.
func (e *c14Env) headOf(id string) (uint64, bool) {
	ctx, cancel := context.WithTimeout(context.Background(), 5*time.Second)
	defer cancel()
	st, err := drand.NewProtocolClient(e.tgt.conn).Status(ctx, &drand.StatusRequest{Metadata: &drand.Metadata{BeaconID: id}})
	if err != nil || st.ChainStore == nil {
		return 0, false
	}
	return st.ChainStore.LastStored, true
}

// flood: n individually valid partials from ONE member (harness-held share 1) for the rounds head+1..head+4,
// each with a different previous_signature, while the chain is stalled because the harness withholds the
// partial that would complete the round.  On the unchained scheme the previous signature is not signed, so
// one valid partial per round is replayed; on the chained scheme every (round, previous) pair is signed.
// Afterwards: the usual probes, then the harness completes the round and the node must still aggregate.
func (e *c14Env) flood(idx int, c *vfnChain, state string, rng *vfRng) {
	r := &c14Req{Endpoint: "Protocol.PartialBeacon", Class: "valid-partial-flood-one-member", State: state, Handler: "_Protocol_PartialBeacon_Handler"}
	chained := c.Scheme.Name == crypto.DefaultSchemeID
	e.peerPaused.Store(true)
	defer e.peerPaused.Store(false)
	time.Sleep(400 * time.Millisecond) // a partial of the honest peer may be in flight
	head, ok := e.headOf(c.ID)
	if !ok {
		e.run.Inconclusive("flood: no status for " + c.ID)
		return
	}
	// the node accepts partials up to the round after the one of its clock: wait until head+4 is inside
	for i := 0; i < 100 && common.CurrentRound(time.Now().Unix(), c.Group.Period, c.Group.GenesisTime)+1 < head+4; i++ {
		time.Sleep(100 * time.Millisecond)
	}
	if h2, _ := e.headOf(c.ID); h2 != head {
		e.run.Inconclusive(fmt.Sprintf("flood: chain %s moved (%d -> %d) although the harness withholds its partials", c.ID, head, h2))
		return
	}
	n := vfPick(300, 600)
	r.Msg = &drand.PartialBeaconPacket{Round: head + 1, PreviousSignature: []byte(fmt.Sprintf("x%d distinct previous signatures, rounds %d..%d, signer index 1, chained=%v", n, head+1, head+4, chained)),
		Metadata: &drand.Metadata{BeaconID: c.ID}}
	e.logReq(r)
	md := &drand.Metadata{NodeVersion: c14Version(), BeaconID: c.ID}
	prot := drand.NewProtocolClient(e.tgt.conn)
	replay := map[uint64][]byte{}
	accepted := 0
	for i := 0; i < n; i++ {
		round := head + 1 + uint64(i%4)
		prev := rng.Bytes(32 + rng.Intn(65))
		var sig []byte
		var err error
		if chained {
			sig, err = c.vfnPartial(1, round, prev)
		} else if sig = replay[round]; sig == nil {
			sig, err = c.vfnPartial(1, round, nil)
			replay[round] = sig
		}
		if err != nil {
			e.run.Note("flood: signing failed: " + err.Error())
			return
		}
		ctx, cancel := context.WithTimeout(context.Background(), c14Bound)
		_, err = prot.PartialBeacon(ctx, &drand.PartialBeaconPacket{Round: round, PreviousSignature: prev, PartialSig: sig, Metadata: md})
		cancel()
		e.run.Count("requests.Protocol.PartialBeacon", 1)
		e.run.Count("flood_partials_sent", 1)
		if err == nil {
			accepted++
		} else if e.child.dead() {
			break
		}
	}
	e.run.Count("flood_partials_accepted", int64(accepted))
	time.Sleep(300 * time.Millisecond) // the aggregator consumes its queue asynchronously
	if e.died(r, idx) {
		return
	}
	if accepted < n/2 {
		e.run.Inconclusive(fmt.Sprintf("flood on %s: only %d of %d partials were accepted as valid", c.ID, accepted, n))
	}
	for _, name := range []string{"Protocol.PartialBeacon", "Public.PublicRand", "Control.Status", "DKG.Packet", "HTTP"} {
		if !e.probe(r, idx, name) {
			return
		}
	}
	// complete the round the flood was camping on
	stalled := head
	e.peerPaused.Store(false)
	dl := time.Now().Add(60 * time.Second)
	for time.Now().Before(dl) {
		if c.ID != common.DefaultBeaconID {
			// nobody else drives this chain: the harness sends the missing partial itself
			ctx, cancel := context.WithTimeout(context.Background(), 5*time.Second)
			if last, err := drand.NewPublicClient(e.tgt.conn).PublicRand(ctx, &drand.PublicRandRequest{Metadata: md}); err == nil && last.Round == stalled {
				if sig, err := c.vfnPartial(1, stalled+1, last.Signature); err == nil {
					_, _ = prot.PartialBeacon(ctx, &drand.PartialBeaconPacket{Round: stalled + 1, PreviousSignature: last.Signature, PartialSig: sig, Metadata: md})
				}
			}
			cancel()
		}
		if e.died(r, idx) {
			return
		}
		if h, ok := e.headOf(c.ID); ok && h > stalled {
			e.run.Count("rounds_completed_after_flood", 1)
			e.run.Eval(fmt.Sprintf("%s/%s/%s", r.Endpoint, r.Class, state))
			return
		}
		time.Sleep(300 * time.Millisecond)
	}
	e.run.Violation(fmt.Sprintf("C14/service-lost/%s/%s", r.Endpoint, r.Class),
		fmt.Sprintf("after %d valid partials from one member on %s the node answers probes but no longer aggregates: head stays %d although the missing partial was supplied", n, c.ID, stalled),
		e.caseInfo(r, idx))
}

func (e *c14Env) bound(r *c14Req) time.Duration {
	return time.Duration(r.K+1) * c14Bound
}

// send one hostile request; returns false when the child had to be restarted
func (e *c14Env) send(r *c14Req, idx int) bool {
	e.logReq(r)
	e.run.Count("requests."+r.Endpoint, 1)
	b := e.bound(r)
	if r.Idle {
		b = 1500 * time.Millisecond
	}
	ctx, cancel := context.WithTimeout(context.Background(), b)
	t0 := time.Now()
	desc, err := r.Do(ctx, e.tgt)
	cancel()
	el := time.Since(t0)
	if err != nil {
		e.run.Count("answers.error", 1)
		k := c14ErrKind(err)
		e.run.Seen("error_kinds", k)
		if strings.Contains(k, "runtime error") || strings.Contains(k, "panic") || strings.Contains(k, "nil pointer") {
			e.run.Count("contained_panics", 1)
			if !e.panicSeen[r.Endpoint+"/"+r.Class] {
				e.panicSeen[r.Endpoint+"/"+r.Class] = true
				e.run.Note(fmt.Sprintf("contained panic: %s/%s (%s): %s", r.Endpoint, r.Class, r.State, k))
			}
		}
	} else {
		e.run.Count("answers.ok", 1)
	}
	_ = desc
	if e.died(r, idx) {
		return false
	}
	if !r.Idle && el >= b-50*time.Millisecond && err != nil {
		e.wedged(r, idx, "the request itself", r.Handler)
		return false
	}
	return true
}

var c14ErrRe = regexp.MustCompile(`[0-9a-f]{8,}|\d+`)

func c14ErrKind(err error) string {
	return vfnTrunc(c14ErrRe.ReplaceAllString(err.Error(), "#"), 80)
}

func (e *c14Env) probe(r *c14Req, idx int, name string) bool {
	p, ok := e.probes[name]
	if !ok {
		return true
	}
	for attempt := 0; ; attempt++ {
		ctx, cancel := context.WithTimeout(context.Background(), c14Bound)
		t0 := time.Now()
		err := p.Do(ctx, e.tgt)
		cancel()
		e.run.Count("probes", 1)
		if e.died(r, idx) {
			return false
		}
		if err != nil && time.Since(t0) >= c14Bound-50*time.Millisecond {
			e.wedged(r, idx, "probe "+name, p.Handler)
			return false
		}
		if err == nil || !p.MustOK {
			return true
		}
		if attempt == 0 {
			e.honestStep()
			time.Sleep(300 * time.Millisecond)
			continue
		}
		e.run.Violation(fmt.Sprintf("C14/service-lost/%s/%s", r.Endpoint, r.Class),
			fmt.Sprintf("valid probe %s fails after %s/%s in state %s: %v", name, r.Endpoint, r.Class, r.State, err), e.caseInfo(r, idx))
		return true
	}
}

func TestVF_C14(t *testing.T) {
	run := vfNewRun("C14", "daemonnet")
	var cleanups []func()
	completed := false
	defer func() {
		run.Finish()
		vfnRaceExit(completed, cleanups...)
	}()
	c14Body(t, run, &cleanups)
	completed = true // not reached when the body left through t.Fatal (runtime.Goexit)
}

func c14Body(t *testing.T, run *vfRun, cleanupsP *[]func()) {
	seed := vfSeed()
	rng := vfNewRng(vfCaseSeed(seed, "C14", 0))
	dir := t.TempDir()
	if k := os.Getenv("VF_KEEP_DIR"); k != "" {
		dir = k
		_ = os.MkdirAll(dir, 0o755)
	}
	*cleanupsP = append(*cleanupsP, func() {
		if os.Getenv("VF_KEEP_DIR") == "" {
			_ = os.RemoveAll(dir)
		}
	})
	ports := vfnFreePorts()
	now := time.Now().Unix()
	w := &c14World{ports: ports, unknownH: rng.Bytes(32)}
	var err error
	dead1, dead2 := test.FreeBind("127.0.0.1"), test.FreeBind("127.0.0.1")
	if w.R, err = vfnMakeChain(rng, common.DefaultBeaconID, crypto.UnchainedSchemeID, []string{ports.Priv, dead1, dead2}, 2, 1*time.Second, 0, now-3); err != nil {
		t.Fatal(err)
	}
	if w.F, err = vfnMakeChain(rng, c14IDFresh, crypto.DefaultSchemeID, []string{ports.Priv}, 1, 3*time.Second, 0, now); err != nil {
		t.Fatal(err)
	}
	if w.S, err = vfnMakeChain(rng, c14IDHalt, crypto.DefaultSchemeID, []string{ports.Priv}, 1, 1*time.Second, 0, now-4); err != nil {
		t.Fatal(err)
	}
	if w.C, err = vfnMakeChain(rng, c14IDChained, crypto.DefaultSchemeID, []string{ports.Priv, dead1, dead2}, 2, 1*time.Second, 0, now-30); err != nil {
		t.Fatal(err)
	}
	for _, x := range []struct {
		c *vfnChain
		g bool
	}{{w.R, true}, {w.F, false}, {w.S, true}, {w.C, true}} {
		if err := vfnWriteMember(dir, x.c, 0, x.g); err != nil {
			t.Fatal(err)
		}
	}
	cfgPath := filepath.Join(dir, "child.json")
	b, _ := json.Marshal(c14ChildCfg{Dir: dir, Ports: ports})
	if err := os.WriteFile(cfgPath, b, 0o600); err != nil {
		t.Fatal(err)
	}
	logDir := dir
	if o := os.Getenv("VF_OUT"); o != "" {
		logDir = filepath.Dir(o)
	}
	reqLog, err := os.Create(filepath.Join(logDir, fmt.Sprintf("C14_requests_%d.jsonl", os.Getpid())))
	if err != nil {
		t.Fatal(err)
	}
	defer reqLog.Close()
	e := &c14Env{t: t, run: run, w: w, dir: dir, cfgPath: cfgPath, probes: w.probes(), reqLog: reqLog, wedges: map[string]int{}, panicSeen: map[string]bool{}}
	if err := e.start(); err != nil {
		run.Inconclusive("child did not start: " + err.Error())
		return
	}
	defer func() {
		if e.child != nil && !e.child.dead() {
			e.child.command("quit", 5*time.Second)
			select {
			case <-e.child.exited:
			case <-time.After(5 * time.Second):
				e.child.kill()
			}
		}
	}()
	run.Note("request log: " + reqLog.Name())
	// the honest peer keeps the chain moving also while a request of the harness is waiting for a round
	e.peerStop = make(chan struct{})
	go func() {
		tk := time.NewTicker(250 * time.Millisecond)
		defer tk.Stop()
		for {
			select {
			case <-e.peerStop:
				return
			case <-tk.C:
				e.honestStep()
			}
		}
	}()
	defer close(e.peerStop)
	replay, doReplay := vfReplayCase()

	states := []string{"running", "fresh", "stopped"}
	idx := 0
	otherI := 0
	headStart := e.head()
	runList := func(list []c14Req, phase string) {
		for i := range list {
			r := &list[i]
			idx++
			if doReplay && idx != replay {
				continue
			}
			if e.wedges[r.Endpoint+"/"+r.Class] >= 2 {
				run.Count("skipped_after_two_wedges", 1)
				continue
			}
			e.honestStep()
			if !e.send(r, idx) {
				continue
			}
			same := r.Endpoint
			if !e.probe(r, idx, same) {
				continue
			}
			other := c14OtherProbes[otherI%len(c14OtherProbes)]
			otherI++
			if other == same {
				other = c14OtherProbes[otherI%len(c14OtherProbes)]
				otherI++
			}
			if !e.probe(r, idx, other) {
				continue
			}
			run.Eval(fmt.Sprintf("%s/%s/%s", r.Endpoint, r.Class, r.State))
			run.Seen("endpoints", r.Endpoint)
			run.Seen("classes", r.Endpoint+"/"+r.Class)
			if idx%97 == 0 {
				run.Sample(map[string]any{"case_index": idx, "endpoint": r.Endpoint, "class": r.Class, "state": r.State, "phase": phase})
			}
		}
	}
	for _, st := range states {
		runList(w.corpus(st, rng, true), "single")
		// every service once after each state's batch
		last := &c14Req{Endpoint: "batch", Class: "all-probes", State: st}
		for name := range e.probes {
			e.probe(last, idx, name)
		}
	}
	// sequences of 1-5 requests drawn from the reduced corpus, probes after the sequence
	nseq := vfPick(250, 1500)
	var pool []c14Req
	for _, st := range states {
		pool = append(pool, w.corpus(st, rng, false)...)
	}
	for s := 0; s < nseq; s++ {
		idx++
		if doReplay && idx != replay {
			continue
		}
		n := 1 + rng.Intn(5)
		okSeq := true
		var last *c14Req
		var names []string
		for k := 0; k < n && okSeq; k++ {
			r := pool[rng.Intn(len(pool))]
			if r.K > 1 || e.wedges[r.Endpoint+"/"+r.Class] >= 1 {
				continue
			}
			last = &r
			names = append(names, r.Endpoint+"/"+r.Class+"/"+r.State)
			okSeq = e.send(&r, idx)
		}
		if last == nil || !okSeq {
			continue
		}
		if !e.probe(last, idx, last.Endpoint) || !e.probe(last, idx, c14OtherProbes[s%len(c14OtherProbes)]) {
			continue
		}
		run.Eval("seq/" + strings.Join(names, ">"))
		run.Count("sequences", 1)
		if s%16 == 0 {
			e.honestStep()
		}
	}
	// a flood of valid partials from one member, on the running unchained chain and on a stalled chained chain
	for _, f := range []struct {
		c  *vfnChain
		st string
	}{{w.R, "running"}, {w.C, "stalled-chained"}} {
		idx++
		if doReplay && idx != replay {
			continue
		}
		e.flood(idx, f.c, f.st, rng)
	}
	// production still moves (reported, not judged by wall-clock)
	for i := 0; i < 40 && e.head() <= headStart+1; i++ {
		e.honestStep()
		time.Sleep(250 * time.Millisecond)
	}
	if h := e.head(); h <= headStart {
		run.Inconclusive(fmt.Sprintf("chain R did not advance during the run (head %d -> %d)", headStart, h))
	} else {
		run.Count("rounds_produced_during_run", int64(h-headStart))
	}
	// the child must still be alive and quit cleanly
	if e.child.dead() {
		run.Violation("C14/process-died/at-end/none", "child not running at the end: "+e.child.stderrTail(40), map[string]any{"case_index": idx})
	}
}
