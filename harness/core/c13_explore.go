package core

import (
	"fmt"
	"os"
	"sync"
	"testing"
	"time"

	"github.com/drand/drand/v2/common"
	dlog "github.com/drand/drand/v2/common/log"
	"github.com/drand/drand/v2/crypto"
	"github.com/drand/drand/v2/internal/chain"
	"github.com/drand/drand/v2/internal/vfhook"
)

func TestVFX_C13Explore(t *testing.T) {
	if os.Getenv("VF_C13_EXPLORE") == "" {
		t.Skip()
	}
	sch, _ := crypto.GetSchemeByID(crypto.DefaultSchemeID)
	lf, _ := os.Create("/tmp/core2-explore.log")
	lg := dlog.New(lf, dlog.InfoLevel, true)
	nt := c13NewNet(t, lg, t.TempDir(), sch, time.Second, 0, chain.BoltDB)
	defer nt.close()
	t0 := time.Now()
	var mu sync.Mutex
	cnt := map[string]int{}
	vfhook.SetPoint(func(name string, args ...any) {
		mu.Lock()
		cnt[name]++
		mu.Unlock()
		a0 := ""
		if len(args) > 0 {
			a0 = fmt.Sprint(args[0])
			if len(a0) > 90 {
				a0 = a0[len(a0)-90:]
			}
		}
		fmt.Printf("%6.2f POINT %s %s\n", time.Since(t0).Seconds(), name, a0)
	})
	defer vfhook.SetPoint(nil)
	nt.onPut = func(n *c13Node, after bool, b *common.Beacon, err error) {
		if after && n != nil && n.idx == 1 {
			fmt.Printf("%6.2f PUT node1 round %d err=%v\n", time.Since(t0).Seconds(), b.Round, err)
		}
	}
	ns, err := nt.addNodes(4)
	if err != nil {
		t.Fatal(err)
	}
	nt.startPacer()
	g, err := nt.runInitialDKG(ns, 3, 4*time.Second)
	if err != nil {
		t.Fatal(err)
	}
	fmt.Printf("%6.2f DKG done genesis in %v\n", time.Since(t0).Seconds(), time.Until(time.Unix(g.GenesisTime, 0)))
	w, ok := nt.waitHeads(ns, 5, 20)
	fmt.Printf("%6.2f heads>=5 ok=%v waited=%d\n", time.Since(t0).Seconds(), ok, w)
	g2, err := nt.runReshare(c13Reshare{leader: ns[0], remaining: ns, thr: 3})
	if err != nil {
		t.Fatal(err)
	}
	tr := common.CurrentRound(g2.TransitionTime, g2.Period, g2.GenesisTime)
	fmt.Printf("%6.2f reshare1 done transition round %d clock round %d\n", time.Since(t0).Seconds(), tr, nt.clockRound())
	w, ok = nt.waitHeads(ns, tr+4, 30)
	fmt.Printf("%6.2f heads>=%d ok=%v waited=%d\n", time.Since(t0).Seconds(), tr+4, ok, w)
	// victim = node 1 leaves
	rem := []*c13Node{ns[0], ns[2], ns[3]}
	g3, err := nt.runReshare(c13Reshare{leader: ns[0], remaining: rem, leaving: []*c13Node{ns[1]}, thr: 2})
	if err != nil {
		t.Fatal(err)
	}
	tr = common.CurrentRound(g3.TransitionTime, g3.Period, g3.GenesisTime)
	fmt.Printf("%6.2f reshare2 done transition round %d clock round %d\n", time.Since(t0).Seconds(), tr, nt.clockRound())
	st, _ := nt.dkgStatus(ns[1])
	fmt.Printf("leaver dkg status: current %v@%d complete %v\n", st.Current.State, st.Current.Epoch, st.Complete.Epoch)
	w, ok = nt.waitHeads(rem, tr+4, 30)
	fmt.Printf("%6.2f heads>=%d ok=%v waited=%d\n", time.Since(t0).Seconds(), tr+4, ok, w)
	h, has := nt.head(ns[1])
	fmt.Printf("leaver head %d %v\n", h, has)
	st, _ = nt.dkgStatus(ns[1])
	fmt.Printf("leaver dkg status: current %v@%d complete %v\n", st.Current.State, st.Current.Epoch, st.Complete.Epoch)
	mu.Lock()
	fmt.Println(cnt)
	mu.Unlock()
}
