package core

// C15, "refused load" family: a key folder that the node must refuse (or at least must not leak from)
// is loaded through the production paths —
//   start:   NewDrandDaemon + LoadBeaconsFromDisk, as `drand start` does (the returned error is what the
//            command prints),
//   control: LoadBeacon through the control API of a running daemon (error string over gRPC), followed by
//            status / public-key / group / chain-info / identity requests naming that beacon,
//   selfsign: key.SelfSignAll, as `drand util self-sign` does —
// and everything that comes out (returned errors, gRPC error strings and responses seen by the client
// interceptors, the daemons' debug log sinks, stdout, stderr) goes to the same scanner as the rest of
// C15.  The secrets searched are the scalars of the ORIGINAL, uncorrupted files.

import (
	"context"
	"encoding/hex"
	"fmt"
	"os"
	"path/filepath"
	"regexp"
	"strings"
	"time"

	"github.com/drand/drand/v2/common"
	"github.com/drand/drand/v2/common/key"
	dlog "github.com/drand/drand/v2/common/log"
	"github.com/drand/drand/v2/crypto"
	pdkg "github.com/drand/drand/v2/protobuf/dkg"
	"github.com/drand/drand/v2/protobuf/drand"
	"github.com/drand/kyber/util/random"
)

type c15Paths struct{ priv, pub, group, share string }

func c15KeyPaths(cfgFolder, id string) c15Paths {
	b := filepath.Join(cfgFolder, common.MultiBeaconFolder, id)
	return c15Paths{
		priv:  filepath.Join(b, key.FolderName, "drand_id.private"),
		pub:   filepath.Join(b, key.FolderName, "drand_id.public"),
		group: filepath.Join(b, key.GroupFolderName, "drand_group.toml"),
		share: filepath.Join(b, key.GroupFolderName, "dist_key.private"),
	}
}

// c15EditField rewrites the first `Field = "value"` of a TOML file.
func c15EditField(p, field string, f func(string) string) error {
	b, err := os.ReadFile(p)
	if err != nil {
		return err
	}
	re := regexp.MustCompile(`(?m)^(\s*` + field + `\s*=\s*")([^"]*)(")`)
	loc := re.FindSubmatchIndex(b)
	if loc == nil {
		return fmt.Errorf("field %s not found in %s", field, p)
	}
	out := append([]byte{}, b[:loc[4]]...)
	out = append(out, []byte(f(string(b[loc[4]:loc[5]])))...)
	out = append(out, b[loc[5]:]...)
	st, _ := os.Stat(p)
	return os.WriteFile(p, out, st.Mode().Perm())
}

func c15FlipHex(rng *vfRng) func(string) string {
	return func(s string) string {
		if len(s) == 0 {
			return "00"
		}
		i := rng.Intn(len(s))
		c := byte('0')
		if s[i] == '0' {
			c = 'f'
		}
		return s[:i] + string(c) + s[i+1:]
	}
}

func c15OtherScheme(sch *crypto.Scheme, sameKeyGroup bool) string {
	for _, n := range []string{crypto.DefaultSchemeID, crypto.UnchainedSchemeID, crypto.SigsOnG1ID, crypto.ShortSigSchemeID, crypto.BN254UnchainedOnG1SchemeID} {
		if n == sch.Name {
			continue
		}
		o, err := crypto.SchemeFromName(n)
		if err != nil {
			continue
		}
		if (o.KeyGroup.String() == sch.KeyGroup.String()) == sameKeyGroup {
			return n
		}
	}
	return crypto.UnchainedSchemeID
}

type c15BadKind struct {
	name  string
	apply func(rng *vfRng, p c15Paths, c, other *vfnChain, canaryHex string) error
}

func c15BadKinds() []c15BadKind {
	set := func(v string) func(string) string { return func(string) string { return v } }
	return []c15BadKind{
		{"public-signature-corrupted", func(rng *vfRng, p c15Paths, c, o *vfnChain, _ string) error {
			return c15EditField(p.pub, "Signature", c15FlipHex(rng))
		}},
		{"public-signature-absent", func(rng *vfRng, p c15Paths, c, o *vfnChain, _ string) error {
			return c15EditField(p.pub, "Signature", set(""))
		}},
		{"public-signature-of-other-key", func(rng *vfRng, p c15Paths, c, o *vfnChain, _ string) error {
			return c15EditField(p.pub, "Signature", set(hex.EncodeToString(o.Pairs[0].Public.Signature)))
		}},
		{"public-identity-replaced", func(rng *vfRng, p c15Paths, c, o *vfnChain, _ string) error {
			return key.Save(p.pub, o.Pairs[0].Public, false)
		}},
		{"scheme-changed-public", func(rng *vfRng, p c15Paths, c, o *vfnChain, _ string) error {
			return c15EditField(p.pub, "SchemeName", set(c15OtherScheme(c.Scheme, rng.Bool())))
		}},
		{"scheme-changed-private", func(rng *vfRng, p c15Paths, c, o *vfnChain, _ string) error {
			return c15EditField(p.priv, "SchemeName", set(c15OtherScheme(c.Scheme, rng.Bool())))
		}},
		{"scheme-changed-both", func(rng *vfRng, p c15Paths, c, o *vfnChain, _ string) error {
			n := c15OtherScheme(c.Scheme, true)
			if err := c15EditField(p.pub, "SchemeName", set(n)); err != nil {
				return err
			}
			return c15EditField(p.priv, "SchemeName", set(n))
		}},
		{"group-without-this-node", func(rng *vfRng, p c15Paths, c, o *vfnChain, _ string) error {
			return key.Save(p.group, o.Group, false)
		}},
		{"share-value-corrupted", func(rng *vfRng, p c15Paths, c, o *vfnChain, _ string) error {
			return c15EditField(p.share, "Share", func(s string) string {
				switch rng.Intn(3) {
				case 0:
					return s[:len(s)-1-rng.Intn(len(s)/2)] // odd / short hex
				case 1:
					return "zz" + s[2:] // not hex
				}
				return s + "00" // too long for the scalar
			})
		}},
		{"share-commit-corrupted", func(rng *vfRng, p c15Paths, c, o *vfnChain, _ string) error {
			b, err := os.ReadFile(p.share)
			if err != nil {
				return err
			}
			re := regexp.MustCompile(`(?s)(Commits\s*=\s*\[\s*")([0-9a-f]+)(")`)
			loc := re.FindSubmatchIndex(b)
			if loc == nil {
				return fmt.Errorf("no Commits in %s", p.share)
			}
			s := c15FlipHex(rng)(string(b[loc[4]:loc[5]]))
			out := append(append(append([]byte{}, b[:loc[4]]...), s...), b[loc[5]:]...)
			return os.WriteFile(p.share, out, 0o600)
		}},
		{"private-key-truncated", func(rng *vfRng, p c15Paths, c, o *vfnChain, _ string) error {
			b, err := os.ReadFile(p.priv)
			if err != nil {
				return err
			}
			i := strings.Index(string(b), `Key = "`)
			if i < 0 {
				return fmt.Errorf("no Key in %s", p.priv)
			}
			cut := i + len(`Key = "`) + 8 + rng.Intn(48) // inside the hex of the scalar
			return os.WriteFile(p.priv, b[:cut], 0o600)
		}},
		{"private-key-value-corrupted", func(rng *vfRng, p c15Paths, c, o *vfnChain, _ string) error {
			return c15EditField(p.priv, "Key", func(s string) string { return s[:len(s)-3] + "zzz" })
		}},
		// canary: the group file's scheme name is echoed by the refusal; it carries the planted secret
		{"canary-in-group-scheme", func(rng *vfRng, p c15Paths, c, o *vfnChain, canaryHex string) error {
			return c15EditField(p.group, "SchemeID", set(canaryHex))
		}},
	}
}

func c15RefusedLoads(run *vfRun, sc *c15Scanner, schemeName string, caseIdx int, root string) {
	sch, err := crypto.SchemeFromName(schemeName)
	if err != nil {
		return
	}
	base := filepath.Join(root, "refused")
	_ = os.MkdirAll(base, 0o755)
	// stderr of the process for the duration of the family
	errPath := filepath.Join(base, "stderr.log")
	ef, err := os.Create(errPath)
	if err != nil {
		return
	}
	realErr := os.Stderr
	os.Stderr = ef
	defer func() {
		os.Stderr = realErr
		ef.Close()
		if b, err := os.ReadFile(errPath); err == nil {
			sc.setPhase("refused:whole-family")
			sc.add("stderr", "process-stderr", b)
		}
	}()
	canary := sch.KeyGroup.Scalar().Pick(random.New(vfNewRng(vfCaseSeed(vfSeed(), "C15-refused-canary", caseIdx))))
	craw, _ := canary.MarshalBinary()
	sc.addRaw("canary/refused-load", "canary", craw, true)
	chex := hex.EncodeToString(craw)
	fmt.Fprintf(os.Stderr, "vf canary %s\n", chex)

	ctx := context.Background()
	genesis := time.Now().Add(2 * time.Hour).Unix() // a folder that does load must not start producing
	kinds := c15BadKinds()

	// the running daemon of the control path (starts with no beacon)
	ctlDir := filepath.Join(base, "ctl")
	_ = os.MkdirAll(ctlDir, 0o755)
	ctlPorts := vfnFreePorts()
	ctlLogPath := filepath.Join(base, "ctl.log")
	ctlLog, ctlSink, err := vfnFileLogger(ctlLogPath, dlog.DebugLevel)
	if err != nil {
		return
	}
	ctlDD, err := vfnNewDaemon(ctx, ctlDir, ctlPorts, ctlLog)
	if err != nil {
		run.Inconclusive("refused loads: control daemon did not start: " + err.Error())
		return
	}
	_ = ctlDD.LoadBeaconsFromDisk(ctx, "", true, "")
	defer func() {
		sctx, cancel := context.WithTimeout(ctx, 8*time.Second)
		ctlDD.Stop(sctx)
		cancel()
		ctlSink.f.Close()
		if b, err := os.ReadFile(ctlLogPath); err == nil {
			sc.setPhase("refused:control:all-kinds")
			sc.add("log", "refused-control-daemon-debug-log", b)
		}
	}()
	cc, err := vfnDial("127.0.0.1:"+ctlPorts.Ctrl, sc.dialOpts("ctl>")...)
	if err != nil {
		return
	}
	defer cc.Close()
	pc, err := vfnDial(ctlPorts.Priv, sc.dialOpts("harness>")...)
	if err != nil {
		return
	}
	defer pc.Close()

	for ki, k := range kinds {
		var outcomes []string
		for pi, path := range []string{"start", "control", "selfsign"} {
			if pi == 0 {
				defer func(name string, o *[]string) { run.Note("refused load " + name + ": " + strings.Join(*o, " ")) }(k.name, &outcomes)
			}
			rng := vfNewRng(vfCaseSeed(vfSeed(), "C15-refused/"+k.name+"/"+path, caseIdx))
			id := fmt.Sprintf("vfbad%02d", ki)
			phase := "refused:" + path + ":" + k.name
			sc.setPhase(phase)
			dir, ports := ctlDir, ctlPorts
			if path != "control" {
				dir = filepath.Join(base, fmt.Sprintf("%s-%02d", path, ki))
				_ = os.MkdirAll(dir, 0o755)
				ports = vfnFreePorts()
			}
			c, err1 := vfnMakeChain(rng, id, schemeName, []string{ports.Priv}, 1, time.Second, 0, genesis)
			other, err2 := vfnMakeChain(rng, id, schemeName, []string{"127.0.0.1:9"}, 1, time.Second, 0, genesis)
			if err1 != nil || err2 != nil {
				continue
			}
			if !strings.HasPrefix(k.name, "canary") {
				sc.addScalar(fmt.Sprintf("refused/%s/%s/long-term-key", k.name, path), "key", c.Pairs[0].Key)
				sc.addScalar(fmt.Sprintf("refused/%s/%s/share", k.name, path), "share", c.Shares[0].PrivateShare().V)
			}
			if err := vfnWriteMember(dir, c, 0, true); err != nil {
				run.Note("refused loads: writing the folder failed: " + err.Error())
				continue
			}
			if err := k.apply(rng, c15KeyPaths(dir, id), c, other, chex); err != nil {
				run.Note("refused loads: " + k.name + ": " + err.Error())
				continue
			}
			run.Count("refused_loads", 1)
			outcome := "loaded"
			switch path {
			case "start":
				lp := filepath.Join(base, fmt.Sprintf("start-%02d.log", ki))
				lg, sink, err := vfnFileLogger(lp, dlog.DebugLevel)
				if err != nil {
					continue
				}
				dd, err := vfnNewDaemon(ctx, dir, ports, lg)
				if err != nil {
					sc.add("load-err", "NewDrandDaemon", []byte(err.Error()))
					outcome = "refused"
				} else {
					if err := dd.LoadBeaconsFromDisk(ctx, "", false, ""); err != nil {
						// what `drand start` prints
						sc.add("load-err", "LoadBeaconsFromDisk", []byte(fmt.Errorf("couldn't load existing beacons: %w", err).Error()))
						outcome = "refused"
					}
					sctx, cancel := context.WithTimeout(ctx, 8*time.Second)
					dd.Stop(sctx)
					cancel()
				}
				sink.f.Close()
				if b, err := os.ReadFile(lp); err == nil {
					sc.add("log", "refused-start-daemon-debug-log", b)
				}
			case "control":
				rctx, cancel := context.WithTimeout(ctx, 30*time.Second)
				md := &drand.Metadata{NodeVersion: c14Version(), BeaconID: id}
				ctl := drand.NewControlClient(cc)
				if _, err := ctl.LoadBeacon(rctx, &drand.LoadBeaconRequest{Metadata: md}); err != nil {
					outcome = "refused"
				}
				// whatever state the refused load left behind is asked about
				_, _ = ctl.Status(rctx, &drand.StatusRequest{Metadata: md})
				_, _ = ctl.PublicKey(rctx, &drand.PublicKeyRequest{Metadata: md})
				_, _ = ctl.GroupFile(rctx, &drand.GroupRequest{Metadata: md})
				_, _ = ctl.ChainInfo(rctx, &drand.ChainInfoRequest{Metadata: md})
				_, _ = pdkg.NewDKGControlClient(cc).DKGStatus(rctx, &pdkg.DKGStatusRequest{BeaconID: id})
				_, _ = drand.NewProtocolClient(pc).GetIdentity(rctx, &drand.IdentityRequest{Metadata: md})
				_, _ = drand.NewProtocolClient(pc).Status(rctx, &drand.StatusRequest{Metadata: md})
				_, _ = drand.NewPublicClient(pc).ChainInfo(rctx, &drand.ChainInfoRequest{Metadata: md})
				_, _ = drand.NewPublicClient(pc).PublicRand(rctx, &drand.PublicRandRequest{Metadata: md})
				// a second attempt (the first may have left a half-registered process behind), then removal
				if _, err := ctl.LoadBeacon(rctx, &drand.LoadBeaconRequest{Metadata: md}); err == nil && outcome == "refused" {
					outcome = "loaded-on-retry"
				}
				_, _ = ctl.Shutdown(rctx, &drand.ShutdownRequest{Metadata: md})
				cancel()
			case "selfsign":
				lp := filepath.Join(base, fmt.Sprintf("selfsign-%02d.log", ki))
				lg, sink, err := vfnFileLogger(lp, dlog.DebugLevel)
				if err != nil {
					continue
				}
				if err := key.SelfSignAll(lg, filepath.Join(dir, common.MultiBeaconFolder)); err != nil {
					sc.add("load-err", "SelfSignAll", []byte(err.Error()))
					outcome = "refused"
				}
				sink.f.Close()
				if b, err := os.ReadFile(lp); err == nil {
					sc.add("log", "refused-selfsign-debug-log", b)
				}
			}
			outcomes = append(outcomes, path+"="+outcome)
			run.Count("refused_loads."+outcome, 1)
			run.Seen("refused_outcomes", k.name+"/"+path+"/"+outcome)
		}
	}
}
